package main

import (
	"encoding/json"
	"fmt"
	"go/token"
	"go/types"
	"os"
	"path/filepath"
	"sort"
	"strings"

	"golang.org/x/tools/go/callgraph"
	"golang.org/x/tools/go/callgraph/cha"
	"golang.org/x/tools/go/callgraph/vta"
	"golang.org/x/tools/go/packages"
	"golang.org/x/tools/go/ssa"
	"golang.org/x/tools/go/ssa/ssautil"
)

const modPath = "github.com/in-toto/in-toto-golang"
const sslPath = "github.com/secure-systems-lab/go-securesystemslib"

// Obligation is one rule instance, keyed by rule|function|construct (never by line).
type Obligation struct {
	Rule       string `json:"rule"`
	Key        string `json:"key"`
	Func       string `json:"function"`
	Construct  string `json:"construct"`
	Pos        string `json:"pos"`
	Status     string `json:"status"` // discharged | violated | undecided
	Detail     string `json:"detail"`
	Nontrivial bool   `json:"nontrivial"`
}

// Prog is the loaded, type-checked program in SSA form.
type Prog struct {
	RepoDir   string
	GOOS      string
	Fset      *token.FileSet
	Pkgs      []*packages.Package
	SSA       *ssa.Program
	SSAPkgs   map[string]*ssa.Package // by import path
	AllFuncs  map[*ssa.Function]bool
	CG        *callgraph.Graph // VTA
	flagDepth int
	CHA       *callgraph.Graph
	NFiles    map[string]int
	factMemo  map[*ssa.Function]*factSet
	byName    map[string]*ssa.Function
}

// Ctx collects the obligations of one property run.
type Ctx struct {
	*Prog
	Property string
	Tier     string
	Obls     []Obligation
	seen     map[string]int
	Notes    []string
}

func (c *Ctx) add(rule, fn, construct string, pos token.Pos, status, detail string, nontrivial bool) {
	key := rule + " | " + fn + " | " + construct
	if c.seen == nil {
		c.seen = map[string]int{}
	}
	c.seen[key]++
	if n := c.seen[key]; n > 1 {
		key = fmt.Sprintf("%s #%d", key, n)
	}
	c.Obls = append(c.Obls, Obligation{Rule: rule, Key: key, Func: fn, Construct: construct,
		Pos: c.pos(pos), Status: status, Detail: detail, Nontrivial: nontrivial})
}

func (c *Ctx) ok(rule, fn, construct string, pos token.Pos, detail string) {
	c.add(rule, fn, construct, pos, "discharged", detail, true)
}
func (c *Ctx) trivial(rule, fn, construct string, pos token.Pos, detail string) {
	c.add(rule, fn, construct, pos, "discharged", detail, false)
}
func (c *Ctx) bad(rule, fn, construct string, pos token.Pos, detail string) {
	c.add(rule, fn, construct, pos, "violated", detail, true)
}
func (c *Ctx) undecided(rule, fn, construct string, pos token.Pos, detail string) {
	c.add(rule, fn, construct, pos, "undecided", "UNDECIDED: "+detail, true)
}

// check records discharged/violated depending on cond.
func (c *Ctx) check(cond bool, rule, fn, construct string, pos token.Pos, okDetail, badDetail string) bool {
	if cond {
		c.ok(rule, fn, construct, pos, okDetail)
	} else {
		c.bad(rule, fn, construct, pos, badDetail)
	}
	return cond
}

func (p *Prog) pos(pos token.Pos) string {
	if !pos.IsValid() {
		return "-"
	}
	ps := p.Fset.Position(pos)
	f := ps.Filename
	if rel, err := filepath.Rel(p.RepoDir, f); err == nil && !strings.HasPrefix(rel, "..") {
		f = rel
	} else if i := strings.Index(f, "/pkg/mod/"); i >= 0 {
		f = f[i+len("/pkg/mod/"):]
	}
	return fmt.Sprintf("%s:%d", f, ps.Line)
}

func loadProg(repo, goos string) (*Prog, error) {
	env := []string{}
	for _, e := range os.Environ() {
		if strings.HasPrefix(e, "GOWORK=") || strings.HasPrefix(e, "GOFLAGS=") || strings.HasPrefix(e, "GOOS=") ||
			strings.HasPrefix(e, "GOARCH=") || strings.HasPrefix(e, "GOPROXY=") || strings.HasPrefix(e, "GOSUMDB=") ||
			strings.HasPrefix(e, "GOTOOLCHAIN=") || strings.HasPrefix(e, "CGO_ENABLED=") {
			continue
		}
		env = append(env, e)
	}
	env = append(env, "GOWORK=off", "GOFLAGS=-mod=mod", "GOPROXY=off", "GOSUMDB=off", "GOTOOLCHAIN=local",
		"GOOS="+goos, "GOARCH=amd64", "CGO_ENABLED=0")
	cfg := &packages.Config{
		Mode:  packages.LoadAllSyntax,
		Dir:   repo,
		Env:   env,
		Tests: false,
	}
	pkgs, err := packages.Load(cfg, "./...")
	if err != nil {
		return nil, err
	}
	if len(pkgs) == 0 {
		return nil, fmt.Errorf("no packages loaded from %s", repo)
	}
	nerr := 0
	packages.Visit(pkgs, nil, func(p *packages.Package) {
		for _, e := range p.Errors {
			if strings.HasPrefix(p.PkgPath, modPath) || strings.HasPrefix(p.PkgPath, sslPath) {
				fmt.Fprintf(os.Stderr, "load error in %s: %v\n", p.PkgPath, e)
				nerr++
			}
		}
	})
	if nerr > 0 {
		return nil, fmt.Errorf("%d type/load errors in analysed packages", nerr)
	}
	prog, _ := ssautil.AllPackages(pkgs, ssa.InstantiateGenerics)
	prog.Build()
	p := &Prog{RepoDir: repo, GOOS: goos, Fset: pkgs[0].Fset, Pkgs: pkgs, SSA: prog,
		SSAPkgs: map[string]*ssa.Package{}, NFiles: map[string]int{}, factMemo: map[*ssa.Function]*factSet{}}
	for _, sp := range prog.AllPackages() {
		p.SSAPkgs[sp.Pkg.Path()] = sp
	}
	for _, pk := range pkgs {
		p.NFiles[pk.PkgPath] = len(pk.Syntax)
	}
	p.AllFuncs = ssautil.AllFunctions(prog)
	p.CHA = cha.CallGraph(prog)
	p.CG = vta.CallGraph(p.AllFuncs, p.CHA)
	if len(pkgs) < 9 {
		return nil, fmt.Errorf("expected >= 9 packages under ./..., loaded %d", len(pkgs))
	}
	if p.NFiles[modPath+"/in_toto"] < 12 {
		return nil, fmt.Errorf("expected >= 12 non-test files in in_toto, loaded %d", p.NFiles[modPath+"/in_toto"])
	}
	curProg = p
	transparentMemo = map[*ssa.Function][]ssa.Value{}
	mapEqMemo = map[*ssa.Function]bool{}
	alwaysErrMemo = map[*ssa.Function]int{}
	return p, nil
}

// pkg returns the SSA package by short name ("in_toto", "cmd", "internal/spiffe", "main").
func (p *Prog) pkg(short string) *ssa.Package {
	path := modPath + "/" + short
	if short == "main" {
		path = modPath
	}
	if strings.Contains(short, ".") {
		path = short
	}
	return p.SSAPkgs[path]
}

// fn finds a package-level function.
func (p *Prog) fn(pkg, name string) *ssa.Function {
	sp := p.pkg(pkg)
	if sp == nil {
		return nil
	}
	return sp.Func(name)
}

// method finds a method on the named type (value or pointer receiver).
func (p *Prog) method(pkg, typ, name string) *ssa.Function {
	sp := p.pkg(pkg)
	if sp == nil {
		return nil
	}
	t := sp.Type(typ)
	if t == nil {
		return nil
	}
	nt := t.Type()
	for _, T := range []types.Type{nt, types.NewPointer(nt)} {
		ms := p.SSA.MethodSets.MethodSet(T)
		for i := 0; i < ms.Len(); i++ {
			if ms.At(i).Obj().Name() == name {
				f := p.SSA.MethodValue(ms.At(i))
				if f != nil && f.Synthetic == "" {
					return f
				}
				// wrapper for promoted/pointer method: find declared one
				if fo, ok := ms.At(i).Obj().(*types.Func); ok {
					if df := p.SSA.FuncValue(fo); df != nil {
						return df
					}
				}
			}
		}
	}
	return nil
}

// shortName renders a function name without the module path.
func shortName(s string) string {
	s = strings.ReplaceAll(s, modPath+"/", "")
	s = strings.ReplaceAll(s, sslPath+"/", "ssl/")
	s = strings.ReplaceAll(s, modPath, "main")
	return s
}

func fname(f *ssa.Function) string {
	if f == nil {
		return "<nil>"
	}
	return shortName(f.String())
}

// srcFuncs returns all source-level functions (incl. methods and anonymous functions) of a package.
func (p *Prog) srcFuncs(pkg string) []*ssa.Function {
	sp := p.pkg(pkg)
	var out []*ssa.Function
	if sp == nil {
		return out
	}
	for f := range p.AllFuncs {
		if f.Synthetic != "" && !strings.HasPrefix(f.Name(), "init") {
			continue
		}
		if f.Synthetic != "" {
			continue
		}
		pk := f.Pkg
		if pk == nil && f.Parent() != nil {
			pk = f.Parent().Pkg
		}
		if f.Origin() != nil {
			continue
		}
		if pk == sp && f.Blocks != nil {
			out = append(out, f)
		}
	}
	sort.Slice(out, func(i, j int) bool { return out[i].String() < out[j].String() })
	return out
}

// reachable computes the set of functions reachable from roots in the given call graph.
func reachable(cg *callgraph.Graph, roots ...*ssa.Function) map[*ssa.Function]bool {
	seen := map[*ssa.Function]bool{}
	var stack []*ssa.Function
	for _, r := range roots {
		if r != nil && !seen[r] {
			seen[r] = true
			stack = append(stack, r)
		}
	}
	for len(stack) > 0 {
		f := stack[len(stack)-1]
		stack = stack[:len(stack)-1]
		n := cg.Nodes[f]
		if n == nil {
			continue
		}
		for _, e := range n.Out {
			g := e.Callee.Func
			if !seen[g] {
				seen[g] = true
				stack = append(stack, g)
			}
		}
		// anonymous functions created by f are considered reachable (closures passed around)
		for _, a := range f.AnonFuncs {
			if !seen[a] {
				seen[a] = true
				stack = append(stack, a)
			}
		}
	}
	return seen
}

// ---------------------------------------------------------------------------
// known findings

type KnownFinding struct {
	Property string `json:"property"`
	Key      string `json:"key"`
	What     string `json:"what"`
}
type FixedFinding struct {
	Property string `json:"property"`
	Commit   string `json:"commit"`
	What     string `json:"what"`
}
type KnownFile struct {
	Known []KnownFinding `json:"known"`
	Fixed []FixedFinding `json:"fixed"`
}

func loadKnown(path string) (*KnownFile, error) {
	kf := &KnownFile{}
	b, err := os.ReadFile(path)
	if err != nil {
		if os.IsNotExist(err) {
			return kf, nil
		}
		return nil, err
	}
	if err := json.Unmarshal(b, kf); err != nil {
		return nil, err
	}
	return kf, nil
}
