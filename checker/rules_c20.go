package main

import (
	"fmt"
	"go/types"
	"regexp"
	"sort"
	"strings"

	"golang.org/x/tools/go/ssa"
)

func init() {
	register(&Property{ID: "C20",
		Explanation: "Decides structural clauses of 'the command-line tools faithfully expose library verification': (R-C20-1) every command in scope is attached to the root command, uses RunE, returns every library error (A1), Execute maps a non-nil error to os.Exit(non-zero), main calls Execute, and match-products exits non-zero iff one of the three result lists is non-empty; (R-C20-2) flag wiring: every registered flag variable is read, the flag-name -> variable table equals the documented one, required flags are marked, and each handler passes the variables to the library parameters of the corresponding meaning; (R-C20-3) link files are named with LinkNameFormat from the link's name and the signing key's id, the preliminary link uses the same format and arguments in start and stop, and LinkNameFormat / LinkGlobFormat / the loader's trimming agree on <name>.<8 chars>.link; (R-C20-4) the signing key is the loaded one: handlers that read the key run after getKeyCert (PreRunE / PersistentPreRunE of the command or its parent) or load it themselves, and getKeyCert propagates load errors and attaches the certificate; (R-C20-5) sign: --verify returns VerifySignature's verdict and writes nothing, otherwise Sign then Dump to output (default: the input path); (R-C20-6) verify calls the library entry point with the loaded layout, the keys keyed by their ids, the link directory, the intermediates and an empty parameter dictionary, and its error alone decides the result.",
		NotDecided:  []string{"that honest chains verify end to end (behavioural)", "the text of outputs", "cobra's own flag parsing"},
		Rules: []Rule{
			{ID: "R-C20-1", Doc: "errors reach the exit status", Min: 12, Run: ruleC20_1},
			{ID: "R-C20-2", Doc: "flag wiring", Min: 30, Run: ruleC20_2},
			{ID: "R-C20-3", Doc: "file naming agrees with the verifier", Min: 6, Run: ruleC20_3},
			{ID: "R-C20-4", Doc: "the signing key is the loaded one", Min: 5, Run: ruleC20_4},
			{ID: "R-C20-5", Doc: "sign command shape", Min: 4, Run: ruleC20_5},
			{ID: "R-C20-6", Doc: "verify command calls the entry point; its error decides", Min: 6, Run: ruleC20_6},
			a1Rule(30, "cmd.verify", "cmd.run", "cmd.recordStart", "cmd.recordStop", "cmd.sign", "cmd.keyID", "cmd.keyLayout", "cmd.matchProducts", "cmd.getKeyCert", "cmd.loadKeyFromDisk", "cmd.loadKeyFromSpireSocket", "cmd.Execute", "main.main"),
		}})
}

type cobraCmd struct {
	global   *ssa.Global
	fields   map[string]string // RunE/Run/PreRunE/PersistentPreRunE/Use -> function name or const
	parent   string
	flags    map[string]string // flag name -> variable global name
	kinds    map[string]string // flag name -> registration method (StringArrayVarP, StringSliceVarP, ...)
	defaults map[string]string // flag name -> rendered default value
	required map[string]bool
}

func (c *Ctx) cobraCommands() map[string]*cobraCmd {
	out := map[string]*cobraCmd{}
	sp := c.pkg("cmd")
	if sp == nil {
		return out
	}
	initf := sp.Func("init")
	if initf == nil {
		return out
	}
	// command literals in the package initialiser
	for _, b := range initf.Blocks {
		for _, in := range b.Instrs {
			st, ok := in.(*ssa.Store)
			if !ok {
				continue
			}
			g, ok := st.Addr.(*ssa.Global)
			if !ok || typeStr(g.Type()) != "**github.com/spf13/cobra.Command" {
				continue
			}
			cc := &cobraCmd{global: g, fields: map[string]string{}, flags: map[string]string{}, required: map[string]bool{}}
			out[g.Name()] = cc
			al, ok := st.Val.(*ssa.Alloc)
			if !ok {
				continue
			}
			for _, r := range *al.Referrers() {
				fa, ok := r.(*ssa.FieldAddr)
				if !ok {
					continue
				}
				for _, rr := range *fa.Referrers() {
					if s2, ok := rr.(*ssa.Store); ok {
						name := fieldName(fa.X.Type(), fa.Field)
						switch v := s2.Val.(type) {
						case *ssa.Function:
							cc.fields[name] = fname(v)
						case *ssa.Const:
							if s, ok := constString(v); ok {
								cc.fields[name] = s
							}
						case *ssa.MakeClosure:
							cc.fields[name] = fname(v.Fn.(*ssa.Function))
						default:
							cc.fields[name] = org(s2.Val)
						}
					}
				}
			}
		}
	}
	globalOf := func(v ssa.Value) string {
		if u, ok := v.(*ssa.UnOp); ok {
			if g, ok := u.X.(*ssa.Global); ok {
				return g.Name()
			}
		}
		if g, ok := v.(*ssa.Global); ok {
			return g.Name()
		}
		return ""
	}
	// init functions: AddCommand, flags, required
	for _, f := range c.srcFuncs("cmd") {
		if !strings.HasPrefix(f.Name(), "init") {
			continue
		}
		for _, call := range allCalls(f) {
			n := calleeName(call)
			a := call.Common().Args
			switch {
			case n == "(*github.com/spf13/cobra.Command).AddCommand":
				parent := globalOf(a[0])
				derives(a[1], func(v ssa.Value) bool {
					if child := globalOf(v); child != "" && out[child] != nil && child != parent {
						out[child].parent = parent
					}
					return false
				}, false)
			case strings.HasPrefix(n, "(*github.com/spf13/pflag.FlagSet).") && strings.Contains(n, "Var"):
				fc, ok := a[0].(*ssa.Call)
				if !ok {
					continue
				}
				owner := globalOf(fc.Call.Args[0])
				varName := globalOf(a[1])
				flagName, _ := constString(a[2])
				if cc := out[owner]; cc != nil {
					cc.flags[flagName] = varName
					if cc.kinds == nil {
						cc.kinds = map[string]string{}
					}
					cc.kinds[flagName] = n[strings.LastIndex(n, ".")+1:]
					if cc.defaults == nil {
						cc.defaults = map[string]string{}
					}
					switch len(a) {
					case 6: // XxxVarP(p, name, shorthand, value, usage)
						cc.defaults[flagName] = renderDefault(a[4])
					case 5: // XxxVar(p, name, value, usage)
						cc.defaults[flagName] = renderDefault(a[3])
					}
				}
			case n == "(*github.com/spf13/cobra.Command).MarkFlagRequired" || n == "(*github.com/spf13/cobra.Command).MarkPersistentFlagRequired":
				owner := globalOf(a[0])
				flagName, _ := constString(a[1])
				if cc := out[owner]; cc != nil {
					cc.required[flagName] = true
				}
			}
		}
	}
	return out
}

var c20Scope = map[string]string{"verifyCmd": "cmd.verify", "runCmd": "cmd.run", "recordStartCmd": "cmd.recordStart", "recordStopCmd": "cmd.recordStop", "signCmd": "cmd.sign",
	"keyIDCmd": "cmd.keyID", "keyLayoutCmd": "cmd.keyLayout", "matchProductsCmd": "cmd.matchProducts"}

func ruleC20_1(c *Ctx) {
	const R = "R-C20-1"
	cmds := c.cobraCommands()
	var names []string
	for n := range c20Scope {
		names = append(names, n)
	}
	sort.Strings(names)
	for _, n := range names {
		cc := cmds[n]
		if cc == nil {
			c.bad(R, "cmd."+n, "command", 0, "command variable not found")
			continue
		}
		c.check(cc.fields["RunE"] == c20Scope[n] && cc.fields["Run"] == "", R, "cmd."+n, "handler registered as RunE (errors reach cobra)", cc.global.Pos(), "RunE="+cc.fields["RunE"], "handler is registered as RunE="+cc.fields["RunE"]+" Run="+cc.fields["Run"]+": a Run handler cannot report failure through the exit status")
		// attached to root
		p, hops := n, 0
		for p != "rootCmd" && p != "" && hops < 5 {
			if cmds[p] == nil {
				p = ""
				break
			}
			p = cmds[p].parent
			hops++
		}
		c.check(p == "rootCmd", R, "cmd."+n, "attached to the root command", cc.global.Pos(), "AddCommand chain reaches rootCmd", "the command is not attached to the root command")
	}
	// Execute
	if ex := c.lookup("cmd.Execute"); ex != nil {
		call := firstCall(ex, "(*github.com/spf13/cobra.Command).Execute")
		okEx := false
		if call != nil && org(call.Common().Args[0]) == "global(cmd.rootCmd)" {
			if e := errResult(call); e != nil {
				for _, br := range errBranches(e) {
					for _, in := range br.NonNil.Instrs {
						if k, ok := in.(*ssa.Call); ok && calleeName(k) == "os.Exit" {
							if v, ok := constInt(k.Call.Args[0]); ok && v != 0 {
								okEx = true
							}
						}
					}
				}
			}
		}
		c.check(okEx, R, fname(ex), "a command error becomes a non-zero exit status", ex.Pos(), "rootCmd.Execute() != nil => os.Exit(k), k != 0", "an error returned by a command does not lead to a non-zero exit status")
	} else {
		c.undecided(R, "cmd.Execute", "anchor", 0, "not found")
	}
	if m := c.lookup("main.main"); m != nil {
		c.check(firstCall(m, "cmd.Execute") != nil, R, fname(m), "main runs the root command", m.Pos(), "cmd.Execute()", "main does not call cmd.Execute")
	}
	if root := cmds["rootCmd"]; root != nil {
		c.ok(R, "cmd.rootCmd", "root command literal inspected", root.global.Pos(), fmt.Sprint(len(cmds))+" command variables")
	}
	// match-products
	if f := c.lookup("cmd.matchProducts"); f != nil {
		mp := firstCall(f, "in_toto.InTotoMatchProducts")
		if mp == nil {
			c.bad(R, fname(f), "InTotoMatchProducts", f.Pos(), "library function is not called")
			return
		}
		var lcs []lenCmp
		for i := 0; i < 3; i++ {
			res := resultN(mp, i)
			for _, lc := range lenCompares(f, func(v ssa.Value) bool { return v == res }) {
				lcs = append(lcs, lc)
			}
		}
		okAll := len(lcs) == 3
		var exitBlocks []*ssa.BasicBlock
		okExit := false
		for _, k := range callsIn(f, "os.Exit") {
			if v, ok := constInt(k.Common().Args[0]); ok && v != 0 {
				okExit = true
				exitBlocks = append(exitBlocks, k.Block())
			}
		}
		afterExit := func(b *ssa.BasicBlock) bool {
			for _, e := range exitBlocks {
				if e == b || e.Dominates(b) {
					return true
				}
			}
			return false
		}
		for _, r := range c.nilErrReturns(f) {
			if !c.okCallAt(mp, r.Block()) {
				continue
			}
			if afterExit(r.Block()) {
				continue // the statement after os.Exit(1): never reached
			}
			// every way into the success return either passed os.Exit (never returns) or knows all three lists empty
			for _, pb := range r.Block().Preds {
				if afterExit(pb) {
					continue
				}
				for _, lc := range lcs {
					want := evalCmp(lc.op, 0, lc.k)
					if !c.condAt(lc.bo, want, pb) && !edgeFact(pb, r.Block(), lc.bo, want) {
						okAll = false
					}
				}
			}
		}
		// the exit is not taken when all lists are empty
		for _, e := range exitBlocks {
			allEmpty := true
			for _, lc := range lcs {
				if !c.condAt(lc.bo, evalCmp(lc.op, 0, lc.k), e) {
					allEmpty = false
				}
			}
			if allEmpty {
				okExit = false
			}
		}
		c.check(okAll && okExit, R, fname(f), "exit status non-zero iff any of the three difference lists is non-empty", f.Pos(), "return nil only where all three lists are empty; os.Exit(1) otherwise", "the exit status of match-products does not reflect the three-way difference")
	}
}

var c20Flags = map[string]map[string]string{
	"verifyCmd": {"layout": "layoutPath", "layout-keys": "pubKeyPaths", "link-dir": "linkDir", "intermediate-certs": "intermediatePaths", "normalize-line-endings": "lineNormalization"},
	"runCmd": {"name": "stepName", "run-dir": "runDir", "key": "keyPath", "cert": "certPath", "materials": "materialsPaths", "products": "productsPaths", "metadata-directory": "outDir",
		"lstrip-paths": "lStripPaths", "exclude": "exclude", "normalize-line-endings": "lineNormalization", "no-command": "noCommand", "follow-symlink-dirs": "followSymlinkDirs", "use-dsse": "useDSSE",
		"spiffe-workload-api-path": "spiffeUDS"},
	"recordCmd": {"name": "recordStepName", "key": "keyPath", "cert": "certPath", "metadata-directory": "outDir", "lstrip-paths": "lStripPaths", "exclude": "exclude",
		"spiffe-workload-api-path": "spiffeUDS", "normalize-line-endings": "lineNormalization", "use-dsse": "useDSSE", "follow-symlink-dirs": "followSymlinkDirs"},
	"recordStartCmd":   {"materials": "recordMaterialsPaths"},
	"recordStopCmd":    {"products": "recordProductsPaths"},
	"signCmd":          {"output": "outputPath", "file": "layoutPath", "key": "keyPath", "verify": "verifyFile"},
	"matchProductsCmd": {"link": "linkMetadataPath", "path": "paths", "exclude": "exclude", "lstrip-paths": "lStripPaths"},
}

// flags whose values are artifact paths / path prefixes / patterns chosen by the user (may contain commas)
var c20PathListFlags = map[string]bool{"materials": true, "products": true, "path": true, "lstrip-paths": true, "exclude": true}

var c20Required = map[string][]string{"verifyCmd": {"layout", "layout-keys"}, "runCmd": {"name"}, "recordCmd": {"name"}, "signCmd": {"file", "key"}, "matchProductsCmd": {"link"}}

func ruleC20_2(c *Ctx) {
	const R = "R-C20-2"
	cmds := c.cobraCommands()
	// variables read anywhere outside init functions
	read := map[string]bool{}
	for _, f := range c.srcFuncs("cmd") {
		if strings.HasPrefix(f.Name(), "init") {
			continue
		}
		for _, b := range f.Blocks {
			for _, in := range b.Instrs {
				if u, ok := in.(*ssa.UnOp); ok {
					if g, ok := u.X.(*ssa.Global); ok {
						read[g.Name()] = true
					}
				}
				for _, op := range in.Operands(nil) {
					if g, ok := (*op).(*ssa.Global); ok {
						if _, isStore := in.(*ssa.Store); !isStore {
							read[g.Name()] = true
						}
					}
				}
			}
		}
	}
	var cn []string
	for n := range c20Flags {
		cn = append(cn, n)
	}
	sort.Strings(cn)
	for _, n := range cn {
		cc := cmds[n]
		if cc == nil {
			c.bad(R, "cmd."+n, "command", 0, "command variable not found")
			continue
		}
		var fl []string
		for k := range c20Flags[n] {
			fl = append(fl, k)
		}
		for k := range cc.flags {
			if _, ok := c20Flags[n][k]; !ok {
				fl = append(fl, k)
			}
		}
		sort.Strings(fl)
		for _, k := range fl {
			// every documented flag is registered, bound to a package variable that some handler reads; the variable's
			// name is free (its use is checked through the flag: the library-call arguments below)
			_, documented := c20Flags[n][k]
			got := cc.flags[k]
			c.check(documented && got != "" && read[got], R, "cmd."+n, "flag --"+k, cc.global.Pos(), "bound to "+got+" (read by a handler)", fmt.Sprintf("flag --%s: documented=%v, bound to variable %q, read by a handler: %v", k, documented, got, read[got]))
		}
		// flags that take file names are registered as string *arrays*: pflag splits string *slice* values at commas
		// (CSV), so an artifact path with a comma would be cut into pieces
		for _, k := range fl {
			if c20PathListFlags[k] && cc.flags[k] != "" {
				kind := cc.kinds[k]
				c.check(strings.HasPrefix(kind, "StringArray"), R, "cmd."+n, "flag --"+k+" takes each value verbatim", cc.global.Pos(), kind, "flag --"+k+" is registered with "+kind+": pflag parses StringSlice values as CSV, so a file name that contains a comma (foo.c,v) is split into several paths")
			}
		}
		// one destination variable per flag: pflag's slice and array values replace the destination on the first Set of
		// each flag object and append only afterwards, so two flags that share a destination overwrite each other
		byVar := map[string][]string{}
		for k, v := range cc.flags {
			if v != "" {
				byVar[v] = append(byVar[v], k)
			}
		}
		var shared []string
		for v, ks := range byVar {
			if len(ks) > 1 {
				sort.Strings(ks)
				shared = append(shared, v+" <- --"+strings.Join(ks, ", --"))
			}
		}
		sort.Strings(shared)
		c.check(len(shared) == 0, R, "cmd."+n, "every flag has a destination variable of its own", cc.global.Pos(), fmt.Sprintf("%d flags, %d variables", len(cc.flags), len(byVar)),
			"several flags are bound to one variable ("+strings.Join(shared, "; ")+"): the first use of the second name replaces what was collected under the first, so values (keys) given on the command line silently drop out")
		for _, k := range c20Required[n] {
			c.check(cc.required[k], R, "cmd."+n, "flag --"+k+" is required", cc.global.Pos(), "marked required", "flag --"+k+" is not marked required")
		}
	}
	// one variable registered by several commands: pflag writes the default into the destination when the flag is
	// registered, so the registration that runs last sets the value every one of those commands starts with; the
	// defaults must be the same
	type reg struct{ cmd, flag, def string }
	regs := map[string][]reg{}
	for _, n := range sortedKeys(cmds) {
		cc := cmds[n]
		for k, v := range cc.flags {
			if v != "" {
				regs[v] = append(regs[v], reg{n, k, cc.defaults[k]})
			}
		}
	}
	var vars []string
	for v := range regs {
		vars = append(vars, v)
	}
	sort.Strings(vars)
	for _, v := range vars {
		rs := regs[v]
		if len(rs) < 2 {
			continue
		}
		sort.Slice(rs, func(i, j int) bool { return rs[i].cmd+rs[i].flag < rs[j].cmd+rs[j].flag })
		same := true
		var parts []string
		for _, r := range rs {
			if r.def != rs[0].def {
				same = false
			}
			parts = append(parts, r.cmd+" --"+r.flag+"="+r.def)
		}
		c.check(same, R, "cmd", "registrations of variable "+v+" agree on the default", 0, fmt.Sprintf("%d registrations, default %s", len(rs), rs[0].def),
			"variable "+v+" is the destination of several flag registrations with different defaults ("+strings.Join(parts, "; ")+"): the registration that runs last decides what all of these commands start with, so a command passes the library a value its own --help does not show")
	}
	// g: the package variable bound to a flag (looked up through the registrations of the command and its parents)
	g := func(flag string) string {
		for _, cn2 := range []string{"runCmd", "recordStartCmd", "recordStopCmd", "recordCmd", "matchProductsCmd", "verifyCmd", "signCmd"} {
			_ = cn2
		}
		return "flag:" + flag
	}
	flagVar := func(cmdNames []string, flag string) string {
		for _, cn2 := range cmdNames {
			if cc := cmds[cn2]; cc != nil && cc.flags[flag] != "" {
				return "global(cmd." + cc.flags[flag] + ")"
			}
		}
		return "<flag --" + flag + " is not registered>"
	}
	checkArgs := func(fn, callee string, cmdNames []string, want map[int]string) {
		f := c.lookup(fn)
		if f == nil {
			c.undecided(R, fn, "anchor", 0, "not found")
			return
		}
		call := firstCall(f, callee)
		if call == nil {
			c.bad(R, fn, callee, f.Pos(), "library function is not called")
			return
		}
		a := call.Common().Args
		var idx []int
		for i := range want {
			idx = append(idx, i)
		}
		sort.Ints(idx)
		for _, i := range idx {
			got := org(a[i])
			w := want[i]
			if strings.HasPrefix(w, "flag:") {
				w = flagVar(cmdNames, strings.TrimPrefix(w, "flag:"))
			}
			want := map[int]string{i: w}
			c.check(got == want[i], R, fn, fmt.Sprintf("%s argument %d", trimPkg(callee), i), call.Pos(), want[i], fmt.Sprintf("argument %d of %s is %s, expected %s", i, callee, short(got), want[i]))
		}
	}
	key := "global(cmd.key)"
	checkArgs("cmd.run", "in_toto.InTotoRun", []string{"runCmd"}, map[int]string{0: g("name"), 1: g("run-dir"), 2: g("materials"), 3: g("products"), 4: "p1", 5: key, 7: g("exclude"), 8: g("lstrip-paths"), 9: g("normalize-line-endings"), 10: g("follow-symlink-dirs"), 11: g("use-dsse")})
	checkArgs("cmd.recordStart", "in_toto.InTotoRecordStart", []string{"recordStartCmd", "recordCmd"}, map[int]string{0: g("name"), 1: g("materials"), 2: key, 4: g("exclude"), 5: g("lstrip-paths"), 6: g("normalize-line-endings"), 7: g("follow-symlink-dirs"), 8: g("use-dsse")})
	checkArgs("cmd.recordStop", "in_toto.InTotoRecordStop", []string{"recordStopCmd", "recordCmd"}, map[int]string{1: g("products"), 2: key, 4: g("exclude"), 5: g("lstrip-paths"), 6: g("normalize-line-endings"), 7: g("follow-symlink-dirs"), 8: g("use-dsse")})
	checkArgs("cmd.matchProducts", "in_toto.InTotoMatchProducts", []string{"matchProductsCmd"}, map[int]string{1: g("path"), 3: g("exclude"), 4: g("lstrip-paths")})
	// run: command / --no-command consistency
	if f := c.lookup("cmd.run"); f != nil {
		n := 0
		for _, r := range returnsOf(f) {
			if !c.mayBeNilErr(r.Results[0], r.Block(), 0) {
				n++
			}
		}
		c.check(n >= 5, R, fname(f), "argument/--no-command mismatches are errors", f.Pos(), fmt.Sprintf("%d failing returns", n), "the handler does not reject inconsistent command arguments")
	}
}

func ruleC20_3(c *Ctx) {
	const R = "R-C20-3"
	// constants
	consts := map[string]string{}
	sp := c.pkg("in_toto")
	for _, n := range []string{"LinkNameFormat", "LinkGlobFormat", "PreliminaryLinkNameFormat", "LinkNameFormatShort", "SublayoutLinkDirFormat"} {
		if m, ok := sp.Members[n].(*ssa.NamedConst); ok {
			consts[n], _ = constString(m.Value)
		}
	}
	re := regexp.MustCompile(`^%s\.%\.(\d+)s\.link$`)
	m := re.FindStringSubmatch(consts["LinkNameFormat"])
	okFmt := m != nil
	if okFmt {
		var n int
		fmt.Sscanf(m[1], "%d", &n)
		okFmt = consts["LinkGlobFormat"] == "%s."+strings.Repeat("?", n)+".link" && n == 8
	}
	c.check(okFmt, R, "in_toto", "LinkNameFormat and LinkGlobFormat describe the same names", 0, consts["LinkNameFormat"]+" ~ "+consts["LinkGlobFormat"],
		fmt.Sprintf("writer format %q and loader glob %q do not describe the same file names (<name>.<8-char key id prefix>.link)", consts["LinkNameFormat"], consts["LinkGlobFormat"]))
	c.check(consts["PreliminaryLinkNameFormat"] == ".%s.%.8s.link-unfinished", R, "in_toto", "PreliminaryLinkNameFormat", 0, consts["PreliminaryLinkNameFormat"], "preliminary link format is "+consts["PreliminaryLinkNameFormat"])
	// loader trimming
	if f := c.lookup("in_toto.LoadLinksForLayout"); f != nil {
		okTrim := false
		for _, call := range callsIn(f, "strings.TrimSuffix") {
			if s, _ := constString(call.Common().Args[1]); s == ".link" {
				if tp, ok := resolve(call.Common().Args[0], call).(*ssa.Call); ok && calleeName(tp) == "strings.TrimPrefix" {
					if org(tp.Call.Args[1]) == `(p0.Steps[*].SupplyChainItem.Name+const("."))` {
						okTrim = true
					}
				}
			}
		}
		c.check(okTrim, R, fname(f), "loader recovers the key-id prefix by trimming <name>. and .link", f.Pos(), "TrimSuffix(TrimPrefix(base, name+\".\"), \".link\")", "the loader's trimming does not match the naming format")
	}
	nameArgs := func(sp *ssa.Call) (string, string) {
		var a []string
		derives(sp.Call.Args[1], func(v ssa.Value) bool {
			if al, ok := v.(*ssa.Alloc); ok && al.Comment == "varargs" {
				vals := map[int]string{}
				for _, r := range *al.Referrers() {
					if ia, ok := r.(*ssa.IndexAddr); ok {
						i, _ := constInt(ia.Index)
						for _, rr := range *ia.Referrers() {
							if st, ok := rr.(*ssa.Store); ok {
								vals[int(i)] = org(st.Val)
							}
						}
					}
				}
				a = []string{vals[0], vals[1]}
				return true
			}
			return false
		}, false)
		if len(a) < 2 {
			return "", ""
		}
		return a[0], a[1]
	}
	type site struct {
		fn, format, a0, a1 string
		dumped             bool
	}
	sites := []site{
		{"cmd.run", "%s.%.8s.link", "", "global(cmd.key).KeyID", true},
		{"cmd.recordStop", "%s.%.8s.link", c.fv("name", "recordCmd"), "global(cmd.key).KeyID", true},
		{"cmd.recordStart", ".%s.%.8s.link-unfinished", c.fv("name", "recordCmd"), "global(cmd.key).KeyID", true},
		{"cmd.recordStop", ".%s.%.8s.link-unfinished", c.fv("name", "recordCmd"), "global(cmd.key).KeyID", false},
	}
	for _, s := range sites {
		f := c.lookup(s.fn)
		if f == nil {
			c.undecided(R, s.fn, "anchor", 0, "not found")
			continue
		}
		found := false
		for _, call := range callsIn(f, "fmt.Sprintf") {
			sc := call.(*ssa.Call)
			format, _ := constString(sc.Call.Args[0])
			if format != s.format {
				continue
			}
			found = true
			a0, a1 := nameArgs(sc)
			okA := a1 == s.a1 && (s.a0 == "" && strings.HasSuffix(a0, ".(in_toto.Link).Name") || a0 == s.a0)
			c.check(okA, R, s.fn, "file name "+s.format, call.Pos(), a0+", "+a1, "file name is built from ("+short(a0)+", "+a1+")")
			// the name is used under outDir for Dump / LoadMetadata
			used := false
			for _, k := range allCalls(f) {
				kn := calleeName(k)
				if kn != "iface:in_toto.Metadata.Dump" && kn != "in_toto.LoadMetadata" {
					continue
				}
				for _, a := range k.Common().Args {
					if derives(a, func(v ssa.Value) bool { return v == ssa.Value(sc) }, true) && derives(a, func(v ssa.Value) bool { return org(v) == c.fv("metadata-directory", "runCmd", "recordCmd") }, true) {
						used = true
					}
				}
			}
			// ... or handed to an unexported helper that dumps to exactly that path (directly, or to a temporary name that
			// is then renamed to it)
			if !used {
				for _, k := range allCalls(f) {
					g := k.Common().StaticCallee()
					if g == nil || g.Blocks == nil || g.Pkg != f.Pkg || g.Object() == nil || g.Object().Exported() {
						continue
					}
					for ai, a := range k.Common().Args {
						if ai >= len(g.Params) || !derives(a, func(v ssa.Value) bool { return v == ssa.Value(sc) }, true) || !derives(a, func(v ssa.Value) bool { return org(v) == c.fv("metadata-directory", "runCmd", "recordCmd") }, true) {
							continue
						}
						pp := g.Params[ai]
						for _, d := range callsIn(g, "iface:in_toto.Metadata.Dump") {
							target := d.Common().Args[0]
							if resolve(target, d) == ssa.Value(pp) {
								used = true
							}
							for _, rn := range callsIn(g, "os.Rename") {
								if org(rn.Common().Args[0]) == org(target) && resolve(rn.Common().Args[1], rn) == ssa.Value(pp) {
									used = true
								}
							}
						}
					}
				}
			}
			c.check(used, R, s.fn, "file "+s.format+" lives in the metadata directory", call.Pos(), "Join(outDir, name) is what is dumped / loaded", "the constructed name is not what is written/read under the metadata directory")
		}
		if !found {
			// the name built by an unexported helper that is handed the format, the two name parts and the directory
			for _, hc := range allCalls(f) {
				h := hc.Common().StaticCallee()
				if h == nil || h.Blocks == nil || h.Pkg != f.Pkg || h.Object() == nil || h.Object().Exported() {
					continue
				}
				fj := -1
				for j, a := range hc.Common().Args {
					if fs, ok := constString(a); ok && fs == s.format && j < len(h.Params) {
						fj = j
					}
				}
				if fj < 0 {
					continue
				}
				subst := map[*ssa.Parameter]string{}
				for j, prm := range h.Params {
					if j < len(hc.Common().Args) {
						subst[prm] = org(hc.Common().Args[j])
					}
				}
				for _, spc := range callsIn(h, "fmt.Sprintf") {
					sp := spc.(*ssa.Call)
					if resolve(sp.Call.Args[0], sp) != ssa.Value(h.Params[fj]) {
						continue
					}
					found = true
					// the two parts, seen from the command
					var parts []string
					derives(sp.Call.Args[1], func(v ssa.Value) bool {
						if al, ok := v.(*ssa.Alloc); ok && al.Comment == "varargs" {
							vals := map[int]string{}
							for _, r := range *al.Referrers() {
								if ia, ok := r.(*ssa.IndexAddr); ok {
									i, _ := constInt(ia.Index)
									for _, rr := range *ia.Referrers() {
										if st, ok := rr.(*ssa.Store); ok {
											vals[int(i)] = orgSubst(st.Val, subst)
										}
									}
								}
							}
							parts = []string{vals[0], vals[1]}
							return true
						}
						return false
					}, false)
					a0, a1 := "", ""
					if len(parts) == 2 {
						a0, a1 = parts[0], parts[1]
					}
					okA := a1 == s.a1 && (s.a0 == "" && strings.HasSuffix(a0, ".(in_toto.Link).Name") || a0 == s.a0)
					c.check(okA, R, s.fn, "file name "+s.format, hc.Pos(), a0+", "+a1, "file name is built from ("+short(a0)+", "+a1+")")
					// joined with the metadata directory inside the helper, and the helper's result is what is dumped / loaded
					joined := false
					for _, jn := range callsIn(h, "path/filepath.Join") {
						fromName := derives(jn.Common().Args[0], func(v ssa.Value) bool { return v == ssa.Value(sp) }, true)
						fromDir := derives(jn.Common().Args[0], func(v ssa.Value) bool {
							prm, ok := v.(*ssa.Parameter)
							return ok && subst[prm] == c.fv("metadata-directory", "runCmd", "recordCmd")
						}, true)
						if fromName && fromDir {
							joined = true
						}
					}
					used := false
					for _, k := range allCalls(f) {
						kn := calleeName(k)
						if kn != "iface:in_toto.Metadata.Dump" && kn != "in_toto.LoadMetadata" {
							continue
						}
						for _, a := range k.Common().Args {
							if derives(a, func(v ssa.Value) bool { return v == hc.Value() }, true) {
								used = true
							}
						}
					}
					c.check(joined && used, R, s.fn, "file "+s.format+" lives in the metadata directory", hc.Pos(), "Join(outDir, name) is what is dumped / loaded", "the constructed name is not what is written/read under the metadata directory")
				}
			}
		}
		if !found {
			c.bad(R, s.fn, "file name "+s.format, f.Pos(), "no file name is built with format "+s.format)
		}
	}
	// run: the named key is the signing key
	if f := c.lookup("cmd.run"); f != nil {
		if call := firstCall(f, "in_toto.InTotoRun"); call != nil {
			c.check(org(call.Common().Args[5]) == "global(cmd.key)", R, fname(f), "the key id in the file name is the signing key's", call.Pos(), "same package variable key", "the link is signed with another key than the one naming the file")
		}
	}
}

func ruleC20_4(c *Ctx) {
	const R = "R-C20-4"
	cmds := c.cobraCommands()
	reads := func(fn string) bool {
		f := c.lookup(fn)
		if f == nil {
			return false
		}
		for _, b := range f.Blocks {
			for _, in := range b.Instrs {
				for _, op := range in.Operands(nil) {
					if g, ok := (*op).(*ssa.Global); ok && g.Name() == "key" {
						return true
					}
				}
			}
		}
		return false
	}
	for cmdName, handler := range c20Scope {
		if !reads(handler) {
			continue
		}
		if handler == "cmd.sign" {
			f := c.lookup(handler)
			keyFlag := c.fv("key", "runCmd", "recordCmd", "signCmd")
			var ld ssa.CallInstruction = firstCall(f, "(*in_toto.Key).LoadKeyDefaults")
			ok := ld != nil && org(ld.Common().Args[0]) == "global(cmd.key)" && org(ld.Common().Args[1]) == keyFlag
			why := "sign uses the key variable without a successful load of --key"
			if ld == nil {
				// key = loadHelper(keyPath, ...): an unexported helper that loads into a local Key and hands it back
				for _, b := range f.Blocks {
					for _, in := range b.Instrs {
						st, isSt := in.(*ssa.Store)
						if !isSt || org(st.Addr) != "global(cmd.key)" {
							continue
						}
						hc, idx := producer(st.Val, st)
						if hc == nil || idx != 0 {
							continue
						}
						h := hc.Common().StaticCallee()
						if h == nil || h.Blocks == nil || h.Pkg != f.Pkg || h.Object() == nil || h.Object().Exported() {
							continue
						}
						for _, inner := range callsIn(h, "(*in_toto.Key).LoadKeyDefaults") {
							pp, isP := resolve(inner.Common().Args[1], inner).(*ssa.Parameter)
							al, isAl := inner.Common().Args[0].(*ssa.Alloc)
							if !isP || !isAl || pp.Parent() != h || org(hc.Common().Args[paramIndex(pp)]) != keyFlag || !c.helperGuarantees(h, inner) {
								continue
							}
							// success returns hand back the loaded key; every other return fails with the loader's own error
							good, extra := true, ""
							ei := errIndex(h)
							for _, r := range returnsOf(h) {
								if c.mayBeNilErr(r.Results[ei], r.Block(), 0) {
									if u, isU := r.Results[0].(*ssa.UnOp); !isU || u.X != ssa.Value(al) {
										good = false
									}
									continue
								}
								if pc, _ := producer(r.Results[ei], r); pc != inner {
									if !derives(r.Results[ei], func(v ssa.Value) bool { return v == errResult(inner) }, true) {
										extra = c.pos(r.Pos())
									}
								}
							}
							if good && extra == "" {
								ld, ok = hc, true
							} else if good {
								why = "the key helper " + fname(h) + " refuses a key that LoadKeyDefaults accepted (return at " + extra + "): sign --verify must accept a public key or certificate, it only needs to verify"
							}
						}
					}
				}
			}
			if ok {
				for _, k := range allCalls(f) {
					kn := calleeName(k)
					uses := kn == "iface:in_toto.Metadata.Sign" || kn == "iface:in_toto.Metadata.VerifySignature"
					if g := k.Common().StaticCallee(); !uses && g != nil && g.Blocks != nil && g.Pkg == f.Pkg && g != f {
						uses = len(callsIn(g, "iface:in_toto.Metadata.Sign", "iface:in_toto.Metadata.VerifySignature")) > 0
					}
					if uses && !c.okCallAt(ld, k.Block()) {
						ok = false
					}
				}
			}
			c.check(ok, R, handler, "the key is loaded from --key before it is used", f.Pos(), "LoadKeyDefaults(keyPath) ok dominates Sign / VerifySignature", why)
			continue
		}
		// PreRunE on the command or PersistentPreRunE on an ancestor
		ok := false
		cc := cmds[cmdName]
		if cc != nil && cc.fields["PreRunE"] == "cmd.getKeyCert" {
			ok = true
		}
		for p, hops := cmdName, 0; p != "" && hops < 5 && cmds[p] != nil; p, hops = cmds[p].parent, hops+1 {
			if cmds[p].fields["PersistentPreRunE"] == "cmd.getKeyCert" {
				ok = true
			}
		}
		c.check(ok, R, handler, "runs after getKeyCert", 0, "PreRunE / PersistentPreRunE of the command or its parent", "the handler reads the key variable but no pre-run hook loads the key")
	}
	if f := c.lookup("cmd.getKeyCert"); f != nil {
		n := 0
		for _, r := range returnsOf(f) {
			pc, _ := producer(r.Results[0], r)
			if pc != nil && (calleeName(pc) == "cmd.loadKeyFromDisk" || calleeName(pc) == "cmd.loadKeyFromSpireSocket") {
				n++
			}
		}
		c.check(n == 2, R, fname(f), "returns the loaders' errors", f.Pos(), "return loadKeyFromSpireSocket() / loadKeyFromDisk()", "key loading errors are not what the hook returns")
	}
	if f := c.lookup("cmd.loadKeyFromDisk"); f != nil {
		okKey, okCert := false, false
		sites := c.c20LoadSites(f)
		for _, site := range sites {
			call := site.call
			if site.recv == "global(cmd.key)" && site.path == c.fv("key", "runCmd", "recordCmd", "signCmd") {
				okKey = true
			}
			if site.recv == "global(cmd.cert)" && site.path == c.fv("cert", "runCmd", "recordCmd") {
				for _, b := range f.Blocks {
					for _, in := range b.Instrs {
						if st, ok := in.(*ssa.Store); ok && org(st.Addr) == "global(cmd.key).KeyVal.Certificate" && org(st.Val) == "global(cmd.cert).KeyVal.Certificate" && c.okCallAt(call, st.Block()) {
							okCert = true
						}
					}
				}
			}
		}
		c.check(okKey, R, fname(f), "key variable loaded from --key", f.Pos(), "key.LoadKeyDefaults(keyPath)", "the signing key is not loaded from --key")
		c.check(okCert, R, fname(f), "--cert is attached to the signing key", f.Pos(), "key.KeyVal.Certificate = cert.KeyVal.Certificate after a successful load", "the certificate given with --cert is not attached to the key that signs")
	}
}

// load sites: key.LoadKeyDefaults(path) directly, or a call of an unexported helper whose nil result guarantees
// a successful LoadKeyDefaults(first, second) on two of its parameters
type c20LoadSite struct {
	call       ssa.CallInstruction
	recv, path string
}

func (c *Ctx) c20LoadSites(f *ssa.Function) []c20LoadSite {
	var sites []c20LoadSite
	for _, call := range callsIn(f, "(*in_toto.Key).LoadKeyDefaults") {
		a := call.Common().Args
		sites = append(sites, c20LoadSite{call, org(a[0]), org(a[1])})
	}
	for _, via := range allCalls(f) {
		g := via.Common().StaticCallee()
		if g == nil || g.Blocks == nil || g.Pkg != f.Pkg || g == f || (g.Object() != nil && g.Object().Exported()) || !hasErrResult(via) {
			continue
		}
		for _, inner := range callsIn(g, "(*in_toto.Key).LoadKeyDefaults") {
			if !c.helperGuarantees(g, inner) {
				continue
			}
			ia := inner.Common().Args
			p0, ok0 := resolve(ia[0], inner).(*ssa.Parameter)
			p1, ok1 := resolve(ia[1], inner).(*ssa.Parameter)
			if ok0 && ok1 && p0.Parent() == g && p1.Parent() == g {
				va := via.Common().Args
				sites = append(sites, c20LoadSite{via, org(va[paramIndex(p0)]), org(va[paramIndex(p1)])})
			}
		}
	}
	return sites
}

// c20Op: one of the three operations of sign, done in cmd.sign itself or in an unexported helper it calls.
type c20Op struct {
	site  ssa.CallInstruction // the call in cmd.sign (the operation itself, or the call of the helper)
	inner ssa.CallInstruction // the operation
	g     *ssa.Function       // frame of the operation
}

// outer: the value as seen from cmd.sign: a parameter of the helper frame is replaced by the argument of the call.
func (o c20Op) outer(v ssa.Value) string {
	if o.site != o.inner {
		if p, ok := resolve(v, nil).(*ssa.Parameter); ok && p.Parent() == o.g {
			return org(o.site.Common().Args[paramIndex(p)])
		}
	}
	return org(v)
}

func ruleC20_5(c *Ctx) {
	const R = "R-C20-5"
	f := c.lookup("cmd.sign")
	if f == nil {
		c.undecided(R, "cmd.sign", "anchor", 0, "not found")
		return
	}
	fn := fname(f)
	var vs, sg, dp *c20Op
	scan := func(g *ssa.Function, site ssa.CallInstruction) {
		for _, k := range allCalls(g) {
			s := site
			if s == nil {
				s = k
			}
			switch calleeName(k) {
			case "iface:in_toto.Metadata.VerifySignature":
				vs = &c20Op{s, k, g}
			case "iface:in_toto.Metadata.Sign":
				sg = &c20Op{s, k, g}
			case "iface:in_toto.Metadata.Dump":
				dp = &c20Op{s, k, g}
			}
		}
	}
	scan(f, nil)
	for _, via := range allCalls(f) {
		h := via.Common().StaticCallee()
		if h == nil || h.Blocks == nil || h.Pkg != f.Pkg || h == f || h.Parent() != nil || (h.Object() != nil && h.Object().Exported()) || !hasErrResult(via) {
			continue
		}
		scan(h, via)
	}
	if vs == nil || sg == nil || dp == nil {
		c.bad(R, fn, "VerifySignature / Sign / Dump", f.Pos(), "sign does not offer verify, sign and dump")
		return
	}
	// an operation done in a helper counts only when the helper's error is what cmd.sign returns (or fails on)
	propagated := func(o *c20Op) bool {
		if o.site == o.inner {
			return true
		}
		if e := errResult(o.site); e != nil {
			for _, br := range errBranches(e) {
				if c.failing(br.NonNil) {
					return true
				}
			}
		}
		for _, r := range returnsOf(f) {
			if pc, _ := producer(r.Results[0], r); pc == o.site && r.Block() == o.site.Block() {
				return true
			}
		}
		return false
	}
	// verify flag
	var vf ssa.Value
	for _, b := range f.Blocks {
		for _, in := range b.Instrs {
			if u, ok := in.(*ssa.UnOp); ok && org(u) == c.fv("verify", "signCmd") {
				vf = u
			}
		}
	}
	okV := vf != nil && c.condAt(vf, true, vs.site.Block()) && c.condAt(vf, false, sg.site.Block()) && c.condAt(vf, false, dp.site.Block())
	c.check(okV, R, fn, "--verify verifies and writes nothing; otherwise sign and dump", f.Pos(), "VerifySignature under verifyFile, Sign/Dump under !verifyFile", "the --verify switch does not separate verification from signing and writing")
	okVE := false
	if e := errResult(vs.inner); e != nil {
		for _, br := range errBranches(e) {
			okVE = okVE || c.failing(br.NonNil)
		}
	}
	c.check(okVE && propagated(vs), R, fn, "a failed verification is an error", vs.inner.Pos(), "non-nil side fails", "sign --verify succeeds although the signature does not verify")
	const loaded = "in_toto.LoadMetadata(global(cmd.layoutPath))#0"
	same := vs.outer(vs.inner.Common().Value) == loaded && sg.outer(sg.inner.Common().Value) == loaded && dp.outer(dp.inner.Common().Value) == loaded
	c.check(same, R, fn, "the loaded --file is what is verified / signed / dumped", f.Pos(), "LoadMetadata(layoutPath)", "verify, sign and dump do not operate on the loaded --file")
	okOrder := false
	if sg.g == dp.g {
		okOrder = c.okCallAt(sg.inner, dp.inner.Block())
	} else if sg.site != sg.inner {
		okOrder = c.helperGuarantees(sg.g, sg.inner) && c.okCallAt(sg.site, dp.site.Block())
	} else {
		okOrder = c.okCallAt(sg.inner, dp.site.Block())
	}
	c.check(okOrder && propagated(sg) && dp.outer(dp.inner.Common().Args[0]) == c.fv("output", "signCmd"), R, fn, "dump to --output only after a successful Sign", dp.inner.Pos(), "Dump(outputPath) dominated by Sign's nil edge", "the file is written without a successful Sign, or not to --output")
	// the default of --output: set in cmd.sign before the (call that leads to the) dump, or in the dump's own frame
	okDef := false
	for _, fr := range []struct {
		g  *ssa.Function
		at ssa.CallInstruction
	}{{f, dp.site}, {dp.g, dp.inner}} {
		for _, b := range fr.g.Blocks {
			for _, in := range b.Instrs {
				if st, ok := in.(*ssa.Store); ok && org(st.Addr) == c.fv("output", "signCmd") && org(st.Val) == c.fv("file", "signCmd") {
					for _, lc := range lenCompares(fr.g, func(v ssa.Value) bool { return org(v) == c.fv("output", "signCmd") }) {
						if c.condAt(lc.bo, evalCmp(lc.op, 0, lc.k), st.Block()) && instrDominates(lc.bo, fr.at) {
							okDef = true
						}
					}
				}
			}
		}
	}
	c.check(okDef, R, fn, "without --output the input file is overwritten", f.Pos(), "outputPath = layoutPath when empty", "the default output path is not the input path")
	for _, r := range returnsOf(dp.g) {
		if r.Block() == dp.inner.Block() {
			pc, _ := producer(r.Results[0], r)
			c.check(pc == dp.inner && propagated(dp), R, fn, "Dump's error is the result", instrPos(r), "return layoutEnv.Dump(outputPath)", "a write error is not returned")
		}
	}
}

func ruleC20_6(c *Ctx) {
	const R = "R-C20-6"
	f := c.lookup("cmd.verify")
	if f == nil {
		c.undecided(R, "cmd.verify", "anchor", 0, "not found")
		return
	}
	fn := fname(f)
	var call ssa.CallInstruction
	entries := map[*ssa.Function]bool{}
	for _, e := range c.entryPoints() {
		entries[e.f] = true
	}
	for _, k := range allCalls(f) {
		if g := k.Common().StaticCallee(); g != nil && entries[g] {
			call = k
		}
	}
	if call == nil {
		c.bad(R, fn, "library entry point", f.Pos(), "verify does not call InTotoVerify / InTotoVerifyWithDirectory")
		return
	}
	a := call.Common().Args
	c.check(org(a[0]) == "in_toto.LoadMetadata("+c.fv("layout", "verifyCmd")+")#0", R, fn, "layout = LoadMetadata(--layout)", call.Pos(), org(a[0]), "layout argument is "+short(org(a[0])))
	// keys map keyed by the loaded key's id: built in verify itself, or in one unexported helper that is handed the
	// --layout-keys paths
	okKeys := false
	keyMapOK := func(fr *ssa.Function, mk *ssa.MakeMap, pathsOrg string) bool {
		for _, r := range *mk.Referrers() {
			mu, ok := r.(*ssa.MapUpdate)
			if !ok {
				continue
			}
			// value = the key variable, key = that variable's KeyID
			vld, ok1 := mu.Value.(*ssa.UnOp)
			kld, ok2 := mu.Key.(*ssa.UnOp)
			if !ok1 || !ok2 {
				continue
			}
			al, ok := vld.X.(*ssa.Alloc)
			if !ok {
				continue
			}
			fa, ok := kld.X.(*ssa.FieldAddr)
			if !ok || fa.X != ssa.Value(al) || fieldName(fa.X.Type(), fa.Field) != "KeyID" {
				continue
			}
			for _, ld := range callsIn(fr, "(*in_toto.Key).LoadKeyDefaults") {
				if ld.Common().Args[0] == ssa.Value(al) && org(ld.Common().Args[1]) == pathsOrg+"[*]" && c.okCallAt(ld, mu.Block()) {
					// every path is loaded: the load sits in a range over the whole list
					if u, isU := ld.Common().Args[1].(*ssa.UnOp); isU && wholeSliceIndex(u.X) {
						return true
					}
				}
			}
		}
		return false
	}
	switch x := resolve(a[1], call).(type) {
	case *ssa.MakeMap:
		okKeys = keyMapOK(f, x, c.fv("layout-keys", "verifyCmd"))
	case *ssa.Extract:
		if hc, ok := x.Tuple.(*ssa.Call); ok && x.Index == 0 {
			g := hc.Call.StaticCallee()
			if g != nil && g.Blocks != nil && g.Pkg == f.Pkg && c.okCallAt(hc, call.Block()) {
				for i, prm := range g.Params {
					if org(hc.Call.Args[i]) != c.fv("layout-keys", "verifyCmd") {
						continue
					}
					for _, r := range c.nilErrReturns(g) {
						if mk, ok := resolve(r.Results[0], r).(*ssa.MakeMap); ok && keyMapOK(g, mk, fmt.Sprintf("p%d", paramIndex(prm))) {
							okKeys = true
						} else {
							okKeys = false
							break
						}
					}
				}
			}
		}
	}
	c.check(okKeys, R, fn, "layout keys = every --layout-keys file, keyed by its own key id", call.Pos(), "layoutKeys[key.KeyID] = key after a successful load", "the key map is not built from the --layout-keys files under their own key ids")
	c.check(org(a[2]) == c.fv("link-dir", "verifyCmd"), R, fn, "link directory = --link-dir", call.Pos(), org(a[2]), "link dir is "+org(a[2]))
	_, emptyParams := resolve(a[4], call).(*ssa.MakeMap)
	nUpd := 0
	if mk, ok := resolve(a[4], call).(*ssa.MakeMap); ok {
		for _, r := range *mk.Referrers() {
			if _, ok := r.(*ssa.MapUpdate); ok {
				nUpd++
			}
		}
	}
	c.check(emptyParams && nUpd == 0, R, fn, "empty parameter dictionary", call.Pos(), "make(map[string]string)", "parameters passed: "+short(org(a[4])))
	okInter := derives(a[5], func(v ssa.Value) bool {
		k, ok := v.(*ssa.Call)
		return ok && calleeName(k) == "os.ReadFile" && org(k.Call.Args[0]) == c.fv("intermediate-certs", "verifyCmd")+"[*]"
	}, true)
	if !okInter && len(a) >= 6 {
		// a list filled element by element (append or indexed store): every element is such a read
		srcs := appendedSources(resolve(a[5], call))
		okInter = len(srcs) > 0
		// inside a helper the file names are a parameter: read it as the argument the helper was called with
		want := map[string]bool{c.fv("intermediate-certs", "verifyCmd") + "[*]": true}
		if hc, _ := producer(resolve(a[5], call), call); hc != nil {
			for j, ha := range hc.Common().Args {
				if org(ha) == c.fv("intermediate-certs", "verifyCmd") {
					want[fmt.Sprintf("p%d[*]", j)] = true
				}
			}
		}
		for _, sv := range srcs {
			if !derives(sv, func(v ssa.Value) bool {
				k, ok := v.(*ssa.Call)
				return ok && calleeName(k) == "os.ReadFile" && want[org(k.Call.Args[0])]
			}, true) {
				okInter = false
			}
		}
	}
	c.check(okInter || len(a) < 6, R, fn, "intermediates = contents of the --intermediate-certs files", call.Pos(), "os.ReadFile(intermediatePaths[i])", "intermediate PEMs are "+short(org(a[5])))
	c.check(org(a[len(a)-1]) == c.fv("normalize-line-endings", "verifyCmd"), R, fn, "line normalisation flag passed on", call.Pos(), "lineNormalization", "last argument is "+org(a[len(a)-1]))
	okErr := false
	if e := errResult(call); e != nil {
		for _, br := range errBranches(e) {
			okErr = okErr || c.failing(br.NonNil)
		}
	}
	c.check(okErr, R, fn, "a library verification error is returned", call.Pos(), "non-nil side fails", "verify exits zero although library verification failed")
	for _, r := range c.nilErrReturns(f) {
		c.check(c.okCallAt(call, r.Block()), R, fn, "success only after successful library verification", instrPos(r), "dominated by the nil-error edge", "verify can succeed without the library having verified the chain")
	}
}

// fv renders the package variable that is bound to flag --flag of one of the named commands (first match) the way org
// prints a load of it: the rules refer to the command-line options by flag, not by the name of the Go variable.
func (c *Ctx) fv(flag string, cmdNames ...string) string {
	cmds := c.cobraCommands()
	for _, n := range cmdNames {
		if cc := cmds[n]; cc != nil && cc.flags[flag] != "" {
			return "global(cmd." + cc.flags[flag] + ")"
		}
	}
	return "<flag --" + flag + " is not registered>"
}

func sortedKeys(m map[string]*cobraCmd) []string {
	var out []string
	for k := range m {
		out = append(out, k)
	}
	sort.Strings(out)
	return out
}

// renderDefault: a flag default as text: constants by value, slice literals element by element.
func renderDefault(v ssa.Value) string {
	switch x := v.(type) {
	case *ssa.Const:
		if x.Value == nil {
			if _, isSlice := x.Type().Underlying().(*types.Slice); isSlice {
				return "[]" // a nil list and an empty list are the same default
			}
			return "nil"
		}
		return x.Value.ExactString()
	case *ssa.Slice:
		if al, ok := x.X.(*ssa.Alloc); ok {
			elems := map[int64]string{}
			n := int64(0)
			if at, ok := al.Type().Underlying().(*types.Pointer).Elem().Underlying().(*types.Array); ok {
				n = at.Len()
			}
			for _, r := range *al.Referrers() {
				if ia, ok := r.(*ssa.IndexAddr); ok {
					idx, _ := constInt(ia.Index)
					for _, rr := range *ia.Referrers() {
						if st, ok := rr.(*ssa.Store); ok {
							elems[idx] = renderDefault(st.Val)
						}
					}
				}
			}
			var parts []string
			for i := int64(0); i < n; i++ {
				parts = append(parts, elems[i])
			}
			return "[" + strings.Join(parts, ", ") + "]"
		}
	case *ssa.MakeSlice:
		if k, ok := constInt(x.Len); ok && k == 0 {
			return "[]"
		}
	}
	return short(org(v))
}
