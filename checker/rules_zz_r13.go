package main

import (
	"fmt"
	"go/token"
	"go/types"
	"sort"

	"golang.org/x/tools/go/ssa"
)

// Round 13 of seeded changes (edits to data, declarations and types): rules added or shared after the round.
// See DESIGN.md section 10.13.

func init() {
	share := func(prop, id, doc string, min int, run func(*Ctx), expl string) {
		if p := registry[prop]; p != nil {
			p.Rules = append(p.Rules, Rule{ID: id, Doc: doc, Min: min, Run: run})
			if expl != "" {
				p.Explanation += " " + expl
			}
		}
	}
	share("C04", "R-C11-1", "wire-format schema table (shared with C11)", 9, ruleC11_1, "(R-C11-1, shared with C11) the JSON view of the metadata types (names, omitempty, kinds) equals the frozen in-toto schema: what a second signer signs after loading is what the first one signed.")
	share("C08", "R-C11-1", "wire-format schema table (shared with C11)", 9, ruleC11_1, "(R-C11-1, shared with C11) the signed bytes of a sublayout are those of the schema, so a sublayout signed elsewhere is not dropped as 'badly signed' evidence.")
	share("C05", "R-C12-5", "hex validators accept both cases (shared with C12)", 2, ruleC12_5, "(R-C12-5, shared with C12) the validators on the signature path accept what the format allows (hex digits in either case): a counted link does not drop out before the agreement check because its signer's key is written in upper case.")
	share("C02", "R-C12-5", "hex validators accept both cases (shared with C12)", 2, ruleC12_5, "")
	share("C09", "R-C03-2", "rule grammar (shared with C03): the fields of an unpacked rule are the words of the rule as written", 10, ruleC03_2, "(R-C03-2, shared with C03) inspection rules are unpacked by the same grammar as step rules: patterns and prefixes are taken from the rule as written, only the keywords are compared case-insensitively.")
	share("C17", "R-C17-14", "the in-class state of scanChunk is two-valued", 1, ruleC17_14, "(R-C17-14) the state that decides in scanChunk whether a '*' ends the chunk takes two constant values, one set at '[' and the other (the initial one) at ']': classes do not nest, so a '[' inside a class must not keep later stars from being wildcards.")
	share("C03", "R-C17-14", "the in-class state of scanChunk is two-valued (shared with C17)", 1, ruleC17_14, "")
	share("C17", "R-C17-15", "loop counters are not narrower than int", 4, ruleC17_15, "(R-C17-15) no loop-carried integer that is stepped by a constant in in_toto / cmd / internal/spiffe has a type narrower than 32 bits: a counter over the characters or members of a pattern that wraps at 256 makes well-formed patterns malformed.")
	share("C15", "R-C17-15", "loop counters are not narrower than int (shared with C17)", 4, ruleC17_15, "")
}

// R-C17-14 ------------------------------------------------------------------------------------------------------------

func ruleC17_14(c *Ctx) {
	const R = "R-C17-14"
	f := c.lookup("in_toto.scanChunk")
	if f == nil {
		c.undecided(R, "in_toto.scanChunk", "anchor", 0, "not found")
		return
	}
	fn := fname(f)
	// the branch taken for '*' tests the state
	n := 0
	for _, b := range f.Blocks {
		for _, in := range b.Instrs {
			bo, ok := in.(*ssa.BinOp)
			if !ok || (bo.Op != token.EQL && bo.Op != token.NEQ) {
				continue
			}
			ch, ok := byteConst(bo.Y)
			if !ok {
				ch, ok = byteConst(bo.X)
			}
			if !ok || ch != '*' {
				continue
			}
			if innermostLoopHeader(bo.Block()) == nil {
				continue // the leading-star loop
			}
			for _, cu := range condUsers(bo, false) {
				taken := branchTaken(cu, bo.Op == token.EQL)
				ifi, isIf := taken.Instrs[len(taken.Instrs)-1].(*ssa.If)
				if !isIf {
					continue
				}
				// peel !x, x == k, x > k ... down to the state value
				var state *ssa.Phi
				v := ifi.Cond
				for i := 0; i < 4 && state == nil; i++ {
					switch x := v.(type) {
					case *ssa.UnOp:
						v = x.X
					case *ssa.BinOp:
						if _, isK := x.Y.(*ssa.Const); isK {
							v = x.X
						} else if _, isK := x.X.(*ssa.Const); isK {
							v = x.Y
						} else {
							i = 4
						}
					case *ssa.Phi:
						state = x
					default:
						i = 4
					}
				}
				if state == nil {
					c.undecided(R, fn, "in-class state", ifi.Cond.Pos(), "the condition tested at '*' is not a test of one loop-carried value: "+short(org(ifi.Cond)))
					n++
					continue
				}
				n++
				consts := map[string]bool{}
				var offenders []string
				seen := map[ssa.Value]bool{}
				var walk func(v ssa.Value)
				walk = func(v ssa.Value) {
					if seen[v] {
						return
					}
					seen[v] = true
					switch x := v.(type) {
					case *ssa.Phi:
						for _, e := range x.Edges {
							walk(e)
						}
					case *ssa.Const:
						if x.Value != nil {
							consts[x.Value.ExactString()] = true
						}
					default:
						offenders = append(offenders, short(org(v))+" at "+c.pos(v.Pos()))
					}
				}
				walk(state)
				sort.Strings(offenders)
				switch {
				case len(offenders) > 0:
					c.bad(R, fn, "in-class state", state.Pos(), fmt.Sprintf("the state tested at '*' is computed from its previous value (%s): character classes do not nest, a '[' inside a class (\"[[]\") leaves the state 'inside' after the class has closed and every later '*' of the pattern is taken literally", offenders[0]))
				case len(consts) != 2:
					c.bad(R, fn, "in-class state", state.Pos(), fmt.Sprintf("the state tested at '*' takes %d constant value(s), expected two (inside / outside a class)", len(consts)))
				default:
					c.ok(R, fn, "in-class state", state.Pos(), "two constant values, set at '[' and ']'")
				}
			}
		}
	}
	if n == 0 {
		c.undecided(R, fn, "in-class state", f.Pos(), "no state test in the branch taken for '*' found")
	}
}

// R-C17-15 ------------------------------------------------------------------------------------------------------------

func ruleC17_15(c *Ctx) {
	const R = "R-C17-15"
	n := 0
	for _, pk := range []string{"in_toto", "internal/spiffe", "cmd"} {
		fs := c.srcFuncs(pk)
		sort.Slice(fs, func(i, j int) bool { return fname(fs[i]) < fname(fs[j]) })
		for _, f := range fs {
			k := 0
			for _, b := range f.Blocks {
				for _, in := range b.Instrs {
					ph, ok := in.(*ssa.Phi)
					if !ok {
						break
					}
					bt, ok := ph.Type().Underlying().(*types.Basic)
					if !ok || bt.Info()&types.IsInteger == 0 {
						continue
					}
					// loop-carried and stepped by a constant
					stepped := false
					for i, e := range ph.Edges {
						if !b.Dominates(b.Preds[i]) {
							continue
						}
						seen := map[ssa.Value]bool{}
						var has func(v ssa.Value) bool
						has = func(v ssa.Value) bool {
							if seen[v] {
								return false
							}
							seen[v] = true
							switch x := v.(type) {
							case *ssa.BinOp:
								if x.Op == token.ADD || x.Op == token.SUB {
									if _, isK := x.Y.(*ssa.Const); isK && (x.X == ssa.Value(ph) || has(x.X)) {
										return true
									}
								}
							case *ssa.Phi:
								if x == ph {
									return false
								}
								for _, e2 := range x.Edges {
									if has(e2) {
										return true
									}
								}
							}
							return false
						}
						if has(e) {
							stepped = true
						}
					}
					if !stepped {
						continue
					}
					n++
					k++
					what := fmt.Sprintf("counter #%d (%s)", k, bt.Name())
					if ph.Comment != "" {
						what = fmt.Sprintf("counter %s #%d (%s)", ph.Comment, k, bt.Name())
					}
					narrow := false
					switch bt.Kind() {
					case types.Int8, types.Uint8, types.Int16, types.Uint16:
						narrow = true
					}
					c.check(!narrow, R, fname(f), what, ph.Pos(), "at least 32 bits wide",
						"a loop counter of type "+bt.Name()+" wraps around after "+map[bool]string{true: "256", false: "65536"}[bt.Kind() == types.Int8 || bt.Kind() == types.Uint8]+" steps: input with that many elements (class members, characters, entries) is judged as if it had none")
				}
			}
		}
	}
	if n == 0 {
		c.undecided(R, "in_toto", "counters", 0, "no loop-carried integer counter found (matchChunk counts the ranges of a class)")
	}
}
