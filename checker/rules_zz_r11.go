package main

import (
	"fmt"
	"go/types"
	"strings"

	"golang.org/x/tools/go/ssa"
)

// Rules added for the round-11 seeded changes ("needs a multi-step history to show").

func init() {
	share := func(prop, id, doc string, min int, run func(*Ctx), expl string) {
		if p := registry[prop]; p != nil {
			p.Rules = append(p.Rules, Rule{ID: id, Doc: doc, Min: min, Run: run})
			if expl != "" {
				p.Explanation += " " + expl
			}
		}
	}
	// the library keeps no state between calls: every property that quantifies over sequences of calls (load twice,
	// verify twice, validate one layout after another) needs it
	r161 := ruleC16_1()
	for _, pid := range []string{"C01", "C02", "C03", "C04", "C05", "C06", "C07", "C08", "C09", "C11", "C12", "C14", "C15", "C17", "C18", "C19"} {
		share(pid, "R-C16-1", "the library keeps no state between calls (shared with C16)", r161.Min, r161.Run, "(R-C16-1, shared with C16) no package-level variable of in_toto / internal/spiffe is written or written through outside initialisation (sync.Map / Pool / Mutex / Once / atomics and channels included): what a call yields is a function of its arguments and the file system, not of what an earlier call left in a cache, a memo or a pool.")
	}
	share("C08", "R-C06-2", "the expiry check compares with a fresh clock reading (shared with C06)", 5, ruleC06_2, "(R-C06-2, shared with C06) a sublayout's expiry is compared with time.Now() read by that very check, not with an instant kept from somewhere else.")
	share("C19", "R-C19-9", "every load derives the key id from the loaded material", 1, ruleC19_9, "(R-C19-9) every success return of setKeyComponents lies behind a successful generateKeyID() of the receiver, and every store into KeyID is the hex SHA-256 of the canonical description: an id the object carried before a load never survives it.")
	share("C01", "R-C19-9", "every load derives the key id from the loaded material (shared with C19)", 1, ruleC19_9, "(R-C19-9, shared with C19) a verification key loaded into a reused Key object gets the id of its own material, so two keys loaded one after the other cannot end up under one id in the key map.")
	share("C15", "R-C15-9", "no method call on the interface result of a map lookup unless the key is known to be present", 3, ruleC15_9, "(R-C15-9) an interface value obtained by looking a key up in a map is called only where the lookup was a checked comma-ok, the value was tested against nil, or the key comes from the key set of that same map in the same iteration: a missing key yields a nil interface, and calling it panics.")
}

// R-C19-9 -------------------------------------------------------------------------------------------------------------

func ruleC19_9(c *Ctx) {
	const R = "R-C19-9"
	f := c.lookup("(*in_toto.Key).setKeyComponents")
	g := c.lookup("(*in_toto.Key).generateKeyID")
	if f == nil || g == nil {
		c.undecided(R, "(*in_toto.Key).setKeyComponents", "anchors", 0, "setKeyComponents / generateKeyID not found")
		return
	}
	fn := fname(f)
	var gid ssa.CallInstruction
	for _, call := range callsIn(f, "(*in_toto.Key).generateKeyID") {
		if org(call.Common().Args[0]) == "p0" {
			gid = call
		}
	}
	if gid == nil {
		c.bad(R, fn, "generateKeyID()", f.Pos(), "setKeyComponents does not generate the key id of the receiver")
		return
	}
	for _, r := range c.nilErrReturnsOrForwarded(f) {
		pc, _ := producer(r.Results[errIndex(f)], r)
		okv := c.okCallAt(gid, r.Block()) || pc == gid
		c.check(okv, R, fn, "success return behind generateKeyID()", instrPos(r), "the id is derived on every successful load",
			"setKeyComponents can succeed without generating the key id (the call is conditional): a Key object that already carries an id keeps it when other key material is loaded into it, so the id no longer identifies the material")
	}
	// every store into KeyID inside generateKeyID is the hex digest
	n := 0
	for _, b := range g.Blocks {
		for _, in := range b.Instrs {
			st, ok := in.(*ssa.Store)
			if !ok || org(st.Addr) != "p0.KeyID" {
				continue
			}
			n++
			okHex := false
			if hx, ok := isResultOf(st.Val, st, 0, "encoding/hex.EncodeToString"); ok {
				okHex = derives(hx.Common().Args[0], func(v ssa.Value) bool { k, ok := v.(*ssa.Call); return ok && calleeName(k) == "crypto/sha256.Sum256" }, false)
			}
			if sf, ok := isResultOf(st.Val, st, 0, "fmt.Sprintf"); ok {
				okHex = derives(sf.Common().Args[1], func(v ssa.Value) bool { k, ok := v.(*ssa.Call); return ok && calleeName(k) == "crypto/sha256.Sum256" }, false)
			}
			c.check(okHex, R, fname(g), "store into KeyID", st.Pos(), "hex(sha256(canonical description))", "KeyID is set to "+short(org(st.Val))+", which is not the digest computed in this call (a remembered id is only as good as the key it was remembered under)")
		}
	}
	if n == 0 {
		c.bad(R, fname(g), "store into KeyID", g.Pos(), "generateKeyID never stores the id")
	}
}

// R-C15-9 -------------------------------------------------------------------------------------------------------------

func ruleC15_9(c *Ctx) {
	const R = "R-C15-9"
	var roots []*ssa.Function
	for _, e := range c.entryPoints() {
		roots = append(roots, e.f)
	}
	for _, n := range []string{"in_toto.LoadMetadata", "in_toto.ValidateMetablock"} {
		if f := c.lookup(n); f != nil {
			roots = append(roots, f)
		}
	}
	if len(roots) < 3 {
		c.undecided(R, "in_toto", "anchors", 0, "entry points not found")
		return
	}
	var fs []*ssa.Function
	for f := range reachable(c.CG, roots...) {
		if f.Blocks != nil && f.Pkg == c.pkg("in_toto") {
			fs = append(fs, f)
		}
	}
	sortFuncs(fs)
	n := 0
	for _, f := range fs {
		for _, call := range allCalls(f) {
			cc := call.Common()
			if !cc.IsInvoke() {
				continue
			}
			recv := resolve(cc.Value, call)
			var lk *ssa.Lookup
			commaOK := false
			switch x := recv.(type) {
			case *ssa.Lookup:
				lk = x
			case *ssa.Extract:
				if l, ok := x.Tuple.(*ssa.Lookup); ok && x.Index == 0 {
					lk, commaOK = l, true
				}
			}
			if lk == nil {
				continue
			}
			if _, isMap := lk.X.Type().Underlying().(*types.Map); !isMap {
				continue
			}
			n++
			what := "call of " + cc.Method.Name() + " on " + short(org(lk))
			// (a) comma-ok known true, (b) nil test, (c) key from the key set of the same map
			if commaOK {
				if okv := extractOf(lk, 1); okv != nil && c.condAt(okv, true, call.Block()) {
					c.ok(R, fname(f), what, call.Pos(), "comma-ok lookup known to have found the key")
					continue
				}
			}
			if c.nonNilAt(recv, call.Block()) {
				c.ok(R, fname(f), what, call.Pos(), "value tested against nil")
				continue
			}
			m := resolve(lk.X, lk)
			key := resolve(lk.Index, lk)
			if km, _ := rangeKeyOf(key); km != nil && resolve(km, nil) == m {
				c.ok(R, fname(f), what, call.Pos(), "key is the range key of the same map")
				continue
			}
			if em := c.elemOfKeys(key, lk); em != nil && em == m {
				c.ok(R, fname(f), what, call.Pos(), "key is an element of the key list of the same map")
				continue
			}
			// keyList[const] of a key list of the same map built in this iteration
			okList := false
			var listV ssa.Value
			switch kx := key.(type) {
			case *ssa.UnOp:
				if ia, ok := kx.X.(*ssa.IndexAddr); ok {
					listV = ia.X
				}
			case *ssa.Index:
				listV = kx.X
			}
			// an element of a sub-slice of the key list is still one of the keys
			for listV != nil {
				sl, ok := listV.(*ssa.Slice)
				if !ok {
					break
				}
				listV = sl.X
			}
			if listV != nil {
				if lm := c.keysOfMap(listV, lk); lm != nil && lm == m {
					okList = true
				}
			}
			// the key is the least (greatest) key of the same, non-empty map, picked by a min-scan helper; in the function
			// itself or handed to an unexported helper together with the map by every caller
			if c.selectedKeyOf(f, key, m, call.Block()) {
				c.ok(R, fname(f), what, call.Pos(), "key is the minimum / maximum key of the same map, which is non-empty here")
				continue
			}
			if okList {
				c.ok(R, fname(f), what, call.Pos(), "key is taken from the key list of the same map")
				continue
			}
			// reviewed: the map is the result of a pipeline stage that stores an entry for every step of the layout or fails
			if reason, ok := c15LookupInvariant[fname(f)]; ok {
				if prm, isP := m.(*ssa.Parameter); isP && c.onlyFedBy(f, paramIndex(prm), "in_toto.ReduceStepsMetadata") {
					c.ok(R, fname(f), what, call.Pos(), "reviewed: "+reason+" [every module caller passes the result of ReduceStepsMetadata]")
					continue
				}
			}
			c.bad(R, fname(f), what, call.Pos(), "the receiver is the result of a map lookup whose key is not known to be in the map (no comma-ok, no nil test, and the key does not provably come from this map's own keys, e.g. a key list that is not rebuilt for this map): a missing key yields a nil interface and the call panics")
		}
	}
	c.ok(R, "in_toto", "interface calls on map lookups", 0, fmt.Sprintf("%d sites in %d functions", n, len(fs)))
	_ = strings.TrimSpace
}

// reviewed lookups whose key is present by a pipeline invariant: function -> reason
var c15LookupInvariant = map[string]string{
	"in_toto.GetSummaryLink": "the reduced map has an entry for every step of the layout: ReduceStepsMetadata stores one per step and panics / fails for a step without links, and the threshold check before it fails every step without a verified link",
}

// onlyFedBy: every call of f inside the module passes, as argument i, result 0 of a call of the named producer.
func (c *Ctx) onlyFedBy(f *ssa.Function, i int, producerName string) bool {
	return c.onlyFedByD(f, i, producerName, 0)
}

func (c *Ctx) onlyFedByD(f *ssa.Function, i int, producerName string, depth int) bool {
	node := c.CG.Nodes[f]
	if node == nil || depth > 3 {
		return false
	}
	n := 0
	for _, e := range node.In {
		site := e.Site
		if site == nil || e.Caller.Func.Pkg == nil || !strings.HasPrefix(e.Caller.Func.Pkg.Pkg.Path(), modPath) {
			continue
		}
		args := callArgs(site)
		if i >= len(args) {
			return false
		}
		av := resolve(args[i], site)
		// handed through by an unexported helper: its own parameter, fed the same way by all of its callers
		if prm, isP := av.(*ssa.Parameter); isP && prm.Parent() == e.Caller.Func && c.isStageHelper(e.Caller.Func) {
			if !c.onlyFedByD(e.Caller.Func, paramIndex(prm), producerName, depth+1) {
				return false
			}
			n++
			continue
		}
		pc, idx := producer(av, site)
		if pc == nil || idx != 0 || calleeName(pc) != producerName {
			// the result of a helper that hands back the named producer's result unchanged
			if dn, di := c.deepProducer(av, site); dn != producerName || di != 0 {
				return false
			}
		}
		n++
	}
	return n > 0
}

// isKeySelector: g(m) returns the result of a minimum / maximum scan over the keys of its map parameter (minScanShape).
func isKeySelector(g *ssa.Function) bool {
	if g == nil || g.Blocks == nil || len(g.Params) != 1 || g.Signature.Results().Len() != 1 {
		return false
	}
	mls := mapLoops(g)
	if len(mls) != 1 || mls[0].rng.X != ssa.Value(g.Params[0]) {
		return false
	}
	for _, r := range returnsOf(g) {
		ok := false
		ph, isPhi := r.Results[0].(*ssa.Phi)
		if isPhi && ph.Block() == mls[0].header {
			if _, shape := minScanShape(mls[0], ph); shape {
				// the element scanned is the key
				ok = true
				for _, e := range ph.Edges {
					if e == mls[0].val && mls[0].val != nil {
						ok = false
					}
				}
			}
		}
		if !ok {
			return false
		}
	}
	return true
}

// selectedKeyOf: key is selector(m) for a key selector, and m is non-empty at blk (inside a range over m, or by length
// facts); or key and m are parameters of the unexported function f and every module caller passes such a pair.
func (c *Ctx) selectedKeyOf(f *ssa.Function, key, m ssa.Value, blk *ssa.BasicBlock) bool {
	nonEmpty := func(g *ssa.Function, mv ssa.Value, b *ssa.BasicBlock) bool {
		for _, ml := range mapLoops(g) {
			if resolve(ml.rng.X, nil) == mv && ml.body[b] && b != ml.header {
				return true
			}
		}
		return c.lenFactsExclude(g, mv, 1, b)
	}
	direct := func(k, mv ssa.Value) bool {
		call, ok := k.(*ssa.Call)
		return ok && isKeySelector(call.Call.StaticCallee()) && len(call.Call.Args) == 1 && resolve(call.Call.Args[0], call) == mv
	}
	if direct(key, m) && nonEmpty(f, m, blk) {
		return true
	}
	kp, ok1 := key.(*ssa.Parameter)
	mp, ok2 := m.(*ssa.Parameter)
	if !ok1 || !ok2 || f.Object() == nil || f.Object().Exported() || !nonEmpty(f, m, blk) {
		return false
	}
	node := c.CG.Nodes[f]
	if node == nil || len(node.In) == 0 {
		return false
	}
	for _, e := range node.In {
		cs := e.Site
		if cs == nil || cs.Common().StaticCallee() != f {
			return false
		}
		args := cs.Common().Args
		ki, mi := paramIndex(kp), paramIndex(mp)
		if ki >= len(args) || mi >= len(args) || !direct(resolve(args[ki], cs), resolve(args[mi], cs)) {
			return false
		}
	}
	return true
}
