package main

import (
	"fmt"
	"go/token"
	"go/types"
	"regexp/syntax"
	"sort"
	"strings"

	"golang.org/x/tools/go/ssa"
)

// A3 — independence of Go map iteration order (DESIGN §3 A3).
// For every `range` over a map in a function in scope the loop is classified; order can leak through
//  (1) loop-carried control state, (2) an early exit carrying an element, (3) order-dependent accumulation,
//  (4) writes to the ranged map that add keys.

type mapLoop struct {
	f      *ssa.Function
	rng    *ssa.Range
	next   *ssa.Next
	header *ssa.BasicBlock
	body   map[*ssa.BasicBlock]bool
	key    ssa.Value
	val    ssa.Value
}

func mapLoops(f *ssa.Function) []*mapLoop {
	var out []*mapLoop
	for _, b := range f.Blocks {
		for _, in := range b.Instrs {
			rg, ok := in.(*ssa.Range)
			if !ok {
				continue
			}
			if _, isMap := rg.X.Type().Underlying().(*types.Map); !isMap {
				continue
			}
			for _, r := range *rg.Referrers() {
				nx, ok := r.(*ssa.Next)
				if !ok {
					continue
				}
				l := &mapLoop{f: f, rng: rg, next: nx, header: nx.Block(), body: map[*ssa.BasicBlock]bool{}}
				// body = header + everything dominated by the ok-true successor of the Next test
				// (this also covers degenerate loops whose body always breaks)
				l.body[l.header] = true
				if okv := extractOf(nx, 0); okv != nil {
					for _, cu := range condUsers(okv, false) {
						entry := branchTaken(cu, true)
						if len(entry.Preds) == 1 {
							for _, x := range f.Blocks {
								if x == entry || entry.Dominates(x) {
									l.body[x] = true
								}
							}
						}
					}
				}
				// natural loop of every back edge into the header
				for _, pb := range l.header.Preds {
					if !l.header.Dominates(pb) {
						continue
					}
					stack := []*ssa.BasicBlock{pb}
					for len(stack) > 0 {
						x := stack[len(stack)-1]
						stack = stack[:len(stack)-1]
						if l.body[x] {
							continue
						}
						l.body[x] = true
						stack = append(stack, x.Preds...)
					}
				}
				l.key, l.val = extractOf(nx, 1), extractOf(nx, 2)
				out = append(out, l)
			}
		}
	}
	return out
}

func (l *mapLoop) fromIter(v ssa.Value) bool {
	return derives(v, func(x ssa.Value) bool { return x == ssa.Value(l.next) }, true)
}

// reviewed accumulation instances: function -> reason (the accumulated slice is order-insensitively consumed)
var a3AccumTable = map[string]string{
	"(in_toto.Set).Slice":                     "documented as unordered; on verification paths its result only reaches fmt arguments (checked by the rule: callers' uses)",
	"in_toto.artifactsDictKeyStrings":         "documented as unordered; VerifyArtifacts only adds the elements to a Set (order-insensitive)",
	"(*in_toto.Layout).RootCAIDs":             "flows into checkCertConstraint whose verdict is set-based (NewSet + membership)",
	"in_toto.SubstituteParameters":            "feeds strings.NewReplacer; order matters only if one old string is a prefix of another, excluded by the checked facts (R-C18-3: names match ^[a-zA-Z0-9_-]+$, old = \"{\"+name+\"}\")",
	"in_toto.InTotoMatchProducts":             "three result slices documented as unordered name lists",
	"in_toto.getSupportedKeyIDHashAlgorithms": "",
}

// reviewed (4) instances
var a3MapWriteTable = map[string]string{
	"in_toto.verifyMatchRule": "new key is path.Clean(k) stored under the guard path.Clean(k) != k; Clean is idempotent, so a re-visited new key is skipped",
}

type a3Finding struct {
	kind   string // "" = ok
	what   string
	detail string
	pos    ssa.Instruction
	status string // ok | bad | undecided
}

// reviewed insertions under a computed key: function -> {key transform, reason it is injective on the ranged keys}
var a3DerivedKeyTable = map[string][2]string{
	"in_toto.RecordArtifacts":   {"path/filepath.ToSlash", "the keys are results of one filepath.Walk in the native, cleaned spelling; exchanging the separator maps distinct walk results to distinct names"},
	"in_toto.recordArtifacts$1": {"path/filepath.Join", "the keys are the cleaned walk results below one symlink target; re-rooting them at the symlink's own path keeps distinct results distinct (a collision with an existing entry is reported by R-C13-3's collision check at the caller)"},
}

func (c *Ctx) a3Loop(l *mapLoop) []a3Finding {
	var out []a3Finding
	fn := fname(l.f)
	inBody := func(in ssa.Instruction) bool { return l.body[in.Block()] }
	// (1) + (3): phis in the header
	for _, in := range l.header.Instrs {
		ph, ok := in.(*ssa.Phi)
		if !ok {
			continue
		}
		name := ph.Comment
		if name == "" {
			name = ph.Name()
		}
		// aliases: phis inside the loop fed by ph
		aliases := map[ssa.Value]bool{ph: true}
		changed := true
		for changed {
			changed = false
			for b := range l.body {
				for _, x := range b.Instrs {
					if p2, ok := x.(*ssa.Phi); ok && !aliases[p2] {
						for _, e := range p2.Edges {
							if aliases[e] {
								aliases[p2] = true
								changed = true
							}
						}
					}
				}
			}
		}
		readInLoopAsCond := false
		for a := range aliases {
			for _, cu := range condUsers(a, false) {
				if inBody(cu.If) {
					readInLoopAsCond = true
				}
			}
			// comparisons on the alias used as conditions inside the loop
			if refs := a.Referrers(); refs != nil {
				for _, r := range *refs {
					if bo, ok := r.(*ssa.BinOp); ok && inBody(bo) {
						for _, cu := range condUsers(bo, false) {
							if inBody(cu.If) {
								readInLoopAsCond = true
							}
						}
					}
				}
			}
		}
		if why := minScanRole(l, ph); why != "" {
			out = append(out, a3Finding{"", "loop-carried " + name, why, ph, "ok"})
			continue
		}
		t := ph.Type().Underlying()
		switch {
		case isErrorType(ph.Type()):
			// allowed when it only feeds error text
			only := true
			for a := range aliases {
				if !onlyFmtUses(a, aliases) {
					only = false
				}
			}
			if only {
				out = append(out, a3Finding{"", "loop-carried error " + name, "only reaches fmt arguments (which error text is reported may vary, the verdict does not)", ph, "ok"})
			} else if readInLoopAsCond {
				out = append(out, a3Finding{"A3.1", "loop-carried error " + name, "error carried across iterations of a map range is tested inside the loop", ph, "bad"})
			} else {
				out = append(out, a3Finding{"A3.1", "loop-carried error " + name, "last error of an unordered iteration is used after the loop", ph, "undecided"})
			}
		case isBool(t):
			if readInLoopAsCond {
				out = append(out, a3Finding{"A3.1", "loop-carried flag " + name, "a flag set in one iteration of a range over a Go map is read in later iterations: the outcome depends on the (randomised) iteration order", ph, "bad"})
			} else {
				// monotone: every value that flows back is the flag itself or one and the same constant (or flag || x)
				monotone := true
				consts := map[string]bool{}
				offender := ""
				seenV := map[ssa.Value]bool{}
				var walk func(v ssa.Value)
				walk = func(v ssa.Value) {
					if seenV[v] {
						return
					}
					seenV[v] = true
					switch x := v.(type) {
					case *ssa.Phi:
						if x == ph {
							return
						}
						if aliases[x] || l.body[x.Block()] {
							for _, e := range x.Edges {
								walk(e)
							}
							return
						}
						monotone, offender = false, short(org(x))
					case *ssa.Const:
						if x.Value != nil {
							consts[x.Value.String()] = true
						}
					case *ssa.BinOp:
						if (x.Op == token.OR || x.Op == token.LOR || x.Op == token.AND || x.Op == token.LAND) && (aliases[x.X] || aliases[x.Y]) {
							return
						}
						monotone, offender = false, short(org(x))
					default:
						monotone, offender = false, short(org(v))
					}
				}
				for i, e := range ph.Edges {
					if l.header.Dominates(l.header.Preds[i]) || l.body[l.header.Preds[i]] && l.header.Preds[i] != l.header {
						walk(e)
					}
				}
				if len(consts) > 1 {
					monotone, offender = false, "both true and false"
				}
				if monotone {
					out = append(out, a3Finding{"", "loop-carried flag " + name, "monotone flag, only read after the loop", ph, "ok"})
				} else {
					out = append(out, a3Finding{"A3.1", "loop-carried flag " + name, "the flag is overwritten in every iteration (" + offender + "): after a range over a Go map it holds the outcome of whichever element happened to be visited last", ph, "bad"})
				}
			}
		case isSlice(t):
			reason, listed := a3AccumTable[fn]
			replacerFn := fn == "in_toto.SubstituteParameters"
			if !listed && c.isOrServesOnly(l.f, "in_toto.SubstituteParameters") && len(callsIn(l.f, "strings.NewReplacer")) > 0 {
				// the replacer construction split off into a helper of SubstituteParameters
				reason, listed, replacerFn = a3AccumTable["in_toto.SubstituteParameters"], true, true
			}
			sorted := c.sortedBeforeUse(l, ph, aliases)
			switch {
			case sorted:
				out = append(out, a3Finding{"", "accumulated slice " + name, "sorted (sort.Strings / sort.Slice / slices.Sort) before any other use after the loop", ph, "ok"})
			case listed:
				extra := ""
				if replacerFn {
					if ok, why := c.replacerPrefixFree(l); !ok {
						out = append(out, a3Finding{"A3.3", "accumulated slice " + name, "strings.NewReplacer argument order depends on map order and the prefix-freeness facts do not hold: " + why, ph, "bad"})
						continue
					} else {
						extra = " [facts checked: " + why + "]"
					}
				}
				out = append(out, a3Finding{"", "accumulated slice " + name, "reviewed: " + reason + extra, ph, "ok"})
			case c.resultOnlyFeedsSets(l, ph):
				out = append(out, a3Finding{"", "accumulated slice " + name, "only returned, by an unexported helper whose every call site hands the result straight to NewSet (a set has no order)", ph, "ok"})
			default:
				out = append(out, a3Finding{"A3.3", "accumulated slice " + name, "elements are appended in map iteration order and the slice is used after the loop without sorting; no reviewed order-insensitive consumer", ph, "bad"})
			}
		case isInt(t):
			// counter: phi = [const, phi+const]
			counter := true
			for _, e := range ph.Edges {
				if _, ok := e.(*ssa.Const); ok {
					continue
				}
				if bo, ok := e.(*ssa.BinOp); ok && aliases[bo.X] {
					if _, ok := bo.Y.(*ssa.Const); ok {
						continue
					}
				}
				counter = false
			}
			if counter && !readInLoopAsCond {
				// used as index of stores into a slice => accumulation in iteration order
				idxStore := false
				for a := range aliases {
					for _, r := range *a.Referrers() {
						if ia, ok := r.(*ssa.IndexAddr); ok && inBody(ia) {
							idxStore = true
						}
					}
				}
				if idxStore {
					if reason, listed := a3AccumTable[fn]; listed {
						out = append(out, a3Finding{"", "indexed accumulation via counter " + name, "reviewed: " + reason, ph, "ok"})
					} else {
						out = append(out, a3Finding{"A3.3", "indexed accumulation via counter " + name, "elements stored in map iteration order; no reviewed order-insensitive consumer", ph, "bad"})
					}
				} else {
					out = append(out, a3Finding{"", "counter " + name, "order-insensitive count", ph, "ok"})
				}
			} else {
				out = append(out, a3Finding{"A3.1", "loop-carried integer " + name, "not a plain counter", ph, "undecided"})
			}
		default:
			out = append(out, a3Finding{"A3.1", "loop-carried value " + name + " (" + ph.Type().String() + ")", "value carried across iterations of a map range; not a recognised order-insensitive idiom", ph, "undecided"})
		}
	}
	// (2) early exits carrying an element
	for b := range l.body {
		for _, s := range b.Succs {
			if l.body[s] {
				continue
			}
			if b == l.header {
				continue // regular exhaustion edge
			}
			// a break: phis in s whose edge from b derives from the iteration variables
			for _, in := range s.Instrs {
				ph, ok := in.(*ssa.Phi)
				if !ok {
					break
				}
				for i, pb := range s.Preds {
					if pb == b && l.fromIter(ph.Edges[i]) {
						out = append(out, a3Finding{"A3.2", "early exit carrying " + phName(ph), "an element picked by `break` out of a range over a Go map is used after the loop: which element is picked depends on the iteration order", ph, "bad"})
					}
				}
			}
		}
		// returns inside the loop with possibly nil error and an element-derived result
		if len(b.Instrs) > 0 {
			if r, ok := b.Instrs[len(b.Instrs)-1].(*ssa.Return); ok {
				ei := errIndex(l.f)
				mayNil := ei < 0 || c.mayBeNilErr(r.Results[ei], b, 0)
				if mayNil {
					for i, rv := range r.Results {
						if i == ei {
							continue
						}
						if _, isConst := rv.(*ssa.Const); isConst {
							continue
						}
						if l.fromIter(rv) && hasRefsOrString(rv.Type()) {
							out = append(out, a3Finding{"A3.2", "return of an arbitrary element", "a value derived from the iteration variables is returned from inside a range over a Go map", r, "bad"})
						}
					}
				}
			}
		}
	}
	// (5) early non-failing exit from a loop that accumulates: which elements were processed depends on the order
	accumulates := false
	for b := range l.body {
		for _, in := range b.Instrs {
			switch x := in.(type) {
			case *ssa.MapUpdate:
				if resolve(x.Map, x) != resolve(l.rng.X, l.rng) {
					accumulates = true
				}
			case ssa.CallInstruction:
				n := calleeName(x)
				if n == "(in_toto.Set).Add" || n == "builtin:append" {
					accumulates = true
				}
			}
		}
	}
	if accumulates {
		for b := range l.body {
			if b == l.header {
				continue
			}
			for _, s := range b.Succs {
				if l.body[s] {
					continue
				}
				// leaving the loop before exhaustion; fine if that path inevitably fails (error return)
				if c.failing(s) {
					continue
				}
				// degenerate single-iteration picks are reported by (2)
				carried := false
				for _, in := range s.Instrs {
					if ph, ok := in.(*ssa.Phi); ok {
						for i, pb := range s.Preds {
							if pb == b && l.fromIter(ph.Edges[i]) {
								carried = true
							}
						}
					}
				}
				if carried {
					continue
				}
				out = append(out, a3Finding{"A3.5", "early exit from an accumulating loop", "the loop over a Go map stores/collects per element and can be left before all elements were visited without failing: which elements are processed depends on the iteration order", b.Instrs[len(b.Instrs)-1], "bad"})
			}
		}
	}
	// (1b) state kept in an address-taken variable (captured by a closure, e.g. the less function of a later
	// sort.Slice): go/ssa keeps it in memory, so it does not show up as a header phi
	seenAlloc := map[*ssa.Alloc]bool{}
	for b := range l.body {
		for _, in := range b.Instrs {
			st, ok := in.(*ssa.Store)
			if !ok {
				continue
			}
			al, ok := st.Addr.(*ssa.Alloc)
			if !ok || l.body[al.Block()] || seenAlloc[al] {
				continue
			}
			selfUpdate := derives(st.Val, func(v ssa.Value) bool {
				u, ok := v.(*ssa.UnOp)
				return ok && u.Op == token.MUL && u.X == ssa.Value(al)
			}, false)
			if !selfUpdate && !l.fromIter(st.Val) {
				continue
			}
			seenAlloc[al] = true
			name := al.Comment
			pt, _ := al.Type().Underlying().(*types.Pointer)
			if pt == nil {
				continue
			}
			if isSlice(pt.Elem().Underlying()) {
				// sorted before any other use after the loop?
				var sortCall ssa.CallInstruction
				var others []ssa.Instruction
				for _, r := range *al.Referrers() {
					ld, ok := r.(*ssa.UnOp)
					if !ok || l.body[ld.Block()] {
						continue
					}
					for _, u := range *ld.Referrers() {
						var call ssa.CallInstruction
						switch x := u.(type) {
						case ssa.CallInstruction:
							call = x
						case *ssa.MakeInterface:
							for _, uu := range *x.Referrers() {
								if k, ok := uu.(ssa.CallInstruction); ok {
									call = k
								}
							}
						}
						if call != nil {
							n := calleeName(call)
							if (n == "sort.Strings" || n == "sort.Slice" || n == "sort.SliceStable" || strings.HasPrefix(n, "slices.Sort")) && validLessArg(call) {
								sortCall = call
								continue
							}
						}
						if _, isDbg := u.(*ssa.DebugRef); isDbg {
							continue
						}
						others = append(others, u)
					}
				}
				sorted := sortCall != nil
				for _, o := range others {
					if sortCall != nil && !instrDominates(sortCall, o) {
						sorted = false
					}
				}
				if sorted {
					out = append(out, a3Finding{"", "accumulated slice " + name + " (in memory)", "sorted with a comparison of both elements before any other use after the loop", st, "ok"})
				} else if reason, listed := a3AccumTable[fn]; listed {
					out = append(out, a3Finding{"", "accumulated slice " + name + " (in memory)", "reviewed: " + reason, st, "ok"})
				} else {
					why := "elements are appended in map iteration order and the slice is used after the loop without a valid sort"
					if sortCall == nil {
						for _, r := range *al.Referrers() {
							_ = r
						}
						why += " (a sort whose comparison function does not compare its two elements with each other leaves the order as it is)"
					}
					out = append(out, a3Finding{"A3.3", "accumulated slice " + name + " (in memory)", why, st, "bad"})
				}
			} else {
				out = append(out, a3Finding{"A3.1", "loop-carried variable " + name + " (in memory)", "a variable that lives in memory is updated from its own value or from the current element in a range over a Go map", st, "undecided"})
			}
		}
	}
	// (4) writes to the ranged map that may add keys
	for b := range l.body {
		for _, in := range b.Instrs {
			mu, ok := in.(*ssa.MapUpdate)
			if !ok || resolve(mu.Map, mu) != resolve(l.rng.X, l.rng) {
				continue
			}
			if resolve(mu.Key, mu) == l.key {
				out = append(out, a3Finding{"", "update of the current key of the ranged map", "existing key, no new key is added", mu, "ok"})
				continue
			}
			// reviewed idiom, wherever it is written: the new key is path.Clean(k), stored under the guard path.Clean(k) != k;
			// Clean is idempotent, so a re-visited new key is skipped and the outcome does not depend on the order
			if c.cleanGuard(l, mu) {
				out = append(out, a3Finding{"", "insertion into the ranged map", "reviewed idiom: " + a3MapWriteTable["in_toto.verifyMatchRule"] + " [guard checked]", mu, "ok"})
				continue
			}
			if _, ok := a3MapWriteTable[fn]; ok {
				out = append(out, a3Finding{"A3.4", "insertion into the ranged map", "the reviewed guard (path.Clean(k) != k, new key = path.Clean(k)) was not found", mu, "bad"})
				continue
			}
			out = append(out, a3Finding{"A3.4", "insertion into the ranged map", "a key other than the current one is stored into the map being iterated: Go may or may not visit it", mu, "bad"})
		}
	}
	// (7) a map created outside the loop that is filled inside the loop AND read inside the loop (looked up, ranged
	// over, handed to a call): what an iteration sees depends on which elements were visited before it
	for b := range l.body {
		for _, in := range b.Instrs {
			mu, ok := in.(*ssa.MapUpdate)
			if !ok {
				continue
			}
			mk, isMk := resolve(mu.Map, mu).(*ssa.MakeMap)
			if !isMk || (l.body[mk.Block()] && mk.Block() != l.header) || !l.fromIter(mu.Key) && !l.fromIter(mu.Value) {
				continue
			}
			readAt := ssa.Instruction(nil)
			for _, r := range *mk.Referrers() {
				if !inBody(r) {
					continue
				}
				switch x := r.(type) {
				case *ssa.MapUpdate, *ssa.DebugRef:
					continue
				case *ssa.Call:
					if n := calleeName(x); n == "builtin:len" {
						continue
					}
					readAt = x
				default:
					readAt = r
				}
			}
			if readAt != nil {
				out = append(out, a3Finding{"A3.7", "map filled and read across iterations (" + short(org(mk)) + ")", "a map created before the loop is updated per element and also used inside the loop (" + c.pos(readAt.Pos()) + "): an iteration sees the entries of the elements visited before it, i.e. the outcome depends on the iteration order of the ranged map", mu, "bad"})
			}
		}
	}
	// (6) insertion into another map under a key computed from the current key: two keys of the ranged map may be
	// mapped to the same new key, and which element survives depends on the iteration order - unless the stored
	// value does not depend on the element (a set insertion) or the key is the current key itself (distinct keys).
	for b := range l.body {
		for _, in := range b.Instrs {
			mu, ok := in.(*ssa.MapUpdate)
			if !ok || resolve(mu.Map, mu) == resolve(l.rng.X, l.rng) {
				continue
			}
			k := resolve(mu.Key, mu)
			if k == l.key || !l.fromIter(mu.Key) {
				continue
			}
			if _, isConst := mu.Value.(*ssa.Const); isConst || !l.fromIter(mu.Value) {
				continue
			}
			if st, isStruct := mu.Value.Type().Underlying().(*types.Struct); isStruct && st.NumFields() == 0 {
				continue
			}
			// a map allocated inside the loop body is private to the iteration
			if mk, isMk := resolve(mu.Map, mu).(*ssa.MakeMap); isMk && l.body[mk.Block()] && mk.Block() != l.header {
				continue
			}
			// the key is the current key of another (nested) range over the very map that is updated
			nested := false
			for _, l2 := range mapLoops(l.f) {
				if l2 != l && resolve(l2.rng.X, l2.rng) == resolve(mu.Map, mu) && k == l2.key {
					nested = true
				}
			}
			if nested {
				continue
			}
			rv, reviewed := a3DerivedKeyTable[fn]
			if !reviewed {
				// an unexported helper that serves only a reviewed function inherits its entry
				var names []string
				for n := range a3DerivedKeyTable {
					names = append(names, n)
				}
				sort.Strings(names)
				for _, n := range names {
					if c.isOrServesOnly(l.f, n) {
						rv, reviewed = a3DerivedKeyTable[n], true
					}
				}
			}
			if reviewed {
				// the key is the reviewed transform of the current key, or a phi of that and of values that do not
				// depend on the iteration
				okKey := true
				leaves := 0
				seenK := map[ssa.Value]bool{}
				var walk func(v ssa.Value)
				walk = func(v ssa.Value) {
					if seenK[v] {
						return
					}
					seenK[v] = true
					if ph, isPhi := v.(*ssa.Phi); isPhi && l.body[ph.Block()] {
						for _, e := range ph.Edges {
							walk(e)
						}
						return
					}
					if !l.fromIter(v) {
						return
					}
					leaves++
					if pc, _ := producer(v, mu); pc == nil || calleeName(pc) != rv[0] {
						okKey = false
					}
				}
				walk(k)
				if okKey && leaves > 0 {
					out = append(out, a3Finding{"", "insertion under " + rv[0] + "(current key)", "reviewed: " + rv[1], mu, "ok"})
					continue
				}
			}
			out = append(out, a3Finding{"A3.6", "insertion under a key computed from the current key (" + short(org(mu.Key)) + ")", "two keys of the ranged map can be mapped to the same new key; the element that survives is the one visited last, which depends on the iteration order", mu, "bad"})
		}
	}
	if len(out) == 0 {
		out = append(out, a3Finding{"", "no order-dependent state", "no loop-carried values, early element exits, accumulations or insertions", l.rng, "ok"})
	}
	return out
}

func phName(ph *ssa.Phi) string {
	if ph.Comment != "" {
		return ph.Comment
	}
	return ph.Name()
}

func isBool(t types.Type) bool {
	b, ok := t.(*types.Basic)
	return ok && b.Kind() == types.Bool
}
func isInt(t types.Type) bool {
	b, ok := t.(*types.Basic)
	return ok && b.Info()&types.IsInteger != 0
}
func isSlice(t types.Type) bool { _, ok := t.(*types.Slice); return ok }
func hasRefsOrString(t types.Type) bool {
	if b, ok := t.Underlying().(*types.Basic); ok {
		return b.Kind() == types.String
	}
	return hasRefs(t)
}

// onlyFmtUses: every (transitive) use of v, other than the aliases themselves, ends in an argument of a fmt function.
func onlyFmtUses(v ssa.Value, aliases map[ssa.Value]bool) bool {
	ok := true
	seen := map[ssa.Value]bool{}
	var rec func(x ssa.Value)
	rec = func(x ssa.Value) {
		if seen[x] {
			return
		}
		seen[x] = true
		refs := x.Referrers()
		if refs == nil {
			return
		}
		for _, r := range *refs {
			switch y := r.(type) {
			case *ssa.Phi:
				rec(y)
			case *ssa.MakeInterface:
				rec(y)
			case *ssa.ChangeInterface:
				rec(y)
			case *ssa.Store:
				// varargs array element
				if ia, isIA := y.Addr.(*ssa.IndexAddr); isIA {
					if a, isAlloc := ia.X.(*ssa.Alloc); isAlloc {
						for _, rr := range *a.Referrers() {
							if sl, ok := rr.(*ssa.Slice); ok {
								rec(sl)
							}
						}
						continue
					}
				}
				ok = false
			case ssa.CallInstruction:
				if !strings.HasPrefix(calleeName(y), "fmt.") {
					ok = false
				}
			case *ssa.DebugRef:
			case *ssa.BinOp, *ssa.If:
				ok = false
			default:
				ok = false
			}
		}
	}
	rec(v)
	return ok
}

// sortedBeforeUse: after the loop the accumulated slice is passed to a sort function that dominates all other uses.
func (c *Ctx) sortedBeforeUse(l *mapLoop, ph *ssa.Phi, aliases map[ssa.Value]bool) bool {
	var sortCall ssa.CallInstruction
	var others []ssa.Instruction
	for a := range aliases {
		for _, r := range *a.Referrers() {
			if l.body[r.Block()] {
				continue
			}
			if call, ok := r.(ssa.CallInstruction); ok {
				n := calleeName(call)
				if n == "sort.Strings" || n == "sort.Slice" || n == "sort.SliceStable" || strings.HasPrefix(n, "slices.Sort") {
					// a comparison function must compare its two arguments with each other
					if validLessArg(call) {
						sortCall = call
					}
					continue
				}
			}
			if _, ok := r.(*ssa.DebugRef); ok {
				continue
			}
			others = append(others, r)
		}
	}
	if sortCall == nil {
		return false
	}
	for _, o := range others {
		if !instrDominates(sortCall, o) {
			return false
		}
	}
	return true
}

// replacerPrefixFree checks the two facts that make strings.NewReplacer independent of argument order:
// every old string is "{" + k + "}" and k matched a constant regexp that admits neither brace.
func (c *Ctx) replacerPrefixFree(l *mapLoop) (bool, string) {
	// find appends in the loop body
	var olds []ssa.Value
	for b := range l.body {
		for _, in := range b.Instrs {
			call, ok := in.(*ssa.Call)
			if !ok || calleeName(call) != "builtin:append" {
				continue
			}
			// appended element: varargs slice of a [1]string alloc
			derives(call.Call.Args[1], func(v ssa.Value) bool {
				if bo, ok := v.(*ssa.BinOp); ok {
					olds = append(olds, bo)
					return true
				}
				return false
			}, false)
		}
	}
	if len(olds) == 0 {
		return false, "no \"{\"+name+\"}\" concatenation appended in the loop"
	}
	okShape := false
	dict := "p1"
	if prm, ok := l.rng.X.(*ssa.Parameter); ok {
		dict = fmt.Sprintf("p%d", paramIndex(prm))
	}
	for _, o := range olds {
		if s := org(o); s == `((const("{")+key(`+dict+`))+const("}"))` {
			okShape = true
		}
	}
	if !okShape {
		return false, "old strings are not \"{\" + map key + \"}\": " + org(olds[0])
	}
	// regexp guard: on this loop's key, or on the key of an earlier, exhaustive range over the same dictionary whose
	// failure side leaves the function (validate all names first, build afterwards)
	for _, call := range allCalls(l.f) {
		if calleeName(call) != "(*regexp.Regexp).MatchString" {
			continue
		}
		cc := call.Common()
		earlier := false
		if resolve(cc.Args[1], call) != l.key {
			for _, l2 := range mapLoops(l.f) {
				if l2 == l || resolve(l2.rng.X, l2.rng) != resolve(l.rng.X, l.rng) || resolve(cc.Args[1], call) != l2.key {
					continue
				}
				okv := extractOf(l2.next, 0)
				if okv == nil || !c.condAt(okv, false, l.header) {
					continue
				}
				exhaustive := call.Value() != nil
				for b := range l2.body {
					if b == l2.header || !reaches(b, l2.header) {
						continue
					}
					for _, sc := range b.Succs {
						if !l2.body[sc] && !c.failing(sc) {
							exhaustive = false
						}
					}
				}
				if exhaustive {
					for _, cu := range condUsers(call.Value(), false) {
						if c.failing(branchTaken(cu, false)) {
							earlier = true
						}
					}
				}
			}
			if !earlier {
				continue
			}
		}
		mc := regexpCompileOf(resolve(cc.Args[0], call))
		if mc == nil {
			continue
		}
		pat, isConst := constString(mc.Call.Args[0])
		if !isConst {
			return false, "parameter-name pattern is not a constant"
		}
		re, err := syntax.Parse(pat, syntax.Perl)
		if err != nil {
			return false, "constant pattern does not parse: " + err.Error()
		}
		if admitsRune(re, '{') || admitsRune(re, '}') || !anchored(re) {
			return false, fmt.Sprintf("pattern %q admits a brace or is not anchored", pat)
		}
		if earlier {
			return true, fmt.Sprintf("old = \"{\"+key+\"}\"; every key matched constant %q (no braces, anchored) in an earlier exhaustive pass", pat)
		}
		// the append must be dominated by the match-true edge
		for b := range l.body {
			for _, in := range b.Instrs {
				if k, ok := in.(*ssa.Call); ok && calleeName(k) == "builtin:append" {
					if !c.condAt(call.Value(), true, b) {
						return false, "append not dominated by a successful name match"
					}
				}
			}
		}
		return true, fmt.Sprintf("old = \"{\"+key+\"}\"; key matched constant %q (no braces, anchored)", pat)
	}
	return false, "no constant-regexp match of the map key found"
}

func admitsRune(re *syntax.Regexp, r rune) bool {
	switch re.Op {
	case syntax.OpLiteral:
		for _, x := range re.Rune {
			if x == r {
				return true
			}
		}
	case syntax.OpCharClass:
		for i := 0; i+1 < len(re.Rune); i += 2 {
			if re.Rune[i] <= r && r <= re.Rune[i+1] {
				return true
			}
		}
	case syntax.OpAnyChar, syntax.OpAnyCharNotNL:
		return true
	}
	for _, s := range re.Sub {
		if admitsRune(s, r) {
			return true
		}
	}
	return false
}

func anchored(re *syntax.Regexp) bool {
	if re.Op != syntax.OpConcat || len(re.Sub) < 2 {
		return false
	}
	first, last := re.Sub[0], re.Sub[len(re.Sub)-1]
	return (first.Op == syntax.OpBeginText || first.Op == syntax.OpBeginLine) && (last.Op == syntax.OpEndText || last.Op == syntax.OpEndLine)
}

// cleanGuard: MapUpdate key is path.Clean(k) and the store is dominated by path.Clean(k) != k.
func (c *Ctx) cleanGuard(l *mapLoop, mu *ssa.MapUpdate) bool { return c.Prog.cleanGuard(l, mu) }

func (c *Prog) cleanGuard(l *mapLoop, mu *ssa.MapUpdate) bool {
	kc, ok := resolve(mu.Key, mu).(*ssa.Call)
	if !ok || calleeName(kc) != "path.Clean" || resolve(kc.Call.Args[0], kc) != l.key {
		return false
	}
	for b := range l.body {
		for _, in := range b.Instrs {
			bo, ok := in.(*ssa.BinOp)
			if !ok || bo.Op.String() != "!=" {
				continue
			}
			isClean := func(v ssa.Value) bool {
				k, ok := v.(*ssa.Call)
				return ok && calleeName(k) == "path.Clean" && resolve(k.Call.Args[0], k) == l.key
			}
			if (isClean(bo.X) && bo.Y == l.key) || (isClean(bo.Y) && bo.X == l.key) {
				if c.condAt(bo, true, mu.Block()) {
					return true
				}
			}
		}
	}
	return false
}

// a3Rule applies A3 to every map-range loop of in_toto functions reachable from the given roots
// (or, if only is non-empty, just to the named functions).
func a3Rule(id string, min int, roots func(c *Ctx) []*ssa.Function, only ...string) Rule {
	return Rule{ID: id, Doc: "independence of Go map iteration order: loop-carried control state, early element exits, order-dependent accumulation, insertions into the ranged map (DESIGN §3 A3)", Min: min,
		Run: func(c *Ctx) {
			var fns []*ssa.Function
			if len(only) > 0 {
				fns = c.resolveFuncs(id, only...)
			} else {
				reach := reachable(c.CG, roots(c)...)
				for _, f := range c.srcFuncs("in_toto") {
					if reach[f] {
						fns = append(fns, f)
					}
				}
			}
			for _, f := range fns {
				for _, l := range mapLoops(f) {
					loopName := "range over " + short(org(l.rng.X))
					for _, fd := range c.a3Loop(l) {
						construct := loopName + ": " + fd.what
						switch fd.status {
						case "ok":
							c.ok(id, fname(f), construct, fd.pos.Pos(), fd.detail)
						case "bad":
							c.bad(id, fname(f), construct, instrPos(fd.pos), fd.kind+": "+fd.detail)
						default:
							c.undecided(id, fname(f), construct, instrPos(fd.pos), fd.kind+": "+fd.detail)
						}
					}
				}
			}
		}}
}

// validLessArg: the sort call has no comparison function, or its comparison function's result depends on both of its
// parameters (a less function that compares an element with itself leaves the slice in its incoming order).
func validLessArg(call ssa.CallInstruction) bool {
	for _, a := range call.Common().Args {
		var fn *ssa.Function
		switch x := a.(type) {
		case *ssa.MakeClosure:
			fn, _ = x.Fn.(*ssa.Function)
		case *ssa.Function:
			fn = x
		}
		if fn == nil || len(fn.Params) < 2 {
			continue
		}
		for _, r := range returnsOf(fn) {
			if len(r.Results) == 0 {
				continue
			}
			d0 := dependsOn(r.Results[0], fn.Params[0])
			d1 := dependsOn(r.Results[0], fn.Params[1])
			if !d0 || !d1 {
				return false
			}
		}
	}
	return true
}

// dependsOn: target is among the transitive operands of v (every operand of every instruction, index operands
// included).
func dependsOn(v ssa.Value, target ssa.Value) bool {
	seen := map[ssa.Value]bool{}
	var walk func(x ssa.Value, depth int) bool
	walk = func(x ssa.Value, depth int) bool {
		if x == nil || seen[x] || depth > 40 {
			return false
		}
		seen[x] = true
		if x == target {
			return true
		}
		in, ok := x.(ssa.Instruction)
		if !ok {
			return false
		}
		for _, op := range in.Operands(nil) {
			if op != nil && *op != nil && walk(*op, depth+1) {
				return true
			}
		}
		return false
	}
	return walk(v, 0)
}

// minScanRole recognises the minimum / maximum scan over the keys (or values) of the ranged map:
//
//	best, first := zero, true
//	for k := range m { if first || k < best { best, first = k, false } }
//
// (with or without the first-flag). The result is the least element whatever the iteration order. Checked: every value
// that flows back into best is best itself or the range element; every block in which the element is chosen is entered
// only over the true edge of a test of the first-flag or of an order comparison between the element and best, all
// comparisons pointing the same way; the flag starts with one constant, only ever takes the other, and takes it
// wherever the element is chosen. Returns a description for best and for the flag, "" otherwise.
func minScanRole(l *mapLoop, ph *ssa.Phi) string {
	hdr := l.header
	var bests []*ssa.Phi
	for _, in := range hdr.Instrs {
		p, ok := in.(*ssa.Phi)
		if !ok {
			break
		}
		if bt, ok := p.Type().Underlying().(*types.Basic); ok && bt.Info()&(types.IsString|types.IsInteger|types.IsFloat) != 0 {
			bests = append(bests, p)
		}
	}
	for _, best := range bests {
		flag, ok := minScanShape(l, best)
		if !ok {
			continue
		}
		if best == ph {
			return "minimum / maximum scan over the ranged map: the result does not depend on the iteration order"
		}
		if flag != nil && flag == ph {
			return "first-element flag of a minimum / maximum scan (" + best.Name() + ")"
		}
	}
	return ""
}

func minScanShape(l *mapLoop, best *ssa.Phi) (*ssa.Phi, bool) {
	isElem := func(v ssa.Value) bool { return v != nil && (v == l.key || v == l.val) }
	// closure of values flowing back into best, and the blocks over whose edges the element is chosen
	type choice struct {
		phi *ssa.Phi
		idx int
	}
	var choices []choice
	var elem ssa.Value
	seen := map[*ssa.Phi]bool{}
	okVals := true
	var walk func(p *ssa.Phi, fromHeader bool)
	walk = func(p *ssa.Phi, fromHeader bool) {
		if seen[p] {
			return
		}
		seen[p] = true
		for i, e := range p.Edges {
			pred := p.Block().Preds[i]
			if fromHeader && !l.body[pred] {
				continue // entry edge: the initial value
			}
			switch {
			case e == ssa.Value(best):
			case isElem(e):
				if elem != nil && elem != e {
					okVals = false
				}
				elem = e
				choices = append(choices, choice{p, i})
			default:
				if q, ok := e.(*ssa.Phi); ok && l.body[q.Block()] && q != best {
					walk(q, false)
				} else {
					okVals = false
				}
			}
		}
	}
	walk(best, true)
	if !okVals || len(choices) == 0 || elem == nil {
		return nil, false
	}
	// the flag: a bool header phi that starts true and otherwise is itself or false
	var flag *ssa.Phi
	flagInit := ""
	for _, in := range l.header.Instrs {
		p, ok := in.(*ssa.Phi)
		if !ok {
			break
		}
		if !isBool(p.Type().Underlying()) {
			continue
		}
		okF := true
		init := ""
		for i, e := range p.Edges {
			pred := p.Block().Preds[i]
			if !l.body[pred] {
				k, isK := e.(*ssa.Const)
				if !isK || k.Value == nil {
					okF = false
				} else {
					init = k.Value.String()
				}
			}
		}
		other := map[string]string{"true": "false", "false": "true"}[init]
		if other == "" {
			continue
		}
		for i, e := range p.Edges {
			if l.body[p.Block().Preds[i]] && !flagBackOK(l, p, e, other, map[ssa.Value]bool{}) {
				okF = false
			}
		}
		if okF {
			flag, flagInit = p, init
		}
	}
	// every choice block is entered over true edges of the flag or of one-directional comparisons elem <> best
	dir := ""
	for _, ch := range choices {
		blk := ch.phi.Block().Preds[ch.idx]
		// walk up plain jumps to the block that was branched into
		for len(blk.Preds) == 1 && len(blk.Instrs) == 1 {
			if _, isJ := blk.Instrs[0].(*ssa.Jump); !isJ {
				break
			}
			blk = blk.Preds[0]
			break
		}
		if len(blk.Preds) == 0 {
			return nil, false
		}
		for _, pb := range blk.Preds {
			ifi, ok := pb.Instrs[len(pb.Instrs)-1].(*ssa.If)
			if !ok {
				return nil, false
			}
			if flag != nil && ifi.Cond == ssa.Value(flag) {
				// entered while the flag still has its initial value
				if (pb.Succs[0] == blk) != (flagInit == "true") {
					return nil, false
				}
				continue
			}
			if pb.Succs[0] != blk {
				return nil, false
			}
			bo, ok := ifi.Cond.(*ssa.BinOp)
			if !ok {
				return nil, false
			}
			var d string
			switch {
			case bo.X == elem && bo.Y == ssa.Value(best) && (bo.Op == token.LSS || bo.Op == token.LEQ),
				bo.Y == elem && bo.X == ssa.Value(best) && (bo.Op == token.GTR || bo.Op == token.GEQ):
				d = "min"
			case bo.X == elem && bo.Y == ssa.Value(best) && (bo.Op == token.GTR || bo.Op == token.GEQ),
				bo.Y == elem && bo.X == ssa.Value(best) && (bo.Op == token.LSS || bo.Op == token.LEQ):
				d = "max"
			default:
				return nil, false
			}
			if dir != "" && dir != d {
				return nil, false
			}
			dir = d
		}
		// where the element is chosen the flag becomes false
		if flag != nil {
			cleared := false
			for _, in := range ch.phi.Block().Instrs {
				q, ok := in.(*ssa.Phi)
				if !ok {
					break
				}
				if k, isK := q.Edges[ch.idx].(*ssa.Const); isK && isBool(q.Type().Underlying()) && k.Value != nil && k.Value.String() != flagInit {
					cleared = true
				}
			}
			if !cleared {
				return nil, false
			}
		}
	}
	if dir == "" && flag == nil {
		return nil, false
	}
	return flag, true
}

func flagBackOK(l *mapLoop, flag *ssa.Phi, v ssa.Value, final string, seen map[ssa.Value]bool) bool {
	if seen[v] {
		return true
	}
	seen[v] = true
	if v == ssa.Value(flag) {
		return true
	}
	if k, ok := v.(*ssa.Const); ok {
		return k.Value != nil && k.Value.String() == final
	}
	if q, ok := v.(*ssa.Phi); ok && l.body[q.Block()] {
		for _, e := range q.Edges {
			if !flagBackOK(l, flag, e, final, seen) {
				return false
			}
		}
		return true
	}
	return false
}

// regexpCompileOf: the regexp.MustCompile / Compile call that produced v: v itself, or the single initialisation of the
// package-level variable v is loaded from (nothing else stores into package-level variables: R-C16-1).
func regexpCompileOf(v ssa.Value) *ssa.Call {
	if ex, ok := v.(*ssa.Extract); ok {
		v = ex.Tuple
	}
	if mc, ok := v.(*ssa.Call); ok && (calleeName(mc) == "regexp.MustCompile" || calleeName(mc) == "regexp.Compile") {
		return mc
	}
	u, ok := v.(*ssa.UnOp)
	if !ok || u.Op != token.MUL {
		return nil
	}
	g, ok := u.X.(*ssa.Global)
	if !ok || g.Pkg == nil {
		return nil
	}
	initf := g.Pkg.Func("init")
	if initf == nil {
		return nil
	}
	var found *ssa.Call
	n := 0
	for _, b := range initf.Blocks {
		for _, in := range b.Instrs {
			if st, ok := in.(*ssa.Store); ok && st.Addr == ssa.Value(g) {
				n++
				if mc, ok := st.Val.(*ssa.Call); ok && (calleeName(mc) == "regexp.MustCompile" || calleeName(mc) == "regexp.Compile") {
					found = mc
				}
			}
		}
	}
	if n != 1 {
		return nil
	}
	return found
}

// resultOnlyFeedsSets: after the loop the accumulated slice is only returned; the function is an unexported module
// function called only statically, and every call site uses the result as the variadic argument of in_toto.NewSet and
// for nothing else.
func (c *Ctx) resultOnlyFeedsSets(l *mapLoop, ph *ssa.Phi) bool {
	f := l.f
	if f == nil || f.Parent() != nil || f.Object() == nil || f.Object().Exported() || f.Signature.Results().Len() != 1 || ph.Referrers() == nil {
		return false
	}
	for _, r := range *ph.Referrers() {
		if r.Block() != nil && l.body[r.Block()] {
			continue
		}
		switch r.(type) {
		case *ssa.Return, *ssa.DebugRef:
		default:
			return false
		}
	}
	node := c.CG.Nodes[f]
	if node == nil || len(node.In) == 0 {
		return false
	}
	for _, e := range node.In {
		cs := e.Site
		if cs == nil || cs.Common().StaticCallee() != f || cs.Value() == nil || cs.Value().Referrers() == nil {
			return false
		}
		for _, r := range *cs.Value().Referrers() {
			switch x := r.(type) {
			case *ssa.DebugRef:
			case ssa.CallInstruction:
				if calleeName(x) != "in_toto.NewSet" || len(x.Common().Args) != 1 || x.Common().Args[0] != ssa.Value(cs.Value()) {
					return false
				}
			default:
				return false
			}
		}
	}
	return true
}
