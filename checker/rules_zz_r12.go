package main

import (
	"fmt"
	"go/token"
	"go/types"
	"sort"
	"strings"

	"golang.org/x/tools/go/ssa"
)

// Round 12 of seeded changes (one-token edits): rules added or shared after the round. See DESIGN.md section 10.12.

func init() {
	share := func(prop, id, doc string, min int, run func(*Ctx), expl string) {
		if p := registry[prop]; p != nil {
			p.Rules = append(p.Rules, Rule{ID: id, Doc: doc, Min: min, Run: run})
			if expl != "" {
				p.Explanation += " " + expl
			}
		}
	}
	share("C08", "R-C05-1", "rules are evaluated against the reduced links and the inspection results (shared with C05)", 18, ruleC05_1, "(R-C05-1, shared with C05) the entry point VerifySublayouts recurses into evaluates the step rules against the reduced verified links and the inspection rules against what RunInspections returned: a sublayout's rules are checked like a root layout's.")
	share("C13", "R-C20-2", "flag wiring of the command-line tools (shared with C20)", 30, ruleC20_2, "(R-C20-2, shared with C20) the material and product paths given on the command line reach the recording functions as given: path flags are StringArray flags, which pflag does not split at commas.")
	share("C14", "R-C09-2", "a non-zero or missing exit status fails the inspection (shared with C09)", 7, ruleC09_2, "(R-C09-2, R-C09-3, shared with C09) the consumer of RunCommand's by-products compares the stored return value itself with float64(0): a command that was never run (no return value at all) is not taken for one that exited with status 0.")
	share("C14", "R-C09-3", "the exit status is compared in the type it is stored in (shared with C09)", 2, ruleC09_3, "")
	share("C05", "R-C09-6", "option wiring (shared with C09): the summary link is named by the step-name parameter", 6, func(c *Ctx) {
		for _, e := range c.entryPoints() {
			c.optionWiring(e, c.stage(e.f, "in_toto.RunInspections"))
		}
	}, "(R-C09-6, shared with C09) the name handed to GetSummaryLink is a string parameter of the entry point that is used for nothing else - not the link directory, not the run directory.")
	share("C08", "R-C08-6", "the recursion hands the caller's intermediates and line-normalisation flag down", 2, ruleC08_6, "(R-C08-6) in VerifySublayouts every parameter of the recursive entry point whose type occurs exactly once among the parameters of both functions ([][]byte intermediates, bool line normalisation) receives VerifySublayouts' own parameter of that type.")
	share("C07", "R-C08-6", "the recursion hands the caller's intermediates down (shared with C08)", 2, ruleC08_6, "(R-C08-6, shared with C08) the intermediates supplied by the caller reach the verification of every sublayout.")
	share("C09", "R-C09-8", "commands run in the requested directory", 1, ruleC09_8, "(R-C09-8) on every path of RunCommand to the start of the command on which the run directory may be non-empty, Cmd.Dir was set to that parameter (path-sensitive enumeration): inspections act on the directory whose files are recorded.")
	share("C14", "R-C09-8", "commands run in the requested directory (shared with C09)", 1, ruleC09_8, "(R-C09-8, shared with C09) 'in any working directory': the command is started in the directory it was asked to run in.")
	share("C12", "R-C12-8", "iterator advances drive a loop", 1, ruleC12_8, "(R-C12-8) every call of an iterator's advance method ((*reflect.MapIter).Next, (*bufio.Scanner).Scan) in in_toto decides a loop exit: a validator that looks at the first entry only accepts metadata whose other entries are malformed.")
	share("C16", "R-C16-7", "no append onto a slice that lives in another object", 2, ruleC16_7, "(R-C16-7) the result of append(x.f, ...) with x.f a slice held in a field is stored back into that very field (or the first operand is a fresh slice): appending in place onto another object's slice writes into its spare capacity, which value copies of that object share.")
	share("C04", "R-C16-7", "no append onto a slice that lives in another object (shared with C16)", 2, ruleC16_7, "(R-C16-7, shared with C16) signatures collected on one envelope are not written into the signature array of another.")
	share("C17", "R-C17-13", "scanChunk skips the character after a backslash whenever there is one", 1, ruleC17_13, "(R-C17-13) in scanChunk the branch taken for a backslash tests exactly  i+1 < len(pattern)  (decided on the normalised linear form of the comparison) before it steps over the next character: an escaped '*' or ']' at any position, the last included, does not end the chunk or the class.")
	share("C03", "R-C17-13", "scanChunk skips the character after a backslash whenever there is one (shared with C17)", 1, ruleC17_13, "")
	share("C18", "R-C18-8", "only an empty dictionary short-cuts substitution", 2, ruleC18_8, "(R-C18-8) every success path of SubstituteParameters on which the dictionary may be non-empty runs through the loop over the steps and the loop over the inspections (path-sensitive enumeration): no other condition returns the layout unsubstituted.")
	share("C20", "R-C20-10", "no append onto a slice made with a length", 1, ruleC20_10, "(R-C20-10) a slice created with make([]T, n), n not the constant 0, that is only ever grown with append keeps its n zero elements in front: the lists the commands hand to the library (intermediates, keys, paths) hold what was read and nothing else.")
	share("C07", "R-C20-10", "no append onto a slice made with a length (shared with C20)", 1, ruleC20_10, "")
	if p := registry["C19"]; p != nil {
		p.Rules = append(p.Rules, exhaustiveLoopsRule(2, "in_toto.validateKey"))
		p.Explanation += " (A2) the loops of validateKey and of the set / scheme predicates below it visit every element or leave with an answer of their own: a hash-algorithm list is supported only if every entry is."
	}
}

// R-C08-6 -------------------------------------------------------------------------------------------------------------

func ruleC08_6(c *Ctx) {
	const R = "R-C08-6"
	s := c.sublayoutShape(R)
	if s == nil {
		return
	}
	fn := fname(s.f)
	if s.rec == nil || s.recFn == nil {
		c.bad(R, fn, "recursive verification", s.f.Pos(), "no call of a verification entry point: sublayouts are not verified")
		return
	}
	count := func(f *ssa.Function, t types.Type) (int, *ssa.Parameter) {
		n := 0
		var last *ssa.Parameter
		for _, p := range f.Params {
			if types.Identical(p.Type(), t) {
				n++
				last = p
			}
		}
		return n, last
	}
	n := 0
	args := s.rec.Common().Args
	for j, cp := range s.recFn.Params {
		if j >= len(args) {
			break
		}
		if k, _ := count(s.recFn, cp.Type()); k != 1 {
			continue
		}
		k, own := count(s.f, cp.Type())
		if k != 1 {
			continue
		}
		n++
		got := s.up(args[j], s.rec)
		c.check(got == ssa.Value(own), R, fn, "option "+cp.Name()+" ("+typeStr(cp.Type())+") is handed down", s.rec.Pos(), "argument is the parameter "+own.Name(),
			fmt.Sprintf("the recursive call passes %s for %s although VerifySublayouts received %s: the sublayout is verified with other options than its parent", short(org(args[j])), cp.Name(), own.Name()))
	}
	if n == 0 {
		c.undecided(R, fn, "options", s.rec.Pos(), "no parameter type is shared one-to-one between VerifySublayouts and the entry point it calls")
	}
}

// R-C09-8 -------------------------------------------------------------------------------------------------------------

func ruleC09_8(c *Ctx) {
	const R = "R-C09-8"
	n := 0
	for _, u := range c.cmdUses() {
		f := u.f
		if f.Parent() != nil {
			continue
		}
		var dir *ssa.Parameter
		ns := 0
		for _, p := range f.Params {
			if bt, ok := p.Type().Underlying().(*types.Basic); ok && bt.Kind() == types.String {
				dir = p
				ns++
			}
		}
		if ns != 1 {
			continue // not the (args, dir) shape
		}
		launch := u.start
		if launch == nil {
			launch = u.runOut
		}
		if launch == nil {
			continue
		}
		n++
		fn := fname(f)
		// stores into Cmd.Dir
		var stores []*ssa.Store
		for _, b := range f.Blocks {
			for _, in := range b.Instrs {
				st, ok := in.(*ssa.Store)
				if !ok {
					continue
				}
				fa, ok := st.Addr.(*ssa.FieldAddr)
				if !ok || resolve(fa.X, st) != u.cmd || fieldName(fa.X.Type(), fa.Field) != "Dir" {
					continue
				}
				stores = append(stores, st)
			}
		}
		if len(stores) == 0 {
			c.bad(R, fn, "run directory", launch.Pos(), "Cmd.Dir is never set: the "+dir.Name()+" parameter is ignored and every command runs in the process's working directory")
			continue
		}
		okVal := true
		for _, st := range stores {
			if resolve(st.Val, st) != ssa.Value(dir) {
				okVal = false
				c.bad(R, fn, "run directory", st.Pos(), "Cmd.Dir is set to "+short(org(st.Val))+", not to the "+dir.Name()+" parameter")
			}
		}
		if !okVal {
			continue
		}
		key := org(dir)
		bad := ""
		res := explorePaths(f, 4000, func(ret *ssa.Return, env *pathEnv) {
			if bad != "" {
				return
			}
			li := -1
			for i, b := range env.trace {
				if b == launch.Block() {
					li = i
				}
			}
			if li < 0 {
				return
			}
			if e, known := env.empty[key]; known && e {
				return // the empty run directory means "here"
			}
			for i, b := range env.trace {
				if i > li {
					break
				}
				for _, st := range stores {
					if st.Block() == b && (b != launch.Block() || instrIndex(st) < instrIndex(launch)) {
						return
					}
				}
			}
			var tr []string
			for _, b := range env.trace {
				tr = append(tr, fmt.Sprint(b.Index))
			}
			bad = "blocks " + strings.Join(tr, ",")
		})
		switch {
		case res.limit:
			c.undecided(R, fn, "run directory", launch.Pos(), "more than 4000 paths")
		case bad != "":
			c.bad(R, fn, "run directory", launch.Pos(), "the command is started on a path on which "+dir.Name()+" may be non-empty and Cmd.Dir was not set ("+bad+"): it runs in the process's working directory, not in the directory whose files are recorded")
		default:
			c.ok(R, fn, "run directory", launch.Pos(), fmt.Sprintf("%d paths: Cmd.Dir = %s before the start wherever %s may be non-empty", res.paths, dir.Name(), dir.Name()))
		}
	}
	if n == 0 {
		c.undecided(R, "in_toto.RunCommand", "run directory", 0, "no function that creates and starts an exec.Cmd with one directory parameter found")
	}
}

// R-C12-8 -------------------------------------------------------------------------------------------------------------

var iteratorAdvances = map[string]bool{
	"(*reflect.MapIter).Next": true,
	"(*bufio.Scanner).Scan":   true,
}

func ruleC12_8(c *Ctx) {
	const R = "R-C12-8"
	n := 0
	for _, pk := range []string{"in_toto", "internal/spiffe", "cmd"} {
		fs := c.srcFuncs(pk)
		sort.Slice(fs, func(i, j int) bool { return fname(fs[i]) < fname(fs[j]) })
		for _, f := range fs {
			for _, call := range allCalls(f) {
				name := calleeName(call)
				if !iteratorAdvances[name] {
					continue
				}
				n++
				v := call.Value()
				if v == nil {
					c.bad(R, fname(f), "call of "+name, call.Pos(), "the iterator is advanced in a go / defer statement")
					continue
				}
				drives := false
				for _, cu := range condUsers(v, false) {
					// the test sits in the header of a natural loop and one of its successors leaves that loop
					b := cu.If.Block()
					for _, p := range b.Preds {
						if !b.Dominates(p) {
							continue
						}
						for _, s := range b.Succs {
							if s != p && s != b && !reachesAvoiding(s, p, b) {
								drives = true
							}
						}
					}
				}
				c.check(drives, R, fname(f), "call of "+name, call.Pos(), "its result decides the exit of the enclosing loop",
					"the result of "+name+" is not the condition of a loop: only the first element (or a fixed number of elements) is looked at, the others are accepted unseen")
			}
		}
	}
	if n == 0 {
		// no iterator in use: the digest validator must then range over the hash object of every artifact itself
		f := c.lookup("in_toto.validateArtifacts")
		nested := false
		if f != nil {
			mls := mapLoops(f)
			for _, outer := range mls {
				for _, inner := range mls {
					if inner != outer && outer.val != nil && resolve(inner.rng.X, inner.rng) == outer.val && outer.body[inner.rng.Block()] {
						nested = true
					}
				}
			}
		}
		if nested {
			c.ok(R, "in_toto.validateArtifacts", "iterators", 0, "no iterator advance in use: the hash object of every artifact is ranged over directly")
		} else {
			c.undecided(R, "in_toto.validateArtifacts", "iterators", 0, "no iterator advance found and no nested range over the hash objects (the digest validator walks the hash object with reflect.MapRange)")
		}
	}
}

// R-C16-7 -------------------------------------------------------------------------------------------------------------

// fieldSliceSource: v is a slice loaded from a field of some object (x.f or (*p).f); returns the address expression.
func fieldSliceSource(v ssa.Value) (base ssa.Value, field int, ok bool) {
	switch x := v.(type) {
	case *ssa.UnOp:
		if x.Op != token.MUL {
			return nil, 0, false
		}
		if fa, isFA := x.X.(*ssa.FieldAddr); isFA {
			return fa.X, fa.Field, true
		}
	case *ssa.Field:
		return x.X, x.Field, true
	}
	return nil, 0, false
}

func sameObject(a, b ssa.Value) bool {
	if a == b {
		return true
	}
	// two loads of the same address / two field addresses of the same base
	ua, ok1 := a.(*ssa.UnOp)
	ub, ok2 := b.(*ssa.UnOp)
	if ok1 && ok2 && ua.Op == token.MUL && ub.Op == token.MUL {
		return sameObject(ua.X, ub.X)
	}
	fa, ok1 := a.(*ssa.FieldAddr)
	fb, ok2 := b.(*ssa.FieldAddr)
	if ok1 && ok2 && fa.Field == fb.Field {
		return sameObject(fa.X, fb.X)
	}
	ia, ok1 := a.(*ssa.IndexAddr)
	ib, ok2 := b.(*ssa.IndexAddr)
	if ok1 && ok2 && ia.Index == ib.Index {
		return sameObject(ia.X, ib.X)
	}
	return false
}

func ruleC16_7(c *Ctx) {
	const R = "R-C16-7"
	n := 0
	for _, pk := range []string{"in_toto", "internal/spiffe"} {
		fs := c.srcFuncs(pk)
		sort.Slice(fs, func(i, j int) bool { return fname(fs[i]) < fname(fs[j]) })
		for _, f := range fs {
			seen := 0
			for _, call := range allCalls(f) {
				if calleeName(call) != "builtin:append" || len(call.Common().Args) < 1 {
					continue
				}
				base, field, ok := fieldSliceSource(call.Common().Args[0])
				if !ok {
					continue
				}
				// a field of a value the function built itself (composite literal / local struct) is its own
				if al, isAl := base.(*ssa.Alloc); isAl && !al.Heap {
					continue
				}
				n++
				seen++
				what := fmt.Sprintf("append onto field %s #%d", fieldName(base.Type(), field), seen)
				v := call.Value()
				bad := ""
				if v == nil {
					continue
				}
				for _, r := range *v.Referrers() {
					switch x := r.(type) {
					case *ssa.DebugRef:
					case *ssa.Store:
						fa, isFA := x.Addr.(*ssa.FieldAddr)
						if x.Val == v && isFA && fa.Field == field && sameObject(fa.X, base) {
							continue
						}
						if x.Val == v {
							bad = "stored into " + short(org(x.Addr))
						}
					case *ssa.Phi:
						// loop-carried accumulators over a field are not this repository's idiom; judge them as escapes
						bad = "merged into " + x.Name()
					default:
						bad = "used by " + strings.SplitN(r.String(), "(", 2)[0]
					}
				}
				c.check(bad == "", R, fname(f), what, call.Pos(), "the result goes back into the field it was read from",
					fmt.Sprintf("append(%s, ...) takes its first operand from a field of another object and the result is %s: when that slice has spare capacity the new elements are written into the other object's array, which every value copy of it shares (concurrent signers overwrite each other; earlier lists change behind their owner)", short(org(call.Common().Args[0])), bad))
			}
		}
	}
	if n == 0 {
		c.undecided(R, "in_toto", "appends", 0, "no append onto a field found (Metablock.Sign appends to mb.Signatures)")
	}
}

// R-C17-13 ------------------------------------------------------------------------------------------------------------

// linForm: v as an integer-linear form over atoms (len(x) keyed by the access path of x; every other value by name).
func linForm(v ssa.Value, depth int) (map[string]int64, int64, bool) {
	return linFormK(v, depth, nil)
}

func linFormK(v ssa.Value, depth int, lenKey func(ssa.Value) string) (map[string]int64, int64, bool) {
	if depth > 6 {
		return nil, 0, false
	}
	if n, ok := constInt(v); ok {
		return map[string]int64{}, n, true
	}
	switch x := v.(type) {
	case *ssa.BinOp:
		if x.Op == token.ADD || x.Op == token.SUB {
			a, ca, ok1 := linFormK(x.X, depth+1, lenKey)
			b, cb, ok2 := linFormK(x.Y, depth+1, lenKey)
			if !ok1 || !ok2 {
				break
			}
			sg := int64(1)
			if x.Op == token.SUB {
				sg = -1
			}
			out := map[string]int64{}
			for k, n := range a {
				out[k] += n
			}
			for k, n := range b {
				out[k] += sg * n
			}
			return out, ca + sg*cb, true
		}
	case *ssa.Call:
		if calleeName(x) == "builtin:len" && len(x.Call.Args) == 1 {
			if lenKey != nil {
				return map[string]int64{"len:" + lenKey(x.Call.Args[0]): 1}, 0, true
			}
			return map[string]int64{"len:" + org(x.Call.Args[0]): 1}, 0, true
		}
	case *ssa.Convert:
		return linFormK(x.X, depth+1, lenKey)
	}
	if bt, ok := v.Type().Underlying().(*types.Basic); ok && bt.Info()&types.IsInteger != 0 {
		return map[string]int64{"v:" + v.Name(): 1}, 0, true
	}
	return nil, 0, false
}

// leqZero: the comparison as  form <= 0  (integers).
func leqZero(b *ssa.BinOp) (map[string]int64, int64, bool) {
	return leqZeroK(b, nil)
}

func leqZeroK(b *ssa.BinOp, lenKey func(ssa.Value) string) (map[string]int64, int64, bool) {
	x, cx, ok1 := linFormK(b.X, 0, lenKey)
	y, cy, ok2 := linFormK(b.Y, 0, lenKey)
	if !ok1 || !ok2 {
		return nil, 0, false
	}
	sub := func(a map[string]int64, ca int64, b map[string]int64, cb int64) (map[string]int64, int64) {
		out := map[string]int64{}
		for k, n := range a {
			out[k] += n
		}
		for k, n := range b {
			out[k] -= n
		}
		for k, n := range out {
			if n == 0 {
				delete(out, k)
			}
		}
		return out, ca - cb
	}
	switch b.Op {
	case token.LSS:
		m, k := sub(x, cx, y, cy)
		return m, k + 1, true
	case token.LEQ:
		m, k := sub(x, cx, y, cy)
		return m, k, true
	case token.GTR:
		m, k := sub(y, cy, x, cx)
		return m, k + 1, true
	case token.GEQ:
		m, k := sub(y, cy, x, cx)
		return m, k, true
	}
	return nil, 0, false
}

func ruleC17_13(c *Ctx) {
	const R = "R-C17-13"
	f := c.lookup("in_toto.scanChunk")
	if f == nil {
		c.undecided(R, "in_toto.scanChunk", "anchor", 0, "not found")
		return
	}
	fn := fname(f)
	n := 0
	for _, b := range f.Blocks {
		for _, in := range b.Instrs {
			bo, ok := in.(*ssa.BinOp)
			if !ok || (bo.Op != token.EQL && bo.Op != token.NEQ) {
				continue
			}
			ch, ok := byteConst(bo.Y)
			if !ok {
				ch, ok = byteConst(bo.X)
			}
			if !ok || ch != '\\' {
				continue
			}
			for _, cu := range condUsers(bo, false) {
				taken := branchTaken(cu, bo.Op == token.EQL)
				n++
				// follow plain jumps to the guard
				blk := taken
				for i := 0; i < 4; i++ {
					if _, isJ := blk.Instrs[len(blk.Instrs)-1].(*ssa.Jump); isJ && len(blk.Instrs) == 1 {
						blk = blk.Succs[0]
						continue
					}
					break
				}
				ifi, isIf := blk.Instrs[len(blk.Instrs)-1].(*ssa.If)
				if !isIf {
					c.bad(R, fn, "escape skip", bo.Pos(), "the backslash branch steps on without testing whether a next character exists")
					continue
				}
				cmp, isCmp := ifi.Cond.(*ssa.BinOp)
				if !isCmp {
					c.undecided(R, fn, "escape skip", bo.Pos(), "the condition after the backslash test is not a comparison: "+short(org(ifi.Cond)))
					continue
				}
				m, k, ok := leqZero(cmp)
				if !ok {
					c.undecided(R, fn, "escape skip", cmp.Pos(), "the condition after the backslash test is not an integer-linear comparison: "+short(org(cmp)))
					continue
				}
				// expected:  idx - len(s) + 2 <= 0   (idx + 1 < len(s))
				var idx, ln []string
				okShape := len(m) == 2
				for a, co := range m {
					switch {
					case strings.HasPrefix(a, "len:") && co == -1:
						ln = append(ln, a)
					case strings.HasPrefix(a, "v:") && co == 1:
						idx = append(idx, a)
					default:
						okShape = false
					}
				}
				if !okShape || len(idx) != 1 || len(ln) != 1 {
					c.undecided(R, fn, "escape skip", cmp.Pos(), "the condition after the backslash test does not compare an index with a length: "+short(org(cmp)))
					continue
				}
				c.check(k == 2, R, fn, "escape skip", cmp.Pos(), "the guard is  i+1 < len(pattern)  in normal form",
					fmt.Sprintf("the guard before the escaped character is skipped normalises to  i %+d <= len  instead of  i+2 <= len : %s", k, map[bool]string{true: "a backslash followed by the last character of the pattern does not protect it, so an escaped '*' or ']' there ends the chunk / class", false: "the index can step past the end of the pattern"}[k > 2]))
			}
		}
	}
	if n == 0 {
		c.undecided(R, fn, "escape skip", f.Pos(), "no comparison of a pattern byte with a backslash found")
	}
}

// R-C18-8 -------------------------------------------------------------------------------------------------------------

func ruleC18_8(c *Ctx) {
	const R = "R-C18-8"
	f := c.lookup("in_toto.SubstituteParameters")
	if f == nil {
		c.undecided(R, "in_toto.SubstituteParameters", "anchor", 0, "not found")
		return
	}
	fn := fname(f)
	var dict *ssa.Parameter
	for _, p := range f.Params {
		if _, ok := p.Type().Underlying().(*types.Map); ok {
			dict = p
		}
	}
	if dict == nil {
		c.undecided(R, fn, "dictionary", f.Pos(), "no map parameter")
		return
	}
	// the loops that substitute: one over []Step, one over []Inspection
	want := map[string]*ssa.BasicBlock{"[]in_toto.Step": nil, "[]in_toto.Inspection": nil}
	for _, l := range rangeLoops(f) {
		if _, ok := want[l.overType]; ok && want[l.overType] == nil {
			want[l.overType] = l.header
		}
	}
	// or the call of an unexported helper that holds the loop
	for _, call := range allCalls(f) {
		g := call.Common().StaticCallee()
		if g == nil || g.Blocks == nil || g.Pkg != f.Pkg || (g.Object() != nil && g.Object().Exported()) {
			continue
		}
		for _, l := range rangeLoops(g) {
			if h, ok := want[l.overType]; ok && h == nil {
				want[l.overType] = call.Block()
			}
		}
	}
	for t, h := range want {
		if h == nil {
			c.undecided(R, fn, "loop over "+t, f.Pos(), "no range loop over "+t+" in SubstituteParameters or in a helper it calls")
			return
		}
	}
	// conditions that say "the dictionary is empty"
	isDictEmpty := func(v ssa.Value) (bool, bool) { // (is such a test, polarity: true means cond true <=> empty)
		b, ok := v.(*ssa.BinOp)
		if !ok {
			return false, false
		}
		m, k, ok := leqZero(b)
		key := "len:" + org(dict)
		if ok && len(m) == 1 {
			// len <= 0  (len - 0 <= 0)  or  len < 1
			if m[key] == 1 && k == 0 {
				return true, true
			}
			// 1 <= len  i.e. -len + 1 <= 0 : non-empty
			if m[key] == -1 && k == 1 {
				return true, false
			}
		}
		if b.Op == token.EQL || b.Op == token.NEQ {
			x, cx, ok1 := linForm(b.X, 0)
			y, cy, ok2 := linForm(b.Y, 0)
			if ok1 && ok2 {
				if (len(x) == 1 && x[key] == 1 && len(y) == 0 && cx == 0 && cy == 0) || (len(y) == 1 && y[key] == 1 && len(x) == 0 && cx == 0 && cy == 0) {
					return true, b.Op == token.EQL
				}
			}
		}
		return false, false
	}
	ei := errIndex(f)
	bad := ""
	var badPos token.Pos
	checked := 0
	res := explorePaths(f, 20000, func(ret *ssa.Return, env *pathEnv) {
		if bad != "" {
			return
		}
		if ei >= 0 && ei < len(ret.Results) && !isNilConst(env.val(ret.Results[ei])) {
			return
		}
		for v, outcome := range env.boolv {
			if is, pol := isDictEmpty(v); is && outcome == pol {
				return // the dictionary is empty on this path
			}
		}
		checked++
		for t, h := range want {
			if !env.visited[h] {
				bad = "the loop over " + t + " is not reached"
				badPos = ret.Pos()
				if badPos == token.NoPos && len(env.trace) > 1 {
					last := env.trace[len(env.trace)-2]
					badPos = last.Instrs[len(last.Instrs)-1].Pos()
				}
			}
		}
	})
	switch {
	case res.limit:
		c.undecided(R, fn, "success paths", f.Pos(), "more than 20000 paths")
	case bad != "":
		c.bad(R, fn, "success paths", badPos, "a success return is reachable with a dictionary that may be non-empty although "+bad+": the layout goes back with its markers in place and verification then compares commands and rules that still contain {NAME}")
	default:
		c.ok(R, fn, "success paths", f.Pos(), fmt.Sprintf("%d success paths with a possibly non-empty dictionary all run through both substitution loops (%d paths in all)", checked, res.paths))
	}
	c.ok(R, fn, "substitution loops", f.Pos(), "range loops over []Step and []Inspection found")
}

// R-C20-10 ------------------------------------------------------------------------------------------------------------

func ruleC20_10(c *Ctx) {
	const R = "R-C20-10"
	n := 0
	for _, pk := range []string{"cmd", "in_toto", "internal/spiffe"} {
		fs := c.srcFuncs(pk)
		sort.Slice(fs, func(i, j int) bool { return fname(fs[i]) < fname(fs[j]) })
		for _, f := range fs {
			seen := 0
			for _, b := range f.Blocks {
				for _, in := range b.Instrs {
					var made ssa.Value
					switch x := in.(type) {
					case *ssa.MakeSlice:
						if k, ok := constInt(x.Len); ok && k == 0 {
							continue
						}
						made = x
					case *ssa.Slice:
						// make([]T, k) with constant k > 0 is  new [k]T  sliced
						al, ok := x.X.(*ssa.Alloc)
						if !ok || al.Comment != "makeslice" {
							continue
						}
						if x.High != nil {
							if k, ok := constInt(x.High); ok && k == 0 {
								continue
							}
						}
						at, ok := al.Type().Underlying().(*types.Pointer).Elem().Underlying().(*types.Array)
						if !ok || at.Len() == 0 {
							continue
						}
						made = x
					default:
						continue
					}
					n++
					seen++
					what := fmt.Sprintf("make with a length #%d", seen)
					// only grown: every use of the fresh slice is append's first operand, directly or through the
					// accumulator phi of a loop; any other use (index, slice, copy, call argument, return) may fill or
					// need the zero elements
					onlyGrown, grown := true, false
					var appendPos token.Pos
					visited := map[ssa.Value]bool{}
					var walk func(v ssa.Value, fresh bool)
					walk = func(v ssa.Value, fresh bool) {
						if visited[v] {
							return
						}
						visited[v] = true
						for _, r := range *v.Referrers() {
							switch x := r.(type) {
							case *ssa.DebugRef:
							case *ssa.Call:
								if calleeName(x) == "builtin:append" && len(x.Call.Args) > 0 && x.Call.Args[0] == v {
									grown = true
									if appendPos == token.NoPos {
										appendPos = x.Pos()
									}
									continue // what happens to the grown slice no longer concerns the zero prefix
								}
								// a call that takes the fresh slice may fill it; one that takes the accumulated list consumes it
								if fresh && isFill(x, v) {
									onlyGrown = false
								}
							case *ssa.Phi:
								walk(x, false)
							case *ssa.IndexAddr, *ssa.Slice, *ssa.Index:
								onlyGrown = false
							default:
								if fresh {
									onlyGrown = false
								}
							}
						}
					}
					walk(made, true)
					if !grown {
						c.trivial(R, fname(f), what, in.Pos(), "never appended to")
						continue
					}
					c.check(!onlyGrown, R, fname(f), what, appendPos, "the elements made are written or read before / besides the append",
						"the slice is created with a non-zero length and then only appended to: it starts with that many zero elements (empty byte strings, empty names) in front of what is appended, and they are handed on with the rest")
				}
			}
		}
	}
	if n == 0 {
		c.trivial(R, "cmd", "make with a length", 0, "no slice is made with a non-zero length in cmd, in_toto or internal/spiffe")
	}
	// the rule's reach does not depend on a count of makes; say what was scanned
	c.ok(R, "cmd+in_toto+internal/spiffe", "scan", 0, fmt.Sprintf("%d slice creations with a length examined", n))
}

// isFill: a call that may write the elements of v (copy, io.ReadFull, ...): any call that takes v itself.
func isFill(call *ssa.Call, v ssa.Value) bool {
	for _, a := range call.Call.Args {
		if a == v {
			return true
		}
	}
	return false
}

// linImpliesBelow: the comparison bo having the truth value tv implies  v + off <= len(x)  over the integers: both are
// brought to the form  sum + k <= 0  over the same atoms (the lengths of values known to be as long as x count as
// len(x)), and the fact's constant is at least the goal's.
func linImpliesBelow(bo *ssa.BinOp, tv bool, v, x ssa.Value, off int64) bool {
	key := func(a ssa.Value) string {
		if sameLen(a, x) {
			return "#x"
		}
		return org(a)
	}
	fm, fk, ok := leqZeroK(bo, key)
	if !ok {
		return false
	}
	if !tv {
		// not (m + k <= 0)  <=>  -m - k + 1 <= 0
		nm := map[string]int64{}
		for a, n := range fm {
			nm[a] = -n
		}
		fm, fk = nm, -fk+1
	}
	gm, gk, ok := linFormK(v, 0, key)
	if !ok {
		return false
	}
	goal := map[string]int64{}
	for a, n := range gm {
		goal[a] += n
	}
	goal["len:#x"]--
	gk += off
	for a, n := range goal {
		if n == 0 {
			delete(goal, a)
		}
	}
	if len(goal) != len(fm) {
		return false
	}
	for a, n := range goal {
		if fm[a] != n {
			return false
		}
	}
	return gk <= fk
}
