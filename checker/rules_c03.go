package main

import (
	"fmt"
	"go/token"
	"sort"
	"strings"

	"golang.org/x/tools/go/ssa"
)

func init() {
	register(&Property{ID: "C03",
		Explanation: "Decides structural clauses of 'artifact rules follow the queue algorithm' — not the interpreter's agreement with the spec on all rule programs. (R-C03-1) the keyword sets of the parser (UnpackRule), of the interpreter (VerifyArtifacts) and of the spec are equal; (R-C03-2) the parser switches on the lower-cased first token, accepts exactly the MATCH shapes (length, keyword positions, extracted fields) and rule length 2 for the others, and every other shape returns an error; (R-C03-3) parser errors propagate (A1); (R-C03-4) only DISALLOW (non-empty filtered set) and REQUIRE (name not in queue) fail; (R-C03-5) every rule operates on the live queue and the queue is updated with Difference(consumed) on every path through the loop body; per rule type the consumed set is wired to the right operand (allow: filtered; create/delete/modify: filtered ∩ created/deleted/modified; match: helper result; disallow/require: nothing), with created = products\\materials, deleted = materials\\products, modified = {n in both : hashes differ}; the two verification rounds pair rules/artifacts/paths of the same kind; (R-C03-6) the MATCH helper consumes an artifact only under a successful pattern match, an existing destination artifact and equal hash objects [and a source-prefix membership test: known finding F14]; (R-C03-7) the destination artifacts are selected by dstType and dstName.",
		NotDecided:  []string{"agreement of the interpreter with the spec algorithm on all rule programs (set algebra inside Set methods, order effects, prefix arithmetic)", "glob semantics (C17)", "path cleaning"},
		Rules: []Rule{
			{ID: "R-C03-1", Doc: "keyword tables of parser, interpreter and spec agree", Min: 2, Run: ruleC03_1},
			{ID: "R-C03-2", Doc: "parser shape: case-insensitive keywords, MATCH grammar table, malformed is an error", Min: 10, Run: ruleC03_2},
			{ID: "R-C03-4", Doc: "failing rules fail, consuming rules never fail", Min: 3, Run: ruleC03_4},
			{ID: "R-C03-5", Doc: "live queue and per-type consumption wiring", Min: 12, Run: ruleC03_5},
			{ID: "R-C03-6", Doc: "MATCH consumes only under its guards", Min: 4, Run: ruleC03_6},
			{ID: "R-C03-7", Doc: "MATCH destination selection", Min: 3, Run: ruleC03_7},
			{ID: "R-C03-9", Doc: "MATCH prefixes are directory prefixes (normalised with a trailing slash); the base path is the plain remainder", Min: 3, Run: ruleC03_9},
			a1Rule(6, "in_toto.VerifyArtifacts", "in_toto.verifyMatchRule", "in_toto.UnpackRule", "in_toto.validateArtifactRule", "in_toto.validateSliceOfArtifactRules", "in_toto.validateSupplyChainItem"),
		}})
}

var ruleKeywords = []string{"allow", "create", "delete", "disallow", "match", "modify", "require"}

// stringCases collects the string constants that values satisfying pred are compared (==) with in f.
func stringCases(f *ssa.Function, pred func(v ssa.Value) bool) map[string]*ssa.BinOp {
	out := map[string]*ssa.BinOp{}
	for _, b := range f.Blocks {
		for _, in := range b.Instrs {
			bo, ok := in.(*ssa.BinOp)
			if !ok || bo.Op != token.EQL {
				continue
			}
			if s, ok := constString(bo.Y); ok && pred(bo.X) {
				out[s] = bo
			} else if s, ok := constString(bo.X); ok && pred(bo.Y) {
				out[s] = bo
			}
		}
	}
	return out
}

func keysOf(m map[string]*ssa.BinOp) []string {
	var out []string
	for k := range m {
		out = append(out, k)
	}
	sort.Strings(out)
	return out
}

func isRuleType(v ssa.Value) bool {
	o := org(v)
	return strings.HasPrefix(o, "in_toto.UnpackRule(") && strings.HasSuffix(o, `#0{const("type")}`)
}

func ruleC03_1(c *Ctx) {
	const R = "R-C03-1"
	up := c.lookup("in_toto.UnpackRule")
	va := c.lookup("in_toto.VerifyArtifacts")
	if up == nil || va == nil {
		c.undecided(R, "in_toto", "anchors", 0, "UnpackRule / VerifyArtifacts not found")
		return
	}
	kp := keysOf(stringCases(up, func(v ssa.Value) bool { return org(v) == "makeslice[0]" }))
	ki := keysOf(stringCases(va, isRuleType))
	spec := strings.Join(ruleKeywords, ",")
	c.check(strings.Join(kp, ",") == spec, R, fname(up), "parser keyword set", up.Pos(), strings.Join(kp, ","), "parser accepts keywords {"+strings.Join(kp, ",")+"}, the spec has {"+spec+"}")
	c.check(strings.Join(ki, ",") == spec, R, fname(va), "interpreter keyword set", va.Pos(), strings.Join(ki, ","),
		"interpreter has cases {"+strings.Join(ki, ",")+"}, parser/spec have {"+spec+"}: a rule type the parser accepts and the interpreter lacks is silently ignored")
}

func ruleC03_2(c *Ctx) {
	const R = "R-C03-2"
	f := c.lookup("in_toto.UnpackRule")
	if f == nil {
		return
	}
	fn := fname(f)
	// lower-casing of every token
	okLower := false
	for _, b := range f.Blocks {
		for _, in := range b.Instrs {
			if st, ok := in.(*ssa.Store); ok {
				if org(st.Addr) == "makeslice[*]" && org(st.Val) == "strings.ToLower(p0[*])" && wholeSliceIndex(st.Addr) {
					okLower = true
				}
			}
		}
	}
	c.check(okLower, R, fn, "tokens are compared case-insensitively", f.Pos(), "lower[i] = strings.ToLower(rule[i]) for every i", "the token copy used for keyword comparison is not the lower-cased rule")
	// result discipline: map non-nil <=> error nil
	for _, r := range returnsOf(f) {
		mapNil := isNilConst(r.Results[0])
		errNil := !c.mayBeNilErr(r.Results[1], r.Block(), 0) == false && isNilConst(resolve(r.Results[1], r))
		c.check(mapNil != errNil, R, fn, "result discipline", instrPos(r), fmt.Sprintf("map nil=%v, error nil=%v", mapNil, errNil), "a return yields both / neither of rule data and error")
	}
	// generic keywords require length 2
	cases := stringCases(f, func(v ssa.Value) bool { return org(v) == "makeslice[0]" })
	lens := lenCompares(f, func(v ssa.Value) bool { return v == ssa.Value(f.Params[0]) })
	var len2 *lenCmp
	for i := range lens {
		if lens[i].k == 2 && (lens[i].op == token.NEQ || lens[i].op == token.EQL) {
			len2 = &lens[i]
		}
	}
	okLen2 := false
	if len2 != nil {
		for _, cu := range condUsers(len2.bo, false) {
			// length 3 fails, length 2 does not
			if c.failing(branchTaken(cu, evalCmp(len2.op, 3, 2))) && !c.failing(branchTaken(cu, evalCmp(len2.op, 2, 2))) {
				okLen2 = true
			}
		}
		// reachable for each of the six generic keywords
		for _, kw := range []string{"allow", "create", "delete", "disallow", "modify", "require"} {
			bo := cases[kw]
			reach := false
			if bo != nil {
				for _, cu := range condUsers(bo, false) {
					tb := branchTaken(cu, true)
					if tb == len2.bo.Block() || reaches(tb, len2.bo.Block()) {
						reach = true
					}
				}
			}
			c.check(reach, R, fn, "keyword "+kw+" requires length 2", len2.bo.Pos(), "case leads to the len(rule) != 2 check", "keyword "+kw+" does not lead to the length check")
		}
	}
	c.check(okLen2, R, fn, "generic rules of length != 2 are an error", f.Pos(), "len(rule) != 2 => failing continuation", "a generic rule with a wrong number of tokens is not rejected")
	// MATCH grammar table: per accepted arm (identified by the facts holding at the predecessor of the join block)
	type arm struct{ src, typ, dstp, name string }
	spec := map[string]arm{
		"10|in":  {"p0[3]", "makeslice[5]", "p0[7]", "p0[9]"},
		"8|in":   {"p0[3]", "makeslice[5]", `const("")`, "p0[7]"},
		"8|with": {`const("")`, "makeslice[3]", "p0[5]", "p0[7]"},
		"6|with": {`const("")`, "makeslice[3]", `const("")`, "p0[5]"},
	}
	specKW := map[string]map[int]string{
		"10|in":  {2: "in", 4: "with", 6: "in", 8: "from"},
		"8|in":   {2: "in", 4: "with", 6: "from"},
		"8|with": {2: "with", 4: "in", 6: "from"},
		"6|with": {2: "with", 4: "from"},
	}
	// find the join block: the block holding the phi for srcPrefix (phis whose edges are among p0[k]/""/makeslice[k])
	var join *ssa.BasicBlock
	phis := map[string]*ssa.Phi{}
	for _, b := range f.Blocks {
		for _, in := range b.Instrs {
			if ph, ok := in.(*ssa.Phi); ok {
				switch ph.Comment {
				case "srcPrefix", "dstType", "dstPrefix", "dstName":
					phis[ph.Comment] = ph
					join = b
				}
			}
		}
	}
	if join == nil || len(phis) != 4 {
		c.undecided(R, fn, "MATCH arms", f.Pos(), "cannot find the join of the four MATCH shapes (phis srcPrefix/dstType/dstPrefix/dstName)")
		return
	}
	// keyword comparisons: makeslice[k] == "kw"
	type kwcmp struct {
		idx int
		kw  string
		bo  *ssa.BinOp
	}
	var kws []kwcmp
	for _, b := range f.Blocks {
		for _, in := range b.Instrs {
			bo, ok := in.(*ssa.BinOp)
			if !ok || bo.Op != token.EQL {
				continue
			}
			s, ok := constString(bo.Y)
			if !ok {
				continue
			}
			var k int
			if n, _ := fmt.Sscanf(org(bo.X), "makeslice[%d]", &k); n == 1 && k > 0 {
				kws = append(kws, kwcmp{k, s, bo})
			}
		}
	}
	seenArms := map[string]bool{}
	for i, pb := range join.Preds {
		// length fact
		n := int64(-1)
		for _, lc := range lens {
			if lc.op == token.EQL && (c.condAt(lc.bo, true, pb) || edgeFact(pb, join, lc.bo, true)) {
				n = lc.k
			}
		}
		got := map[int]string{}
		for _, kc := range kws {
			if c.condAt(kc.bo, true, pb) || edgeFact(pb, join, kc.bo, true) {
				got[kc.idx] = kc.kw
			}
		}
		key := fmt.Sprintf("%d|%s", n, got[2])
		want, okArm := spec[key]
		if !okArm {
			c.bad(R, fn, "MATCH arm "+key, instrPos(pb.Instrs[0]), fmt.Sprintf("an accepted MATCH shape (len %d, keywords %v) is not one of the four documented forms", n, got))
			continue
		}
		seenArms[key] = true
		kwOK := len(got) == len(specKW[key])
		for k, v := range specKW[key] {
			if got[k] != v {
				kwOK = false
			}
		}
		c.check(kwOK, R, fn, "MATCH arm "+key+" keyword positions", instrPos(pb.Instrs[0]), fmt.Sprint(got), fmt.Sprintf("keywords checked %v, grammar requires %v", got, specKW[key]))
		gotArm := arm{org(phis["srcPrefix"].Edges[i]), org(phis["dstType"].Edges[i]), org(phis["dstPrefix"].Edges[i]), org(phis["dstName"].Edges[i])}
		c.check(gotArm == want, R, fn, "MATCH arm "+key+" extracted fields", instrPos(pb.Instrs[0]), fmt.Sprintf("%+v", gotArm), fmt.Sprintf("extracted %+v, grammar requires %+v", gotArm, want))
	}
	c.check(len(seenArms) == 4, R, fn, "all four MATCH forms are accepted", join.Instrs[0].Pos(), "4 arms", fmt.Sprintf("accepted forms: %v", seenArms))
	// returned map of the match arm
	wantFields := map[string]string{"type": "makeslice[0]", "pattern": "p0[1]"}
	for _, b := range f.Blocks {
		for _, in := range b.Instrs {
			mu, ok := in.(*ssa.MapUpdate)
			if !ok {
				continue
			}
			k, _ := constString(mu.Key)
			if w, ok := wantFields[k]; ok {
				detail := "field " + k + " is " + org(mu.Value) + ", expected " + w + " (the word of the rule as written)"
				if derives(mu.Value, func(v ssa.Value) bool {
					k2, ok := v.(*ssa.Call)
					return ok && (calleeName(k2) == "strings.ToLower" || calleeName(k2) == "strings.ToUpper")
				}, true) {
					detail += ": it is taken from the case-folded copy of the rule, which exists for comparing the keywords only - patterns and prefixes are case-sensitive"
				}
				c.check(org(mu.Value) == w, R, fn, "rule data field "+k, mu.Pos(), w, detail)
			}
			if ph, ok := phis[k]; ok {
				c.check(mu.Value == ssa.Value(ph), R, fn, "rule data field "+k, mu.Pos(), "the extracted "+k, "field "+k+" is "+org(mu.Value))
			}
		}
	}
}

func ruleC03_4(c *Ctx) {
	const R = "R-C03-4"
	f := c.lookup("in_toto.VerifyArtifacts")
	if f == nil {
		return
	}
	fn := fname(f)
	cases := stringCases(f, isRuleType)
	up := firstCall(f, "in_toto.UnpackRule")
	if up == nil {
		c.bad(R, fn, "UnpackRule", f.Pos(), "rules are not parsed with UnpackRule")
		return
	}
	// disallow: len(filtered) > 0 => failing
	okDis := false
	for _, lc := range lenCompares(f, func(v ssa.Value) bool {
		k, ok := v.(*ssa.Call)
		return ok && calleeName(k) == "(in_toto.Set).Filter"
	}) {
		if cases["disallow"] == nil || !c.condAt(cases["disallow"], true, lc.bo.Block()) {
			continue
		}
		for _, cu := range condUsers(lc.bo, false) {
			if c.failing(branchTaken(cu, evalCmp(lc.op, 1, lc.k))) && !c.failing(branchTaken(cu, evalCmp(lc.op, 0, lc.k))) {
				okDis = true
			}
		}
	}
	c.check(okDis, R, fn, "DISALLOW fails iff the filtered set is non-empty", f.Pos(), "branch on len(queue.Filter(pattern)) under type==disallow: 1 fails, 0 does not", "DISALLOW does not fail exactly when a matching artifact is still in the queue")
	okReq := false
	for _, has := range callsIn(f, "(in_toto.Set).Has") {
		if cases["require"] == nil || !c.condAt(cases["require"], true, has.Block()) {
			continue
		}
		a := has.Common().Args
		if !strings.HasSuffix(org(a[1]), `#0{const("pattern")}`) {
			continue
		}
		for _, cu := range condUsers(has.Value(), false) {
			if c.failing(branchTaken(cu, false)) && !c.failing(branchTaken(cu, true)) {
				okReq = true
			}
		}
	}
	c.check(okReq, R, fn, "REQUIRE fails iff its artifact is not in the queue", f.Pos(), "queue.Has(pattern) false => failing continuation, under type==require", "REQUIRE does not fail exactly when the named artifact is missing from the queue")
	// no other rule type returns an error: every failing return after UnpackRule succeeded is under disallow or require
	n := 0
	for _, r := range returnsOf(f) {
		if !c.okCallAt(up, r.Block()) || c.mayBeNilErr(r.Results[0], r.Block(), 0) {
			continue
		}
		n++
		under := ""
		for _, kw := range []string{"disallow", "require"} {
			if cases[kw] != nil && c.condAt(cases[kw], true, r.Block()) {
				under = kw
			}
		}
		c.check(under != "", R, fn, "error return inside rule processing", instrPos(r), "under type=="+under, "a rule type other than DISALLOW/REQUIRE can fail verification (consuming rules never fail)")
	}
	if n == 0 {
		c.bad(R, fn, "error returns inside rule processing", f.Pos(), "no failing return after parsing a rule")
	}
}

// setIdentity finds the two path sets of VerifyArtifacts by their construction.
type c03Sets struct {
	materialPaths, productPaths ssa.Value
	created, deleted, remained  ssa.Value
	modified                    ssa.Value
}

// c03sets identifies the path sets of VerifyArtifacts. They are computed in f itself, or in one unexported helper
// that receives the link's Materials and Products and returns the sets (classification extracted into a function);
// in that case the values are the results of the helper call in f.
func (c *Ctx) c03sets(f *ssa.Function) *c03Sets {
	s := c.c03setsIn(f, org)
	if s.materialPaths != nil && s.productPaths != nil {
		return s
	}
	for _, via := range allCalls(f) {
		g := via.Common().StaticCallee()
		if !c.isStageHelper(g) {
			continue
		}
		subst := map[*ssa.Parameter]string{}
		for i, prm := range g.Params {
			if i < len(via.Common().Args) {
				subst[prm] = org(via.Common().Args[i])
			}
		}
		inner := c.c03setsIn(g, func(v ssa.Value) string { return orgSubst(v, subst) })
		if inner.materialPaths == nil || inner.productPaths == nil {
			continue
		}
		// map the helper's values to the results of the call: result k is the value on every return
		rets := returnsOf(g)
		toCaller := func(v ssa.Value) ssa.Value {
			if v == nil || len(rets) == 0 {
				return nil
			}
			idx := -1
			for _, r := range rets {
				found := -1
				for k, res := range r.Results {
					if resolve(res, r) == resolve(v, nil) {
						found = k
					}
				}
				if found < 0 || (idx >= 0 && idx != found) {
					return nil
				}
				idx = found
			}
			return resultN(via, idx)
		}
		return &c03Sets{
			materialPaths: toCaller(inner.materialPaths), productPaths: toCaller(inner.productPaths),
			created: toCaller(inner.created), deleted: toCaller(inner.deleted), modified: toCaller(inner.modified),
			remained: inner.remained, // internal to the helper; only its existence matters to the caller's rule
		}
	}
	return s
}

func (c *Ctx) c03setsIn(f *ssa.Function, org func(ssa.Value) string) *c03Sets {
	s := &c03Sets{}
	for _, add := range callsIn(f, "(in_toto.Set).Add") {
		a := add.Common().Args
		// path.Clean(name) for name out of the key set of link.Materials / link.Products (a range over the map or over
		// its key list, built in place or by a key-list helper)
		var m ssa.Value
		if pcall, _ := producer(resolve(a[1], add), add); pcall != nil && calleeName(pcall) == "path.Clean" {
			m = c.elemOfKeys(pcall.Common().Args[0], pcall)
		} else if mm, tr := c.elemOfKeyList(a[1], add); tr == "path.Clean" {
			m = mm
		}
		if m != nil {
			o := org(m)
			if strings.HasSuffix(o, ".(in_toto.Link).Materials") {
				s.materialPaths = resolve(a[0], add)
			} else if strings.HasSuffix(o, ".(in_toto.Link).Products") {
				s.productPaths = resolve(a[0], add)
			}
		}
	}
	// NewSet(cleaned key list...)
	for _, ns := range callsIn(f, "in_toto.NewSet") {
		if m, tr := c.keyListOf(ns.Common().Args[0], ns); m != nil && tr == "path.Clean" {
			o := org(m)
			if strings.HasSuffix(o, ".(in_toto.Link).Materials") {
				s.materialPaths = ns.Value()
			} else if strings.HasSuffix(o, ".(in_toto.Link).Products") {
				s.productPaths = ns.Value()
			}
		}
	}
	// a path set built by an unexported helper from one artifact map: Set helper(map[string]HashObj)
	for _, via := range allCalls(f) {
		g := via.Common().StaticCallee()
		if g == nil || g == f || g.Blocks == nil || g.Pkg != f.Pkg || g.Object() == nil || g.Object().Exported() || len(g.Params) != 1 {
			continue
		}
		if rs := resultTypes(g); len(rs) != 1 || rs[0] != "in_toto.Set" || typeStr(g.Params[0].Type()) != "map[string]in_toto.HashObj" {
			continue
		}
		argOrg := org(via.Common().Args[0])
		inner := c.c03setsIn(g, func(v ssa.Value) string { return orgSubst(v, map[*ssa.Parameter]string{g.Params[0]: argOrg}) })
		var set ssa.Value
		isMat := false
		switch {
		case inner.materialPaths != nil && inner.productPaths == nil:
			set, isMat = inner.materialPaths, true
		case inner.productPaths != nil && inner.materialPaths == nil:
			set = inner.productPaths
		default:
			continue
		}
		all := len(returnsOf(g)) > 0
		for _, r := range returnsOf(g) {
			if resolve(r.Results[0], r) != resolve(set, nil) {
				all = false
			}
		}
		if !all {
			continue
		}
		if isMat {
			s.materialPaths = via.Value()
		} else {
			s.productPaths = via.Value()
		}
	}
	for _, call := range allCalls(f) {
		n := calleeName(call)
		a := call.Common().Args
		if len(a) != 2 {
			continue
		}
		x, y := resolve(a[0], call), resolve(a[1], call)
		switch n {
		case "(in_toto.Set).Difference":
			if x == s.productPaths && y == s.materialPaths && x != nil {
				s.created = call.Value()
			}
			if x == s.materialPaths && y == s.productPaths && x != nil {
				s.deleted = call.Value()
			}
		case "(in_toto.Set).Intersection":
			if (x == s.materialPaths && y == s.productPaths || x == s.productPaths && y == s.materialPaths) && x != nil {
				s.remained = call.Value()
			}
		}
	}
	// modified: set whose Add is guarded by !DeepEqual(materials[name], products[name]) for name ranging over remained
	for _, add := range callsIn(f, "(in_toto.Set).Add") {
		a := add.Common().Args
		if s.remained == nil {
			continue
		}
		// the added name ranges over remained
		if m, _ := rangeKeyOf(resolve(a[1], add)); m == nil || resolve(m, nil) != s.remained {
			continue
		}
		// materials[name] / products[name] for a name ranging over remained
		side := func(v ssa.Value, at ssa.Instruction) string {
			lk, ok := unwrapIface(resolve(v, at)).(*ssa.Lookup)
			if !ok {
				return ""
			}
			if m, _ := rangeKeyOf(resolve(lk.Index, lk)); m == nil || resolve(m, nil) != s.remained {
				return ""
			}
			o := org(lk.X)
			switch {
			case strings.HasSuffix(o, ".Materials"):
				return "M"
			case strings.HasSuffix(o, ".Products"):
				return "P"
			}
			return ""
		}
		for _, de := range c.equalityCalls(f) {
			d := de.Common().Args
			if s0, s1 := side(d[0], de), side(d[1], de); s0 != "" && s1 != "" && s0 != s1 {
				if c.condAt(de.Value(), false, add.Block()) {
					s.modified = resolve(a[0], add)
				}
			}
		}
	}
	return s
}

func ruleC03_5(c *Ctx) {
	const R = "R-C03-5"
	f := c.lookup("in_toto.VerifyArtifacts")
	if f == nil {
		return
	}
	fn := fname(f)
	s := c.c03sets(f)
	c.check(s.materialPaths != nil && s.productPaths != nil, R, fn, "material / product path sets", f.Pos(), "built from path.Clean of the link's artifact names", "cannot identify the sets built from the link's materials and products")
	c.check(s.created != nil, R, fn, "created = products \\ materials", f.Pos(), "productPaths.Difference(materialPaths)", "no set computed as products minus materials")
	c.check(s.deleted != nil, R, fn, "deleted = materials \\ products", f.Pos(), "materialPaths.Difference(productPaths)", "no set computed as materials minus products")
	c.check(s.remained != nil && s.modified != nil, R, fn, "modified = names in both with different hash objects", f.Pos(), "Add under !DeepEqual(materials[n], products[n]) for n in materials ∩ products", "no set of names present on both sides whose hash objects differ")
	// the two rounds pair rules / artifacts / paths of the same kind
	recs := c03rounds(f)
	rounds := 0
	pathsKey, artifactsKey := "", ""
	for _, rc := range recs {
		rounds++
		kind := rc.kind
		fieldRules, fieldArt, paths := "ExpectedMaterials", ".Materials", s.materialPaths
		if kind == "products" {
			fieldRules, fieldArt, paths = "ExpectedProducts", ".Products", s.productPaths
		}
		okPair := kind == "materials" || kind == "products"
		okPair = okPair && rc.rules != nil && rc.artifacts != nil && rc.paths != nil && strings.Contains(org(rc.rules), "."+fieldRules) &&
			strings.HasSuffix(org(rc.artifacts), fieldArt) && resolve(rc.paths, nil) == resolve(paths, nil)
		if rc.rules != nil && (kind == "materials" && strings.Contains(org(rc.rules), "ExpectedProducts") || kind == "products" && strings.Contains(org(rc.rules), "ExpectedMaterials")) {
			okPair = false
		}
		if pathsKey == "" {
			pathsKey, artifactsKey = rc.pathsKey, rc.artifactsKey
		} else if pathsKey != rc.pathsKey || artifactsKey != rc.artifactsKey {
			okPair = false
		}
		c.check(okPair, R, fn, "verification round "+kind, rc.pos, "rules="+fieldRules+", artifacts="+fieldArt+", queue=the "+kind+" path set",
			"the "+kind+" round pairs rules "+short(org(rc.rules))+" with artifacts "+short(org(rc.artifacts)))
	}
	c.check(rounds == 2, R, fn, "two verification rounds", f.Pos(), "materials and products", fmt.Sprintf("%d rounds", rounds))
	// the queue phi
	var queue *ssa.Phi
	for _, b := range f.Blocks {
		for _, in := range b.Instrs {
			// the queue: a loop-carried Set (phi at a loop header) that some back edge updates with Set.Difference of itself
			if ph, ok := in.(*ssa.Phi); ok && typeStr(ph.Type()) == "in_toto.Set" {
				for i, e := range ph.Edges {
					if !b.Dominates(b.Preds[i]) {
						continue
					}
					if call, ok := e.(*ssa.Call); ok && calleeName(call) == "(in_toto.Set).Difference" && call.Call.Args[0] == ssa.Value(ph) {
						queue = ph
					}
				}
				if queue == nil {
					// fall back: the only loop-carried Set
					isHeader := false
					for i := range ph.Edges {
						if b.Dominates(b.Preds[i]) {
							isHeader = true
						}
					}
					if isHeader && pathsKey != "" && derives(ph, func(v ssa.Value) bool {
						return c03roundAccess(v) == pathsKey
					}, false) {
						queue = ph
					}
				}
			}
		}
	}
	// inside the rounds nothing edits a set in place: the queue starts as the round's path set itself (no copy), and the
	// path sets feed the created / deleted / modified classification of the other round
	for _, call := range allCalls(f) {
		n := genericBase(calleeName(call))
		tgt := -1
		switch n {
		case "(in_toto.Set).Add", "(in_toto.Set).Remove", "builtin:delete", "builtin:clear", "maps.DeleteFunc", "maps.Copy":
			tgt = 0
		}
		if tgt < 0 || len(recs) == 0 || recs[0].blk == nil || !(recs[0].blk == call.Block() && false || recs[0].blk.Dominates(call.Block()) && recs[0].blk != call.Block()) {
			continue
		}
		t := resolve(call.Common().Args[tgt], call)
		if ci, ok := t.(*ssa.ChangeType); ok {
			t = resolve(ci.X, call)
		}
		shared := (queue != nil && t == ssa.Value(queue)) || t == resolve(s.materialPaths, nil) || t == resolve(s.productPaths, nil) || (pathsKey != "" && c03roundAccess(t) == pathsKey)
		if shared {
			c.bad(R, fn, "in-place edit of a path set inside the rounds", call.Pos(), n+" on "+short(org(t))+": the queue is the round's path set itself, which the other round's CREATE / DELETE / MODIFY classification reads; consumed artifacts must be removed by replacing the queue (queue = queue.Difference(consumed))")
		}
	}
	if queue == nil {
		c.undecided(R, fn, "queue", f.Pos(), "no loop-carried queue value found")
		return
	}
	var consumed *ssa.Phi
	okUpdate := true
	nBack := 0
	for i, e := range queue.Edges {
		pb := queue.Block().Preds[i]
		if !queue.Block().Dominates(pb) {
			// initial value: the round's artifactPaths
			okInit := pathsKey != "" && c03roundAccess(resolve(e, nil)) == pathsKey
			c.check(okInit, R, fn, "queue starts as the round's path set", queue.Pos(), short(org(e)), "initial queue is "+short(org(e)))
			continue
		}
		nBack++
		call, ok := e.(*ssa.Call)
		if !ok || calleeName(call) != "(in_toto.Set).Difference" || call.Call.Args[0] != ssa.Value(queue) {
			okUpdate = false
			continue
		}
		if ph, ok := call.Call.Args[1].(*ssa.Phi); ok {
			consumed = ph
		}
	}
	c.check(okUpdate && nBack > 0, R, fn, "queue = queue.Difference(consumed) on every back edge", queue.Pos(), fmt.Sprintf("%d back edge(s)", nBack), "a path through the rule loop leaves the queue without removing the consumed artifacts (or removes something else)")
	// operations use the live queue
	filt := firstCall(f, "(in_toto.Set).Filter")
	c.check(filt != nil && filt.Common().Args[0] == ssa.Value(queue) && strings.HasPrefix(org(filt.Common().Args[1]), "path.Clean(in_toto.UnpackRule(") && strings.HasSuffix(org(filt.Common().Args[1]), `#0{const("pattern")})`),
		R, fn, "filtered = live queue filtered by the rule's pattern", f.Pos(), "queue.Filter(path.Clean(ruleData[pattern]))", "the rule's pattern is not applied to the live queue")
	for _, has := range callsIn(f, "(in_toto.Set).Has") {
		c.check(has.Common().Args[0] == ssa.Value(queue), R, fn, "REQUIRE looks at the live queue", has.Pos(), "queue.Has", "REQUIRE looks at "+short(org(has.Common().Args[0])))
	}
	if mr := firstCall(f, "in_toto.verifyMatchRule"); mr != nil {
		a := mr.Common().Args
		okM := a[2] == ssa.Value(queue) && artifactsKey != "" && c03roundAccess(resolve(a[1], mr)) == artifactsKey && org(a[3]) == "p1" && strings.HasSuffix(org(a[0]), "#0")
		c.check(okM, R, fn, "MATCH operates on the live queue, the round's artifacts and all verified links", mr.Pos(), "verifyMatchRule(ruleData, artifacts, queue, itemsMetadata)", "MATCH helper receives "+short(org(a[1]))+", "+short(org(a[2]))+", "+short(org(a[3])))
	}
	// per-type consumption wiring
	if consumed == nil {
		c.bad(R, fn, "consumed set", queue.Pos(), "cannot identify the consumed set")
		return
	}
	cases := stringCases(f, isRuleType)
	var filtered ssa.Value
	if filt != nil {
		filtered = filt.Value()
	}
	isInter := func(v ssa.Value, other ssa.Value) bool {
		k, ok := v.(*ssa.Call)
		if !ok || calleeName(k) != "(in_toto.Set).Intersection" || other == nil {
			return false
		}
		x, y := resolve(k.Call.Args[0], k), resolve(k.Call.Args[1], k)
		return (x == filtered && y == resolve(other, nil)) || (y == filtered && x == resolve(other, nil))
	}
	seenType := map[string]bool{}
	for i, e := range consumed.Edges {
		pb := consumed.Block().Preds[i]
		typ := ""
		for _, kw := range ruleKeywords {
			if cases[kw] != nil && (c.condAt(cases[kw], true, pb) || edgeFact(pb, consumed.Block(), cases[kw], true)) {
				typ = kw
			}
		}
		if typ == "" {
			// default: no case matched
			c.check(isNilConst(e), R, fn, "unknown rule type consumes nothing", instrPos(pb.Instrs[0]), "nil", "the default arm consumes "+short(org(e)))
			continue
		}
		seenType[typ] = true
		ok := false
		switch typ {
		case "allow":
			ok = e == filtered
		case "create":
			ok = isInter(e, s.created)
		case "delete":
			ok = isInter(e, s.deleted)
		case "modify":
			ok = isInter(e, s.modified)
		case "match":
			k, isCall := e.(*ssa.Call)
			ok = isCall && calleeName(k) == "in_toto.verifyMatchRule"
		case "disallow", "require":
			ok = isNilConst(e)
		}
		c.check(ok, R, fn, strings.ToUpper(typ)+" consumes the right set", instrPos(pb.Instrs[0]), short(org(e)), strings.ToUpper(typ)+" consumes "+short(org(e)))
	}
	for _, kw := range ruleKeywords {
		if !seenType[kw] {
			c.bad(R, fn, strings.ToUpper(kw)+" arm", f.Pos(), "no arm of the consumption switch is taken under type=="+kw)
		}
	}
}

func ruleC03_6(c *Ctx) {
	const R = "R-C03-6"
	f := c.lookup("in_toto.verifyMatchRule")
	if f == nil {
		c.undecided(R, "in_toto.verifyMatchRule", "anchor", 0, "function not found")
		return
	}
	fn := fname(f)
	var add ssa.CallInstruction
	for _, a := range callsIn(f, "(in_toto.Set).Add") {
		if _, isNew := resolve(a.Common().Args[0], a).(*ssa.Call); isNew {
			add = a
		}
	}
	if add == nil {
		c.bad(R, fn, "consumed.Add", f.Pos(), "nothing is ever consumed")
		return
	}
	src := resolve(add.Common().Args[1], add)
	c.check(org(src) == "key(p2)", R, fn, "consumed element is the queue element under examination", add.Pos(), "key(queue)", "consumed element is "+org(src))
	// returned set is the one added to
	for _, r := range returnsOf(f) {
		c.check(resolve(r.Results[0], r) == resolve(add.Common().Args[0], add), R, fn, "returns the consumed set", instrPos(r), "same NewSet()", "returns "+short(org(r.Results[0])))
	}
	blk := add.Block()
	// (a) pattern match
	okA := false
	var base ssa.Value
	for _, m := range callsIn(f, "in_toto.match") {
		a := m.Common().Args
		if !derives(a[1], func(v ssa.Value) bool { return v == src }, true) {
			continue
		}
		if org(a[0]) != `p0{const("pattern")}` {
			continue
		}
		matched := resultN(m, 0)
		if matched != nil && c.condAt(matched, true, blk) && c.okCallAt(m, blk) {
			okA = true
			base = a[1]
		}
	}
	c.check(okA, R, fn, "(a) consumed only after an error-free, positive pattern match of the (prefix-stripped) source path", add.Pos(), "match(ruleData[pattern], base) == (true, nil) dominates Add", "an artifact is consumed without a successful pattern match")
	// (b) destination exists
	okB := false
	var dstVal ssa.Value
	for _, b := range f.Blocks {
		for _, in := range b.Instrs {
			lk, ok := in.(*ssa.Lookup)
			if !ok || !lk.CommaOk || lk.Block() == nil {
				continue
			}
			if !strings.Contains(org(lk.X), ".(in_toto.Link).") {
				continue
			}
			if okv := extractOf(lk, 1); okv != nil && c.condAt(okv, true, blk) {
				// destination path = Clean(Join(dstPrefix, base))
				if base != nil && derives(lk.Index, func(v ssa.Value) bool { return v == resolve(base, nil) || v == base }, true) &&
					derives(lk.Index, func(v ssa.Value) bool { return org(v) == `p0{const("dstPrefix")}` }, true) {
					okB = true
					dstVal = extractOf(lk, 0)
				}
			}
		}
	}
	c.check(okB, R, fn, "(b) consumed only if the destination artifact dstPrefix+base exists", add.Pos(), "comma-ok lookup in the destination artifacts dominates Add", "an artifact is consumed without a corresponding destination artifact")
	// (c) equal hashes
	okC := false
	for _, de := range c.equalityCalls(f) {
		a := de.Common().Args
		o0, o1 := org(a[0]), org(a[1])
		isSrc := func(o string) bool { return o == "p1{key(p2)}" }
		isDst := func(v ssa.Value) bool { return dstVal != nil && resolve(v, de) == dstVal }
		if (isSrc(o0) && isDst(a[1]) || isSrc(o1) && isDst(a[0])) && c.condAt(de.Value(), true, blk) {
			okC = true
		}
	}
	c.check(okC, R, fn, "(c) consumed only if source and destination hash objects are equal", add.Pos(), "reflect.DeepEqual(srcArtifacts[src], dstArtifact) true dominates Add", "an artifact is consumed without its hashes being compared with the destination artifact's")
	// (d) source prefix membership
	okD := false
	for _, call := range allCalls(f) {
		n := calleeName(call)
		if n != "strings.HasPrefix" && n != "strings.CutPrefix" {
			continue
		}
		a := call.Common().Args
		if resolve(a[0], call) == src && strings.Contains(org(a[1]), `p0{const("srcPrefix")}`) {
			var v ssa.Value = call.Value()
			if n == "strings.CutPrefix" {
				v = resultN(call, 1)
			}
			if v != nil && (c.condAt(v, true, blk) || prefixEmptyAlternative(c, f, v, blk)) {
				okD = true
			}
		}
	}
	c.check(okD, R, fn, "(d) with a source prefix, only artifacts under that prefix are consumed", add.Pos(), "prefix membership test dominates Add",
		"strings.TrimPrefix is applied unconditionally: an artifact outside the source prefix is matched under its full name and consumed (MATCH must only consume artifacts located under its source prefix)")
}

// prefixEmptyAlternative: Add is dominated by (HasPrefix true) OR (srcPrefix == ""): accept the disjunction when the
// block is reachable only via one of the two facts. Approximated: not recognised (returns false) unless both
// predecessors' facts cover it.
func prefixEmptyAlternative(c *Ctx, f *ssa.Function, has ssa.Value, blk *ssa.BasicBlock) bool {
	// find comparison srcPrefix == "" / != ""
	for _, b := range f.Blocks {
		for _, in := range b.Instrs {
			bo, ok := in.(*ssa.BinOp)
			if !ok || (bo.Op != token.EQL && bo.Op != token.NEQ) {
				continue
			}
			s, isS := constString(bo.Y)
			if !isS || s != "" || org(bo.X) != `p0{const("srcPrefix")}` {
				continue
			}
			// every path to blk must have has==true or prefix==""; check via a small path condition:
			// walk predecessors: a block satisfies if fact holds at it; else all preds must satisfy (bounded).
			seen := map[*ssa.BasicBlock]bool{}
			var sat func(x *ssa.BasicBlock, d int) bool
			sat = func(x *ssa.BasicBlock, d int) bool {
				if c.condAt(has, true, x) || c.condAt(bo, bo.Op == token.EQL, x) {
					return true
				}
				if seen[x] || d > 12 || len(x.Preds) == 0 {
					return false
				}
				seen[x] = true
				for _, p := range x.Preds {
					if edgeFact(p, x, has, true) || edgeFact(p, x, bo, bo.Op == token.EQL) {
						continue
					}
					if !sat(p, d+1) {
						return false
					}
				}
				return true
			}
			if sat(blk, 0) {
				return true
			}
		}
	}
	return false
}

func ruleC03_7(c *Ctx) {
	const R = "R-C03-7"
	f := c.lookup("in_toto.verifyMatchRule")
	if f == nil {
		return
	}
	fn := fname(f)
	// destination link looked up under dstName (comma-ok); missing => consumes nothing
	okName := false
	for _, b := range f.Blocks {
		for _, in := range b.Instrs {
			if lk, ok := in.(*ssa.Lookup); ok && lk.X == ssa.Value(f.Params[3]) && org(lk.Index) == `p0{const("dstName")}` {
				okName = true
			}
		}
	}
	c.check(okName, R, fn, "destination link = itemsMetadata[ruleData[dstName]]", f.Pos(), "lookup by dstName", "the destination link is not looked up under the rule's step name")
	var dst *ssa.Phi
	for _, b := range f.Blocks {
		for _, in := range b.Instrs {
			// the destination artifacts: the merged map[string]HashObj selected by the rule's dstType
			if ph, ok := in.(*ssa.Phi); ok && typeStr(ph.Type()) == "map[string]in_toto.HashObj" {
				fromDst := false
				for _, e := range ph.Edges {
					o := org(e)
					if strings.HasSuffix(o, ".(in_toto.Link).Materials") || strings.HasSuffix(o, ".(in_toto.Link).Products") {
						fromDst = true
					}
				}
				if fromDst {
					dst = ph
				}
			}
		}
	}
	if dst == nil {
		c.undecided(R, fn, "dstArtifacts", f.Pos(), "no destination artifact selection found")
		return
	}
	cases := stringCases(f, func(v ssa.Value) bool { return org(v) == `p0{const("dstType")}` })
	for i, e := range dst.Edges {
		pb := dst.Block().Preds[i]
		typ := ""
		for _, kw := range []string{"materials", "products"} {
			if cases[kw] != nil && (c.condAt(cases[kw], true, pb) || edgeFact(pb, dst.Block(), cases[kw], true)) {
				typ = kw
			}
		}
		o := org(e)
		switch typ {
		case "materials":
			c.check(strings.HasSuffix(o, `p3{p0{const("dstName")}}).(in_toto.Link).Materials`), R, fn, "WITH MATERIALS selects the destination link's materials", instrPos(pb.Instrs[0]), short(o), "dstType materials selects "+short(o))
		case "products":
			c.check(strings.HasSuffix(o, `p3{p0{const("dstName")}}).(in_toto.Link).Products`), R, fn, "WITH PRODUCTS selects the destination link's products", instrPos(pb.Instrs[0]), short(o), "dstType products selects "+short(o))
		default:
			c.check(isNilConst(e), R, fn, "other destination types select nothing", instrPos(pb.Instrs[0]), "nil", "an unknown destination type selects "+short(o))
		}
	}
}

// R-C03-9: the source/destination prefixes of a MATCH rule are normalised to end in "/", so that the prefix test is
// a directory test and not a string-prefix test, and the path handed to the matcher is exactly the remainder.
func ruleC03_9(c *Ctx) {
	const R = "R-C03-9"
	f := c.lookup("in_toto.verifyMatchRule")
	if f == nil {
		c.undecided(R, "in_toto.verifyMatchRule", "anchor", 0, "not found")
		return
	}
	fn := fname(f)
	// a store ruleData[prefix] = <cleaned> + "/" under !HasSuffix(<cleaned>, "/"), for prefix ranging over both names
	okSlash := false
	var names []string
	for _, b := range f.Blocks {
		for _, in := range b.Instrs {
			mu, ok := in.(*ssa.MapUpdate)
			if !ok || org(mu.Map) != "p0" {
				continue
			}
			bo, ok := resolve(mu.Value, mu).(*ssa.BinOp)
			if !ok || bo.Op != token.ADD {
				continue
			}
			if s, isS := constString(bo.Y); !isS || s != "/" {
				continue
			}
			for _, hs := range callsIn(f, "strings.HasSuffix") {
				if s, isS := constString(hs.Common().Args[1]); isS && s == "/" && c.condAt(hs.Value(), false, mu.Block()) {
					okSlash = true
				}
			}
			// which keys: elements of a slice literal
			derives(mu.Key, func(v ssa.Value) bool {
				if al, ok := v.(*ssa.Alloc); ok && al.Comment == "slicelit" {
					for _, r := range *al.Referrers() {
						if ia, ok := r.(*ssa.IndexAddr); ok {
							for _, rr := range *ia.Referrers() {
								if st, ok := rr.(*ssa.Store); ok {
									if s, isS := constString(st.Val); isS {
										names = append(names, s)
									}
								}
							}
						}
					}
					return true
				}
				return false
			}, false)
		}
	}
	// the same through a one-argument string helper: ruleData[<const key>] = helper(ruleData[<same key>]), where the helper
	// appends "/" unless its result already ends in one
	if !okSlash {
		allHelpers := true
		for _, b := range f.Blocks {
			for _, in := range b.Instrs {
				mu, ok := in.(*ssa.MapUpdate)
				if !ok || org(mu.Map) != "p0" {
					continue
				}
				key, isK := constString(mu.Key)
				if !isK || (key != "srcPrefix" && key != "dstPrefix") {
					continue
				}
				hc, ok := resolve(mu.Value, mu).(*ssa.Call)
				if !ok {
					continue
				}
				g := hc.Common().StaticCallee()
				if g == nil || g.Blocks == nil || g.Pkg != f.Pkg || len(g.Params) != 1 || len(hc.Call.Args) != 1 || org(hc.Call.Args[0]) != `p0{const("`+key+`")}` {
					continue
				}
				if c.slashNormaliser(g) {
					names = append(names, key)
				} else {
					allHelpers = false
				}
			}
		}
		okSlash = allHelpers && len(names) == 2
	}
	sort.Strings(names)
	c.check(okSlash && strings.Join(names, ",") == "dstPrefix,srcPrefix", R, fn, "non-empty prefixes end in a slash", f.Pos(), "ruleData[p] += \"/\" unless it already ends in one, for srcPrefix and dstPrefix", "the MATCH prefixes are not normalised to end in \"/\" (prefixes normalised: "+strings.Join(names, ",")+"): the prefix test is a plain string-prefix test, so `IN src` also covers `srcgen/x`")
	// the matched path is exactly TrimPrefix(srcPath, srcPrefix)
	n := 0
	for _, m := range callsIn(f, "in_toto.match") {
		n++
		base := resolve(m.Common().Args[1], m)
		k, ok := base.(*ssa.Call)
		okBase := ok && calleeName(k) == "strings.TrimPrefix" && org(k.Call.Args[0]) == "key(p2)" && org(k.Call.Args[1]) == `p0{const("srcPrefix")}`
		c.check(okBase, R, fn, "matched path = source path with exactly the source prefix removed", m.Pos(), "strings.TrimPrefix(srcPath, ruleData[srcPrefix])", "the path handed to the matcher is "+short(org(base))+" (further stripping changes which artifacts are located under the prefix)")
	}
	if n == 0 {
		c.bad(R, fn, "match call", f.Pos(), "no pattern match")
	}
	// prefix membership uses the normalised prefix on the queue element
	okHP := false
	for _, hp := range callsIn(f, "strings.HasPrefix") {
		a := hp.Common().Args
		if org(a[0]) == "key(p2)" && org(a[1]) == `p0{const("srcPrefix")}` {
			okHP = true
		}
	}
	c.check(okHP, R, fn, "prefix membership is tested on the queue element with the normalised prefix", f.Pos(), "strings.HasPrefix(srcPath, ruleData[srcPrefix])", "no membership test of the queue element against the normalised source prefix")
}

// slashNormaliser: every return of the one-argument string function g hands back "" for an empty argument or a value that
// ends in "/": the value itself where strings.HasSuffix(value, "/") is known true, value + "/" where it is known false.
func (c *Ctx) slashNormaliser(g *ssa.Function) bool {
	rets := returnsOf(g)
	if len(rets) == 0 {
		return false
	}
	endsInSlash := func(v ssa.Value, blk *ssa.BasicBlock, depth int) bool { return false }
	var rec func(v ssa.Value, blk *ssa.BasicBlock, depth int) bool
	rec = func(v ssa.Value, blk *ssa.BasicBlock, depth int) bool {
		if depth > 4 {
			return false
		}
		if bo, ok := v.(*ssa.BinOp); ok && bo.Op == token.ADD {
			if s, isS := constString(bo.Y); isS && strings.HasSuffix(s, "/") {
				return true
			}
		}
		for _, hs := range callsIn(g, "strings.HasSuffix") {
			if s, isS := constString(hs.Common().Args[1]); isS && s == "/" && resolve(hs.Common().Args[0], hs) == resolve(v, nil) && c.condAt(hs.Value(), true, blk) {
				return true
			}
		}
		if ph, ok := v.(*ssa.Phi); ok {
			for i, e := range ph.Edges {
				if !rec(e, ph.Block().Preds[i], depth+1) {
					// the edge may carry the value under a HasSuffix-true edge fact
					okEdge := false
					for _, hs := range callsIn(g, "strings.HasSuffix") {
						if s, isS := constString(hs.Common().Args[1]); isS && s == "/" && resolve(hs.Common().Args[0], hs) == resolve(e, nil) && edgeFact(ph.Block().Preds[i], ph.Block(), hs.Value(), true) {
							okEdge = true
						}
					}
					if !okEdge {
						return false
					}
				}
			}
			return len(ph.Edges) > 0
		}
		return false
	}
	_ = endsInSlash
	for _, r := range rets {
		v := resolve(r.Results[0], r)
		if s, isS := constString(v); isS && s == "" {
			continue
		}
		if !rec(v, r.Block(), 0) {
			return false
		}
	}
	return true
}

// c03Round is one record of the rounds table of VerifyArtifacts: a map[string]interface{} literal with constant keys,
// or a struct literal, as an element of the slice literal that the rounds loop ranges over. Roles are found by type.
type c03Round struct {
	kind                    string
	rules, artifacts, paths ssa.Value
	pathsKey, artifactsKey  string // how the loop body reads the role: "key:<k>" or "field:<name>"
	pos                     token.Pos
	blk                     *ssa.BasicBlock
}

func c03roundFromFields(vals map[string]ssa.Value, prefix string, pos token.Pos, blk *ssa.BasicBlock) (c03Round, bool) {
	rc := c03Round{pos: pos, blk: blk}
	names := make([]string, 0, len(vals))
	for k := range vals {
		names = append(names, k)
	}
	sort.Strings(names)
	for _, k := range names {
		v := vals[k]
		rv := resolve(v, nil)
		if mi, ok := rv.(*ssa.MakeInterface); ok {
			rv = resolve(mi.X, nil)
		}
		switch typeStr(rv.Type()) {
		case "[][]string":
			rc.rules = rv
		case "map[string]in_toto.HashObj":
			rc.artifacts, rc.artifactsKey = rv, prefix+k
		case "in_toto.Set":
			rc.paths, rc.pathsKey = rv, prefix+k
		case "string":
			if ks, ok := constString(rv); ok && (ks == "materials" || ks == "products") {
				rc.kind = ks
			}
		}
	}
	if rc.rules == nil && rc.artifacts == nil && rc.paths == nil {
		return rc, false
	}
	if rc.kind == "" && rc.rules != nil {
		if strings.Contains(org(rc.rules), ".ExpectedMaterials") {
			rc.kind = "materials"
		} else if strings.Contains(org(rc.rules), ".ExpectedProducts") {
			rc.kind = "products"
		}
	}
	return rc, true
}

func c03rounds(f *ssa.Function) []c03Round {
	var out []c03Round
	// map literals
	for _, b := range f.Blocks {
		for _, in := range b.Instrs {
			mk, ok := in.(*ssa.MakeMap)
			if !ok || typeStr(mk.Type()) != "map[string]interface{}" {
				continue
			}
			vals := map[string]ssa.Value{}
			for _, r := range *mk.Referrers() {
				if mu, ok := r.(*ssa.MapUpdate); ok {
					if k, ok := constString(mu.Key); ok {
						vals[k] = mu.Value
					}
				}
			}
			if rc, ok := c03roundFromFields(vals, "key:", mk.Pos(), mk.Block()); ok {
				out = append(out, rc)
			}
		}
	}
	// struct literals stored into the elements of a slice literal
	type elemKey struct {
		al  *ssa.Alloc
		idx int64
	}
	recs := map[elemKey]map[string]ssa.Value{}
	pos := map[elemKey]token.Pos{}
	blks := map[elemKey]*ssa.BasicBlock{}
	var order []elemKey
	for _, b := range f.Blocks {
		for _, in := range b.Instrs {
			st, ok := in.(*ssa.Store)
			if !ok {
				continue
			}
			fa, ok := st.Addr.(*ssa.FieldAddr)
			if !ok {
				continue
			}
			ia, ok := fa.X.(*ssa.IndexAddr)
			if !ok {
				continue
			}
			al, ok := ia.X.(*ssa.Alloc)
			if !ok || al.Comment != "slicelit" {
				continue
			}
			k, ok := constInt(ia.Index)
			if !ok {
				continue
			}
			ek := elemKey{al, k}
			if recs[ek] == nil {
				recs[ek] = map[string]ssa.Value{}
				pos[ek] = st.Pos()
				blks[ek] = st.Block()
				order = append(order, ek)
			}
			recs[ek][fieldName(fa.X.Type(), fa.Field)] = st.Val
		}
	}
	for _, ek := range order {
		if rc, ok := c03roundFromFields(recs[ek], "field:", pos[ek], blks[ek]); ok && rc.rules != nil {
			out = append(out, rc)
		}
	}
	return out
}

// c03roundAccess: v reads one member of a rounds record: "key:<k>" for record[<k>].(T), "field:<name>" for record.<name>.
func c03roundAccess(v ssa.Value) string {
	for i := 0; i < 6; i++ {
		switch x := v.(type) {
		case *ssa.Extract:
			v = x.Tuple
			continue
		case *ssa.TypeAssert:
			v = x.X
			continue
		case *ssa.Lookup:
			if k, ok := constString(x.Index); ok {
				return "key:" + k
			}
			return ""
		case *ssa.UnOp:
			if fa, ok := x.X.(*ssa.FieldAddr); ok {
				return "field:" + fieldName(fa.X.Type(), fa.Field)
			}
			return ""
		case *ssa.Field:
			return "field:" + fieldName(x.X.Type(), x.Field)
		}
		break
	}
	return ""
}
