package main

import (
	"fmt"
	"strings"

	"golang.org/x/tools/go/ssa"
)

// debugDump prints, for every function whose short name contains pat, the calls with argument origins.
func debugDump(p *Prog, pat string) {
	for f := range p.AllFuncs {
		if f.Blocks == nil || !strings.Contains(fname(f), pat) {
			continue
		}
		if f.Pkg == nil && f.Parent() == nil {
			continue
		}
		fmt.Printf("== %s\n", fname(f))
		for _, b := range f.Blocks {
			for _, in := range b.Instrs {
				switch x := in.(type) {
				case ssa.CallInstruction:
					var args []string
					cc := x.Common()
					if cc.IsInvoke() {
						args = append(args, org(cc.Value))
					}
					for _, a := range cc.Args {
						args = append(args, org(a))
					}
					fmt.Printf("  b%d %s  %s(%s)\n", b.Index, p.pos(in.Pos()), calleeName(x), strings.Join(args, ", "))
				case *ssa.MapUpdate:
					fmt.Printf("  b%d %s  MapUpdate %s{%s} = %s\n", b.Index, p.pos(in.Pos()), org(x.Map), org(x.Key), org(x.Value))
				case *ssa.Store:
					fmt.Printf("  b%d %s  Store %s = %s\n", b.Index, p.pos(in.Pos()), org(x.Addr), org(x.Val))
				case *ssa.Return:
					var rs []string
					for _, r := range x.Results {
						rs = append(rs, org(r))
					}
					fmt.Printf("  b%d %s  Return %s\n", b.Index, p.pos(in.Pos()), strings.Join(rs, ", "))
				}
			}
		}
	}
}

// dumpLoops lists every range loop of the analysed packages with its early exits (-loops).
func dumpLoops(c *Ctx) {
	for _, pk := range []string{"in_toto", "internal/spiffe", "cmd"} {
		for _, f := range c.srcFuncs(pk) {
			for _, l := range rangeLoops(f) {
				ex := c.earlyExits(l)
				fmt.Printf("%s\t%s\t%s\texits=%d\n", fname(f), c.Fset.Position(l.pos), short(l.over), len(ex))
			}
		}
	}
}
