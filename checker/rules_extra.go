package main

import (
	"strings"

	"golang.org/x/tools/go/ssa"
)

// Additional wiring rules added after the first complete pass (DESIGN 9/11): loader wrappers of C19, symlink
// naming of C13, the key sub-commands of C20.

func init() {
	if p := registry["C19"]; p != nil {
		p.Rules = append(p.Rules, Rule{ID: "R-C19-7", Doc: "the four LoadKey* wrappers read, parse and load the same bytes with the requested / default scheme", Min: 6, Run: ruleC19_7})
		p.Explanation += " (R-C19-7) the public loaders are wired correctly: LoadKey/LoadKeyDefaults open the path parameter and pass the file (and, for LoadKey, scheme and hash algorithms) to the reader variants; the reader variants refuse a nil reader, read everything, parse it with decodeAndParse and call loadKey with the parsed key, its PEM block and the requested scheme/algorithms respectively the defaults derived from that same parsed key."
	}
	if p := registry["C13"]; p != nil {
		p.Rules = append(p.Rules, Rule{ID: "R-C13-6", Doc: "artifacts reached through symlinks are named by the symlink's path", Min: 2, Run: ruleC13_6})
		p.Explanation += " (R-C13-6) naming through symlinks: what is recorded behind a file symlink is stored under the symlink's own path, what is recorded behind a followed directory symlink under Join(symlink path, path relative to the target)."
	}
	if p := registry["C20"]; p != nil {
		p.Rules = append(p.Rules, Rule{ID: "R-C20-7", Doc: "key id / key layout print the loaded key's id and never its private half", Min: 4, Run: ruleC20_7})
		p.Explanation += " (R-C20-7) `key id` prints the KeyID of the key loaded from its argument; `key layout` clears the private half before marshalling and prints the key under its own id."
	}
}

func ruleC19_7(c *Ctx) {
	const R = "R-C19-7"
	for _, p := range [][2]string{{"(*in_toto.Key).LoadKey", "(*in_toto.Key).LoadKeyReader"}, {"(*in_toto.Key).LoadKeyDefaults", "(*in_toto.Key).LoadKeyReaderDefaults"}} {
		f := c.lookup(p[0])
		if f == nil {
			c.undecided(R, p[0], "anchor", 0, "not found")
			continue
		}
		op := firstCall(f, "os.Open")
		rd := firstCall(f, p[1])
		ok := op != nil && rd != nil && org(op.Common().Args[0]) == "p1" && org(rd.Common().Args[0]) == "p0" && org(rd.Common().Args[1]) == "os.Open(p1)#0" && c.okCallAt(op, rd.Block())
		if ok && p[0] == "(*in_toto.Key).LoadKey" {
			ok = org(rd.Common().Args[2]) == "p2" && org(rd.Common().Args[3]) == "p3"
		}
		c.check(ok, R, p[0], "opens the path parameter and loads from that file with the caller's options", f.Pos(), trimPkg(p[1])+"(k, os.Open(path), ...)", "the wrapper does not load the file named by its path parameter with the caller's scheme / hash algorithms")
	}
	for _, n := range []string{"(*in_toto.Key).LoadKeyReader", "(*in_toto.Key).LoadKeyReaderDefaults"} {
		f := c.lookup(n)
		if f == nil {
			c.undecided(R, n, "anchor", 0, "not found")
			continue
		}
		lk := firstCall(f, "(*in_toto.Key).loadKey")
		dp := firstCall(f, "in_toto.decodeAndParse")
		ra := firstCall(f, "io.ReadAll")
		if lk == nil || dp == nil || ra == nil {
			c.bad(R, n, "read / parse / load", f.Pos(), "the loader does not read all bytes, parse them and load the key")
			continue
		}
		a := lk.Common().Args
		okChain := org(ra.Common().Args[0]) == "p1" && org(dp.Common().Args[0]) == "io.ReadAll(p1)#0" &&
			org(a[0]) == "p0" && org(a[1]) == "in_toto.decodeAndParse(io.ReadAll(p1)#0)#1" && org(a[2]) == "in_toto.decodeAndParse(io.ReadAll(p1)#0)#0" && c.okCallAt(dp, lk.Block()) && c.okCallAt(ra, dp.Block())
		c.check(okChain, R, n, "loadKey(parsed key, its PEM block) of exactly the bytes read", lk.Pos(), "io.ReadAll -> decodeAndParse -> loadKey", "the reader variant does not load what it read")
		if strings.HasSuffix(n, "Defaults") {
			ds := firstCall(f, "in_toto.getDefaultKeyScheme")
			okD := ds != nil && org(ds.Common().Args[0]) == "in_toto.decodeAndParse(io.ReadAll(p1)#0)#1" && c.okCallAt(ds, lk.Block()) &&
				strings.HasSuffix(org(a[3]), ")#0") && strings.HasPrefix(org(a[3]), "in_toto.getDefaultKeyScheme(") && strings.HasSuffix(org(a[4]), ")#1") && strings.HasPrefix(org(a[4]), "in_toto.getDefaultKeyScheme(")
			c.check(okD, R, n, "scheme and hash algorithms are the defaults for that very key", lk.Pos(), "getDefaultKeyScheme(parsed key)", "defaults are not derived from the parsed key")
		} else {
			c.check(org(a[3]) == "p2" && org(a[4]) == "p3", R, n, "scheme and hash algorithms are the caller's", lk.Pos(), "p2, p3", "the caller's scheme / hash algorithms are not passed on")
		}
		// nil reader refused
		okNil := false
		for _, br := range errBranches(f.Params[1]) {
			if c.failing(br.Nil) {
				okNil = true
			}
		}
		c.check(okNil, R, n, "a nil reader is refused", f.Pos(), "r == nil => ErrNoPEMBlock", "a nil reader is not refused")
	}
}

func ruleC13_6(c *Ctx) {
	const R = "R-C13-6"
	outer := c.lookup("in_toto.recordArtifacts")
	if outer == nil || len(outer.AnonFuncs) == 0 {
		c.undecided(R, "in_toto.recordArtifacts", "anchor", 0, "walk callback not found")
		return
	}
	cb0 := outer.AnonFuncs[0]
	sf := c.symlinkFrameOf(cb0)
	cb, so := sf.fr, sf.so
	// the walked path as the frame sees it
	pathPrm := ssa.Value(cb0.Params[0])
	if sf.via != nil {
		for i, a := range sf.via.Common().Args {
			if resolve(a, sf.via) == ssa.Value(cb0.Params[0]) && i < len(cb.Params) {
				pathPrm = cb.Params[i]
			}
		}
	}
	rec := firstCall(cb, "in_toto.recordArtifacts")
	if rec == nil {
		c.bad(R, fname(cb), "recursion", cb.Pos(), "symlinks are not followed")
		return
	}
	c.check(so(rec.Common().Args[0]) == "local(slicelit)[:]" && derives(rec.Common().Args[0], func(v ssa.Value) bool { return so(v) == "path/filepath.EvalSymlinks(p0)#0" }, false), R, fname(cb), "the symlink's target is what is recorded", rec.Pos(), "recordArtifacts([EvalSymlinks(path)])", "the recursion does not record the evaluated symlink target")
	nFile, nDir := 0, 0
	for _, b := range cb.Blocks {
		for _, in := range b.Instrs {
			mu, ok := in.(*ssa.MapUpdate)
			if !ok || so(mu.Map) != "fv:artifacts" {
				continue
			}
			vo := org(mu.Value)
			if !strings.HasPrefix(vo, "in_toto.recordArtifacts(") || !strings.HasSuffix(vo, "#0{*}") {
				continue
			}
			ko := so(mu.Key)
			isJoinForm := func(v ssa.Value) bool {
				j, isJ := v.(*ssa.Call)
				return isJ && calleeName(j) == "path/filepath.Join" &&
					derives(j.Call.Args[0], func(v ssa.Value) bool { return v == pathPrm }, false) &&
					derives(j.Call.Args[0], func(v ssa.Value) bool {
						k, ok := v.(*ssa.Call)
						return ok && calleeName(k) == "strings.TrimPrefix" && strings.HasPrefix(org(k.Call.Args[0]), "key(in_toto.recordArtifacts(") && so(k.Call.Args[1]) == "path/filepath.EvalSymlinks(p0)#0"
					}, false)
			}
			// one store whose name is chosen beforehand: a phi of the symlink's own path and the re-rooted name
			if ph, isPhi := resolve(mu.Key, mu).(*ssa.Phi); isPhi {
				file, dir, other := 0, 0, 0
				for _, e := range ph.Edges {
					switch {
					case resolve(e, ph) == pathPrm:
						file++
					case isJoinForm(resolve(e, ph)):
						dir++
					default:
						other++
					}
				}
				if other == 0 && file > 0 && dir > 0 {
					nFile++
					nDir++
					c.ok(R, fname(cb), "file / directory symlink: stored under the symlink's path or the re-rooted name", mu.Pos(), "artifacts[name] = value with name = path | Join(path, TrimPrefix(key, evalSym))")
					continue
				}
			}
			if ko == "p0" {
				nFile++
				c.ok(R, fname(cb), "file symlink: stored under the symlink's path", mu.Pos(), "artifacts[path] = value")
				continue
			}
			// Join(path, TrimPrefix(key, evalSym))
			j, isJ := resolve(mu.Key, mu).(*ssa.Call)
			okJ := isJ && calleeName(j) == "path/filepath.Join" &&
				derives(j.Call.Args[0], func(v ssa.Value) bool { return v == pathPrm }, false) &&
				derives(j.Call.Args[0], func(v ssa.Value) bool {
					k, ok := v.(*ssa.Call)
					return ok && calleeName(k) == "strings.TrimPrefix" && strings.HasPrefix(org(k.Call.Args[0]), "key(in_toto.recordArtifacts(") && so(k.Call.Args[1]) == "path/filepath.EvalSymlinks(p0)#0"
				}, false)
			nDir++
			c.check(okJ, R, fname(cb), "directory symlink: stored under Join(symlink path, path relative to the target)", mu.Pos(), "filepath.Join(path, strings.TrimPrefix(key, evalSym))", "entries behind a directory symlink are stored under "+short(ko))
		}
	}
	if nFile == 0 || nDir == 0 {
		c.bad(R, fname(cb), "symlink result stores", cb.Pos(), "expected one store for file symlinks and one for directory symlinks")
	}
}

func ruleC20_7(c *Ctx) {
	const R = "R-C20-7"
	for _, n := range []string{"cmd.keyID", "cmd.keyLayout"} {
		f := c.lookup(n)
		if f == nil {
			c.undecided(R, n, "anchor", 0, "not found")
			continue
		}
		ld := firstCall(f, "(*in_toto.Key).LoadKeyDefaults")
		okLd := ld != nil && org(ld.Common().Args[1]) == "p1[0]"
		// the load done by an unexported helper that returns the loaded key and the load error
		var viaKey ssa.Value // the key handed back by that helper
		if ld == nil {
			for _, via := range allCalls(f) {
				if pi, ok := c.keyLoaderHelper(via.Common().StaticCallee()); ok {
					ld = via
					okLd = org(via.Common().Args[pi]) == "p1[0]"
					viaKey = resultN(via, 0)
				}
			}
		}
		okErr := false
		if ld != nil {
			if e := errResult(ld); e != nil {
				for _, br := range errBranches(e) {
					okErr = okErr || c.failing(br.NonNil)
				}
			}
		}
		c.check(okLd && okErr, R, n, "loads the key named by the first argument; a load error is returned", f.Pos(), "key.LoadKeyDefaults(args[0])", "the command does not load (or ignores errors of loading) the key file given as argument")
		pr := firstCall(f, "fmt.Printf")
		// the loaded key variable: the receiver of LoadKeyDefaults (whatever it is called)
		var keyVar ssa.Value
		if ld != nil && viaKey == nil {
			keyVar = ld.Common().Args[0]
		}
		if viaKey != nil {
			// the returned key stored once into a local variable (when the command takes addresses of its fields)
			for _, r := range *viaKey.Referrers() {
				if st, ok := r.(*ssa.Store); ok && st.Val == viaKey {
					if al, isAl := st.Addr.(*ssa.Alloc); isAl && len(storesTo(al)) == 1 {
						keyVar = al
					}
				}
			}
		}
		fieldOfKey := func(v ssa.Value, path ...string) bool {
			// v is a field of the key value handed back by the loader helper
			if viaKey != nil {
				w := v
				okF := true
				for i := len(path) - 1; i >= 0; i-- {
					fd, ok := w.(*ssa.Field)
					if !ok || fieldName(fd.X.Type(), fd.Field) != path[i] {
						okF = false
						break
					}
					w = fd.X
				}
				if okF && w == viaKey {
					return true
				}
				if keyVar == nil {
					return false
				}
			}
			// v is (a load of) keyVar.path...
			if u, ok := v.(*ssa.UnOp); ok {
				v = u.X
			}
			for i := len(path) - 1; i >= 0; i-- {
				fa, ok := v.(*ssa.FieldAddr)
				if !ok || fieldName(fa.X.Type(), fa.Field) != path[i] {
					return false
				}
				v = fa.X
			}
			return v == keyVar
		}
		okPrint := pr != nil && ld != nil && c.okCallAt(ld, pr.Block()) && derives(pr.Common().Args[1], func(v ssa.Value) bool { return fieldOfKey(v, "KeyID") }, false)
		c.check(okPrint, R, n, "prints the loaded key's id", f.Pos(), "key.KeyID after a successful load", "the printed id is not the loaded key's KeyID")
		if n == "cmd.keyLayout" {
			mj := firstCall(f, "encoding/json.Marshal")
			okPriv := false
			if mj != nil {
				for _, b := range f.Blocks {
					for _, in := range b.Instrs {
						if st, ok := in.(*ssa.Store); ok && fieldOfKey(st.Addr, "KeyVal", "Private") {
							if s, isS := constString(st.Val); isS && s == "" && instrDominates(st, mj) {
								okPriv = true
							}
						}
					}
				}
			}
			c.check(okPriv, R, n, "the private half is cleared before the key is marshalled", f.Pos(), "key.KeyVal.Private = \"\" dominates json.Marshal(key)", "key layout may print the private half of the key")
		}
	}
}

// keyLoaderHelper: g is an unexported function of package cmd with results (in_toto.Key, error) that loads one local
// key variable with LoadKeyDefaults(path parameter), fails when the load fails, and returns that variable where the
// load succeeded. Returns the index of the path parameter.
func (c *Ctx) keyLoaderHelper(g *ssa.Function) (int, bool) {
	if g == nil || g.Blocks == nil || g.Parent() != nil || g.Object() == nil || g.Object().Exported() || g.Pkg == nil || g.Pkg.Pkg.Name() != "cmd" {
		return 0, false
	}
	res := g.Signature.Results()
	if res.Len() != 2 || typeStr(res.At(0).Type()) != "in_toto.Key" || !isErrorType(res.At(1).Type()) {
		return 0, false
	}
	lds := callsIn(g, "(*in_toto.Key).LoadKeyDefaults")
	if len(lds) != 1 {
		return 0, false
	}
	ld := lds[0]
	al, ok := ld.Common().Args[0].(*ssa.Alloc)
	pp, ok2 := resolve(ld.Common().Args[1], ld).(*ssa.Parameter)
	if !ok || !ok2 || pp.Parent() != g {
		return 0, false
	}
	okErr := false
	if e := errResult(ld); e != nil {
		for _, br := range errBranches(e) {
			okErr = okErr || c.failing(br.NonNil)
		}
	}
	if !okErr {
		return 0, false
	}
	// nothing else writes the variable
	for _, r := range *al.Referrers() {
		switch x := r.(type) {
		case *ssa.UnOp, *ssa.DebugRef:
		case ssa.CallInstruction:
			if x != ld {
				return 0, false
			}
		default:
			return 0, false
		}
	}
	for _, r := range c.nilErrReturns(g) {
		u, isLoad := r.Results[0].(*ssa.UnOp)
		if !isLoad || u.X != ssa.Value(al) || !c.okCallAt(ld, r.Block()) {
			return 0, false
		}
	}
	return paramIndex(pp), true
}
