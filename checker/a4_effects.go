package main

import (
	"fmt"
	"go/token"
	"go/types"
	"os"
	"sort"
	"strings"

	"golang.org/x/tools/go/ssa"
)

// A4 — effects: does a function (transitively) write through memory owned by its caller?
//
// Per SSA value two bits:
//   P(v): v (slice, map, pointer, interface holding one) references memory owned by the analysed source
//   C(v): memory reachable through v (or contained in the aggregate v) may include source-owned memory
// A write through v (element store, field store through a pointer, map update, delete, copy dst) is a
// violation iff P(v). Flow-insensitive except for loads from local variables, which use the store that
// reaches the load (dominance), so that `layout.Steps = freshCopy` cuts the taint for later uses.
// Interprocedural by analysing in_toto callees under the (P,C) context of their arguments (memoised).

type pc struct{ P, C bool }

func (a pc) or(b pc) pc { return pc{a.P || b.P, a.C || b.C} }

type a4Write struct {
	fn    *ssa.Function
	instr ssa.Instruction
	path  string
	chain []string
}

type a4Summary struct {
	results []pc
	writes  []a4Write
	done    bool
}

type a4 struct {
	p           *Prog
	memo        map[string]*a4Summary
	depth       int
	closureBits map[*ssa.Function][]pc // per closure function: bits of its captured variables / bound receiver
}

func newA4(p *Prog) *a4 {
	return &a4{p: p, memo: map[string]*a4Summary{}, closureBits: map[*ssa.Function][]pc{}}
}

func hasRefs(t types.Type) bool { return hasRefsD(t, 0) }
func hasRefsD(t types.Type, d int) bool {
	if d > 6 {
		return true
	}
	switch u := t.Underlying().(type) {
	case *types.Basic:
		return u.Kind() == types.UnsafePointer
	case *types.Pointer, *types.Slice, *types.Map, *types.Chan, *types.Interface, *types.Signature:
		return true
	case *types.Struct:
		for i := 0; i < u.NumFields(); i++ {
			if hasRefsD(u.Field(i).Type(), d+1) {
				return true
			}
		}
		return false
	case *types.Array:
		return hasRefsD(u.Elem(), d+1)
	case *types.Tuple:
		for i := 0; i < u.Len(); i++ {
			if hasRefsD(u.At(i).Type(), d+1) {
				return true
			}
		}
		return false
	}
	return true
}

func isRefType(t types.Type) bool {
	switch t.Underlying().(type) {
	case *types.Pointer, *types.Slice, *types.Map, *types.Chan, *types.Interface:
		return true
	}
	return false
}

func ctxKey(f *ssa.Function, args []pc) string {
	var sb strings.Builder
	sb.WriteString(f.String())
	for _, a := range args {
		fmt.Fprintf(&sb, "|%v%v", a.P, a.C)
	}
	return sb.String()
}

// inScope: callees we descend into.
func (a *a4) inScope(f *ssa.Function) bool {
	if f == nil || f.Blocks == nil {
		return false
	}
	if strings.Contains(f.Synthetic, "bound method wrapper") {
		for _, c := range allCalls(f) {
			if g := c.Common().StaticCallee(); g != nil && g != f {
				return a.inScope(g)
			}
		}
	}
	pk := f.Pkg
	if pk == nil && f.Parent() != nil {
		pk = f.Parent().Pkg
	}
	if pk == nil {
		return false
	}
	path := pk.Pkg.Path()
	return strings.HasPrefix(path, modPath)
}

// known external functions that write through an argument (index of the written argument)
// (generic functions are looked up by their name without the instantiation suffix)
var a4ExternalWriters = map[string]int{
	"sort.Strings": 0, "sort.Slice": 0, "sort.SliceStable": 0, "sort.Sort": 0, "sort.Stable": 0, "sort.Ints": 0, "sort.Float64s": 0,
	"slices.Sort": 0, "slices.SortFunc": 0, "slices.SortStableFunc": 0, "slices.Reverse": 0,
	"slices.Delete": 0, "slices.DeleteFunc": 0, "slices.Compact": 0, "slices.CompactFunc": 0, "slices.Insert": 0, "slices.Replace": 0,
	"maps.DeleteFunc": 0, "maps.Copy": 0,
	"encoding/json.Unmarshal": 1,
}

// external functions whose result aliases their first argument (in-place editing helpers of package slices)
var a4ExternalAliasing = map[string]bool{
	"slices.Delete": true, "slices.DeleteFunc": true, "slices.Compact": true, "slices.CompactFunc": true, "slices.Insert": true,
	"slices.Replace": true, "slices.Grow": true, "slices.Clip": true,
}

// external functions that return a fresh shallow copy of their first argument
var a4ExternalCloning = map[string]bool{"slices.Clone": true, "maps.Clone": true, "bytes.Clone": true, "strings.Clone": true}

func genericBase(name string) string {
	if i := strings.IndexByte(name, '['); i > 0 {
		return name[:i]
	}
	return name
}

func (a *a4) analyse(f *ssa.Function, args []pc, chain []string) *a4Summary {
	key := ctxKey(f, append(append([]pc{}, args...), a.closureBits[f]...))
	if s, ok := a.memo[key]; ok {
		return s // in-progress entries yield an empty summary (recursion cut)
	}
	sum := &a4Summary{}
	a.memo[key] = sum
	nres := f.Signature.Results().Len()
	sum.results = make([]pc, nres)
	if len(chain) > 12 {
		return sum
	}
	chain = append(append([]string{}, chain...), fname(f))

	val := map[ssa.Value]pc{}
	for i, prm := range f.Params {
		if i < len(args) {
			val[prm] = args[i]
		}
	}
	fvContent := map[*ssa.FreeVar]pc{}
	for i, fv := range f.FreeVars {
		var bits pc
		if cb := a.closureBits[f]; i < len(cb) {
			bits = cb[i]
		}
		if _, isPtr := fv.Type().Underlying().(*types.Pointer); isPtr && !strings.Contains(f.Synthetic, "bound method wrapper") {
			// captured by reference: fv is the address of the enclosing function's variable
			fvContent[fv] = bits
			val[fv] = pc{false, bits.P || bits.C}
		} else {
			val[fv] = bits
		}
	}
	get := func(v ssa.Value) pc { return val[v] }
	writes := map[ssa.Instruction]a4Write{}
	changed := true
	set := func(v ssa.Value, x pc) {
		if !hasRefs(v.Type()) {
			return
		}
		if !isRefType(v.Type()) {
			// aggregates carry only C
			x = pc{false, x.P || x.C}
		}
		old := val[v]
		n := old.or(x)
		if n != old {
			val[v] = n
			changed = true
		}
	}
	// loadFrom computes the bits of a value loaded from address addr at instruction at.
	var loadFrom func(addr ssa.Value, at ssa.Instruction) pc
	// pointsCaller: does address addr point into source-owned memory?
	var pointsCaller func(addr ssa.Value) bool
	pointsCaller = func(addr ssa.Value) bool {
		switch x := addr.(type) {
		case *ssa.Alloc:
			return false
		case *ssa.Global:
			return false
		case *ssa.FreeVar:
			if _, byRef := fvContent[x]; byRef {
				return false
			}
			return get(x).P
		case *ssa.FieldAddr:
			switch y := x.X.(type) {
			case *ssa.Alloc, *ssa.FieldAddr, *ssa.IndexAddr:
				return pointsCaller(x.X)
			case *ssa.FreeVar:
				if _, byRef := fvContent[y]; byRef {
					return false
				}
			}
			return get(x.X).P
		case *ssa.IndexAddr:
			if _, isSlice := x.X.Type().Underlying().(*types.Slice); isSlice {
				return get(x.X).P
			}
			switch x.X.(type) {
			case *ssa.Alloc, *ssa.FieldAddr, *ssa.IndexAddr:
				return pointsCaller(x.X)
			}
			return get(x.X).P
		}
		return get(addr).P
	}
	// location of a local address: root alloc + field path ("" if not a pure field chain)
	var locOf func(addr ssa.Value) (*ssa.Alloc, []int, bool)
	locOf = func(addr ssa.Value) (*ssa.Alloc, []int, bool) {
		switch x := addr.(type) {
		case *ssa.Alloc:
			return x, nil, true
		case *ssa.FieldAddr:
			r, p, ok := locOf(x.X)
			if !ok {
				return nil, nil, false
			}
			return r, append(append([]int{}, p...), x.Field), true
		case *ssa.IndexAddr:
			if _, isSlice := x.X.Type().Underlying().(*types.Slice); isSlice {
				return nil, nil, false
			}
			r, p, ok := locOf(x.X)
			if !ok {
				return nil, nil, false
			}
			return r, append(append([]int{}, p...), -1), true
		}
		return nil, nil, false
	}
	isPrefix := func(a, b []int) bool {
		if len(a) > len(b) {
			return false
		}
		for i := range a {
			if a[i] != b[i] {
				return false
			}
		}
		return true
	}
	// all stores whose address is rooted at alloc
	type lstore struct {
		st   *ssa.Store
		path []int
	}
	allocStores := map[*ssa.Alloc][]lstore{}
	for _, b := range f.Blocks {
		for _, in := range b.Instrs {
			if st, ok := in.(*ssa.Store); ok {
				if r, p, ok := locOf(st.Addr); ok {
					allocStores[r] = append(allocStores[r], lstore{st, p})
				}
			}
		}
	}
	loadFrom = func(addr ssa.Value, at ssa.Instruction) pc {
		if fv, ok := addr.(*ssa.FreeVar); ok {
			if bits, byRef := fvContent[fv]; byRef {
				return bits
			}
		}
		if r, path, ok := locOf(addr); ok {
			var rel []lstore
			for _, ls := range allocStores[r] {
				if isPrefix(ls.path, path) || isPrefix(path, ls.path) {
					rel = append(rel, ls)
				}
			}
			// latest dominating covering store (ls.path prefix of path) cuts earlier ones
			var best *lstore
			ambiguous := false
			for i := range rel {
				ls := &rel[i]
				if !isPrefix(ls.path, path) {
					continue
				}
				if instrDominates(ls.st, at) {
					if best == nil || instrDominates(best.st, ls.st) {
						best = ls
					}
				}
			}
			out := pc{}
			if r.Heap && false {
				_ = r
			}
			for i := range rel {
				ls := &rel[i]
				if best != nil && ls != best {
					// stores that come before best are cut; others may still reach
					if instrDominates(ls.st, best.st) {
						continue
					}
					if !instrDominates(ls.st, at) && !reaches(ls.st.Block(), at.Block()) && ls.st.Block() != at.Block() {
						continue
					}
					if instrDominates(at, ls.st) && !reaches(ls.st.Block(), at.Block()) {
						continue
					}
				}
				if best == nil {
					ambiguous = true
				}
				v := get(ls.st.Val)
				if len(ls.path) < len(path) {
					// projection out of a stored aggregate
					v = pc{v.C || v.P, v.C || v.P}
				}
				out = out.or(v)
			}
			_ = ambiguous
			// escaping allocs may be written elsewhere (closures / callees): be conservative via alloc bits
			return out.or(get(r))
		}
		// load through a pointer-like value
		switch x := addr.(type) {
		case *ssa.FieldAddr:
			b := loadBase(x, get, pointsCaller)
			return b
		case *ssa.IndexAddr:
			b := loadBase(x, get, pointsCaller)
			return b
		}
		v := get(addr)
		if v.P || v.C {
			return pc{true, true}
		}
		return pc{}
	}

	for iter := 0; changed && iter < 50; iter++ {
		changed = false
		for _, b := range f.Blocks {
			for _, in := range b.Instrs {
				switch x := in.(type) {
				case *ssa.UnOp:
					if x.Op == token.MUL {
						set(x, loadFrom(x.X, x))
					} else {
						set(x, get(x.X))
					}
				case *ssa.FieldAddr, *ssa.IndexAddr:
					// address values: P iff they point into caller memory
					v := x.(ssa.Value)
					if pointsCaller(v) {
						set(v, pc{true, true})
					}
				case *ssa.Field:
					g := get(x.X)
					set(x, pc{g.C, g.C})
				case *ssa.Index:
					g := get(x.X)
					set(x, pc{g.C || g.P, g.C || g.P})
				case *ssa.Lookup:
					g := get(x.X)
					if g.P || g.C {
						set(x, pc{true, true})
					}
				case *ssa.Extract:
					g := get(x.Tuple)
					if tp, ok := x.Tuple.(*ssa.Call); ok {
						_ = tp
						if rs, ok := callResults[x.Tuple]; ok && x.Index < len(rs) {
							g = rs[x.Index]
						}
					} else if g.C || g.P {
						// a component taken out of an aggregate (range element, comma-ok lookup, type assertion) that may
						// contain caller memory is itself (a reference to) caller memory
						g = pc{true, true}
					}
					set(x, g)
				case *ssa.Next:
					if r, ok := x.Iter.(*ssa.Range); ok {
						g := get(r.X)
						if g.P || g.C {
							set(x, pc{true, true})
						}
					}
				case *ssa.Phi:
					for _, e := range x.Edges {
						set(x, get(e))
					}
				case *ssa.TypeAssert:
					set(x, get(x.X))
				case *ssa.MakeInterface:
					set(x, get(x.X))
				case *ssa.ChangeInterface:
					set(x, get(x.X))
				case *ssa.ChangeType:
					set(x, get(x.X))
				case *ssa.Convert:
					if _, isStr := x.X.Type().Underlying().(*types.Basic); !isStr {
						set(x, get(x.X))
					}
				case *ssa.Slice:
					switch x.X.(type) {
					case *ssa.Alloc:
						set(x, pc{false, loadFrom(x.X, x).C || loadFrom(x.X, x).P})
					default:
						set(x, get(x.X))
					}
				case *ssa.MakeClosure:
					fnc, _ := x.Fn.(*ssa.Function)
					for i, bv := range x.Bindings {
						g := get(bv)
						if al, isAlloc := bv.(*ssa.Alloc); isAlloc {
							g = loadFrom(al, x)
						}
						if g.P || g.C {
							set(x, pc{false, true})
						}
						if fnc != nil {
							cb := a.closureBits[fnc]
							for len(cb) <= i {
								cb = append(cb, pc{})
							}
							if n := cb[i].or(g); n != cb[i] {
								cb[i] = n
								changed = true
							}
							a.closureBits[fnc] = cb
						}
					}
				case *ssa.Store:
					vv := get(x.Val)
					if pointsCaller(x.Addr) {
						writes[x] = a4Write{f, x, org(x.Addr), chain}
					}
					// storing tainted values into fresh containers taints their content
					if vv.P || vv.C {
						if _, _, ok := locOf(x.Addr); !ok {
							root := addrRootValue(x.Addr)
							if root != nil {
								old := val[root]
								if !old.C {
									val[root] = pc{old.P, true}
									changed = true
								}
							}
						}
					}
				case *ssa.MapUpdate:
					if get(x.Map).P {
						writes[x] = a4Write{f, x, org(x.Map) + "{…}", chain}
					}
					vv := get(x.Value).or(get(x.Key))
					if vv.P || vv.C {
						root := x.Map
						old := val[root]
						if !old.C {
							val[root] = pc{old.P, true}
							changed = true
						}
						// also the origin the map was loaded from
						if rr := resolve(root, x); rr != root {
							o2 := val[rr]
							if !o2.C {
								val[rr] = pc{o2.P, true}
								changed = true
							}
						}
					}
				case ssa.CallInstruction:
					// a pointer to a local variable handed to a callee (pointer receiver, &local argument): the callee
					// reads the variable's content through it, so the argument carries the content's bits
					getArg := func(v ssa.Value) pc {
						g := get(v)
						if _, isPtr := v.Type().Underlying().(*types.Pointer); isPtr {
							if _, isAlloc := addrRootValue(v).(*ssa.Alloc); isAlloc {
								content := loadFrom(v, x)
								if content.P || content.C {
									g = pc{g.P, true}
								}
							}
						}
						return g
					}
					a.call(f, x, getArg, set, writes, chain)
				}
			}
		}
	}
	for _, r := range returnsOf(f) {
		for i, rv := range r.Results {
			if i < nres {
				g := get(rv)
				if !isRefType(rv.Type()) {
					g = pc{false, g.P || g.C}
				}
				if !hasRefs(rv.Type()) {
					g = pc{}
				}
				sum.results[i] = sum.results[i].or(g)
			}
		}
	}
	// closures defined here are analysed with their bindings' bits as free-variable context (writes only)
	for _, w := range writes {
		sum.writes = append(sum.writes, w)
	}
	sort.Slice(sum.writes, func(i, j int) bool { return sum.writes[i].instr.Pos() < sum.writes[j].instr.Pos() })
	sum.done = true
	return sum
}

// callResults caches per-call result bits for tuple calls (filled by a4.call).
var callResults = map[ssa.Value][]pc{}

func loadBase(addr ssa.Value, get func(ssa.Value) pc, pointsCaller func(ssa.Value) bool) pc {
	if pointsCaller(addr) {
		return pc{true, true}
	}
	// fresh container whose content may be tainted
	root := addrRootValue(addr)
	if root != nil {
		g := get(root)
		if g.C || g.P {
			return pc{true, true}
		}
	}
	return pc{}
}

// addrRootValue returns the slice/pointer/map value an address expression dereferences first.
func addrRootValue(a ssa.Value) ssa.Value {
	for i := 0; i < 20; i++ {
		switch x := a.(type) {
		case *ssa.FieldAddr:
			switch x.X.(type) {
			case *ssa.FieldAddr, *ssa.IndexAddr:
				a = x.X
				continue
			}
			return x.X
		case *ssa.IndexAddr:
			if _, isSlice := x.X.Type().Underlying().(*types.Slice); isSlice {
				return x.X
			}
			switch x.X.(type) {
			case *ssa.FieldAddr, *ssa.IndexAddr:
				a = x.X
				continue
			}
			return x.X
		default:
			return a
		}
	}
	return a
}

func (a *a4) call(f *ssa.Function, c ssa.CallInstruction, get func(ssa.Value) pc, set func(ssa.Value, pc), writes map[ssa.Instruction]a4Write, chain []string) {
	cc := c.Common()
	name := calleeName(c)
	v := c.Value()
	args := callArgs(c)
	switch name {
	case "builtin:append":
		// result aliases the first argument's backing array (if capacity allows) and contains the appended refs
		r := get(args[0])
		if len(args) > 1 {
			g := get(args[1])
			r = r.or(pc{false, g.P || g.C})
		}
		// append to a nil/empty fresh slice yields fresh memory
		if isNilConst(args[0]) {
			r.P = false
		}
		if v != nil {
			set(v, r)
		}
		// in-place write into spare capacity of a source-owned slice
		if get(args[0]).P && len(args) > 1 {
			writes[c] = a4Write{f, c, "append(" + org(args[0]) + ", …) may write into the source-owned backing array", chain}
		}
		return
	case "builtin:copy":
		if get(args[0]).P {
			writes[c] = a4Write{f, c, "copy(dst=" + org(args[0]) + ")", chain}
		}
		g := get(args[1])
		if g.P || g.C {
			// dst content now contains source refs
			if root := resolve(args[0], c); root != nil {
				set(root, pc{false, true})
				set(args[0], pc{false, true})
			}
		}
		return
	case "builtin:delete":
		if get(args[0]).P {
			writes[c] = a4Write{f, c, "delete(" + org(args[0]) + ", …)", chain}
		}
		return
	case "builtin:clear":
		if get(args[0]).P {
			writes[c] = a4Write{f, c, "clear(" + org(args[0]) + ")", chain}
		}
		return
	}
	if strings.HasPrefix(name, "builtin:") {
		return
	}
	base := genericBase(name)
	if idx, ok := a4ExternalWriters[base]; ok && idx < len(args) && get(args[idx]).P {
		writes[c] = a4Write{f, c, base + "(" + org(args[idx]) + ")", chain}
	}
	if base == "maps.Copy" && len(args) == 2 {
		// dst content now holds what src held
		if g := get(args[1]); g.P || g.C {
			if root := resolve(args[0], c); root != nil {
				set(root, get(root).or(pc{false, true}))
			}
			set(args[0], get(args[0]).or(pc{false, true}))
		}
	}
	if v != nil && len(args) > 0 {
		if a4ExternalAliasing[base] {
			set(v, get(args[0]))
			return
		}
		if a4ExternalCloning[base] {
			g := get(args[0])
			set(v, pc{false, g.C})
			return
		}
	}
	// resolve callees
	var callees []*ssa.Function
	if sc := cc.StaticCallee(); sc != nil {
		callees = []*ssa.Function{sc}
	} else if n := a.p.CG.Nodes[f]; n != nil {
		for _, e := range n.Out {
			if e.Site == c {
				callees = append(callees, e.Callee.Func)
			}
		}
	}
	var res []pc
	descended := false
	for _, g := range callees {
		if !a.inScope(g) {
			continue
		}
		descended = true
		ctx := make([]pc, len(g.Params))
		// static method calls carry the receiver as first arg; invoke: receiver value first in callArgs
		for i := range ctx {
			if i < len(args) {
				ctx[i] = get(args[i])
				if !isRefType(args[i].Type()) {
					ctx[i] = pc{false, ctx[i].P || ctx[i].C}
				}
			}
		}
		// closures: free variables get the bits of their bindings (approximate: treat as extra context via P of bindings)
		s := a.analyse(g, ctx, chain)
		for _, w := range s.writes {
			writes[w.instr] = w
		}
		for i, r := range s.results {
			for len(res) <= i {
				res = append(res, pc{})
			}
			res[i] = res[i].or(r)
		}
	}
	if !descended {
		// external or unresolved callee: results may alias any reference argument
		any := pc{}
		for _, x := range args {
			g := get(x)
			if g.P || g.C {
				any = any.or(pc{g.P, true})
			}
		}
		n := cc.Signature().Results().Len()
		for i := 0; i < n; i++ {
			res = append(res, any)
		}
		// results of external functions are fresh objects that may contain references to their arguments
		for i := range res {
			res[i].P = false
		}
		// pure value producers never alias their inputs
		if strings.HasPrefix(name, "strings.") || strings.HasPrefix(name, "fmt.") || strings.HasPrefix(name, "path.") ||
			strings.HasPrefix(name, "path/filepath.") || strings.HasPrefix(name, "crypto/") || strings.HasPrefix(name, "encoding/") ||
			strings.HasPrefix(name, "time.") || strings.HasPrefix(name, "regexp.") || strings.HasPrefix(name, "(*regexp.") ||
			strings.HasPrefix(name, "(*strings.Replacer)") || strings.HasPrefix(name, "ssl/") || strings.HasPrefix(name, "(*ssl/") ||
			strings.HasPrefix(name, "os.") || strings.HasPrefix(name, "errors.") || strings.HasPrefix(name, "(*crypto/") {
			for i := range res {
				res[i] = pc{}
			}
		}
	}
	if v != nil {
		if len(res) == 1 {
			set(v, res[0])
		} else if len(res) > 1 {
			callResults[v] = res
			any := pc{}
			for _, r := range res {
				any = any.or(r)
			}
			set(v, any)
		}
	}
}

// ---------------------------------------------------------------------------
// R-C10-2: no write through the caller's objects from the verification entry points

func ruleC10_2() Rule {
	return Rule{ID: "R-C10-2", Doc: "no store / map update / delete / copy through memory reachable from the entry points' parameters (A4 effects analysis)", Min: 2,
		Run: func(c *Ctx) {
			const R = "R-C10-2"
			type agg struct {
				w       a4Write
				entries []string
			}
			found := map[string]*agg{}
			var order []string
			for _, e := range c.entryPoints() {
				a := newA4(c.Prog)
				ctx := make([]pc, len(e.f.Params))
				for i, prm := range e.f.Params {
					if hasRefs(prm.Type()) {
						ctx[i] = pc{isRefType(prm.Type()), true}
					}
				}
				s := a.analyse(e.f, ctx, nil)
				if os.Getenv("A4DBG") != "" {
					var ks []string
					for k := range a.memo {
						if strings.Contains(k, os.Getenv("A4DBG")) {
							ks = append(ks, k)
						}
					}
					sort.Strings(ks)
					for _, k := range ks {
						fmt.Println("A4DBG", k, a.memo[k].results)
					}
				}
				keptW, rev := a4FilterReviewed(s.writes)
				if len(rev) > 0 {
					c.trivial(R, fname(e.f), "reviewed write sites", e.f.Pos(), fmt.Sprintf("%d reviewed (struct-level taint imprecision): %s", len(rev), strings.Join(rev, "; ")))
				}
				for _, w := range keptW {
					k := fname(w.fn) + "|" + w.path
					if found[k] == nil {
						found[k] = &agg{w: w}
						order = append(order, k)
					}
					found[k].entries = append(found[k].entries, fname(e.f))
				}
				c.ok(R, fname(e.f), "effects summary", e.f.Pos(), fmt.Sprintf("%d function contexts analysed, %d caller-memory writes", len(a.memo), len(keptW)))
			}
			for _, k := range order {
				g := found[k]
				c.bad(R, fname(g.w.fn), "write "+g.w.path, g.w.instr.Pos(),
					"writes through memory owned by the caller of "+strings.Join(g.entries, ", ")+" (call chain: "+strings.Join(g.w.chain, " -> ")+"): the caller's layout/link/key objects are modified by verification")
			}
		}}
}

// ---------------------------------------------------------------------------
// reviewed write sites. A4 is not field-sensitive for struct aggregates: a Link whose Command aliases the layout's Run
// list (inspection links) is "caller memory" as a whole, including its freshly recorded artifact maps and the fresh
// Metablock that wraps it. The two write sites below are reported for that reason only; each was confirmed by reading
// the code. Any other write in the same functions is still reported.
var a4ReviewedWrites = []struct{ fn, pathPrefix, chainHas, reason string }{
	{"(*in_toto.Metablock).Sign", "append(p0.Signatures", "in_toto.InTotoRun", "the Metablock is the fresh wrapper &Metablock{Signed: link, Signatures: []Signature{}} built by InTotoRun; only its Signed link aggregate is tainted (Command = cmdArgs)"},
	{"(*in_toto.Metablock).Sign", "append(p0.Signatures", "in_toto.InTotoRecordStop", "fresh wrapper built by InTotoRecordStop"},
	{"(*in_toto.Metablock).Sign", "append(p0.Signatures", "in_toto.InTotoRecordStart", "fresh wrapper built by InTotoRecordStart"},
}

// a4FilterReviewed splits writes into those to report and the reviewed ones (with reasons).
func a4FilterReviewed(ws []a4Write) (kept []a4Write, reviewed []string) {
	for _, w := range ws {
		ok := false
		if why := cleanIdiomWrite(w); why != "" {
			ok = true
			reviewed = append(reviewed, fname(w.fn)+": "+w.path+" ("+why+")")
		}
		for _, r := range a4ReviewedWrites {
			if fname(w.fn) != r.fn || !strings.HasPrefix(w.path, r.pathPrefix) {
				continue
			}
			// the chain does not include the writing function itself; the entry point may be the named function
			inChain := r.chainHas == ""
			for _, c := range w.chain {
				if c == r.chainHas {
					inChain = true
				}
			}
			if inChain {
				ok = true
				reviewed = append(reviewed, fname(w.fn)+": "+w.path)
			}
		}
		if !ok {
			kept = append(kept, w)
		}
	}
	return
}

// cleanIdiomWrite: the write is the in-place path normalisation of an artifact map, wherever it is written: inside a
// range over the map, m[path.Clean(k)] = m[k] under the guard path.Clean(k) != k, or the delete(m, k) next to it; and it
// happens below VerifyArtifacts, i.e. on the artifact maps of links that this verification loaded or recorded itself
// (the maps are fresh; A4 taints the enclosing Link aggregate as a whole because an inspection link carries the
// layout's Run list as Command).
func cleanIdiomWrite(w a4Write) string {
	if curProg == nil || w.instr == nil || w.fn == nil {
		return ""
	}
	below := fname(w.fn) == "in_toto.VerifyArtifacts"
	for _, c := range w.chain {
		if c == "in_toto.VerifyArtifacts" {
			below = true
		}
	}
	if !below {
		return ""
	}
	for _, l := range mapLoops(w.fn) {
		if !l.body[w.instr.Block()] {
			continue
		}
		var theMu *ssa.MapUpdate
		for b := range l.body {
			for _, in := range b.Instrs {
				if mu, ok := in.(*ssa.MapUpdate); ok && resolve(mu.Map, mu) == resolve(l.rng.X, l.rng) && curProg.cleanGuard(l, mu) {
					theMu = mu
				}
			}
		}
		if theMu == nil {
			continue
		}
		switch x := w.instr.(type) {
		case *ssa.MapUpdate:
			if x == theMu {
				return "reviewed idiom: path clean-up of the artifact maps of links loaded or recorded by this verification"
			}
		case *ssa.Call:
			if calleeName(x) == "builtin:delete" && resolve(x.Call.Args[0], x) == resolve(l.rng.X, l.rng) && resolve(x.Call.Args[1], x) == l.key && x.Block() == theMu.Block() {
				return "reviewed idiom: delete of the unclean key next to the path clean-up"
			}
		}
	}
	return ""
}
