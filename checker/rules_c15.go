package main

import (
	"fmt"
	"go/token"
	"go/types"
	"sort"
	"strings"

	"golang.org/x/tools/go/ssa"
)

// A5 — panic-site obligations (DESIGN §3 A5): absence of reachable, unguarded panic sites on everything
// reachable from the C15 entry set.

func c15Scope(c *Ctx) []*ssa.Function {
	var roots []*ssa.Function
	for _, n := range []string{"in_toto.LoadMetadata", "(*in_toto.Metablock).Load", "in_toto.ValidateMetablock", "in_toto.InTotoVerify", "in_toto.InTotoVerifyWithDirectory",
		"in_toto.UnpackRule", "(*in_toto.Key).LoadKey", "(*in_toto.Key).LoadKeyDefaults", "(*in_toto.Key).LoadKeyReader", "(*in_toto.Key).LoadKeyReaderDefaults",
		"(*in_toto.Envelope).SetPayload"} {
		if f := c.lookup(n); f != nil {
			roots = append(roots, f)
		}
	}
	for _, t := range []string{"Metablock", "Envelope"} {
		for _, m := range []string{"Sign", "VerifySignature", "Sigs", "GetSignatureForKeyID", "Dump", "GetPayload"} {
			if f := c.lookup("(*in_toto." + t + ")." + m); f != nil {
				roots = append(roots, f)
			}
		}
	}
	reach := reachable(c.CG, roots...)
	var out []*ssa.Function
	for _, f := range c.srcFuncs("in_toto") {
		if reach[f] {
			out = append(out, f)
		}
	}
	return out
}

func init() {
	register(&Property{ID: "C15",
		Explanation: "Decides the absence of reachable, unguarded panic sites in in_toto code reachable from the entry set {LoadMetadata, Metablock.Load, ValidateMetablock, every Metadata method of both wrappers, Envelope.SetPayload, InTotoVerify, InTotoVerifyWithDirectory, Key.LoadKey*, UnpackRule}: (R-C15-1) explicit panics are only the two reviewed 'no link metadata found' guards, which are unreachable from verification because the threshold check fails every step without a verified link and the map is passed on unchanged; cjson's panics carry strings and are recovered; (R-C15-2) every unchecked type assertion is dominated by a comma-ok assertion / type switch of the same value and type, and the securesystemslib constructors (which assert and crash on mismatching material) are called only after a successful material validation whose shape is checked (parse + type match for RSA/ECDSA, length checks for ed25519); (R-C15-3) every index / slice expression matches a bound idiom on the same value (range induction variable, constant index under length facts, len-1 under len>0, rune size, strings.Index != -1, i+1 under i<len, callee summary 'non-empty on nil error') or a reviewed table entry with its required fact; (R-C15-4) raw JSON parts and the inner DSSE envelope are dereferenced only under nil tests; (R-C15-5) maps written to are non-nil by construction; (R-C15-6) structural part of 'never fails to return': loops with an evident strictly advancing induction value are checked, the others (matcher loops, recursion) are listed and NOT decided; the pipe deadlock clause is R-C14-1.",
		NotDecided:  []string{"termination in general (matcher loops, recursion InTotoVerify<->VerifySublayouts, recordArtifacts, cjson)", "memory exhaustion", "panics inside the standard library and crypto/x509 on hostile input", "index expressions inside securesystemslib (trusted to its authors)"},
		Rules: []Rule{
			{ID: "R-C15-1", Doc: "explicit panics are guarded away", Min: 4, Run: ruleC15_1},
			{ID: "R-C15-2", Doc: "unchecked type assertions and asserting constructors", Min: 10, Run: ruleC15_2},
			{ID: "R-C15-3", Doc: "index / slice bounds obligations", Min: 100, Run: ruleC15_3},
			{ID: "R-C15-4", Doc: "nil dereferences of raw JSON parts and the inner envelope", Min: 4, Run: ruleC15_4},
			{ID: "R-C12-1", Doc: "raw JSON parts are nil-tested (shared with C12)", Min: 8, Run: ruleC12_1},
			{ID: "R-C15-5", Doc: "nil-map writes", Min: 10, Run: ruleC15_5},
			{ID: "R-C15-6", Doc: "loops advance (structural part)", Min: 3, Run: ruleC15_6},
			{ID: "R-C14-1", Doc: "no sequential pipe drain (shared with C14)", Min: 1, Run: ruleC14_1},
			{ID: "R-C11-5", Doc: "cjson panics recovered (shared with C11)", Min: 1, Run: ruleC11_5},
		}})
}

// ---------------------------------------------------------------------------
// R-C15-1

func ruleC15_1(c *Ctx) {
	const R = "R-C15-1"
	allowed := map[string]bool{"in_toto.ReduceStepsMetadata": true, "in_toto.VerifyStepCommandAlignment": true}
	nPanics := 0
	for _, f := range c15Scope(c) {
		for _, b := range f.Blocks {
			for _, in := range b.Instrs {
				pn, ok := in.(*ssa.Panic)
				if !ok {
					continue
				}
				nPanics++
				fn := fname(f)
				if mi, ki, isLH := lookupHelper(f); isLH && !allowed[fn] {
					// the same guard inside an unexported lookup helper: the helper is called only from the two reviewed
					// functions with (the links parameter, the name of the ranged step), and its panic is reached only
					// from !ok / len < 1 of m[k]
					okCallers := false
					if node := c.CG.Nodes[f]; node != nil && len(node.In) > 0 {
						okCallers = true
						for _, e := range node.In {
							cs := e.Site
							if cs == nil || cs.Common().StaticCallee() != f || !allowed[fname(e.Caller.Func)] {
								okCallers = false
								break
							}
							if org(cs.Common().Args[mi]) != "p1" || org(cs.Common().Args[ki]) != "p0.Steps[*].SupplyChainItem.Name" {
								okCallers = false
							}
						}
					}
					okGuard := okCallers && len(b.Preds) > 0
					elem := fmt.Sprintf("p%d{p%d}", mi, ki)
					for _, pb := range b.Preds {
						ifi, isIf := pb.Instrs[len(pb.Instrs)-1].(*ssa.If)
						if !isIf {
							okGuard = false
							continue
						}
						o := org(ifi.Cond)
						if !(strings.HasPrefix(o, "ok("+elem+")") || strings.HasPrefix(o, "(builtin:len("+elem+")")) {
							okGuard = false
						}
					}
					c.check(okGuard, R, fn, "panic is the 'step has no links' guard", pn.Pos(), "lookup helper called only by the two reviewed functions with (links, step.Name); reached only from !ok / len < 1 of the element", "the explicit panic is reachable under other conditions than a step without links")
					continue
				}
				if !allowed[fn] {
					c.bad(R, fn, "explicit panic", pn.Pos(), "an explicit panic is reachable from the loading / validating / signing / verifying entry points")
					continue
				}
				// the panic is the 'no link metadata found' guard: reached only from tests of the per-step lookup
				okGuard := len(b.Preds) > 0
				for _, pb := range b.Preds {
					ifi, isIf := pb.Instrs[len(pb.Instrs)-1].(*ssa.If)
					if !isIf {
						okGuard = false
						continue
					}
					o := org(ifi.Cond)
					if !(strings.HasPrefix(o, "ok(p1{p0.Steps[*].SupplyChainItem.Name})") || strings.HasPrefix(o, "(builtin:len(p1{p0.Steps[*].SupplyChainItem.Name})")) {
						okGuard = false
					}
				}
				c.check(okGuard, R, fn, "panic is the 'step has no links' guard", pn.Pos(), "reached only from !ok / len < 1 of stepsMetadata[step.Name]", "the explicit panic is reachable under other conditions than a step without links")
			}
		}
	}
	// discharge: the threshold function fails every step without a verified link
	s := c.thresholdShape(R)
	if s == nil || s.M == nil {
		c.bad(R, "in_toto.VerifyLinkSignatureThesholds", "verified map", 0, "cannot identify the per-step verified map")
		return
	}
	fn := fname(s.f)
	var stepHeader *ssa.BasicBlock
	for _, b := range s.f.Blocks {
		for _, in := range b.Instrs {
			if ph, ok := in.(*ssa.Phi); ok && ph.Comment == "rangeindex" && stepHeader == nil && s.cmp != nil && b.Dominates(s.cmp.Block()) {
				stepHeader = b
			}
		}
	}
	lcs := lenCompares(s.f, func(v ssa.Value) bool { return v == ssa.Value(s.M) })
	nonEmptyAt := func(b *ssa.BasicBlock, succ *ssa.BasicBlock) bool {
		for _, lc := range lcs {
			at0, at1 := evalCmp(lc.op, 0, lc.k), evalCmp(lc.op, 1, lc.k)
			if at0 == at1 {
				continue
			}
			if c.condAt(lc.bo, at1, b) || (succ != nil && edgeFact(b, succ, lc.bo, at1)) {
				// also for every larger length the fact must be consistent (monotone comparisons with small constants)
				return true
			}
		}
		return false
	}
	okLatch := stepHeader != nil
	if stepHeader != nil {
		for _, pb := range stepHeader.Preds {
			if stepHeader.Dominates(pb) && !nonEmptyAt(pb, stepHeader) {
				okLatch = false
			}
		}
	}
	c.check(okLatch, R, fn, "every step that passes has at least one verified link", s.f.Pos(), "a comparison excluding len(verified) == 0 is known on every back edge of the step loop",
		"a step can pass the threshold check with zero verified links (threshold <= 0): VerifyStepCommandAlignment / ReduceStepsMetadata then run into their explicit panics")
	// failing side of that comparison
	okFail := false
	for _, lc := range lcs {
		for _, cu := range condUsers(lc.bo, false) {
			if evalCmp(lc.op, 0, lc.k) != evalCmp(lc.op, 1, lc.k) && c.failing(branchTaken(cu, evalCmp(lc.op, 0, lc.k))) {
				okFail = true
			}
		}
	}
	c.check(okFail, R, fn, "zero verified links is a failing continuation", s.f.Pos(), "len(verified) == 0 side returns an error", "zero verified links does not fail")
	// the map reaches the panicking functions unchanged: VerifySublayouts returns its argument and removes nothing
	if vs := c.lookup("in_toto.VerifySublayouts"); vs != nil {
		okSame := true
		for _, r := range c.nilErrReturns(vs) {
			if resolve(r.Results[0], r) != ssa.Value(vs.Params[1]) {
				okSame = false
			}
		}
		for _, call := range allCalls(vs) {
			if calleeName(call) == "builtin:delete" {
				okSame = false
			}
		}
		for _, b := range vs.Blocks {
			for _, in := range b.Instrs {
				if mu, ok := in.(*ssa.MapUpdate); ok && resolve(mu.Map, mu) == ssa.Value(vs.Params[1]) {
					okSame = false
				}
			}
		}
		c.check(okSame, R, fname(vs), "verified map is passed on without removing steps or links", vs.Pos(), "returns its argument; no delete; no outer-map update", "VerifySublayouts may drop entries of the verified map")
	}
	// cjson: panic arguments are strings (the recover site asserts r.(string))
	np := 0
	okStr := true
	for f := range c.AllFuncs {
		if f.Pkg == nil || f.Pkg.Pkg.Path() != sslPath+"/cjson" {
			continue
		}
		for _, b := range f.Blocks {
			for _, in := range b.Instrs {
				if pn, ok := in.(*ssa.Panic); ok {
					np++
					mi, isMI := pn.X.(*ssa.MakeInterface)
					if !isMI || typeStr(mi.X.Type()) != "string" {
						okStr = false
					}
				}
			}
		}
	}
	c.check(okStr && np > 0, R, "ssl/cjson", "every cjson panic carries a string (the recover site asserts .(string))", 0, fmt.Sprintf("%d panic sites", np), "a cjson panic carries a non-string value: the recover handler's unchecked assertion would itself panic")
	if nPanics == 0 {
		c.trivial(R, "in_toto", "no explicit panics in scope", 0, "none")
	}
}

// ---------------------------------------------------------------------------
// R-C15-2

func ruleC15_2(c *Ctx) {
	const R = "R-C15-2"
	for _, f := range c15Scope(c) {
		for _, b := range f.Blocks {
			for _, in := range b.Instrs {
				ta, ok := in.(*ssa.TypeAssert)
				if !ok || ta.CommaOk {
					continue
				}
				okDom := false
				for _, b2 := range f.Blocks {
					for _, in2 := range b2.Instrs {
						t2, ok := in2.(*ssa.TypeAssert)
						if !ok || !t2.CommaOk || !types.Identical(t2.AssertedType, ta.AssertedType) || org(t2.X) != org(ta.X) {
							continue
						}
						if okv := extractOf(t2, 1); okv != nil && c.condAt(okv, true, ta.Block()) {
							okDom = true
						}
					}
				}
				c.check(okDom, R, fname(f), "unchecked assertion "+short(org(ta.X))+".("+typeStr(ta.AssertedType)+")", ta.Pos(), "dominated by a comma-ok assertion / type switch of the same value and type", "an unchecked type assertion can panic on hostile metadata")
			}
		}
	}
	// asserting constructors
	n := 0
	for _, f := range c.srcFuncs("in_toto") {
		for _, call := range allCalls(f) {
			cn := calleeName(call)
			if !strings.HasPrefix(cn, "ssl/signerverifier.New") || !strings.HasSuffix(cn, "FromSSLibKey") {
				continue
			}
			n++
			okVal := false
			for _, v := range callsIn(f, "in_toto.validateKeyMaterial", "in_toto.validateKeyVal") {
				if !c.okCallAt(v, call.Block()) {
					continue
				}
				// same key: the sslib key is built from the validated key value
				key := resolve(v.Common().Args[0], v)
				if derives(call.Common().Args[0], func(x ssa.Value) bool {
					k, ok := x.(*ssa.Call)
					return ok && calleeName(k) == "in_toto.getSSLibKeyFromKey" && resolve(k.Call.Args[0], k) == key
				}, true) {
					okVal = true
				}
			}
			c.check(okVal, R, fname(f), "constructor "+strings.TrimPrefix(cn, "ssl/signerverifier.")+" only after successful key material validation", call.Pos(), "dominated by the nil-error edge of the validator applied to the same key",
				"key material is handed unvalidated to a securesystemslib constructor that type-asserts the parsed key unchecked (rsa key with ECDSA PEM => interface-conversion panic; short ed25519 key => panic in crypto/ed25519)")
			// the key types that are routed to this constructor are key types the validator knows: a type name the
			// validator lets through unexamined (its default arm) must not reach an asserting constructor
			if vm := c.lookup("in_toto.validateKeyMaterial"); vm != nil {
				known := stringCases(vm, func(v ssa.Value) bool { return strings.HasSuffix(org(v), ".KeyType") })
				var foreign []string
				for label, bo := range stringCases(f, func(v ssa.Value) bool { return strings.HasSuffix(org(v), ".KeyType") }) {
					if c.reachedUnderCase(call.Block(), bo) && known[label] == nil {
						foreign = append(foreign, label)
					}
				}
				sort.Strings(foreign)
				c.check(len(foreign) == 0, R, fname(f), "constructor "+strings.TrimPrefix(cn, "ssl/signerverifier.")+" is reached only for key types the validator examines", call.Pos(), "case labels are among {"+strings.Join(keysOf(known), ", ")+"}",
					"key type(s) "+strings.Join(foreign, ", ")+" are routed to the constructor, but validateKeyMaterial has no arm for them: their material passes unexamined and the constructor's unchecked type assertion panics on material of another kind")
			}
		}
	}
	if n == 0 {
		c.bad(R, "in_toto", "signer/verifier constructors", 0, "no securesystemslib constructor call found")
	}
	// shape of the validator
	if vm := c.lookup("in_toto.validateKeyMaterial"); vm != nil {
		cases := stringCases(vm, func(v ssa.Value) bool { return org(v) == "p0.KeyType" })
		for _, kt := range []string{"rsa", "ecdsa", "ed25519"} {
			bo := cases[kt]
			okKV := false
			if bo != nil {
				for _, v := range callsIn(vm, "in_toto.validateKeyVal") {
					if c.reachedUnderCase(v.Block(), bo) && org(v.Common().Args[0]) == "p0" {
						if e := errResult(v); e != nil {
							ret := flowsTo(e, func(u ssa.Instruction, via ssa.Value) bool { _, ok := u.(*ssa.Return); return ok }, nil)
							fail := false
							for _, br := range errBranches(e) {
								fail = fail || c.failing(br.NonNil)
							}
							okKV = ret || fail
						}
					}
				}
			}
			if !okKV && bo != nil {
				// one validateKeyVal call after a switch that only sorts out the unknown types: every return that may
				// be nil is either past a successful validateKeyVal(key) or excludes this key type
				for _, v := range callsIn(vm, "in_toto.validateKeyVal") {
					if org(v.Common().Args[0]) != "p0" {
						continue
					}
					rets := c.nilErrReturns(vm)
					all := len(rets) > 0
					// every comparison of the key type with this label (the type may be compared again further down)
					var cmps []*ssa.BinOp
					for _, b := range vm.Blocks {
						for _, in := range b.Instrs {
							if x, isBo := in.(*ssa.BinOp); isBo && x.Op == token.EQL {
								if s, isS := constString(x.Y); isS && s == kt && org(x.X) == "p0.KeyType" {
									cmps = append(cmps, x)
								} else if s, isS := constString(x.X); isS && s == kt && org(x.Y) == "p0.KeyType" {
									cmps = append(cmps, x)
								}
							}
						}
					}
					for _, r := range rets {
						excluded := false
						for _, x := range cmps {
							excluded = excluded || c.condAt(x, false, r.Block())
						}
						if !c.okCallAt(v, r.Block()) && !excluded {
							all = false
						}
					}
					okKV = okKV || all
				}
			}
			c.check(okKV, R, fname(vm), "key type "+kt+": validateKeyVal's error refuses", vm.Pos(), "validateKeyVal(key) under type=="+kt, "material of "+kt+" keys is not validated")
		}
		// ed25519 lengths
		lenChecks := map[string][]int64{}
		// in the validator or in an unexported helper it hands the key to; a switch on the decoded length counts like
		// the comparisons it is compiled to
		for _, fr := range helperClosure(vm, 2) {
			for _, b := range fr.Blocks {
				for _, in := range b.Instrs {
					bo, ok := in.(*ssa.BinOp)
					if !ok || (bo.Op != token.NEQ && bo.Op != token.EQL) {
						continue
					}
					k, isK := constInt(bo.Y)
					if !isK {
						continue
					}
					o := org(bo.X)
					for _, part := range []string{"Public", "Private"} {
						if o == "encoding/hex.DecodedLen(builtin:len(p0.KeyVal."+part+"))" || (fr != vm && len(fr.Params) == 1 && typeStr(fr.Params[0].Type()) == "in_toto.KeyVal" && o == "encoding/hex.DecodedLen(builtin:len(p0."+part+"))") {
							dup := false
							for _, have := range lenChecks[part] {
								if have == k {
									dup = true
								}
							}
							if !dup {
								lenChecks[part] = append(lenChecks[part], k)
							}
						}
					}
				}
			}
		}
		pub := lenChecks["Public"]
		prv := lenChecks["Private"]
		sort.Slice(prv, func(i, j int) bool { return prv[i] < prv[j] })
		c.check(len(pub) == 1 && pub[0] == 32, R, fname(vm), "ed25519 public key length is checked against 32 bytes", vm.Pos(), fmt.Sprint(pub), fmt.Sprintf("ed25519 public length checks: %v", pub))
		c.check(len(prv) == 2 && prv[0] == 32 && prv[1] == 64, R, fname(vm), "ed25519 private key length is checked against 32 or 64 bytes", vm.Pos(), fmt.Sprint(prv), fmt.Sprintf("ed25519 private length checks: %v", prv))
	} else {
		c.bad(R, "in_toto.validateKeyMaterial", "validator", 0, "no key material validator")
	}
	if kv := c.lookup("in_toto.validateKeyVal"); kv != nil {
		for _, part := range []string{"Public", "Private"} {
			matcher := "in_toto.match" + part + "KeyKeyType"
			ok := false
			refuses := func(call ssa.CallInstruction) bool {
				e := errResult(call)
				if e == nil {
					return false
				}
				if flowsTo(e, func(u ssa.Instruction, via ssa.Value) bool { _, ok := u.(*ssa.Return); return ok }, nil) {
					return true
				}
				for _, br := range errBranches(e) {
					if c.failing(br.NonNil) {
						return true
					}
				}
				return false
			}
			for _, m := range callsIn(kv, matcher) {
				a := m.Common().Args
				pc, idx := producer(a[0], m)
				if pc != nil && calleeName(pc) == "in_toto.decodeAndParse" && idx == 1 && org(pc.Common().Args[0]) == "p0.KeyVal."+part && org(a[1]) == "p0.KeyType" && c.okCallAt(pc, m.Block()) {
					if e := errResult(m); e != nil {
						for _, br := range errBranches(e) {
							ok = ok || c.failing(br.NonNil)
						}
					}
				}
			}
			// ... or in an unexported helper that validateKeyVal hands (parts of) the key to and whose error refuses
			for _, site := range allCalls(kv) {
				h := site.Common().StaticCallee()
				if ok || h == nil || h.Blocks == nil || h.Pkg != kv.Pkg || h.Parent() != nil || h.Object() == nil || h.Object().Exported() || !refuses(site) {
					continue
				}
				outer := func(v ssa.Value) string {
					o := org(v)
					for j := range h.Params {
						pj := fmt.Sprintf("p%d", j)
						if j < len(site.Common().Args) && (o == pj || strings.HasPrefix(o, pj+".")) {
							return org(site.Common().Args[j]) + strings.TrimPrefix(o, pj)
						}
					}
					return ""
				}
				ms := callsIn(h, matcher)
				// the matcher handed in as a function value: a call through that parameter
				for _, dyn := range allCalls(h) {
					if dyn.Common().IsInvoke() || dyn.Common().StaticCallee() != nil {
						continue
					}
					if fp, isP := dyn.Common().Value.(*ssa.Parameter); isP && fp.Parent() == h && paramIndex(fp) < len(site.Common().Args) {
						if fv, isF := site.Common().Args[paramIndex(fp)].(*ssa.Function); isF && fname(fv) == matcher {
							ms = append(ms, dyn)
						}
					}
				}
				for _, m := range ms {
					a := m.Common().Args
					if len(a) < 2 {
						continue
					}
					pc, idx := producer(a[0], m)
					if pc != nil && calleeName(pc) == "in_toto.decodeAndParse" && idx == 1 && outer(pc.Common().Args[0]) == "p0.KeyVal."+part && outer(a[1]) == "p0.KeyType" && c.okCallAt(pc, m.Block()) && refuses(m) {
						ok = true
					}
				}
			}
			c.check(ok, R, fname(kv), part+" material must parse and be of the key's type", kv.Pos(), matcher+"(decodeAndParse(KeyVal."+part+"), KeyType) with failing error", "the "+part+" part of RSA/ECDSA keys is not parsed and matched against the key type")
		}
	}
	for _, p := range [][3]string{{"in_toto.matchPublicKeyKeyType", "*crypto/rsa.PublicKey", "*crypto/ecdsa.PublicKey"}, {"in_toto.matchPrivateKeyKeyType", "*crypto/rsa.PrivateKey", "*crypto/ecdsa.PrivateKey"}} {
		f := c.lookup(p[0])
		if f == nil {
			c.undecided(R, p[0], "anchor", 0, "not found")
			continue
		}
		want := map[string]string{p[1]: "rsa", p[2]: "ecdsa"}
		okAll := true
		seen := 0
		for _, b := range f.Blocks {
			for _, in := range b.Instrs {
				ta, ok := in.(*ssa.TypeAssert)
				if !ok || !ta.CommaOk || ta.X != ssa.Value(f.Params[0]) {
					continue
				}
				w, known := want[typeStr(ta.AssertedType)]
				if !known {
					okAll = false
					continue
				}
				seen++
				okv := extractOf(ta, 1)
				found := false
				for _, b2 := range f.Blocks {
					for _, in2 := range b2.Instrs {
						if bo, ok := in2.(*ssa.BinOp); ok && bo.Op == token.NEQ && org(bo.X) == "p1" {
							if s, _ := constString(bo.Y); s == w && okv != nil && c.condAt(okv, true, bo.Block()) {
								for _, cu := range condUsers(bo, false) {
									if c.failing(branchTaken(cu, true)) {
										found = true
									}
								}
							}
						}
						// the expected type name chosen per case into one variable, compared once afterwards
						if bo, ok := in2.(*ssa.BinOp); ok && bo.Op == token.NEQ && okv != nil {
							var other ssa.Value
							switch {
							case org(bo.X) == "p1":
								other = bo.Y
							case org(bo.Y) == "p1":
								other = bo.X
							}
							if ph, isPhi := other.(*ssa.Phi); isPhi {
								for i, e := range ph.Edges {
									pb := ph.Block().Preds[i]
									if s, isS := constString(e); isS && s == w && (c.condAt(okv, true, pb) || edgeFact(pb, ph.Block(), okv, true)) {
										for _, cu := range condUsers(bo, false) {
											if c.failing(branchTaken(cu, true)) {
												found = true
											}
										}
									}
								}
							}
						}
					}
				}
				if !found {
					okAll = false
				}
			}
		}
		// default fails
		okDef := false
		for _, r := range returnsOf(f) {
			if org(r.Results[0]) == "global(in_toto.ErrInvalidKey)" {
				okDef = true
			}
		}
		c.check(okAll && seen == 2 && okDef, R, p[0], "parsed type must match the key type, anything else is invalid", f.Pos(), "rsa<->"+p[1]+", ecdsa<->"+p[2]+", default ErrInvalidKey", "the parsed-type / key-type table is incomplete")
	}
}

// ---------------------------------------------------------------------------
// R-C15-3

type boundSite struct {
	f     *ssa.Function
	in    ssa.Instruction
	x     ssa.Value // indexed / sliced value
	idx   ssa.Value // index (Index/IndexAddr)
	low   ssa.Value
	high  ssa.Value
	descr string
}

func varName(v ssa.Value) string {
	switch x := v.(type) {
	case *ssa.Phi:
		if x.Comment != "" {
			return x.Comment
		}
	case *ssa.Parameter:
		return x.Name()
	case *ssa.FreeVar:
		return x.Name()
	case *ssa.Const:
		return x.Value.String()
	case *ssa.Slice:
		return varName(x.X) + "[:]"
	case *ssa.BinOp:
		return varName(x.X) + x.Op.String() + varName(x.Y)
	case *ssa.Extract:
		if c, ok := x.Tuple.(*ssa.Call); ok {
			return fmt.Sprintf("%s#%d", trimPkg(calleeName(c)), x.Index)
		}
	case *ssa.Call:
		return trimPkg(calleeName(x)) + "()"
	case *ssa.UnOp:
		return short(org(x))
	}
	return short(org(v))
}

// sameLen reports whether a and b are known to have the same length: same value / same access path, or one is a
// slice made with len(other).
func sameLen(a, b ssa.Value) bool {
	a, b = resolve(a, nil), resolve(b, nil)
	if a == b {
		return true
	}
	if oa, ob := org(a), org(b); oa == ob && !strings.Contains(oa, "phi(") && !strings.Contains(oa, "make") && !strings.Contains(oa, "local(") {
		return true
	}
	mk := func(x, y ssa.Value) bool {
		m, ok := x.(*ssa.MakeSlice)
		if !ok {
			return false
		}
		l, ok := m.Len.(*ssa.Call)
		return ok && calleeName(l) == "builtin:len" && sameLen(l.Call.Args[0], y)
	}
	return mk(a, b) || mk(b, a)
}

// lenFactsExclude: at block blk, the known facts about len(x) exclude every length in [0, need).
// Falls back to (a) the incoming edges of a phi x and (b) a disjunction over the predecessors of blk.
func (c *Ctx) lenFactsExclude(f *ssa.Function, x ssa.Value, need int64, blk *ssa.BasicBlock) bool {
	return c.lenFactsExcludeD(f, x, need, blk, nil, 0)
}

func (c *Ctx) lenFactsExcludeD(f *ssa.Function, x ssa.Value, need int64, blk, succ *ssa.BasicBlock, depth int) bool {
	if need <= 0 {
		return true
	}
	lcs := lenCompares(f, func(v ssa.Value) bool { return sameLen(v, x) })
	all := true
	for l := int64(0); l < need; l++ {
		excluded := false
		for _, lc := range lcs {
			for _, val := range []bool{true, false} {
				if (c.condAt(lc.bo, val, blk) || (succ != nil && edgeFact(blk, succ, lc.bo, val))) && evalCmp(lc.op, l, lc.k) != val {
					excluded = true
				}
			}
		}
		if !excluded {
			all = false
			break
		}
	}
	if all {
		return true
	}
	if depth >= 4 {
		return false
	}
	// (a) x is a phi: every incoming value is long enough on its edge
	if ph, ok := resolve(x, nil).(*ssa.Phi); ok && (ph.Block() == blk || ph.Block().Dominates(blk)) {
		okAll := len(ph.Edges) > 0
		for i, e := range ph.Edges {
			pb := ph.Block().Preds[i]
			if ph.Block().Dominates(pb) && depth > 0 {
				okAll = false // do not chase loop-carried values repeatedly
				break
			}
			if !c.lenFactsExcludeD(f, e, need, pb, ph.Block(), depth+1) {
				okAll = false
				break
			}
		}
		if okAll {
			return true
		}
	}
	// (c) x (or the map whose keys fill x) is the result of an unexported helper of the module that returns it only
	// with the short lengths excluded
	{
		cands := []ssa.Value{resolve(x, nil)}
		if m, ok := cands[0].(*ssa.MakeSlice); ok {
			if l, ok := m.Len.(*ssa.Call); ok && calleeName(l) == "builtin:len" {
				cands = append(cands, resolve(l.Call.Args[0], nil))
			}
		}
		for _, cand := range cands {
			var pc *ssa.Call
			ri := 0
			switch y := cand.(type) {
			case *ssa.Call:
				pc = y
			case *ssa.Extract:
				pc, _ = y.Tuple.(*ssa.Call)
				ri = y.Index
			}
			if pc == nil {
				continue
			}
			g := pc.Common().StaticCallee()
			if g == nil || g.Blocks == nil || g.Pkg == nil || !strings.HasPrefix(g.Pkg.Pkg.Path(), modPath) || g.Object() == nil || g.Object().Exported() || errIndex(g) >= 0 {
				continue
			}
			rets := returnsOf(g)
			okAll := len(rets) > 0
			for _, r := range rets {
				if ri >= len(r.Results) || !c.lenFactsExcludeD(g, r.Results[ri], need, r.Block(), nil, depth+1) {
					okAll = false
					break
				}
			}
			if okAll {
				return true
			}
		}
	}
	// (b) disjunction over predecessors
	if len(blk.Preds) > 1 || (len(blk.Preds) == 1 && succ == nil) {
		okAll := len(blk.Preds) > 0
		for _, pb := range blk.Preds {
			if blk.Dominates(pb) {
				okAll = false
				break
			}
			if !c.lenFactsExcludeD(f, x, need, pb, blk, depth+1) {
				okAll = false
				break
			}
		}
		if okAll {
			return true
		}
	}
	return false
}

// callersExcludeLen: x is a view of a parameter of the unexported function f (a field path, no call in between), f is
// only called statically from the module, and at every call site the facts about the length of the same path of the
// argument exclude every length in [0, need).
func (c *Ctx) callersExcludeLen(f *ssa.Function, x ssa.Value, need int64) bool {
	if f == nil || f.Object() == nil || f.Object().Exported() || f.Parent() != nil {
		return false
	}
	rooted := false
	viewOnly := !derives(x, func(v ssa.Value) bool {
		switch v.(type) {
		case *ssa.Parameter:
			rooted = true
		case *ssa.Call, *ssa.Phi, *ssa.MakeSlice, *ssa.MakeMap, *ssa.Global, *ssa.Lookup, *ssa.Index, *ssa.IndexAddr:
			return true
		}
		return false
	}, false)
	if !viewOnly || !rooted {
		return false
	}
	node := c.CG.Nodes[f]
	if node == nil || len(node.In) == 0 {
		return false
	}
	for _, e := range node.In {
		cs := e.Site
		g := e.Caller.Func
		if cs == nil || cs.Common().StaticCallee() != f || g.Pkg == nil || !strings.HasPrefix(g.Pkg.Pkg.Path(), modPath) {
			return false
		}
		sub := map[*ssa.Parameter]string{}
		for i, a := range callArgs(cs) {
			if i < len(f.Params) {
				sub[f.Params[i]] = org(a)
			}
		}
		want := orgSubst(x, sub)
		lcs := lenCompares(g, func(v ssa.Value) bool { return org(v) == want })
		for l := int64(0); l < need; l++ {
			excluded := false
			for _, lc := range lcs {
				for _, val := range []bool{true, false} {
					if c.condAt(lc.bo, val, cs.Block()) && evalCmp(lc.op, l, lc.k) != val {
						excluded = true
					}
				}
			}
			if !excluded {
				return false
			}
		}
	}
	return true
}

// varBelowLen: fact `i < len(x)` (or equivalent) holds at blk.
func (c *Ctx) varBelowLen(f *ssa.Function, i, x ssa.Value, blk *ssa.BasicBlock, slack int64) bool {
	for _, b := range f.Blocks {
		for _, in := range b.Instrs {
			bo, ok := in.(*ssa.BinOp)
			if !ok {
				continue
			}
			isLen := func(v ssa.Value) bool {
				k, ok := v.(*ssa.Call)
				return ok && calleeName(k) == "builtin:len" && sameLen(k.Call.Args[0], x)
			}
			// i < len(x)  /  len(x) > i
			if (bo.Op == token.LSS && bo.X == i && isLen(bo.Y)) || (bo.Op == token.GTR && bo.Y == i && isLen(bo.X)) {
				if c.condAt(bo, true, blk) {
					return true
				}
			}
			if (bo.Op == token.GEQ && bo.X == i && isLen(bo.Y)) || (bo.Op == token.LEQ && bo.Y == i && isLen(bo.X)) {
				if c.condAt(bo, false, blk) {
					return true
				}
			}
			// any other integer-linear comparison that implies i+1 <= len(x):  i < len(x)-1,  i+2 <= len(x), ...
			switch bo.Op {
			case token.LSS, token.LEQ, token.GTR, token.GEQ:
				for _, tv := range []bool{true, false} {
					if linImpliesBelow(bo, tv, i, x, 1) && c.condAt(bo, tv, blk) {
						return true
					}
				}
			}
		}
	}
	_ = slack
	return false
}

// nonEmptyOnNilErr: callee summary: on every return of g whose error may be nil, result ri is known non-empty.
func (c *Ctx) nonEmptyOnNilErr(g *ssa.Function, ri int) bool {
	ei := errIndex(g)
	if ei < 0 {
		return false
	}
	rets := returnsOf(g)
	if len(rets) == 0 {
		return false
	}
	for _, r := range rets {
		ev := resolve(r.Results[ei], r)
		// collect the (pred block, error value) pairs reaching this return
		type edge struct {
			pb  *ssa.BasicBlock
			val ssa.Value
		}
		var edges []edge
		if ph, ok := ev.(*ssa.Phi); ok && ph.Block() == r.Block() {
			for i, e := range ph.Edges {
				edges = append(edges, edge{ph.Block().Preds[i], e})
			}
		} else {
			edges = []edge{{nil, ev}}
		}
		rv := resolve(r.Results[ri], r)
		for _, e := range edges {
			if e.pb != nil && !c.mayBeNilErr(e.val, e.pb, 0) {
				continue
			}
			if e.pb == nil && !c.mayBeNilErr(e.val, r.Block(), 0) {
				continue
			}
			blk := r.Block()
			if e.pb != nil {
				blk = e.pb
			}
			val := rv
			if ph, ok := rv.(*ssa.Phi); ok && ph.Block() == r.Block() && e.pb != nil {
				for i, pb := range ph.Block().Preds {
					if pb == e.pb {
						val = ph.Edges[i]
					}
				}
			}
			ok := false
			for _, lc := range lenCompares(g, func(v ssa.Value) bool { return resolve(v, nil) == resolve(val, nil) }) {
				for _, tv := range []bool{true, false} {
					if evalCmp(lc.op, 0, lc.k) != tv && (c.condAt(lc.bo, tv, blk) || (e.pb != nil && edgeFact(e.pb, r.Block(), lc.bo, tv))) {
						ok = true
					}
				}
			}
			if !ok {
				return false
			}
		}
	}
	return true
}

// reviewed bound-table: function | expression -> (required fact description, reason). Entries apply only to sites
// no idiom discharges, and only where the required fact holds.
type boundEntry struct {
	reason string
	fact   func(c *Ctx, s boundSite) bool
}

func phiFalseAt(name string) func(c *Ctx, s boundSite) bool {
	return func(c *Ctx, s boundSite) bool {
		for _, b := range s.f.Blocks {
			for _, in := range b.Instrs {
				if ph, ok := in.(*ssa.Phi); ok && ph.Comment == name && c.condAt(ph, false, s.in.Block()) {
					return true
				}
			}
		}
		return false
	}
}

// accumulatedFromNonEmptyMap: the indexed slice gets one append per element of a map that is known non-empty at the site.
func accumulatedFromNonEmptyMap(c *Ctx, s boundSite) bool {
	for _, ml := range mapLoops(s.f) {
		appended := false
		for b := range ml.body {
			for _, in := range b.Instrs {
				if k, ok := in.(*ssa.Call); ok && calleeName(k) == "builtin:append" {
					if derives(s.x, func(v ssa.Value) bool { return v == ssa.Value(k) }, false) {
						// unconditional in the body
						if okv := extractOf(ml.next, 0); okv != nil {
							for _, cu := range condUsers(okv, false) {
								if branchTaken(cu, true) == b {
									appended = true
								}
							}
						}
					}
				}
			}
		}
		// the site lies after the loop, and the loop visits every element (no early exit)
		if ml.body[s.in.Block()] {
			continue
		}
		exhaustive := true
		for b := range ml.body {
			if b == ml.header || !reaches(b, ml.header) {
				continue
			}
			for _, sc := range b.Succs {
				if !ml.body[sc] && !c.failing(sc) {
					exhaustive = false
				}
			}
		}
		if appended && exhaustive && c.lenFactsExclude(s.f, ml.rng.X, 1, s.in.Block()) {
			return true
		}
	}
	return false
}

// reviewed entries (function | expression -> reason + checked fact). Empty at present: every site of the current tree
// is discharged by a general idiom; the table remains for sites that need a reviewed argument.
var c15BoundTable = map[string]boundEntry{}

func (c *Ctx) boundSites(f *ssa.Function) []boundSite {
	var out []boundSite
	for _, b := range f.Blocks {
		for _, in := range b.Instrs {
			switch x := in.(type) {
			case *ssa.IndexAddr:
				out = append(out, boundSite{f: f, in: x, x: x.X, idx: x.Index, descr: varName(x.X) + "[" + varName(x.Index) + "]"})
			case *ssa.Index:
				out = append(out, boundSite{f: f, in: x, x: x.X, idx: x.Index, descr: varName(x.X) + "[" + varName(x.Index) + "]"})
			case *ssa.Slice:
				lo, hi := "", ""
				if x.Low != nil {
					lo = varName(x.Low)
				}
				if x.High != nil {
					hi = varName(x.High)
				}
				out = append(out, boundSite{f: f, in: x, x: x.X, low: x.Low, high: x.High, descr: varName(x.X) + "[" + lo + ":" + hi + "]"})
			}
		}
	}
	return out
}

func (c *Ctx) dischargeBound(s boundSite) (string, bool) {
	blk := s.in.Block()
	// local arrays with constant bounds
	arrT := s.x.Type().Underlying()
	if pt, ok := arrT.(*types.Pointer); ok {
		arrT = pt.Elem().Underlying()
	}
	{
		if at, ok := arrT.(*types.Array); ok {
			if s.idx != nil {
				if k, ok := constInt(s.idx); ok && k >= 0 && k < at.Len() {
					return "constant index into a fixed-size array", true
				}
				// range over a fixed-size array: the induction value is tested against the array length
				if bo, ok := s.idx.(*ssa.BinOp); ok && bo.Op == token.ADD && bo.Referrers() != nil {
					if ph, ok := bo.X.(*ssa.Phi); ok && ph.Comment == "rangeindex" {
						if one, ok := constInt(bo.Y); ok && one == 1 {
							for _, r := range *bo.Referrers() {
								if cmp, ok := r.(*ssa.BinOp); ok && cmp.Op == token.LSS && cmp.X == ssa.Value(bo) {
									if n, ok := constInt(cmp.Y); ok && n <= at.Len() && c.condAt(cmp, true, blk) {
										return "range induction variable below the length of a fixed-size array", true
									}
								}
							}
						}
					}
				}
			} else {
				okB := true
				for _, v := range []ssa.Value{s.low, s.high} {
					if v == nil {
						continue
					}
					if k, ok := constInt(v); !ok || k < 0 || k > at.Len() {
						okB = false
					}
				}
				if okB {
					return "constant bounds into a fixed-size array", true
				}
			}
		}
	}
	if s.idx != nil {
		// (a) range-index induction variable over a slice of the same length
		if bo, ok := s.idx.(*ssa.BinOp); ok && bo.Op == token.ADD {
			if ph, ok := bo.X.(*ssa.Phi); ok && ph.Comment == "rangeindex" {
				if c.varBelowLen(s.f, s.idx, s.x, blk, 0) {
					return "range induction variable below len of the same (or equally long) slice", true
				}
			}
		}
		// (a') counter of a range over a map m, into a slice made with len(m)
		if ph, ok := s.idx.(*ssa.Phi); ok {
			if mk, ok := resolve(s.x, nil).(*ssa.MakeSlice); ok {
				if l, ok := mk.Len.(*ssa.Call); ok && calleeName(l) == "builtin:len" {
					for _, ml := range mapLoops(s.f) {
						if ml.body[blk] && resolve(ml.rng.X, nil) == resolve(l.Call.Args[0], nil) && ph.Block() == ml.header {
							counter := true
							for _, e := range ph.Edges {
								if k, ok := constInt(e); ok && k == 0 {
									continue
								}
								if b2, ok := e.(*ssa.BinOp); ok && b2.Op == token.ADD && b2.X == ssa.Value(ph) {
									if k, ok := constInt(b2.Y); ok && k == 1 {
										continue
									}
								}
								counter = false
							}
							if counter {
								return "element counter of a range over a map, into a slice made with len(map)", true
							}
						}
					}
				}
			}
		}
		// (b) constant index under length facts
		if k, ok := constInt(s.idx); ok && k >= 0 {
			if c.lenFactsExclude(s.f, s.x, k+1, blk) {
				return fmt.Sprintf("constant index %d: known length facts exclude len <= %d", k, k), true
			}
		}
		// (b2) len(x)-1 under len(x) > 0
		if bo, ok := s.idx.(*ssa.BinOp); ok && bo.Op == token.SUB {
			if k, ok := constInt(bo.Y); ok && k == 1 {
				if l, ok := bo.X.(*ssa.Call); ok && calleeName(l) == "builtin:len" && sameLen(l.Call.Args[0], s.x) && c.lenFactsExclude(s.f, s.x, 1, blk) {
					return "len-1 under a non-empty fact", true
				}
			}
		}
		// (b3) the same two idioms with the length fact established by every caller of an unexported helper
		if k, ok := constInt(s.idx); ok && k >= 0 && c.callersExcludeLen(s.f, s.x, k+1) {
			return fmt.Sprintf("constant index %d: every call site of %s establishes len > %d for the argument", k, fname(s.f), k), true
		}
		if bo, ok := s.idx.(*ssa.BinOp); ok && bo.Op == token.SUB {
			if k, ok := constInt(bo.Y); ok && k == 1 {
				if l, ok := bo.X.(*ssa.Call); ok && calleeName(l) == "builtin:len" && sameLen(l.Call.Args[0], s.x) && c.callersExcludeLen(s.f, s.x, 1) {
					return "len-1: every call site of " + fname(s.f) + " establishes a non-empty argument", true
				}
			}
		}
		// (d) index found by slices.Index / IndexFunc / BinarySearch-free search on the same slice and tested >= 0
		if ic, ok := s.idx.(*ssa.Call); ok && len(ic.Call.Args) >= 1 {
			switch genericBase(calleeName(ic)) {
			case "slices.IndexFunc", "slices.Index":
				if sameLen(ic.Call.Args[0], s.x) && c.indexFound(ic, blk) {
					return "idx = " + genericBase(calleeName(ic)) + "(x, ...) known >= 0", true
				}
			}
		}
		// (e) variable index under i < len(x)
		if c.varBelowLen(s.f, s.idx, s.x, blk, 0) {
			return "index below len of the same value", true
		}
		// callee summary: x is result r of g, non-empty on nil error, and the error is known nil here
		if k, ok := constInt(s.idx); ok && k == 0 {
			if pc, ri := producer(s.x, s.in); pc != nil {
				if g := pc.Common().StaticCallee(); g != nil && c.okCallAt(pc, blk) && c.nonEmptyOnNilErr(g, ri) {
					return "result of " + fname(g) + " is non-empty whenever its error is nil (callee summary), error known nil", true
				}
			}
		}
	} else {
		// slices
		// x[:len(x)], x[:len(x):len(x)] (cutting the capacity off before an append)
		if s.low == nil || isZeroConst(s.low) {
			if l, ok := s.high.(*ssa.Call); ok && calleeName(l) == "builtin:len" && sameLen(l.Call.Args[0], s.x) {
				sl, _ := s.in.(*ssa.Slice)
				okMax := sl != nil && sl.Max == nil
				if sl != nil && sl.Max != nil {
					if m, ok := sl.Max.(*ssa.Call); ok && calleeName(m) == "builtin:len" && sameLen(m.Call.Args[0], s.x) {
						okMax = true
					}
				}
				if okMax {
					return "x[:len(x)] of the same value", true
				}
			}
		}
		needLow := int64(0)
		lowConst, highConst := false, false
		if s.low == nil {
			lowConst = true
		} else if k, ok := constInt(s.low); ok {
			lowConst, needLow = true, k
		}
		var needHigh int64
		if s.high == nil {
			highConst = true
		} else if k, ok := constInt(s.high); ok {
			highConst, needHigh = true, k
		}
		if lowConst && highConst {
			need := needLow
			if needHigh > need {
				need = needHigh
			}
			if c.lenFactsExclude(s.f, s.x, need, blk) {
				return fmt.Sprintf("constant bounds: known length facts exclude len < %d", need), true
			}
			// callee summary for x[1:]
			if need == 1 {
				if pc, ri := producer(s.x, s.in); pc != nil {
					if g := pc.Common().StaticCallee(); g != nil && c.okCallAt(pc, blk) && c.nonEmptyOnNilErr(g, ri) {
						return "result of " + fname(g) + " is non-empty whenever its error is nil (callee summary)", true
					}
				}
			}
		}
		// x[n:] with n the size result of utf8.DecodeRuneInString(x)
		if s.high == nil && s.low != nil {
			if ex, ok := s.low.(*ssa.Extract); ok && ex.Index == 1 {
				if k, ok := ex.Tuple.(*ssa.Call); ok && calleeName(k) == "unicode/utf8.DecodeRuneInString" && resolve(k.Call.Args[0], k) == resolve(s.x, nil) {
					return "n is the size returned by utf8.DecodeRuneInString of the same string (0 <= n <= len)", true
				}
			}
			// x[i:] with i counting up from a non-negative constant and i <= len(x)
			if ph, ok := s.low.(*ssa.Phi); ok && countsUpFromNonNegative(ph) && c.varAtMostLen(s.f, ph, s.x, blk) {
				return "i counts up from a non-negative constant under i <= len", true
			}
			// x[i+1:] with i < len(x)
			if bo, ok := s.low.(*ssa.BinOp); ok && bo.Op == token.ADD {
				if k, ok := constInt(bo.Y); ok && k == 1 {
					if c.varBelowLen(s.f, bo.X, s.x, blk, 0) {
						return "i+1 under i < len", true
					}
					// i from strings.Index(x, ..) tested != -1
					if ic, ok := bo.X.(*ssa.Call); ok && calleeName(ic) == "strings.Index" && resolve(ic.Call.Args[0], ic) == resolve(s.x, nil) && c.indexFound(ic, blk) {
						return "idx+1 with idx = strings.Index(x, sep) != -1", true
					}
				}
			}
		}
		// x[i:], x[:i], x[0:i] with i a scan position: starts at a non-negative constant, only grows by +1 steps that are
		// taken where the value before the step is below len(x) (inductive invariant 0 <= i <= len(x))
		scanPos := func(v ssa.Value) bool {
			if v == nil {
				return true
			}
			if k, isK := constInt(v); isK && k == 0 {
				return true
			}
			if c.atMostLenInv(s.f, v, s.x, map[ssa.Value]bool{}, 0) {
				return true
			}
			// "end of the interesting part": a merge of len(x) itself and of positions known to be below len(x) where
			// they were picked (end := len(p); for i := ...; if found { end = i; break })
			if ph, isPhi := v.(*ssa.Phi); isPhi {
				okAll := len(ph.Edges) > 0
				for i, e := range ph.Edges {
					pb := ph.Block().Preds[i]
					if l, isLen := e.(*ssa.Call); isLen && calleeName(l) == "builtin:len" && sameLen(l.Call.Args[0], s.x) {
						continue
					}
					if c.belowLenDeep(s.f, e, s.x, pb, ph.Block(), 0) || c.atMostLenInv(s.f, e, s.x, map[ssa.Value]bool{}, 0) {
						continue
					}
					okAll = false
				}
				return okAll
			}
			return false
		}
		if (s.low != nil || s.high != nil) && scanPos(s.low) && scanPos(s.high) {
			if s.low == nil || s.high == nil || isZeroConst(s.low) {
				return "scan position: 0 <= i <= len is an inductive invariant of its increments", true
			}
		}
		// x[:i] with i from strings.Index tested != -1
		if s.low == nil && s.high != nil {
			if ic, ok := s.high.(*ssa.Call); ok && calleeName(ic) == "strings.Index" && resolve(ic.Call.Args[0], ic) == resolve(s.x, nil) && c.indexFound(ic, blk) {
				return "idx = strings.Index(x, sep) != -1", true
			}
		}
	}
	return "", false
}

func (c *Ctx) indexFound(ic *ssa.Call, blk *ssa.BasicBlock) bool {
	for _, r := range *ic.Referrers() {
		bo, ok := r.(*ssa.BinOp)
		if !ok {
			continue
		}
		if k, isK := constInt(bo.Y); isK && k == -1 {
			if (bo.Op == token.NEQ && c.condAt(bo, true, blk)) || (bo.Op == token.EQL && c.condAt(bo, false, blk)) {
				return true
			}
		}
		if k, isK := constInt(bo.Y); isK && k == 0 && bo.Op == token.GEQ && c.condAt(bo, true, blk) {
			return true
		}
		if k, isK := constInt(bo.Y); isK && k == 0 && bo.Op == token.LSS && c.condAt(bo, false, blk) {
			return true
		}
		if k, isK := constInt(bo.Y); isK && k == -1 && bo.Op == token.GTR && c.condAt(bo, true, blk) {
			return true
		}
	}
	return false
}

func ruleC15_3(c *Ctx) {
	const R = "R-C15-3"
	for _, f := range c15Scope(c) {
		for _, s := range c.boundSites(f) {
			if why, ok := c.dischargeBound(s); ok {
				if strings.HasPrefix(why, "constant index into a fixed-size array") || strings.HasPrefix(why, "constant bounds into a fixed-size array") {
					c.trivial(R, fname(f), s.descr, s.in.Pos(), why)
				} else {
					c.ok(R, fname(f), s.descr, s.in.Pos(), why)
				}
				continue
			}
			// the comparison function of sort.Slice / sort.SliceStable is called with 0 <= i, j < len(x) by contract:
			// indexing the sorted slice (captured) with its two parameters is in range
			if s.idx != nil && lessFuncIndex(f, s) {
				c.ok(R, fname(f), s.descr, s.in.Pos(), "index is a parameter of the comparison function passed to sort.Slice over this very slice")
				continue
			}
			// general idiom: a slice that received one unconditional append per element of a map known to be non-empty
			// here has at least one element: x[0], x[1:], x[:1]
			if need, okNeed := constNeed(s); okNeed && need <= 1 && accumulatedFromNonEmptyMap(c, s) {
				c.ok(R, fname(f), s.descr, s.in.Pos(), "one unconditional append per element of a map known non-empty here: len >= 1")
				continue
			}
			key := fname(f) + " | " + s.descr
			if e, ok := c15BoundTable[key]; ok && e.fact(c, s) {
				c.ok(R, fname(f), s.descr, s.in.Pos(), "reviewed: "+e.reason)
				continue
			}
			c.undecided(R, fname(f), s.descr, s.in.Pos(), "index/slice expression "+s.descr+" matches no recognised bound idiom (range induction variable; constant index under length facts; len-1 under non-empty; i < len; rune size; strings.Index != -1; callee summary) and no reviewed table entry: it may panic with index out of range on hostile input. [This is the one rule that can fire on a behaviour-preserving edit; add a guard the analyser can see, or a reviewed entry with its reason.]")
		}
	}
}

// ---------------------------------------------------------------------------
// R-C15-4

// innerEnvelopeNonNilOnSuccess: every nil-error return of the *Envelope method g lies under a nil test of
// receiver.envelope that came out non-nil.
func (c *Ctx) innerEnvelopeNonNilOnSuccess(g *ssa.Function) bool {
	if g == nil || g.Blocks == nil || g.Signature.Recv() == nil || typeStr(g.Signature.Recv().Type()) != "*in_toto.Envelope" {
		return false
	}
	rets := c.nilErrReturnsOrForwarded(g)
	if len(rets) == 0 {
		return false
	}
	for _, r := range rets {
		ok := false
		for _, b := range g.Blocks {
			for _, in := range b.Instrs {
				if u, isU := in.(*ssa.UnOp); isU && u.Op == token.MUL && org(u) == "p0.envelope" && c.nonNilAt(u, r.Block()) {
					ok = true
				}
			}
		}
		if !ok {
			return false
		}
	}
	return true
}

// nilErrReturnsOrForwarded: the returns of g that may carry a nil error (constant nil, or another call's error handed on).
func (c *Ctx) nilErrReturnsOrForwarded(g *ssa.Function) []*ssa.Return {
	ei := errIndex(g)
	var out []*ssa.Return
	for _, r := range returnsOf(g) {
		if ei < 0 || ei >= len(r.Results) || c.mayBeNilErr(r.Results[ei], r.Block(), 0) {
			out = append(out, r)
		}
	}
	return out
}

func ruleC15_4(c *Ctx) {
	const R = "R-C15-4"
	// inner envelope of Envelope
	n := 0
	for _, f := range c.srcFuncs("in_toto") {
		if f.Signature.Recv() == nil || typeStr(f.Signature.Recv().Type()) != "*in_toto.Envelope" {
			continue
		}
		guarded := func(blk *ssa.BasicBlock) bool {
			for _, b := range f.Blocks {
				for _, in := range b.Instrs {
					if u, ok := in.(*ssa.UnOp); ok && u.Op == token.MUL && org(u) == "p0.envelope" && c.nonNilAt(u, blk) {
						return true
					}
					// a successful call of a method of the same receiver that succeeds only with a non-nil inner envelope
					if call, ok := in.(ssa.CallInstruction); ok && hasErrResult(call) {
						g := call.Common().StaticCallee()
						if g != nil && g.Signature.Recv() != nil && len(call.Common().Args) > 0 && org(call.Common().Args[0]) == "p0" && c.okCallAt(call, blk) && c.innerEnvelopeNonNilOnSuccess(g) {
							return true
						}
					}
				}
			}
			return false
		}
		for _, b := range f.Blocks {
			for _, in := range b.Instrs {
				derefs := false
				var pos token.Pos
				what := ""
				switch x := in.(type) {
				case *ssa.FieldAddr:
					if org(x.X) == "p0.envelope" {
						derefs, pos, what = true, x.Pos(), "field "+fieldName(x.X.Type(), x.Field)
					}
				case ssa.CallInstruction:
					cn := calleeName(x)
					if strings.HasPrefix(cn, "(*ssl/dsse.Envelope).") && len(x.Common().Args) > 0 && org(x.Common().Args[0]) == "p0.envelope" {
						derefs, pos, what = true, x.Pos(), cn
					}
					if cn == "(*ssl/dsse.EnvelopeVerifier).Verify" && org(x.Common().Args[2]) == "p0.envelope" {
						derefs, pos, what = true, x.Pos(), cn
					}
				}
				if !derefs {
					continue
				}
				n++
				// SetPayload assigns the envelope itself before use; loadEnvelope builds it
				c.check(guarded(b), R, fname(f), "use of the inner envelope: "+what, pos, "dominated by a nil test of e.envelope", "the inner DSSE envelope of an Envelope (nil for the zero value of this exported type) is dereferenced without a nil test")
			}
		}
	}
	if n == 0 {
		c.bad(R, "(*in_toto.Envelope)", "uses of the inner envelope", 0, "none found")
	}
	// pem block deref in decodeAndParse (C19-4 covers); data from pem.Decode in loadKey: pemData.Bytes for private arms
	if f := c.lookup("(*in_toto.Key).loadKey"); f != nil {
		// pemData (p2) is dereferenced only in arms that follow a successful decodeAndParse, which never returns a nil block with a nil error
		if g := c.lookup("in_toto.decodeAndParse"); g != nil {
			okBlock := true
			for _, r := range c.nilErrReturns(g) {
				if isNilConst(resolve(r.Results[0], r)) {
					okBlock = false
				}
			}
			c.check(okBlock, R, fname(g), "never returns a nil PEM block with a nil error", g.Pos(), "callers may dereference the block after a nil error", "decodeAndParse can return (nil, _, nil): loadKey dereferences pemData")
		}
		for _, caller := range []string{"(*in_toto.Key).LoadKeyReader", "(*in_toto.Key).LoadKeyReaderDefaults"} {
			if h := c.lookup(caller); h != nil {
				for _, lk := range callsIn(h, "(*in_toto.Key).loadKey") {
					pc, idx := producer(lk.Common().Args[2], lk)
					c.check(pc != nil && calleeName(pc) == "in_toto.decodeAndParse" && idx == 0 && c.okCallAt(pc, lk.Block()), R, caller, "loadKey receives the PEM block of a successful decodeAndParse", lk.Pos(), "dominated by the nil-error edge", "loadKey may receive a nil PEM block")
				}
			}
		}
	}
}

// ---------------------------------------------------------------------------
// R-C15-5

func ruleC15_5(c *Ctx) {
	const R = "R-C15-5"
	var mapOK func(f *ssa.Function, m ssa.Value, at ssa.Instruction, depth int) (string, bool)
	mapOK = func(f *ssa.Function, m ssa.Value, at ssa.Instruction, depth int) (string, bool) {
		v := resolve(m, at)
		if fv, ok := m.(*ssa.FreeVar); ok {
			v = fv
		}
		switch x := v.(type) {
		case *ssa.MakeMap:
			return "made in this function", true
		case *ssa.Call:
			if g := x.Call.StaticCallee(); g != nil && g.Blocks != nil && depth < 3 {
				all := true
				for _, r := range c.nilErrReturns(g) {
					if len(r.Results) == 0 {
						all = false
						continue
					}
					if _, ok := mapOK(g, r.Results[0], r, depth+1); !ok {
						all = false
					}
				}
				if all {
					return "result of " + fname(g) + " (a made map on every success return)", true
				}
			}
		case *ssa.Extract:
			if k, ok := x.Tuple.(*ssa.Call); ok {
				if g := k.Call.StaticCallee(); g != nil && g.Blocks != nil && depth < 3 {
					all := true
					for _, r := range c.nilErrReturns(g) {
						if _, ok := mapOK(g, r.Results[x.Index], r, depth+1); !ok {
							all = false
						}
					}
					if all {
						return "result of " + fname(g) + " (a made map on every success return)", true
					}
				}
			}
			// value of a range over a map / lookup: inner maps (written inside a range over themselves are handled below)
		case *ssa.Parameter:
			// one level up: every in_toto caller passes an acceptable map
			if depth < 2 {
				pi := paramIndex(x)
				if n := c.CG.Nodes[f]; n != nil && len(n.In) > 0 {
					all := true
					for _, e := range n.In {
						caller := e.Caller.Func
						args := e.Site.Common().Args
						if pi >= len(args) {
							all = false
							continue
						}
						if _, ok := mapOK(caller, args[pi], e.Site, depth+1); !ok {
							all = false
						}
					}
					if all {
						return "parameter: every caller passes a made map", true
					}
				}
			}
		case *ssa.UnOp:
			if fv, ok := x.X.(*ssa.FreeVar); ok && x.Op == token.MUL {
				return mapOK(f, fv, at, depth)
			}
		case *ssa.FreeVar:
			// bound by the enclosing function
			if p := f.Parent(); p != nil {
				for _, b := range p.Blocks {
					for _, in := range b.Instrs {
						if mc, ok := in.(*ssa.MakeClosure); ok && mc.Fn == ssa.Value(f) {
							for i, fv := range f.FreeVars {
								if fv == x && i < len(mc.Bindings) {
									if al, ok := mc.Bindings[i].(*ssa.Alloc); ok {
										for _, st := range storesTo(al) {
											if _, ok := st.Val.(*ssa.MakeMap); ok {
												return "captured variable initialised with make", true
											}
										}
									}
								}
							}
						}
					}
				}
			}
		}
		// written inside a range over the same map: the body only runs for a non-nil map
		for _, ml := range mapLoops(f) {
			if ml.body[at.Block()] && resolve(ml.rng.X, ml.rng) == v {
				return "inside a range over the same map (non-empty, hence non-nil)", true
			}
		}
		return "", false
	}
	n := 0
	for _, f := range c15Scope(c) {
		for _, b := range f.Blocks {
			for _, in := range b.Instrs {
				mu, ok := in.(*ssa.MapUpdate)
				if !ok {
					continue
				}
				n++
				// Set.Add: receiver parameter; check the call sites instead
				if fname(f) == "(in_toto.Set).Add" {
					c.trivial(R, fname(f), "s[elem] = struct{}{}", mu.Pos(), "receiver: every call site is checked below")
					continue
				}
				why, ok := mapOK(f, mu.Map, mu, 0)
				if !ok {
					// inner maps obtained from a range over a made map of maps (linkData in VerifySublayouts): value of a range over p1
					if ex, isEx := resolve(mu.Map, mu).(*ssa.Extract); isEx {
						if nx, isNx := ex.Tuple.(*ssa.Next); isNx && ex.Index == 2 {
							for _, ml := range mapLoops(f) {
								if ml.next == nx {
									for _, inner := range mapLoops(f) {
										if inner.body[mu.Block()] && inner.rng.X == ssa.Value(ex) {
											why, ok = "inside a range over the same inner map", true
										}
									}
								}
							}
						}
					}
				}
				c.check(ok, R, fname(f), "map write "+short(org(mu.Map))+"{…}", mu.Pos(), why, "a map that may be nil is written to (assignment to entry in nil map panics)")
			}
		}
	}
	// call sites of Set.Add
	for _, f := range c15Scope(c) {
		for _, call := range callsIn(f, "(in_toto.Set).Add") {
			recv := resolve(call.Common().Args[0], call)
			ok := false
			why := ""
			switch x := recv.(type) {
			case *ssa.Call:
				ok = calleeName(x) == "in_toto.NewSet"
				why = "NewSet()"
			case *ssa.MakeMap:
				ok, why = true, "make"
			case *ssa.ChangeType:
				_, ok = x.X.(*ssa.MakeMap)
				why = "make"
			case *ssa.Parameter, *ssa.FreeVar:
				// one level up: visitedSymlinks parameter / free variable
				ok = strings.Contains(org(recv), "visitedSymlinks")
				why = "visited set passed down from RecordArtifacts (NewSet(), R-C13-3)"
				if prm, isP := recv.(*ssa.Parameter); isP && !ok {
					ok = c.setArgNonNil(f, prm, 0)
					why = "every caller passes a set that was made (NewSet / make) or its own visited set"
				}
			case *ssa.UnOp:
				ok = strings.Contains(org(recv), "visitedSymlinks")
				why = "visited set passed down from RecordArtifacts (NewSet(), R-C13-3)"
				// a variable of the enclosing function captured by this closure: every store into it is a made set
				if fv, isFV := x.X.(*ssa.FreeVar); isFV && !ok && f.Parent() != nil {
					for _, pb := range f.Parent().Blocks {
						for _, pin := range pb.Instrs {
							mc, isMC := pin.(*ssa.MakeClosure)
							if !isMC || mc.Fn != ssa.Value(f) {
								continue
							}
							for i, v := range f.FreeVars {
								if v != fv || i >= len(mc.Bindings) {
									continue
								}
								if al, isAl := mc.Bindings[i].(*ssa.Alloc); isAl {
									sts := storesTo(al)
									made := len(sts) > 0
									for _, st := range sts {
										switch sv := resolve(st.Val, st).(type) {
										case *ssa.Call:
											if calleeName(sv) != "in_toto.NewSet" {
												made = false
											}
										case *ssa.MakeMap:
										default:
											made = false
										}
									}
									if made {
										ok, why = true, "captured variable that only ever holds a made set"
									}
								}
							}
						}
					}
				}
			}
			c.check(ok, R, fname(f), "Set.Add receiver "+short(org(recv)), call.Pos(), why, "Add is called on a Set that may be nil")
		}
	}
	if n == 0 {
		c.bad(R, "in_toto", "map writes", 0, "none found")
	}
}

// ---------------------------------------------------------------------------
// R-C15-6

func ruleC15_6(c *Ctx) {
	const R = "R-C15-6"
	for _, f := range c15Scope(c) {
		// loop headers: blocks with a back edge
		for _, h := range f.Blocks {
			back := false
			for _, pb := range h.Preds {
				if h.Dominates(pb) {
					back = true
				}
			}
			if !back {
				continue
			}
			isRange := false
			for _, in := range h.Instrs {
				switch x := in.(type) {
				case *ssa.Next:
					isRange = true
				case *ssa.Phi:
					if x.Comment == "rangeindex" {
						isRange = true
					}
				}
			}
			if isRange {
				continue // bounded by the length of the ranged value
			}
			// a phi that strictly advances on every back edge
			adv := ""
			for _, in := range h.Instrs {
				ph, ok := in.(*ssa.Phi)
				if !ok {
					continue
				}
				all := true
				for i, e := range ph.Edges {
					if !h.Dominates(h.Preds[i]) {
						continue
					}
					okE := false
					if bo, ok := e.(*ssa.BinOp); ok && bo.Op == token.ADD {
						if k, ok := constInt(bo.Y); ok && k > 0 {
							okE = derives(bo.X, func(v ssa.Value) bool { return v == ssa.Value(ph) }, false)
						}
					}
					if !okE {
						all = false
					}
				}
				if all {
					adv = phName(ph)
				}
			}
			pos := instrPos(h.Instrs[0])
			if adv != "" {
				c.ok(R, fname(f), "loop with induction value "+adv, pos, "advances by a positive constant on every back edge")
			} else {
				c.trivial(R, fname(f), "loop at "+c.pos(pos), pos, "NOT DECIDED: no evident strictly advancing induction value (matcher loops consume pattern/chunk/name; termination argument in prose only, see DESIGN 4.15)")
			}
		}
	}
}

// reachedUnderCase: blk is entered from the true edge of case comparison bo (possibly as one of several case labels
// sharing the block).
func (c *Ctx) reachedUnderCase(blk *ssa.BasicBlock, bo *ssa.BinOp) bool {
	if c.condAt(bo, true, blk) {
		return true
	}
	for _, pb := range blk.Preds {
		if edgeFact(pb, blk, bo, true) {
			return true
		}
	}
	return false
}

// varAtMostLen: fact `i <= len(x)` (or equivalent) holds at blk.
func (c *Ctx) varAtMostLen(f *ssa.Function, i, x ssa.Value, blk *ssa.BasicBlock) bool {
	for _, b := range f.Blocks {
		for _, in := range b.Instrs {
			bo, ok := in.(*ssa.BinOp)
			if !ok {
				continue
			}
			isLen := func(v ssa.Value) bool {
				k, ok := v.(*ssa.Call)
				return ok && calleeName(k) == "builtin:len" && sameLen(k.Call.Args[0], x)
			}
			if (bo.Op == token.LEQ && bo.X == i && isLen(bo.Y)) || (bo.Op == token.GEQ && bo.Y == i && isLen(bo.X)) {
				if c.condAt(bo, true, blk) {
					return true
				}
			}
			if (bo.Op == token.GTR && bo.X == i && isLen(bo.Y)) || (bo.Op == token.LSS && bo.Y == i && isLen(bo.X)) {
				if c.condAt(bo, false, blk) {
					return true
				}
			}
		}
	}
	return false
}

// countsUpFromNonNegative: every edge of the phi is a non-negative constant or the phi plus a positive constant.
func countsUpFromNonNegative(ph *ssa.Phi) bool {
	for _, e := range ph.Edges {
		if k, ok := constInt(e); ok && k >= 0 {
			continue
		}
		if inc, ok := e.(*ssa.BinOp); ok && inc.Op == token.ADD && inc.X == ssa.Value(ph) {
			if k, ok := constInt(inc.Y); ok && k > 0 {
				continue
			}
		}
		return false
	}
	return len(ph.Edges) > 0
}

// constNeed: the minimal length the index / slice expression needs when its bounds are constants.
func constNeed(s boundSite) (int64, bool) {
	if s.idx != nil {
		if k, ok := constInt(s.idx); ok && k >= 0 {
			return k + 1, true
		}
		return 0, false
	}
	need := int64(0)
	for _, v := range []ssa.Value{s.low, s.high} {
		if v == nil {
			continue
		}
		k, ok := constInt(v)
		if !ok || k < 0 {
			return 0, false
		}
		if k > need {
			need = k
		}
	}
	return need, true
}

func isZeroConst(v ssa.Value) bool {
	k, ok := constInt(v)
	return ok && k == 0
}

// atMostLenInv: 0 <= v <= len(x) as an inductive invariant. v is a non-negative constant 0, a phi all of whose
// incoming values satisfy the invariant (coinductively for the phi itself), or a+1 where a satisfies the invariant and
// a < len(x) is known where the increment is computed.
func (c *Ctx) atMostLenInv(f *ssa.Function, v, x ssa.Value, visiting map[ssa.Value]bool, depth int) bool {
	if depth > 12 {
		return false
	}
	if isZeroConst(v) {
		return true
	}
	if visiting[v] {
		return true
	}
	switch y := v.(type) {
	case *ssa.Phi:
		visiting[y] = true
		defer delete(visiting, y)
		for _, e := range y.Edges {
			if !c.atMostLenInv(f, e, x, visiting, depth+1) {
				return false
			}
		}
		return len(y.Edges) > 0
	case *ssa.BinOp:
		if y.Op != token.ADD {
			return false
		}
		if k, ok := constInt(y.Y); !ok || k != 1 {
			return false
		}
		if !c.atMostLenInv(f, y.X, x, visiting, depth+1) {
			return false
		}
		return c.belowLenDeep(f, y.X, x, y.Block(), nil, 0)
	}
	return false
}

// belowLenDeep: a < len(x) at blk (or on the edge blk->succ): by a branch fact on a or on a structurally equal
// expression (go/ssa does no CSE: `i+1 < len(p)` and the later `i++` are different values), or, for a phi, on every
// incoming edge.
func (c *Ctx) belowLenDeep(f *ssa.Function, a, x ssa.Value, blk, succ *ssa.BasicBlock, depth int) bool {
	if depth > 6 {
		return false
	}
	cands := []ssa.Value{a}
	if bo, ok := a.(*ssa.BinOp); ok && bo.Op == token.ADD {
		if k, isK := constInt(bo.Y); isK {
			for _, b := range f.Blocks {
				for _, in := range b.Instrs {
					if b2, ok := in.(*ssa.BinOp); ok && b2 != bo && b2.Op == token.ADD && b2.X == bo.X {
						if k2, isK2 := constInt(b2.Y); isK2 && k2 == k {
							cands = append(cands, b2)
						}
					}
				}
			}
		}
	}
	for _, cand := range cands {
		if c.varBelowLen(f, cand, x, blk, 0) {
			return true
		}
		if succ != nil && c.varBelowLenEdge(f, cand, x, blk, succ) {
			return true
		}
	}
	if ph, ok := a.(*ssa.Phi); ok && (ph.Block() == blk || ph.Block().Dominates(blk)) {
		for i, e := range ph.Edges {
			pb := ph.Block().Preds[i]
			if !c.belowLenDeep(f, e, x, pb, ph.Block(), depth+1) {
				return false
			}
		}
		return len(ph.Edges) > 0
	}
	return false
}

// varBelowLenEdge: the fact i < len(x) is established by the branch at the end of blk towards succ.
func (c *Ctx) varBelowLenEdge(f *ssa.Function, i, x ssa.Value, blk, succ *ssa.BasicBlock) bool {
	if len(blk.Instrs) == 0 {
		return false
	}
	ifi, ok := blk.Instrs[len(blk.Instrs)-1].(*ssa.If)
	if !ok {
		return false
	}
	bo, ok := ifi.Cond.(*ssa.BinOp)
	if !ok {
		return false
	}
	isLen := func(v ssa.Value) bool {
		k, ok := v.(*ssa.Call)
		return ok && calleeName(k) == "builtin:len" && sameLen(k.Call.Args[0], x)
	}
	taken := blk.Succs[0] == succ
	switch {
	case bo.Op == token.LSS && bo.X == i && isLen(bo.Y), bo.Op == token.GTR && bo.Y == i && isLen(bo.X):
		return taken
	case bo.Op == token.GEQ && bo.X == i && isLen(bo.Y), bo.Op == token.LEQ && bo.Y == i && isLen(bo.X):
		return !taken
	}
	switch bo.Op {
	case token.LSS, token.LEQ, token.GTR, token.GEQ:
		return linImpliesBelow(bo, taken, i, x, 1)
	}
	return false
}

// lessFuncIndex: f is a closure passed as comparison function to sort.Slice / sort.SliceStable(x, f), the index is one
// of f's parameters and the indexed value is the captured x.
func lessFuncIndex(f *ssa.Function, s boundSite) bool {
	if f.Parent() == nil {
		return false
	}
	prm, ok := s.idx.(*ssa.Parameter)
	if !ok || prm.Parent() != f {
		return false
	}
	// the indexed value: load of a free variable
	ld, ok := s.x.(*ssa.UnOp)
	if !ok {
		return false
	}
	fv, ok := ld.X.(*ssa.FreeVar)
	if !ok {
		return false
	}
	fvIdx := -1
	for i, v := range f.FreeVars {
		if v == fv {
			fvIdx = i
		}
	}
	for _, b := range f.Parent().Blocks {
		for _, in := range b.Instrs {
			call, ok := in.(ssa.CallInstruction)
			if !ok {
				continue
			}
			if n := calleeName(call); n != "sort.Slice" && n != "sort.SliceStable" {
				continue
			}
			args := call.Common().Args
			mc, ok := args[1].(*ssa.MakeClosure)
			if !ok || mc.Fn != ssa.Value(f) || fvIdx < 0 || fvIdx >= len(mc.Bindings) {
				continue
			}
			// the sorted value is a load of the bound variable
			sorted := args[0]
			if mi, ok := sorted.(*ssa.MakeInterface); ok {
				sorted = mi.X
			}
			if l2, ok := sorted.(*ssa.UnOp); ok && l2.X == mc.Bindings[fvIdx] {
				return true
			}
		}
	}
	return false
}

// setArgNonNil: f is an unexported function and every module caller passes, for parameter prm, a set that is known to
// exist: NewSet(), a made map, the captured visited set, or a parameter of the caller for which the same holds.
func (c *Ctx) setArgNonNil(f *ssa.Function, prm *ssa.Parameter, depth int) bool {
	if depth > 3 || f.Object() == nil || f.Object().Exported() {
		return false
	}
	node := c.CG.Nodes[f]
	if node == nil || len(node.In) == 0 {
		return false
	}
	for _, e := range node.In {
		cs := e.Site
		if cs == nil || cs.Common().StaticCallee() != f || paramIndex(prm) >= len(cs.Common().Args) {
			return false
		}
		a := resolve(cs.Common().Args[paramIndex(prm)], cs)
		switch x := a.(type) {
		case *ssa.Call:
			if calleeName(x) != "in_toto.NewSet" {
				return false
			}
		case *ssa.MakeMap:
		case *ssa.ChangeType:
			if _, ok := x.X.(*ssa.MakeMap); !ok {
				return false
			}
		case *ssa.Parameter:
			if !strings.Contains(x.Name(), "visitedSymlinks") && !c.setArgNonNil(e.Caller.Func, x, depth+1) {
				return false
			}
		default:
			if !strings.Contains(org(a), "visitedSymlinks") {
				return false
			}
		}
	}
	return true
}
