// intotocheck: repository-specific static analyser deciding structural clauses of properties C01..C20
// of in-toto-golang from /repo's current source (AST, types, SSA, call graph). Nothing of /repo is executed.
package main

import (
	"encoding/json"
	"flag"
	"fmt"
	"os"
	"os/exec"
	"path/filepath"
	"runtime/debug"
	"sort"
	"strconv"
	"strings"
	"sync"
	"time"
)

type Rule struct {
	ID  string
	Doc string
	Min int // minimum number of obligations confirmed by hand on the pinned tree
	Run func(c *Ctx)
}

type Property struct {
	ID          string
	Explanation string
	NotDecided  []string
	Assumptions []string
	Rules       []Rule
}

var registry = map[string]*Property{}

func register(p *Property) { registry[p.ID] = p }

type runResult struct {
	Obls       []Obligation
	Violations []Obligation // not known
	Known      []Obligation
	CountFail  []string
	Analysed   map[string]any
	Notes      []string
}

func runProperty(prog *Prog, prop *Property, tier string, known *KnownFile) (res runResult) {
	c := &Ctx{Prog: prog, Property: prop.ID, Tier: tier}
	for _, r := range prop.Rules {
		func() {
			defer func() {
				if e := recover(); e != nil {
					if os.Getenv("IC_PANIC") != "" {
						panic(e)
					}
					c.undecided(r.ID, "-", "analyser panic", 0, fmt.Sprintf("%v\n%s", e, debug.Stack()))
				}
			}()
			before := len(c.Obls)
			r.Run(c)
			n := 0
			for _, o := range c.Obls[before:] {
				if o.Rule == r.ID {
					n++
				}
			}
			// count obligations with this rule id (rules may emit under their own id only)
			if n < r.Min {
				res.CountFail = append(res.CountFail, fmt.Sprintf("%s: %d obligations found, minimum confirmed by hand is %d (rule would pass vacuously)", r.ID, n, r.Min))
			}
		}()
	}
	res.Obls = c.Obls
	res.Notes = c.Notes
	knownKeys := map[string]string{}
	for _, k := range known.Known {
		if k.Property == prop.ID {
			knownKeys[k.Key] = k.What
		}
	}
	for _, o := range c.Obls {
		if o.Status == "discharged" {
			continue
		}
		if _, ok := knownKeys[o.Key]; ok {
			res.Known = append(res.Known, o)
		} else {
			res.Violations = append(res.Violations, o)
		}
	}
	nfn := 0
	for f := range prog.AllFuncs {
		if f.Pkg != nil && strings.HasPrefix(f.Pkg.Pkg.Path(), modPath) {
			nfn++
		}
	}
	edges := 0
	for _, n := range prog.CG.Nodes {
		edges += len(n.Out)
	}
	res.Analysed = map[string]any{
		"repo": prog.RepoDir, "goos": prog.GOOS, "packages": len(prog.Pkgs),
		"files_in_toto": prog.NFiles[modPath+"/in_toto"], "files_cmd": prog.NFiles[modPath+"/cmd"],
		"functions_total": len(prog.AllFuncs), "functions_repo": nfn,
		"callgraph_nodes": len(prog.CG.Nodes), "callgraph_edges": edges,
	}
	return res
}

func main() {
	property := flag.String("property", "", "property id (C01..C20)")
	tier := flag.String("tier", "quick", "quick|thorough")
	repo := flag.String("repo", "/repo", "repository to analyse")
	verif := flag.String("verif", "", "verif directory (default: parent of the binary's directory)")
	noEvidence := flag.Bool("no-evidence", false, "do not write evidence/replay files (used for mutant runs)")
	dump := flag.String("dump", "", "debug: dump origins of calls in function")
	verbose := flag.Bool("v", false, "print every obligation")
	loops := flag.Bool("loops", false, "debug: list every range loop and its early exits")
	flag.Parse()
	if *verif == "" {
		exe, _ := os.Executable()
		*verif = filepath.Dir(filepath.Dir(exe))
	}
	start := time.Now()
	if *dump != "" {
		prog, err := loadProg(*repo, "linux")
		if err != nil {
			fmt.Println(err)
			os.Exit(2)
		}
		debugDump(prog, *dump)
		return
	}
	if *loops {
		prog, err := loadProg(*repo, "linux")
		if err != nil {
			fmt.Println(err)
			os.Exit(2)
		}
		dumpLoops(&Ctx{Prog: prog})
		return
	}
	prop := registry[*property]
	if prop == nil {
		fmt.Fprintf(os.Stderr, "unknown property %q\n", *property)
		os.Exit(2)
	}
	known, err := loadKnown(filepath.Join(*verif, "known_findings.json"))
	if err != nil {
		fmt.Fprintf(os.Stderr, "known_findings.json: %v\n", err)
		os.Exit(2)
	}
	configs := []string{"linux"}
	if *tier == "thorough" {
		configs = append(configs, "windows")
	}
	var all []runResult
	fatal := ""
	for _, goos := range configs {
		prog, err := loadProg(*repo, goos)
		if err != nil {
			fatal = fmt.Sprintf("load failed (GOOS=%s): %v", goos, err)
			break
		}
		all = append(all, runProperty(prog, prop, *tier, known))
	}
	// merge results over build configurations (obligation keys are identical across configs; keep worst)
	merged := runResult{Analysed: map[string]any{}}
	if len(all) > 0 {
		merged = all[0]
		merged.Analysed["build_configurations"] = configs
		for _, r := range all[1:] {
			have := map[string]bool{}
			for _, o := range merged.Violations {
				have[o.Key] = true
			}
			for _, o := range r.Violations {
				if !have[o.Key] {
					o.Detail = "[GOOS=windows] " + o.Detail
					merged.Violations = append(merged.Violations, o)
				}
			}
			merged.CountFail = append(merged.CountFail, r.CountFail...)
			merged.Analysed["obligations_windows"] = len(r.Obls)
		}
	}
	// thorough: positive controls (seeded mutants of the checker's own rules)
	selfTotal, selfDetected := 0, 0
	var selfMiss []string
	benignTotal, benignSilent := 0, 0
	var benignAlarm []string
	if *tier == "thorough" && fatal == "" && !*noEvidence {
		selfTotal, selfDetected, selfMiss = runMutants(*verif, *repo, prop.ID)
		benignTotal, benignSilent, benignAlarm = runBenign(*verif, *repo, prop.ID)
	}

	exit := 0
	replayDir := filepath.Join(*verif, "evidence", "replay")
	if !*noEvidence {
		os.MkdirAll(replayDir, 0o755)
		old, _ := filepath.Glob(filepath.Join(replayDir, prop.ID+"-*.txt"))
		for _, f := range old {
			os.Remove(f)
		}
	}
	if fatal != "" {
		exit = 1
		path := filepath.Join(replayDir, prop.ID+"-load.txt")
		if !*noEvidence {
			os.WriteFile(path, []byte(fatal+"\n"), 0o644)
		}
		fmt.Printf("VIOLATION property=%s replay=%s\n  %s\n", prop.ID, path, fatal)
	}
	for _, o := range merged.Known {
		what := ""
		for _, k := range known.Known {
			if k.Property == prop.ID && k.Key == o.Key {
				what = k.What
			}
		}
		fmt.Printf("KNOWN-FINDING: property=%s %s [%s] %s\n", prop.ID, what, o.Key, o.Pos)
	}
	for i, o := range merged.Violations {
		exit = 1
		path := filepath.Join(replayDir, fmt.Sprintf("%s-%s-%d.txt", prop.ID, o.Rule, i+1))
		body := fmt.Sprintf("property: %s\nrule: %s\nkey: %s\nfunction: %s\nconstruct: %s\nposition: %s\nstatus: %s\ndetail: %s\n\nreproduce: %s -property %s -tier %s -repo %s\n",
			prop.ID, o.Rule, o.Key, o.Func, o.Construct, o.Pos, o.Status, o.Detail, os.Args[0], prop.ID, *tier, *repo)
		if !*noEvidence {
			os.WriteFile(path, []byte(body), 0o644)
		}
		fmt.Printf("VIOLATION property=%s replay=%s\n  %s %s (%s): %s\n", prop.ID, path, o.Rule, o.Func, o.Pos, o.Detail)
	}
	for i, m := range merged.CountFail {
		exit = 1
		path := filepath.Join(replayDir, fmt.Sprintf("%s-vacuity-%d.txt", prop.ID, i+1))
		if !*noEvidence {
			os.WriteFile(path, []byte(m+"\n"), 0o644)
		}
		fmt.Printf("VIOLATION property=%s replay=%s\n  VACUITY %s\n", prop.ID, path, m)
	}
	for i, m := range benignAlarm {
		exit = 1
		path := filepath.Join(replayDir, fmt.Sprintf("%s-benign-%d.txt", prop.ID, i+1))
		if !*noEvidence {
			os.WriteFile(path, []byte(m+"\n"), 0o644)
		}
		fmt.Printf("VIOLATION property=%s replay=%s\n  FALSE-ALARM-ON-BENIGN-VARIANT %s\n", prop.ID, path, m)
	}
	for i, m := range selfMiss {
		exit = 1
		path := filepath.Join(replayDir, fmt.Sprintf("%s-selftest-%d.txt", prop.ID, i+1))
		if !*noEvidence {
			os.WriteFile(path, []byte(m+"\n"), 0o644)
		}
		fmt.Printf("VIOLATION property=%s replay=%s\n  SELFTEST-MISS %s\n", prop.ID, path, m)
	}

	if *verbose {
		for _, o := range merged.Obls {
			fmt.Printf("  [%s] %s  (%s)  %s\n", o.Status, o.Key, o.Pos, short(o.Detail))
		}
	}
	// summary + evidence
	perRule := map[string][3]int{}
	distinct := map[string]bool{}
	discharged := 0
	for _, o := range merged.Obls {
		x := perRule[o.Rule]
		x[0]++
		if o.Status == "discharged" {
			x[1]++
			discharged++
		}
		perRule[o.Rule] = x
		if o.Nontrivial {
			distinct[o.Key] = true
		}
	}
	var ruleSummary []map[string]any
	for _, r := range prop.Rules {
		x := perRule[r.ID]
		ruleSummary = append(ruleSummary, map[string]any{"rule": r.ID, "doc": r.Doc, "instances": x[0], "discharged": x[1], "minimum_expected": r.Min})
		delete(perRule, r.ID)
	}
	var extra []string
	for k := range perRule {
		extra = append(extra, k)
	}
	sort.Strings(extra)
	for _, k := range extra {
		x := perRule[k]
		ruleSummary = append(ruleSummary, map[string]any{"rule": k, "instances": x[0], "discharged": x[1]})
	}
	samples := []Obligation{}
	seenRule := map[string]int{}
	for _, o := range merged.Obls {
		if seenRule[o.Rule] < 3 {
			samples = append(samples, o)
			seenRule[o.Rule]++
		}
	}
	for _, o := range merged.Violations {
		samples = append(samples, o)
	}
	seed := 0
	if s := os.Getenv("VERIF_SEED"); s != "" {
		seed, _ = strconv.Atoi(s)
	}
	knownList := []map[string]string{}
	for _, o := range merged.Known {
		knownList = append(knownList, map[string]string{"key": o.Key, "pos": o.Pos, "detail": o.Detail})
	}
	ev := map[string]any{
		"property_id": prop.ID,
		"tier":        *tier,
		"seed":        seed,
		"level":       "other",
		"coverage": map[string]any{
			"explanation":         prop.Explanation,
			"not_decided":         prop.NotDecided,
			"obligations":         len(merged.Obls),
			"discharged":          discharged,
			"evaluations":         len(merged.Obls),
			"distinct_nontrivial": len(distinct),
			"rule":                "one obligation per rule instance found in /repo's SSA/AST (key = rule | function | construct); non-trivial = needed at least one dataflow/dominance/table fact to discharge; counted by distinct key",
			"rules":               ruleSummary,
			"samples":             samples,
			"analysed":            merged.Analysed,
			"known_findings":      knownList,
			"selftest_total":      selfTotal,
			"selftest_detected":   selfDetected,
			"benign_variants":     benignTotal,
			"benign_silent":       benignSilent,
			"notes":               merged.Notes,
			"exhaustive":          false,
		},
		"assumptions": append([]string{
			"Go type checker, go/ssa and VTA call graph of golang.org/x/tools v0.29.0 are correct",
			"Go standard library (crypto/*, encoding/json, os/exec, strings.Replacer) and go-securesystemslib behave as documented beyond the sites examined",
			"the check decides the listed structural clauses (necessary conditions), not the behavioural statement itself",
		}, prop.Assumptions...),
		"wall_s":     time.Since(start).Seconds(),
		"violations": len(merged.Violations) + len(merged.CountFail) + len(selfMiss) + len(benignAlarm),
	}
	if fatal != "" {
		ev["violations"] = 1
	}
	if !*noEvidence {
		b, _ := json.MarshalIndent(ev, "", " ")
		os.MkdirAll(filepath.Join(*verif, "evidence"), 0o755)
		if err := os.WriteFile(filepath.Join(*verif, "evidence", prop.ID+".json"), b, 0o644); err != nil {
			fmt.Fprintf(os.Stderr, "cannot write evidence: %v\n", err)
			exit = 1
		}
	}
	fmt.Printf("%s tier=%s: %d obligations, %d discharged, %d violations, %d known findings, %d vacuity failures, selftest %d/%d, %.1fs\n",
		prop.ID, *tier, len(merged.Obls), discharged, len(merged.Violations), len(merged.Known), len(merged.CountFail), selfDetected, selfTotal, time.Since(start).Seconds())
	os.Exit(exit)
}

// runMutants applies each /verif/mutants/<prop>/*.patch to a scratch copy of repo and expects the quick
// check of that property to report a violation of the rule named in the patch file name (<rule>__<what>.patch).
func runMutants(verif, repo, prop string) (total, detected int, miss []string) {
	patches, _ := filepath.Glob(filepath.Join(verif, "mutants", prop, "*.patch"))
	sort.Strings(patches)
	if len(patches) == 0 {
		return 0, 0, nil
	}
	exe, _ := os.Executable()
	type res struct {
		name string
		ok   bool
		msg  string
	}
	results := make([]res, len(patches))
	sem := make(chan struct{}, 6)
	var wg sync.WaitGroup
	for i, pth := range patches {
		wg.Add(1)
		go func(i int, pth string) {
			defer wg.Done()
			sem <- struct{}{}
			defer func() { <-sem }()
			name := filepath.Base(pth)
			rule := strings.SplitN(strings.TrimSuffix(name, ".patch"), "__", 2)[0]
			tmp, err := os.MkdirTemp("", "intotocheck.")
			if err != nil {
				results[i] = res{name, false, err.Error()}
				return
			}
			defer os.RemoveAll(tmp)
			dst := filepath.Join(tmp, "repo")
			if out, err := exec.Command("rsync", "-a", "--exclude", ".git", repo+"/", dst+"/").CombinedOutput(); err != nil {
				results[i] = res{name, false, "copy failed: " + string(out)}
				return
			}
			cmd := exec.Command("patch", "-p1", "-s", "-i", pth)
			cmd.Dir = dst
			if out, err := cmd.CombinedOutput(); err != nil {
				results[i] = res{name, false, "patch does not apply (mutant stale?): " + string(out)}
				return
			}
			out, _ := exec.Command(exe, "-property", prop, "-tier", "quick", "-repo", dst, "-verif", verif, "-no-evidence").CombinedOutput()
			hit := false
			for _, ln := range strings.Split(string(out), "\n") {
				if strings.Contains(ln, rule+" ") && !strings.HasPrefix(ln, "KNOWN-FINDING") {
					hit = true
				}
			}
			if hit && strings.Contains(string(out), "VIOLATION property="+prop) {
				results[i] = res{name, true, ""}
			} else {
				results[i] = res{name, false, "mutant not reported by rule " + rule}
			}
		}(i, pth)
	}
	wg.Wait()
	for _, r := range results {
		total++
		if r.ok {
			detected++
		} else {
			miss = append(miss, r.name+": "+r.msg)
		}
	}
	return
}

// runBenign applies each behaviour-preserving variant /verif/benign/<props>__<name>.patch whose property list names
// prop to a scratch copy and expects the quick check of that property to stay silent (exit 0).
func runBenign(verif, repo, prop string) (total, silent int, alarms []string) {
	patches, _ := filepath.Glob(filepath.Join(verif, "benign", "*.patch"))
	sort.Strings(patches)
	exe, _ := os.Executable()
	type res struct {
		name string
		ok   bool
		msg  string
	}
	var sel []string
	for _, pth := range patches {
		props := strings.Split(strings.SplitN(filepath.Base(pth), "__", 2)[0], "+")
		for _, p := range props {
			if p == prop {
				sel = append(sel, pth)
			}
		}
	}
	results := make([]res, len(sel))
	sem := make(chan struct{}, 6)
	var wg sync.WaitGroup
	for i, pth := range sel {
		wg.Add(1)
		go func(i int, pth string) {
			defer wg.Done()
			sem <- struct{}{}
			defer func() { <-sem }()
			name := filepath.Base(pth)
			tmp, err := os.MkdirTemp("", "intotocheck.")
			if err != nil {
				results[i] = res{name, false, err.Error()}
				return
			}
			defer os.RemoveAll(tmp)
			dst := filepath.Join(tmp, "repo")
			if out, err := exec.Command("rsync", "-a", "--exclude", ".git", repo+"/", dst+"/").CombinedOutput(); err != nil {
				results[i] = res{name, false, "copy failed: " + string(out)}
				return
			}
			cmd := exec.Command("patch", "-p1", "-s", "-i", pth)
			cmd.Dir = dst
			if out, err := cmd.CombinedOutput(); err != nil {
				// a variant that no longer applies says nothing about the checker
				results[i] = res{name, true, "variant does not apply any more (skipped): " + strings.TrimSpace(string(out))}
				return
			}
			out, err := exec.Command(exe, "-property", prop, "-tier", "quick", "-repo", dst, "-verif", verif, "-no-evidence").CombinedOutput()
			if err == nil {
				results[i] = res{name, true, ""}
				return
			}
			var first string
			for _, ln := range strings.Split(string(out), "\n") {
				if strings.HasPrefix(ln, "  ") {
					first = strings.TrimSpace(ln)
					break
				}
			}
			results[i] = res{name, false, "check is not silent on a behaviour-preserving variant: " + first}
		}(i, pth)
	}
	wg.Wait()
	for _, r := range results {
		total++
		if r.ok {
			silent++
		} else {
			alarms = append(alarms, r.name+": "+r.msg)
		}
	}
	return
}
