package main

import (
	"fmt"
	"go/token"
	"go/types"
	"sort"
	"strings"

	"golang.org/x/tools/go/ssa"
)

func init() {
	register(&Property{ID: "C01",
		Explanation: "Decides structural clauses of 'only an authentically signed layout is enforced': (R-C01-1) in both entry points every call that consumes the layout/keys or can reach link loading or command execution, and every success return, lies where VerifyLayoutSignatures(env, keys) on the unmodified parameters is known to have returned nil; (R-C01-2) every Layout value passed on derives from a comma-ok assertion of GetPayload() of that same env; (R-C01-3) the guard rejects an empty key set, ranges over all keys, fails on any VerifySignature error and succeeds only after loop exhaustion; (R-C01-4) per Metadata implementation the verified bytes are the bytes of the enforced payload, and only reviewed writers store Envelope fields; (R-C01-5) payload decoding is strict (DisallowUnknownFields before Decode, no json.Unmarshal into Link/Layout); (A1) no error dropped on these paths; (R-C10-2) no write through the caller's layout.",
		NotDecided:  []string{"soundness of RSA-PSS/ECDSA/Ed25519 verification and of canonical JSON (trusted)", "field-by-field alteration detection (follows from the crypto)", "DSSE multi-signature corner cases inside dsse.EnvelopeVerifier.Verify"},
		Rules: []Rule{
			{ID: "R-C01-1", Doc: "must-pass-through: layout-trusting calls and success returns are dominated by ok(VerifyLayoutSignatures(env, keys))", Min: 24, Run: ruleC01_1},
			{ID: "R-C01-2", Doc: "enforced Layout derives from GetPayload() of the verified Metadata parameter via comma-ok assertion", Min: 20, Run: ruleC01_2},
			{ID: "R-C01-3", Doc: "shape of the signature guard: non-empty key set, all keys, errors fail, success only after loop exhaustion", Min: 4, Run: ruleC01_3},
			{ID: "R-C01-4", Doc: "signature is bound to the enforced bytes, per Metadata implementation; Envelope field writers", Min: 10, Run: ruleC01_4},
			{ID: "R-C01-5", Doc: "strict payload decoding", Min: 3, Run: ruleC01_5},
			{ID: "R-C04-6", Doc: "the verifier is built afresh from the supplied key's own material (shared with C04)", Min: 3, Run: ruleC04_6},
			a1Rule(30, "in_toto.InTotoVerify", "in_toto.InTotoVerifyWithDirectory", "in_toto.VerifyLayoutSignatures",
				"(*in_toto.Metablock).VerifySignature", "(*in_toto.Envelope).VerifySignature", "in_toto.loadEnvelope", "in_toto.loadPayload",
				"(*in_toto.Metablock).GetSignableRepresentation", "in_toto.getSignerVerifierFromKey"),
			ruleC10_2(),
		}})
}

func ruleC01_1(c *Ctx) {
	const R = "R-C01-1"
	eps := c.entryPoints()
	if len(eps) < 2 {
		c.bad(R, "in_toto", "entry points", 0, fmt.Sprintf("expected >= 2 verification entry points (Metadata, map[string]Key, ...) (Metadata, error); found %d", len(eps)))
	}
	for _, e := range eps {
		fn := fname(e.f)
		if e.guard == nil {
			c.bad(R, fn, "guard call", e.f.Pos(), "no call of a (Metadata, map[string]Key) error function on the unmodified parameters (layout signature check missing or applied to other values)")
			continue
		}
		c.ok(R, fn, "guard call "+fname(e.guardFn), e.guard.Pos(), "called with parameters "+e.env.Name()+", "+e.keys.Name())
		if e.head != nil {
			// the guard sits in a head helper: inside it, nothing that consumes the Metadata / keys runs before the guard
			hn := fname(e.head)
			c.ok(R, hn, "guard call "+fname(e.guardFn)+" inside the head helper", e.headGuard.Pos(), "every success return of the helper lies under its nil-error edge; the entry point calls the helper with its own (Metadata, keys)")
			fe, _ := c.frameEntry(e, e.guard)
			fe.guard, fe.guardFn = e.headGuard, e.guardFn
			for _, s := range c.trustingCalls(fe) {
				cc := s.Common()
				if cc.IsInvoke() && cc.Value == ssa.Value(fe.env) && cc.Method.Name() != "GetPayload" {
					continue
				}
				c.check(c.okCallAt(e.headGuard, s.Block()), R, hn, "sink call "+calleeName(s), s.Pos(), "dominated by nil-error edge of "+fname(e.guardFn),
					"call is reachable without a successful "+fname(e.guardFn)+"(env, keys): the layout / keys are used before the layout signature is verified")
			}
			if callers := c.foreignCallers(e.head); len(callers) > 0 {
				c.bad(R, hn, "callers of the head helper", e.head.Pos(), "also called from "+strings.Join(callers, ", ")+": the rules below are decided for the entry points only")
			}
		}
		for _, s := range c.trustingCalls(e) {
			c.check(c.okCallAt(e.guard, s.Block()), R, fn, "sink call "+calleeName(s), s.Pos(),
				"dominated by nil-error edge of "+fname(e.guardFn),
				"call is reachable without a successful "+fname(e.guardFn)+"(env, keys): the layout / keys / links are used before the layout signature is verified")
		}
		c.helperObligations(R, e, e.guard, fname(e.guardFn), nil)
		for _, r := range c.nilErrReturns(e.f) {
			c.check(c.okCallAt(e.guard, r.Block()), R, fn, "success return", instrPos(r),
				"dominated by nil-error edge of "+fname(e.guardFn),
				"a return with possibly nil error is reachable without a successful "+fname(e.guardFn)+"(env, keys)")
		}
	}
}

// helperObligations: the calls made inside unexported helpers that an entry point calls (the shared tail of the two
// entry points, an extracted stage, ...) run exactly where the helper's call site runs: each gets an obligation that is
// discharged by the guard at the call site; a helper that is also called from outside the entry points is reported.
func (c *Ctx) helperObligations(R string, e entry, guard ssa.CallInstruction, guardName string, skip func(ssa.CallInstruction) bool) {
	fn := fname(e.f)
	for _, s := range c.trustingCalls(e) {
		if s == guard || !c.isStageHelper(s.Common().StaticCallee()) {
			continue
		}
		inner, helpers := c.helperSinks(s)
		okSite := c.okCallAt(guard, s.Block())
		for _, in := range inner {
			if skip != nil && skip(in) {
				continue
			}
			c.check(okSite, R, fn, "sink call "+calleeName(in)+" inside helper "+fname(in.Parent()), in.Pos(),
				"the helper is called only where "+guardName+" has returned nil",
				"call is reachable without a successful "+guardName+": the helper "+fname(in.Parent())+" is called before the check")
		}
		for _, h := range helpers {
			// only helpers that load links or can execute commands need the entry point's checks in front of them
			if !c.reachesDangerous(h) {
				continue
			}
			fc := c.foreignCallers(h)
			c.check(len(fc) == 0, R, fname(h), "helper is called from verification entry points only", h.Pos(), "callers are entry points / their helpers",
				"the pipeline helper "+fname(h)+" is also called from "+strings.Join(fc, ", ")+", where "+guardName+" does not precede it")
		}
	}
}

func ruleC01_2(c *Ctx) {
	const R = "R-C01-2"
	for _, e := range c.entryPoints() {
		fn := fname(e.f)
		n := 0
		frames := []*ssa.Function{e.f}
		for _, s := range c.trustingCalls(e) {
			if c.isStageHelper(s.Common().StaticCallee()) {
				_, hs := c.helperSinks(s)
				frames = append(frames, hs...)
			}
		}
		for _, fr := range frames {
			for _, call := range allCalls(fr) {
				for i, a := range callArgs(call) {
					if !isLayoutType(a.Type()) {
						continue
					}
					n++
					kind, detail := c.layoutValue(e, a, call, 0)
					where := ""
					if fr != e.f {
						where = " in helper " + fname(fr)
					}
					c.check(kind != "", R, fn, fmt.Sprintf("layout argument %d of %s%s", i, calleeName(call), where), call.Pos(), kind+": "+detail,
						"the Layout passed here is not the payload of the verified Metadata parameter: "+detail)
				}
			}
		}
		// the comma-ok assertion must fail verification when the payload is not a Layout
		for _, b := range e.f.Blocks {
			for _, in := range b.Instrs {
				ta, ok := in.(*ssa.TypeAssert)
				if !ok || typeStr(ta.AssertedType) != "in_toto.Layout" {
					continue
				}
				if !ta.CommaOk {
					c.bad(R, fn, "payload assertion", ta.Pos(), "unchecked assertion to Layout (panics on a link)")
					continue
				}
				okv := extractOf(ta, 1)
				good := false
				if okv != nil {
					for _, cu := range condUsers(okv, false) {
						fb := cu.If.Block().Succs[1]
						if cu.Neg {
							fb = cu.If.Block().Succs[0]
						}
						if c.failing(fb) {
							good = true
						}
					}
				}
				c.check(good, R, fn, "payload assertion failure branch", ta.Pos(), "!ok side is a failing continuation", "a non-layout payload does not fail verification")
			}
		}
		if n == 0 {
			c.bad(R, fn, "layout arguments", e.f.Pos(), "no call receives a Layout")
		}
	}
}

func extractOf(tuple ssa.Value, idx int) ssa.Value {
	if refs := tuple.Referrers(); refs != nil {
		for _, r := range *refs {
			if e, ok := r.(*ssa.Extract); ok && e.Index == idx {
				return e
			}
		}
	}
	return nil
}

// evalCmp evaluates `x op k` for an integer x.
func evalCmp(op token.Token, x, k int64) bool {
	switch op {
	case token.LSS:
		return x < k
	case token.LEQ:
		return x <= k
	case token.GTR:
		return x > k
	case token.GEQ:
		return x >= k
	case token.EQL:
		return x == k
	case token.NEQ:
		return x != k
	}
	return false
}

func flipOp(op token.Token) token.Token {
	switch op {
	case token.LSS:
		return token.GTR
	case token.LEQ:
		return token.GEQ
	case token.GTR:
		return token.LSS
	case token.GEQ:
		return token.LEQ
	}
	return op
}

// lenCompare finds comparisons `len(X) op const` where X satisfies pred; returns the BinOp normalised as (op, k) with len on the left.
type lenCmp struct {
	bo *ssa.BinOp
	op token.Token
	k  int64
}

func lenCompares(f *ssa.Function, pred func(ssa.Value) bool) []lenCmp {
	var out []lenCmp
	for _, b := range f.Blocks {
		for _, in := range b.Instrs {
			bo, ok := in.(*ssa.BinOp)
			if !ok {
				continue
			}
			isLen := func(v ssa.Value) bool {
				call, ok := v.(*ssa.Call)
				if !ok || calleeName(call) != "builtin:len" {
					return false
				}
				return pred(resolve(call.Call.Args[0], call))
			}
			if isLen(bo.X) {
				if k, ok := constInt(bo.Y); ok {
					out = append(out, lenCmp{bo, bo.Op, k})
				}
			} else if isLen(bo.Y) {
				if k, ok := constInt(bo.X); ok {
					out = append(out, lenCmp{bo, flipOp(bo.Op), k})
				}
			}
		}
	}
	return out
}

// branchTaken returns the successor of the If controlled by cond when cond evaluates to val.
func branchTaken(cu condUse, val bool) *ssa.BasicBlock {
	if cu.Neg {
		val = !val
	}
	if val {
		return cu.If.Block().Succs[0]
	}
	return cu.If.Block().Succs[1]
}

func ruleC01_3(c *Ctx) {
	const R = "R-C01-3"
	guards := map[*ssa.Function]bool{}
	for _, e := range c.entryPoints() {
		if e.guardFn != nil {
			guards[e.guardFn] = true
		}
	}
	if len(guards) == 0 {
		c.bad(R, "in_toto", "guard function", 0, "no layout-signature guard function found from the entry points")
		return
	}
	for g := range guards {
		fn := fname(g)
		env, keys := g.Params[0], g.Params[1]
		// (a) empty key set is rejected
		okA := false
		for _, lc := range lenCompares(g, func(v ssa.Value) bool { return v == ssa.Value(keys) }) {
			val := evalCmp(lc.op, 0, lc.k)
			for _, cu := range condUsers(lc.bo, false) {
				if c.failing(branchTaken(cu, val)) {
					okA = true
				}
			}
		}
		c.check(okA, R, fn, "empty key set", g.Pos(), "a branch on len(keys), evaluated at 0, leads to a failing continuation", "no branch rejects an empty key map: verification without any key would succeed")
		// (b) a loop over the whole key map (range over the map, or over its complete key list) with
		// VerifySignature(env, element)
		loops, tails := c.coverLoops(g, keys)
		if len(loops) == 0 || len(tails) > 0 {
			c.bad(R, fn, "range over keys", g.Pos(), "no loop visits every element of the key map parameter")
			continue
		}
		c.ok(R, fn, "range over keys", g.Pos(), "a loop visits every element of parameter "+keys.Name())
		var vs []ssa.CallInstruction
		var loop coverLoop
		for _, l := range loops {
			for _, call := range allCalls(g) {
				cc := call.Common()
				if cc.IsInvoke() && cc.Method.Name() == "VerifySignature" && cc.Value == ssa.Value(env) && l.header.Dominates(call.Block()) && reaches(call.Block(), l.header) {
					if l.isElem(cc.Args[0]) {
						vs = append(vs, call)
						loop = l
					}
				}
			}
		}
		if len(vs) == 0 {
			c.bad(R, fn, "VerifySignature per key", g.Pos(), "no env.VerifySignature(<element of the key map>) in the loop body")
			continue
		}
		for _, call := range vs {
			// (c) error fails
			okC := false
			if e := errResult(call); e != nil {
				for _, br := range errBranches(e) {
					if c.failing(br.NonNil) {
						okC = true
					}
				}
			}
			c.check(okC, R, fn, "VerifySignature error fails", call.Pos(), "non-nil side is a failing continuation", "a failed signature verification for one key does not fail the guard")
		}
		// (d) success only after loop exhaustion
		for _, r := range c.nilErrReturns(g) {
			c.check(loop.exhausted != nil && loop.exhausted(r.Block()), R, fn, "success return after loop exhaustion", instrPos(r),
				"return nil is dominated by the range-done edge (all keys visited)",
				"a nil-error return is reachable before every key has been checked (\"any key\" instead of \"all keys\")")
		}
	}
}

func ruleC01_4(c *Ctx) {
	const R = "R-C01-4"
	// discover the implementations of Metadata
	sp := c.pkg("in_toto")
	mdObj := sp.Type("Metadata")
	if mdObj == nil {
		c.undecided(R, "in_toto", "Metadata", 0, "interface Metadata not found")
		return
	}
	iface := mdObj.Type().Underlying().(*types.Interface)
	var impls []string
	for name, m := range sp.Members {
		t, ok := m.(*ssa.Type)
		if !ok {
			continue
		}
		if _, isIface := t.Type().Underlying().(*types.Interface); isIface {
			continue
		}
		if types.Implements(types.NewPointer(t.Type()), iface) || types.Implements(t.Type(), iface) {
			impls = append(impls, name)
		}
	}
	sort.Strings(impls)
	for _, impl := range impls {
		switch impl {
		case "Metablock":
			c.c01MetablockBinding(R)
		case "Envelope":
			c.c01EnvelopeBinding(R)
		default:
			c.undecided(R, "in_toto."+impl, "Metadata implementation", 0, "a new implementation of Metadata has no binding rule instance")
		}
	}
	if len(impls) < 2 {
		c.bad(R, "in_toto", "Metadata implementations", 0, fmt.Sprintf("expected Metablock and Envelope, found %v", impls))
	}
}

func (c *Ctx) c01MetablockBinding(R string) {
	vs := c.lookup("(*in_toto.Metablock).VerifySignature")
	gp := c.lookup("(*in_toto.Metablock).GetPayload")
	gs := c.lookup("(*in_toto.Metablock).GetSignableRepresentation")
	gk := c.lookup("(*in_toto.Metablock).GetSignatureForKeyID")
	if vs == nil || gp == nil || gs == nil || gk == nil {
		c.undecided(R, "(*in_toto.Metablock)", "anchors", 0, "VerifySignature/GetPayload/GetSignableRepresentation/GetSignatureForKeyID not all found")
		return
	}
	fn := fname(vs)
	// GetPayload returns the Signed field
	for _, r := range returnsOf(gp) {
		o := org(r.Results[0])
		c.check(o == "p0.Signed", R, fname(gp), "returned payload", instrPos(r), "returns receiver.Signed", "GetPayload returns "+o+", not the Signed field that is verified")
	}
	// GetSignableRepresentation = cjson.EncodeCanonical(receiver.Signed)
	if call, arg := c.canonicalSite(gs); call != nil {
		o := org(arg)
		c.check(o == "p0.Signed", R, fname(gs), "canonicalised value", call.Pos(), "cjson.EncodeCanonical(receiver.Signed)", "canonicalises "+o+" instead of the Signed field")
		for _, r := range returnsOf(gs) {
			pc, idx := producer(r.Results[0], r)
			c.check(pc == call && idx == 0, R, fname(gs), "returned bytes", instrPos(r), "returns the canonical encoding", "returned bytes are not the canonical encoding of Signed: "+org(r.Results[0]))
		}
	} else {
		c.bad(R, fname(gs), "canonicalised value", gs.Pos(), "no call of securesystemslib cjson.EncodeCanonical (directly or through a wrapper that only forwards to it)")
	}
	// in VerifySignature: verifier.Verify(ctx, data, sig)
	found := false
	for _, call := range allCalls(vs) {
		cc := call.Common()
		if !cc.IsInvoke() || cc.Method.Name() != "Verify" {
			continue
		}
		found = true
		// receiver from getSignerVerifierFromKey(key param)
		kc, ok := isResultOf(cc.Value, call, 0, "in_toto.getSignerVerifierFromKey")
		okSV := ok && resolve(kc.Common().Args[0], kc) == ssa.Value(vs.Params[1])
		if !okSV && org(cc.Value) == "in_toto.getSignerVerifierFromKey(p1)#0" {
			okSV = true // handed back unchanged by a transparent helper that was given the key parameter
		}
		c.check(okSV, R, fn, "verifier", call.Pos(), "verifier built from the key parameter", "verifier is not getSignerVerifierFromKey(key): "+org(cc.Value))
		dc, ok := isResultOf(cc.Args[1], call, 0, "(*in_toto.Metablock).GetSignableRepresentation")
		c.check((ok && dc.Common().Args[0] == ssa.Value(vs.Params[0])) || org(cc.Args[1]) == "(*in_toto.Metablock).GetSignableRepresentation(p0)#0", R, fn, "verified bytes", call.Pos(), "data = receiver.GetSignableRepresentation()", "verified bytes are "+org(cc.Args[1])+", not the receiver's signable representation")
		sc, ok := isResultOf(cc.Args[2], call, 0, "encoding/hex.DecodeString")
		sigOK := false
		detail := org(cc.Args[2])
		if ok {
			so := org(sc.Common().Args[0])
			detail = so
			sigOK = so == "(*in_toto.Metablock).GetSignatureForKeyID(p0,p1.KeyID)#0.Sig"
		}
		c.check(sigOK, R, fn, "signature bytes", call.Pos(), "sig = hex(receiver.GetSignatureForKeyID(key.KeyID).Sig)", "signature bytes come from "+detail)
		// success return dominated by ok(Verify)
		for _, r := range c.nilErrReturns(vs) {
			// `return verifier.Verify(...)` hands back Verify's own error
			direct := false
			if ei := errIndex(vs); ei >= 0 {
				if pc, _ := producer(r.Results[ei], r); pc == call {
					direct = true
				}
			}
			c.check(direct || c.okCallAt(call, r.Block()), R, fn, "success return", instrPos(r), "returns Verify's error / dominated by its nil edge", "VerifySignature can return nil without a successful Verify")
		}
	}
	if !found {
		c.bad(R, fn, "Verify call", vs.Pos(), "no dsse Verifier.Verify invocation")
	}
	// GetSignatureForKeyID: every non-error return yields an element of receiver.Signatures whose KeyID equals the parameter
	for _, r := range c.nilErrReturns(gk) {
		o := org(r.Results[0])
		okSel := false
		for _, b := range gk.Blocks {
			for _, in := range b.Instrs {
				bo, ok := in.(*ssa.BinOp)
				if !ok || bo.Op != token.EQL {
					continue
				}
				x, y := org(bo.X), org(bo.Y)
				if (x == "p0.Signatures[*].KeyID" && y == "p1") || (y == "p0.Signatures[*].KeyID" && x == "p1") {
					if c.condAt(bo, true, r.Block()) {
						okSel = true
					}
				}
			}
		}
		// the same selection written as  i := slices.IndexFunc(sigs, func(s) bool { return s.KeyID == keyID }); i >= 0
		if !okSel {
			if list, pred, bind, ok := c.indexFuncElem(resolve(r.Results[0], r), r.Block()); ok && org(list) == "p0.Signatures" {
				sel := len(returnsOf(pred)) > 0
				for _, pr := range returnsOf(pred) {
					bo, isBo := pr.Results[0].(*ssa.BinOp)
					if !isBo || bo.Op != token.EQL {
						sel = false
						continue
					}
					x, y := bo.X, bo.Y
					if !((fieldOfParam(x, pred, "KeyID") && outerValueOf(y, pred, bind) == ssa.Value(gk.Params[1])) || (fieldOfParam(y, pred, "KeyID") && outerValueOf(x, pred, bind) == ssa.Value(gk.Params[1]))) {
						sel = false
					}
				}
				if sel {
					okSel, o = true, "p0.Signatures[*]"
				}
			}
		}
		// the same selection in an unexported helper that is handed (receiver.Signatures, keyID) and whose results are
		// returned as they are
		if !okSel {
			if via, idx := producer(r.Results[0], r); via != nil && idx == 0 {
				if h := via.Common().StaticCallee(); h != nil && h.Blocks != nil && h.Pkg == gk.Pkg && h.Parent() == nil && h.Object() != nil && !h.Object().Exported() && errIndex(h) == 1 && (c.okCallAt(via, r.Block()) || c01ForwardsErr(r, via)) {
					li, ki := -1, -1
					for j, a := range via.Common().Args {
						if org(a) == "p0.Signatures" {
							li = j
						}
						if resolve(a, via) == ssa.Value(gk.Params[1]) {
							ki = j
						}
					}
					if li >= 0 && ki >= 0 && li < len(h.Params) && ki < len(h.Params) {
						elem, key := fmt.Sprintf("p%d[*]", li), fmt.Sprintf("p%d", ki)
						hrets := c.nilErrReturns(h)
						sel := len(hrets) > 0
						for _, hr := range hrets {
							okR := false
							if org(hr.Results[0]) == elem {
								for _, b := range h.Blocks {
									for _, in := range b.Instrs {
										bo, ok := in.(*ssa.BinOp)
										if !ok || bo.Op != token.EQL {
											continue
										}
										x, y := org(bo.X), org(bo.Y)
										if ((x == elem+".KeyID" && y == key) || (y == elem+".KeyID" && x == key)) && c.condAt(bo, true, hr.Block()) {
											okR = true
										}
									}
								}
							}
							sel = sel && okR
						}
						if sel {
							okSel, o = true, "p0.Signatures[*]"
						}
					}
				}
			}
		}
		c.check(okSel && o == "p0.Signatures[*]", R, fname(gk), "selected signature", instrPos(r), "returns receiver.Signatures[i] under Signatures[i].KeyID == keyID", "returned signature "+o+" is not selected by key id equality")
	}
}

func (c *Ctx) c01EnvelopeBinding(R string) {
	vs := c.lookup("(*in_toto.Envelope).VerifySignature")
	gp := c.lookup("(*in_toto.Envelope).GetPayload")
	if vs == nil || gp == nil {
		c.undecided(R, "(*in_toto.Envelope)", "anchors", 0, "VerifySignature/GetPayload not found")
		return
	}
	fn := fname(vs)
	for _, r := range returnsOf(gp) {
		o := org(r.Results[0])
		c.check(o == "p0.payload", R, fname(gp), "returned payload", instrPos(r), "returns receiver.payload", "GetPayload returns "+o)
	}
	found := false
	for _, call := range callsIn(vs, "(*ssl/dsse.EnvelopeVerifier).Verify") {
		found = true
		cc := call.Common()
		c.check(org(cc.Args[2]) == "p0.envelope", R, fn, "verified envelope", call.Pos(), "Verify(ctx, receiver.envelope)", "verifies "+org(cc.Args[2])+" instead of the receiver's envelope")
		evc, ok := isResultOf(cc.Args[0], call, 0, "ssl/dsse.NewEnvelopeVerifier")
		okV := false
		if ok {
			// variadic: verifier slice built from getSignerVerifierFromKey(key)
			okV = derives(evc.Common().Args[0], func(v ssa.Value) bool {
				k, ok := v.(*ssa.Call)
				return ok && calleeName(k) == "in_toto.getSignerVerifierFromKey" && resolve(k.Call.Args[0], k) == ssa.Value(vs.Params[1])
			}, false)
		}
		if !ok {
			// the verifier handed back by an unexported helper that is given the key parameter and builds it that way
			if hc, idx := producer(cc.Args[0], call); hc != nil && idx == 0 {
				h := hc.Common().StaticCallee()
				if c.isStageHelper(h) && len(hc.Common().Args) >= 1 {
					for j, a := range hc.Common().Args {
						if resolve(a, hc) != ssa.Value(vs.Params[1]) || j >= len(h.Params) {
							continue
						}
						for _, nv := range callsIn(h, "ssl/dsse.NewEnvelopeVerifier") {
							built := derives(nv.Common().Args[0], func(v ssa.Value) bool {
								k, ok := v.(*ssa.Call)
								return ok && calleeName(k) == "in_toto.getSignerVerifierFromKey" && resolve(k.Call.Args[0], k) == ssa.Value(h.Params[j])
							}, false)
							if built && c.helperGuarantees(h, nv) {
								okV = true
							}
						}
					}
				}
			}
		}
		c.check(okV, R, fn, "verifier", call.Pos(), "EnvelopeVerifier built from getSignerVerifierFromKey(key)", "envelope verifier is not built from the key parameter")
		for _, r := range c.nilErrReturns(vs) {
			ei := errIndex(vs)
			direct := false
			if pc, idx := producer(r.Results[ei], r); pc == call && idx == 1 {
				direct = true
			}
			c.check(direct || c.okCallAt(call, r.Block()), R, fn, "success return", instrPos(r), "returns Verify's error / dominated by its nil edge", "VerifySignature can return nil without a successful Verify")
		}
	}
	if !found {
		c.bad(R, fn, "Verify call", vs.Pos(), "no dsse EnvelopeVerifier.Verify call")
	}
	// writers of Envelope.payload / Envelope.envelope
	allowed := map[string]bool{"in_toto.loadEnvelope": true, "(*in_toto.Envelope).SetPayload": true, "(*in_toto.Envelope).Sign": true}
	writers := map[string][]*ssa.Store{}
	for _, f := range c.srcFuncs("in_toto") {
		for _, b := range f.Blocks {
			for _, in := range b.Instrs {
				st, ok := in.(*ssa.Store)
				if !ok {
					continue
				}
				fa, ok := st.Addr.(*ssa.FieldAddr)
				if !ok || typeStr(fa.X.Type()) != "*in_toto.Envelope" {
					continue
				}
				writers[fname(f)] = append(writers[fname(f)], st)
			}
		}
	}
	var names []string
	for n := range writers {
		names = append(names, n)
	}
	sort.Strings(names)
	for _, n := range names {
		c.check(allowed[n], R, n, "writes Envelope fields", writers[n][0].Pos(), "reviewed writer", "function outside the reviewed writer set {loadEnvelope, SetPayload, Sign} stores to Envelope.payload/envelope: payload and signed bytes can diverge")
	}
	// loadEnvelope: payload = strict decode of DecodeB64Payload() of the stored envelope
	for _, st := range writers["in_toto.loadEnvelope"] {
		fa := st.Addr.(*ssa.FieldAddr)
		switch fieldName(fa.X.Type(), fa.Field) {
		case "envelope":
			c.check(org(st.Val) == "p0", R, "in_toto.loadEnvelope", "stored envelope", st.Pos(), "the parameter envelope", "stores "+org(st.Val))
		case "payload":
			o := org(st.Val)
			c.check(o == "in_toto.loadPayload((*ssl/dsse.Envelope).DecodeB64Payload(p0)#0)#0", R, "in_toto.loadEnvelope", "stored payload", st.Pos(), "loadPayload(DecodeB64Payload(parameter envelope))", "payload object is "+o+", not the strict decoding of the stored envelope's own payload bytes")
		}
	}
	// SetPayload: payload := p1; envelope.Payload = base64(encode(p1))
	if sp := c.lookup("(*in_toto.Envelope).SetPayload"); sp != nil {
		for _, st := range writers[fname(sp)] {
			fa := st.Addr.(*ssa.FieldAddr)
			switch fieldName(fa.X.Type(), fa.Field) {
			case "payload":
				c.check(resolve(st.Val, st) == ssa.Value(sp.Params[1]), R, fname(sp), "stored payload", st.Pos(), "the payload parameter", "stores "+org(st.Val))
			case "envelope":
				okEnc := derives(st.Val, func(v ssa.Value) bool {
					k, ok := v.(*ssa.Call)
					if !ok {
						return false
					}
					n := calleeName(k)
					if n != "ssl/cjson.EncodeCanonical" && n != "encoding/json.Marshal" && n != "encoding/json.MarshalIndent" {
						// an unexported encoding helper handed the payload parameter: every encoder call in it encodes
						// its own parameter (which encoders are acceptable is R-C11-3)
						h := k.Call.StaticCallee()
						if h == nil || h.Blocks == nil || h.Pkg != sp.Pkg || (h.Object() != nil && h.Object().Exported()) || len(k.Call.Args) == 0 || len(h.Params) == 0 || resolve(k.Call.Args[0], k) != ssa.Value(sp.Params[1]) {
							return false
						}
						encs := callsIn(h, "ssl/cjson.EncodeCanonical", "encoding/json.Marshal", "encoding/json.MarshalIndent")
						for _, e := range encs {
							if resolve(e.Common().Args[0], e) != ssa.Value(h.Params[0]) {
								return false
							}
						}
						return len(encs) > 0
					}
					return resolve(k.Call.Args[0], k) == ssa.Value(sp.Params[1])
				}, true)
				c.check(okEnc, R, fname(sp), "stored envelope", st.Pos(), "new envelope's Payload encodes the payload parameter", "the envelope stored does not encode the object stored as payload")
			}
		}
	}
	// Sign: never stores payload; the new envelope's body is the old envelope's decoded payload
	if sg := c.lookup("(*in_toto.Envelope).Sign"); sg != nil {
		for _, st := range writers[fname(sg)] {
			fa := st.Addr.(*ssa.FieldAddr)
			switch fieldName(fa.X.Type(), fa.Field) {
			case "payload":
				c.bad(R, fname(sg), "stored payload", st.Pos(), "Sign must not replace the payload object")
			case "envelope":
				okBody := derives(st.Val, func(v ssa.Value) bool {
					// (org sees through an unexported helper that only forwards to DecodeB64Payload)
					switch v.(type) {
					case *ssa.Call, *ssa.Extract:
						return strings.HasPrefix(org(v), "(*ssl/dsse.Envelope).DecodeB64Payload(p0.envelope)")
					}
					return false
				}, true) || org(st.Val) == "p0.envelope"
				c.check(okBody, R, fname(sg), "stored envelope", st.Pos(), "signed body is DecodeB64Payload() of the receiver's envelope", "Sign stores an envelope whose body is not the receiver's current payload bytes: "+org(st.Val))
			}
		}
	}
}

func ruleC01_5(c *Ctx) {
	const R = "R-C01-5"
	lp := c.lookup("in_toto.loadPayload")
	if lp == nil {
		c.undecided(R, "in_toto.loadPayload", "anchor", 0, "strict payload decoder not found")
		return
	}
	sds := c.strictDecodes(lp)
	for _, sd := range sds {
		tgt := sd.targetT
		c.check(sd.strict, R, fname(lp), "Decode into "+tgt, sd.site.Pos(), "DisallowUnknownFields() on the same decoder dominates Decode", "Decode into "+tgt+" without DisallowUnknownFields on that decoder: unknown fields outside the signed schema are accepted")
		c.check(sd.fromBytes, R, fname(lp), "decoder input for "+tgt, sd.site.Pos(), "decoder reads the payload bytes parameter", "decoder does not read the bytes that were inspected for _type")
	}
	if len(sds) < 2 {
		c.bad(R, fname(lp), "strict decodes", lp.Pos(), fmt.Sprintf("expected 2 strict Decode calls (Link, Layout), found %d", len(sds)))
	}
	// no lax decoding into Link/Layout/Metablock anywhere in in_toto
	lax := 0
	for _, f := range c.srcFuncs("in_toto") {
		for _, call := range callsIn(f, "encoding/json.Unmarshal") {
			a := call.Common().Args[1]
			if mi, ok := a.(*ssa.MakeInterface); ok {
				a = mi.X
			}
			t := typeStr(a.Type())
			if strings.Contains(t, "in_toto.Link") || strings.Contains(t, "in_toto.Layout") || t == "*in_toto.Metablock" {
				lax++
				c.bad(R, fname(f), "json.Unmarshal into "+t, call.Pos(), "lax decoding into "+t+" bypasses the strict payload decoder")
			}
		}
	}
	if lax == 0 {
		c.ok(R, "in_toto", "no lax json.Unmarshal into Link/Layout/Metablock", 0, "scanned all in_toto functions")
	}
}

// ---------------------------------------------------------------------------
// strict decode sites of the payload loader

// strictDecode describes one decode of the payload bytes into a Link / Layout variable of function f: directly
// ((*json.Decoder).Decode(&x)), or through one unexported helper h(bytes, &x) that does it with its parameters.
type strictDecode struct {
	site      ssa.CallInstruction // the call in f (Decode itself or the helper call)
	decode    ssa.CallInstruction // the Decode call (in f or in the helper)
	frame     *ssa.Function       // function that contains decode
	target    ssa.Value           // the &x argument in f
	targetT   string              // *in_toto.Link / *in_toto.Layout
	strict    bool                // DisallowUnknownFields on the same decoder dominates Decode
	fromBytes bool                // the decoder reads f's payload bytes parameter
	errFails  bool                // a Decode error fails f
}

func (c *Ctx) strictDecodes(f *ssa.Function) []strictDecode {
	var out []strictDecode
	targetType := func(v ssa.Value) string {
		if mi, ok := v.(*ssa.MakeInterface); ok {
			v = mi.X
		}
		return typeStr(v.Type())
	}
	fails := func(call ssa.CallInstruction) bool {
		if e := errResult(call); e != nil {
			for _, br := range errBranches(e) {
				if c.failing(br.NonNil) {
					return true
				}
			}
		}
		return false
	}
	inspect := func(fr *ssa.Function, call ssa.CallInstruction, bytesOK func(dec ssa.Value) bool) (strict, fromBytes bool) {
		dec := call.Common().Args[0]
		for _, d := range callsIn(fr, "(*encoding/json.Decoder).DisallowUnknownFields") {
			if d.Common().Args[0] == dec && instrDominates(d, call) {
				strict = true
			}
		}
		return strict, bytesOK(dec)
	}
	for _, call := range callsIn(f, "(*encoding/json.Decoder).Decode") {
		t := targetType(call.Common().Args[1])
		if t != "*in_toto.Link" && t != "*in_toto.Layout" {
			continue
		}
		strict, fromBytes := inspect(f, call, func(dec ssa.Value) bool {
			return derives(dec, func(v ssa.Value) bool { return v == ssa.Value(f.Params[0]) }, true)
		})
		out = append(out, strictDecode{call, call, f, call.Common().Args[1], t, strict, fromBytes, fails(call)})
	}
	for _, via := range allCalls(f) {
		g := via.Common().StaticCallee()
		if !c.isStageHelper(g) || !hasErrResult(via) {
			continue
		}
		for _, call := range callsIn(g, "(*encoding/json.Decoder).Decode") {
			// the decode target is a parameter of g; the actual argument at the call site is &Link / &Layout
			prm, ok := resolve(call.Common().Args[1], call).(*ssa.Parameter)
			if !ok || prm.Parent() != g {
				continue
			}
			actual := via.Common().Args[paramIndex(prm)]
			t := targetType(actual)
			if t != "*in_toto.Link" && t != "*in_toto.Layout" {
				continue
			}
			strict, fromBytes := inspect(g, call, func(dec ssa.Value) bool {
				okB := false
				derives(dec, func(v ssa.Value) bool {
					if bp, isP := v.(*ssa.Parameter); isP && bp.Parent() == g {
						if derives(via.Common().Args[paramIndex(bp)], func(x ssa.Value) bool { return x == ssa.Value(f.Params[0]) }, true) {
							okB = true
						}
					}
					return false
				}, true)
				return okB
			})
			out = append(out, strictDecode{via, call, g, actual, t, strict, fromBytes, c.helperGuarantees(g, call) && fails(via)})
		}
	}
	return out
}

// thinWrapperOf: g does nothing but call the named function on one of its parameters and return that call's results
// unchanged (one call instruction, no store, no other effect). Returns the index of the parameter, or -1.
func thinWrapperOf(g *ssa.Function, target string) int {
	if g == nil || g.Blocks == nil {
		return -1
	}
	var the ssa.CallInstruction
	for _, b := range g.Blocks {
		for _, in := range b.Instrs {
			switch x := in.(type) {
			case ssa.CallInstruction:
				if the != nil || calleeName(x) != target {
					return -1
				}
				if _, isCall := x.(*ssa.Call); !isCall {
					return -1
				}
				the = x
			case *ssa.Store, *ssa.MapUpdate, *ssa.Send, *ssa.Panic:
				return -1
			}
		}
	}
	if the == nil || len(the.Common().Args) == 0 {
		return -1
	}
	a := the.Common().Args[0]
	for {
		if mi, ok := a.(*ssa.MakeInterface); ok {
			a = mi.X
			continue
		}
		if ci, ok := a.(*ssa.ChangeInterface); ok {
			a = ci.X
			continue
		}
		break
	}
	prm, ok := a.(*ssa.Parameter)
	if !ok {
		return -1
	}
	rets := returnsOf(g)
	if len(rets) == 0 {
		return -1
	}
	for _, r := range rets {
		for i, res := range r.Results {
			pc, idx := producer(res, r)
			if pc != the || idx != i {
				return -1
			}
		}
	}
	return paramIndex(prm)
}

// canonicalSite: the call in f that yields the canonical JSON encoding: cjson.EncodeCanonical(x) itself or a thin
// in-module wrapper of it; returns the call and the encoded value x in f's frame.
func (c *Ctx) canonicalSite(f *ssa.Function) (ssa.CallInstruction, ssa.Value) {
	const target = "ssl/cjson.EncodeCanonical"
	if call := firstCall(f, target); call != nil {
		return call, call.Common().Args[0]
	}
	for _, call := range allCalls(f) {
		g := call.Common().StaticCallee()
		if g == nil || g.Pkg == nil || !strings.HasPrefix(g.Pkg.Pkg.Path(), modPath) {
			continue
		}
		if k := thinWrapperOf(g, target); k >= 0 && k < len(callArgs(call)) {
			return call, callArgs(call)[k]
		}
	}
	return nil, nil
}

// c01ForwardsErr: the return hands on the error result of the call as its own error result.
func c01ForwardsErr(r *ssa.Return, via ssa.CallInstruction) bool {
	if len(r.Results) != 2 {
		return false
	}
	pc, idx := producer(r.Results[1], r)
	return pc == via && idx == 1
}
