package main

func init() {
	register(&Property{ID: "C01", Explanation: "stub", Rules: []Rule{
		a1Rule(1, "in_toto.InTotoVerify", "in_toto.InTotoVerifyWithDirectory", "in_toto.VerifyLayoutSignatures"),
	}})
}
