package main

import (
	"fmt"
	"go/token"
	"go/types"
	"sort"
	"strings"

	"golang.org/x/tools/go/ssa"
)

// ---------------------------------------------------------------------------
// C17

func init() {
	register(&Property{ID: "C17",
		Explanation: "The glob grammar itself (what match returns for a pattern and a name) is a function of string values with backtracking and is NOT decided. Decided structural clauses: (R-C17-1) a malformed pattern matches nothing: Set.Filter adds an element only under an error-free positive match of that element; (R-C17-2) one matcher: rule verification reaches no matcher other than in_toto.match (no path.Match / filepath.Match / regexp / gitignore matcher); (R-C17-3) error channel: every return of match / matchChunk that may carry an error carries matched=false, and the only error produced is the bad-pattern sentinel; (R-C17-4) whole-path matching: after the pattern is exhausted match returns len(name)==0, and a trailing star chunk returns true; (R-C17-5) no path-separator special-casing: the matcher functions compare no byte/rune with '/'.",
		NotDecided:  []string{"the value semantics of the matcher: '*' / '?' / classes / ranges / escapes on concrete patterns and names", "a change inside the matcher's logic that keeps these shapes is invisible to this check"},
		Rules: []Rule{
			{ID: "R-C17-1", Doc: "malformed pattern => non-match in Set.Filter", Min: 2, Run: ruleC17_1},
			{ID: "R-C17-2", Doc: "one matcher on the rule-verification paths", Min: 1, Run: ruleC17_2},
			{ID: "R-C17-3", Doc: "error channel of the matcher", Min: 6, Run: ruleC17_3},
			{ID: "R-C17-4", Doc: "whole-path matching shape", Min: 2, Run: ruleC17_4},
			{ID: "R-C17-5", Doc: "no '/' special-casing in the matcher", Min: 1, Run: ruleC17_5},
		}})
}

func ruleC17_1(c *Ctx) {
	const R = "R-C17-1"
	f := c.lookup("(in_toto.Set).Filter")
	if f == nil {
		c.undecided(R, "(in_toto.Set).Filter", "anchor", 0, "not found")
		return
	}
	fn := fname(f)
	n := 0
	for _, add := range callsIn(f, "(in_toto.Set).Add") {
		n++
		elem := resolve(add.Common().Args[1], add)
		ok := false
		for _, m := range callsIn(f, "in_toto.match") {
			a := m.Common().Args
			if resolve(a[1], m) != elem || org(a[0]) != "p1" {
				continue
			}
			matched := resultN(m, 0)
			if matched != nil && c.condAt(matched, true, add.Block()) && c.okCallAt(m, add.Block()) {
				ok = true
			}
		}
		c.check(ok, R, fn, "element added only under match(pattern, elem) == (true, nil)", add.Pos(), "error-nil and matched-true edges dominate res.Add(elem)", "an element is added to the filtered set without an error-free positive match (a malformed pattern could match)")
		c.check(org(elem) == "key(p0)", R, fn, "added element is the examined element", add.Pos(), "range key of the receiver", "added element is "+org(elem))
	}
	if n == 0 {
		c.bad(R, fn, "res.Add", f.Pos(), "Filter never adds anything")
	}
	for _, r := range returnsOf(f) {
		_, isNew := resolve(r.Results[0], r).(*ssa.Call)
		c.check(isNew && org(r.Results[0]) == "in_toto.NewSet(nil)", R, fn, "returns a fresh set", instrPos(r), "NewSet()", "returns "+short(org(r.Results[0])))
	}
}

func ruleC17_2(c *Ctx) {
	const R = "R-C17-2"
	va := c.lookup("in_toto.VerifyArtifacts")
	if va == nil {
		c.undecided(R, "in_toto.VerifyArtifacts", "anchor", 0, "not found")
		return
	}
	reach := reachable(c.CG, va)
	foreign := func(n string) bool {
		return n == "path.Match" || n == "path/filepath.Match" || n == "path/filepath.Glob" || strings.HasPrefix(n, "regexp.") || strings.HasPrefix(n, "(*regexp.") ||
			strings.Contains(n, "go-pathspec") || strings.HasPrefix(n, "strings.Contains") && false
	}
	n, usesMatch := 0, false
	for _, f := range c.srcFuncs("in_toto") {
		if !reach[f] {
			continue
		}
		n++
		for _, call := range allCalls(f) {
			cn := calleeName(call)
			if cn == "in_toto.match" {
				usesMatch = true
			}
			if foreign(cn) {
				c.bad(R, fname(f), "calls "+cn, call.Pos(), "rule verification uses a matcher other than in_toto.match: patterns would follow a different grammar")
			}
		}
	}
	c.check(usesMatch, R, "in_toto.VerifyArtifacts", "in_toto.match is the matcher on the rule-verification paths", va.Pos(), fmt.Sprintf("%d reachable in_toto functions scanned, no foreign matcher", n), "in_toto.match is not reached from VerifyArtifacts")
}

func ruleC17_3(c *Ctx) {
	const R = "R-C17-3"
	matcher := map[string]bool{"in_toto.match": true, "in_toto.matchChunk": true, "in_toto.getEsc": true, "in_toto.scanChunk": true}
	for _, n := range []string{"in_toto.match", "in_toto.matchChunk", "in_toto.getEsc"} {
		f := c.lookup(n)
		if f == nil {
			c.undecided(R, n, "anchor", 0, "not found")
			continue
		}
		ei := errIndex(f)
		bi := -1
		for i := 0; i < f.Signature.Results().Len(); i++ {
			if isBool(f.Signature.Results().At(i).Type().Underlying()) {
				bi = i
			}
		}
		for _, r := range returnsOf(f) {
			ev := resolve(r.Results[ei], r)
			if isNilConst(ev) {
				continue
			}
			if bi >= 0 {
				bv, isC := resolve(r.Results[bi], r).(*ssa.Const)
				c.check(isC && bv.Value != nil && bv.Value.String() == "false", R, n, "a return that may carry an error carries matched=false", instrPos(r), "bool result is the constant false", "a return with a possibly non-nil error has a match result of "+org(r.Results[bi]))
			}
			// provenance of the error value
			okSrc := true
			derives(ev, func(v ssa.Value) bool {
				switch x := v.(type) {
				case *ssa.Global:
					if x.Name() != "errBadPattern" {
						okSrc = false
					}
				case *ssa.Call:
					if !matcher[calleeName(x)] && !badPatternOnly(x.Call.StaticCallee(), map[*ssa.Function]bool{}) {
						okSrc = false
					}
					return true
				case *ssa.MakeInterface:
					okSrc = false
				}
				return false
			}, false)
			c.check(okSrc, R, n, "error value is the bad-pattern sentinel (or propagated from the matcher)", instrPos(r), short(org(ev)), "the matcher returns an error other than errBadPattern: "+short(org(ev)))
		}
	}
}

func ruleC17_4(c *Ctx) {
	const R = "R-C17-4"
	f := c.lookup("in_toto.match")
	if f == nil {
		return
	}
	okWhole, okStar := false, false
	for _, r := range returnsOf(f) {
		if !isNilConst(resolve(r.Results[1], r)) {
			continue
		}
		if bo, ok := resolve(r.Results[0], r).(*ssa.BinOp); ok && bo.Op == token.EQL {
			if k, isK := constInt(bo.Y); isK && k == 0 {
				if call, ok := bo.X.(*ssa.Call); ok && calleeName(call) == "builtin:len" && typeStr(call.Call.Args[0].Type()) == "string" {
					// located after pattern exhaustion: fact len(pattern) > 0 is false
					for _, lc := range lenComparesAny(f) {
						if lc.op == token.GTR && lc.k == 0 && c.condAt(lc.bo, false, r.Block()) {
							okWhole = true
						}
					}
				}
			}
		}
		if cv, ok := resolve(r.Results[0], r).(*ssa.Const); ok && cv.Value != nil && cv.Value.String() == "true" {
			// under star && chunk == ""
			for _, b := range f.Blocks {
				for _, in := range b.Instrs {
					if bo, ok := in.(*ssa.BinOp); ok && bo.Op == token.EQL {
						if s, isS := constString(bo.Y); isS && s == "" && c.condAt(bo, true, r.Block()) {
							okStar = true
						}
					}
				}
			}
		}
	}
	c.check(okWhole, R, fname(f), "after the pattern is exhausted the name must be exhausted too", f.Pos(), "return len(name) == 0, nil where len(pattern) > 0 is false", "match does not require the whole name to be consumed when the pattern ends")
	c.check(okStar, R, fname(f), "a trailing star matches the rest", f.Pos(), "return true, nil under chunk == \"\"", "the trailing-star shortcut is missing")
}

// lenComparesAny: all comparisons len(x) op const in f.
func lenComparesAny(f *ssa.Function) []lenCmp {
	return lenCompares(f, func(v ssa.Value) bool { return true })
}

func ruleC17_5(c *Ctx) {
	const R = "R-C17-5"
	n := 0
	for _, name := range []string{"in_toto.match", "in_toto.matchChunk", "in_toto.getEsc", "in_toto.scanChunk"} {
		f := c.lookup(name)
		if f == nil {
			c.undecided(R, name, "anchor", 0, "not found")
			continue
		}
		for _, b := range f.Blocks {
			for _, in := range b.Instrs {
				bo, ok := in.(*ssa.BinOp)
				if !ok {
					continue
				}
				n++
				for _, v := range []ssa.Value{bo.X, bo.Y} {
					if k, ok := constInt(v); ok && k == '/' {
						if b, isB := v.Type().Underlying().(*types.Basic); isB && (b.Kind() == types.Uint8 || b.Kind() == types.Int32 || b.Kind() == types.UntypedRune) {
							c.bad(R, name, "comparison with '/'", bo.Pos(), "the matcher special-cases the path separator: '*' / '?' would no longer cross '/'")
						}
					}
				}
			}
		}
		for _, call := range allCalls(f) {
			if cn := calleeName(call); strings.HasPrefix(cn, "strings.") || strings.HasPrefix(cn, "path.") || strings.HasPrefix(cn, "path/filepath.") {
				// stripping the leading stars of a pattern with strings.TrimLeft(pattern, "*") is the star loop of
				// scanChunk written as a library call
				if cn == "strings.TrimLeft" && name == "in_toto.scanChunk" && len(call.Common().Args) == 2 {
					if cut, isK := constString(call.Common().Args[1]); isK && cut == "*" && resolve(call.Common().Args[0], call) == ssa.Value(f.Params[0]) {
						c.ok(R, name, "calls "+cn, call.Pos(), "TrimLeft(pattern, \"*\"): the leading-star loop as a library call")
						continue
					}
				}
				c.bad(R, name, "calls "+cn, call.Pos(), "the matcher delegates to a path/strings helper (separator handling or partial matching may be introduced)")
			}
		}
	}
	c.ok(R, "in_toto matcher", "no path-separator special-casing", 0, fmt.Sprintf("%d comparisons in match/matchChunk/getEsc/scanChunk scanned", n))
}

// ---------------------------------------------------------------------------
// C07

func init() {
	register(&Property{ID: "C07",
		Explanation: "Decides structural clauses of 'certificate functionaries chain to a layout root and match a constraint': (R-C07-1) CertificateConstraint.Check passes all six attribute checks to the accumulator, every field of the struct is read by them, evaluate appends every non-nil error and error() is non-nil iff the list is non-empty; (R-C07-2) checkRoots verifies the trust chain of the certificate under test with the captured pools before comparing root ids and fails on its error; (R-C07-3) VerifyCertificateTrust sets Roots and Intermediates from its parameters (never system roots), does not widen key usages or fix the time, and fails on an error or an empty chain list; (R-C07-4) the root pool is the first result of LoadLayoutCertificates and is fed only from layout.RootCas; layout/caller intermediates reach only the second pool; a failed append fails; (R-C07-5) Step.CheckCertConstraints fails without constraints, ranges over all of them, succeeds only under a successful Check of one and the same constraint, and fails after the loop; (R-C07-6) each attribute check compares the matching constraint field with the matching certificate field.",
		NotDecided:  []string{"the wildcard / empty / exact-multiset semantics inside checkCertConstraint (value level)", "expiry and path-length handling inside crypto/x509", "the meaning of a non-wildcard roots constraint"},
		Rules: []Rule{
			{ID: "R-C07-1", Doc: "aggregation is complete", Min: 10, Run: ruleC07_1},
			{ID: "R-C07-2", Doc: "trust before root comparison", Min: 3, Run: ruleC07_2},
			{ID: "R-C07-3", Doc: "VerifyCertificateTrust options and failure", Min: 4, Run: ruleC07_3},
			{ID: "R-C07-4", Doc: "pool provenance", Min: 8, Run: ruleC07_4},
			{ID: "R-C07-5", Doc: "any-of loop over the step's constraints", Min: 5, Run: ruleC07_5},
			{ID: "R-C07-6", Doc: "attribute <-> certificate field table", Min: 5, Run: ruleC07_6},
			a1Rule(8, "(in_toto.CertificateConstraint).Check", "(in_toto.CertificateConstraint).checkRoots", "in_toto.VerifyCertificateTrust", "in_toto.LoadLayoutCertificates",
				"(in_toto.Step).CheckCertConstraints", "(*in_toto.checkResult).evaluate", "(*in_toto.checkResult).error", "in_toto.checkCertConstraint"),
		}})
}

var c07Checks = []string{"checkCommonName", "checkDNSNames", "checkEmails", "checkOrganizations", "checkRoots", "checkURIs"}

func ruleC07_1(c *Ctx) {
	const R = "R-C07-1"
	chk := c.lookup("(in_toto.CertificateConstraint).Check")
	if chk == nil {
		c.undecided(R, "(in_toto.CertificateConstraint).Check", "anchor", 0, "not found")
		return
	}
	fn := fname(chk)
	// struct fields
	sp := c.pkg("in_toto")
	st := sp.Type("CertificateConstraint").Type().Underlying().(*types.Struct)
	fields := map[string]bool{}
	for i := 0; i < st.NumFields(); i++ {
		fields[st.Field(i).Name()] = false
	}
	// checks passed to evaluate
	passed := map[string]bool{}
	evals := callsIn(chk, "(*in_toto.checkResult).evaluate")
	for _, ev := range evals {
		a := ev.Common().Args
		c.check(org(a[1]) == "p1", R, fn, "evaluate is applied to the certificate under test", ev.Pos(), "p1", "evaluate receives "+org(a[1]))
		// the check function: given directly, or an element of a slice literal that a range loop walks completely
		var vals []ssa.Value
		raw := a[2]
		if u, isU := raw.(*ssa.UnOp); !isU || u.Op != token.MUL {
			raw = resolve(a[2], ev)
		} else if _, isIA := u.X.(*ssa.IndexAddr); !isIA {
			raw = resolve(a[2], ev)
		}
		switch x := raw.(type) {
		case *ssa.UnOp:
			if ia, ok := x.X.(*ssa.IndexAddr); ok && wholeSliceIndex(ia) {
				base := ia.X
				if sl, isSl := base.(*ssa.Slice); isSl {
					base = sl.X
				}
				if al, ok := addrRoot(base).(*ssa.Alloc); ok {
					for _, r := range *al.Referrers() {
						if ia2, ok := r.(*ssa.IndexAddr); ok {
							for _, rr := range *ia2.Referrers() {
								if st, ok := rr.(*ssa.Store); ok {
									vals = append(vals, resolve(st.Val, st))
								}
							}
						}
					}
				}
			}
		default:
			vals = append(vals, x)
		}
		for _, v := range vals {
			switch x := v.(type) {
			case *ssa.MakeClosure:
				name := x.Fn.(*ssa.Function).Name()
				name = strings.TrimSuffix(name, "$bound")
				passed[name] = true
				if len(x.Bindings) > 0 && org(x.Bindings[0]) != "p0" {
					c.bad(R, fn, "bound receiver of "+name, ev.Pos(), "the check is bound to "+org(x.Bindings[0])+", not to the constraint under evaluation")
				}
			case *ssa.Call:
				if g := x.Call.StaticCallee(); g != nil {
					passed[g.Name()] = true
				}
			}
		}
	}
	for _, n := range c07Checks {
		c.check(passed[n], R, fn, "check "+n+" is evaluated", chk.Pos(), "passed to evaluate", "attribute check "+n+" is not part of Check: that attribute is not constrained")
	}
	// chain: every evaluate is applied to the same accumulator, error() of it is returned
	okChain := true
	// accumulator values: newCheckResult(), results of evaluate, and phis of those (the loop form)
	var isAcc func(v ssa.Value, depth int) bool
	isAcc = func(v ssa.Value, depth int) bool {
		if depth > 4 {
			return false
		}
		switch x := v.(type) {
		case *ssa.Call:
			n := calleeName(x)
			return n == "in_toto.newCheckResult" || n == "(*in_toto.checkResult).evaluate"
		case *ssa.Phi:
			for _, e := range x.Edges {
				if !isAcc(e, depth+1) {
					return false
				}
			}
			return len(x.Edges) > 0
		}
		return false
	}
	for _, ev := range evals {
		if !isAcc(resolve(ev.Common().Args[0], ev), 0) {
			okChain = false
		}
	}
	for _, r := range returnsOf(chk) {
		pc, _ := producer(r.Results[0], r)
		if pc == nil || calleeName(pc) != "(*in_toto.checkResult).error" || !isAcc(resolve(pc.Common().Args[0], pc), 0) {
			okChain = false
		}
	}
	nChecks := 0
	for _, n := range c07Checks {
		if passed[n] {
			nChecks++
		}
	}
	c.check(okChain && nChecks >= 6, R, fn, "one accumulator, its error() is returned", chk.Pos(), fmt.Sprintf("%d evaluate calls chained on newCheckResult()", len(evals)), "the checks are not accumulated into one result whose error() is returned")
	// field coverage
	for _, n := range c07Checks {
		m := c.lookup("(in_toto.CertificateConstraint)." + n)
		if m == nil {
			c.undecided(R, "(in_toto.CertificateConstraint)."+n, "anchor", 0, "not found")
			continue
		}
		fs := []*ssa.Function{m}
		fs = append(fs, m.AnonFuncs...)
		for _, g := range fs {
			for _, b := range g.Blocks {
				for _, in := range b.Instrs {
					switch x := in.(type) {
					case *ssa.FieldAddr:
						if strings.HasSuffix(typeStr(x.X.Type()), "in_toto.CertificateConstraint") {
							fields[fieldName(x.X.Type(), x.Field)] = true
						}
					case *ssa.Field:
						if typeStr(x.X.Type()) == "in_toto.CertificateConstraint" {
							fields[fieldName(x.X.Type(), x.Field)] = true
						}
					}
				}
			}
		}
	}
	var names []string
	for n := range fields {
		names = append(names, n)
	}
	sort.Strings(names)
	for _, n := range names {
		c.check(fields[n], R, "in_toto.CertificateConstraint", "field "+n+" is read by an attribute check", chk.Pos(), "read", "constraint field "+n+" is never consulted: a layout's constraint on it has no effect")
	}
	// evaluate / error
	if ev := c.lookup("(*in_toto.checkResult).evaluate"); ev != nil {
		okApp := false
		for _, call := range allCalls(ev) {
			if calleeName(call) == "dynamic" && org(call.Common().Value) == "p2" {
				e := call.Value()
				for _, br := range errBranches(e) {
					for _, in := range br.NonNil.Instrs {
						if st, ok := in.(*ssa.Store); ok && org(st.Addr) == "p0.errors" {
							okApp = derives(st.Val, func(v ssa.Value) bool { return v == e }, true)
						}
					}
				}
			}
		}
		c.check(okApp, R, fname(ev), "every non-nil check error is appended", ev.Pos(), "cr.errors = append(cr.errors, err) on the non-nil side", "a failed attribute check is not recorded")
	}
	if er := c.lookup("(*in_toto.checkResult).error"); er != nil {
		okErr := false
		for _, lc := range lenCompares(er, func(v ssa.Value) bool { return true }) {
			for _, cu := range condUsers(lc.bo, false) {
				zero := branchTaken(cu, evalCmp(lc.op, 0, lc.k))
				one := branchTaken(cu, evalCmp(lc.op, 1, lc.k))
				if !c.failing(zero) && c.failing(one) {
					okErr = true
				}
			}
		}
		c.check(okErr, R, fname(er), "error() is non-nil iff some check failed", er.Pos(), "branch on len(errors): 0 => nil, 1 => error", "the accumulated errors do not decide the result")
	}
}

func ruleC07_2(c *Ctx) {
	const R = "R-C07-2"
	m := c.lookup("(in_toto.CertificateConstraint).checkRoots")
	if m == nil || len(m.AnonFuncs) == 0 {
		c.undecided(R, "(in_toto.CertificateConstraint).checkRoots", "anchor", 0, "closure not found")
		return
	}
	cl := m.AnonFuncs[0]
	fn := fname(cl)
	vt := firstCall(cl, "in_toto.VerifyCertificateTrust")
	if vt == nil {
		c.bad(R, fn, "VerifyCertificateTrust", cl.Pos(), "the root check does not verify the certificate's chain of trust")
		return
	}
	a := vt.Common().Args
	c.check(org(a[0]) == "p0" && org(a[1]) == "fv:rootCertPool" && org(a[2]) == "fv:intermediateCertPool", R, fn, "trust verified for the certificate under test with the captured pools", vt.Pos(), "VerifyCertificateTrust(cert, rootCertPool, intermediateCertPool)", "called with "+org(a[0])+", "+org(a[1])+", "+org(a[2]))
	okF := false
	if e := errResult(vt); e != nil {
		for _, br := range errBranches(e) {
			okF = okF || c.failing(br.NonNil)
		}
	}
	c.check(okF, R, fn, "untrusted chain fails the root check", vt.Pos(), "non-nil side is a failing continuation", "a certificate that does not chain to the roots passes the root check")
	for _, r := range c.nilErrReturns(cl) {
		c.check(c.okCallAt(vt, r.Block()), R, fn, "success only after successful trust verification", instrPos(r), "dominated by the nil-error edge", "the root check can succeed without chain verification")
	}
	// the closure's bindings are the method's parameters
	for _, b := range m.Blocks {
		for _, in := range b.Instrs {
			if mc, ok := in.(*ssa.MakeClosure); ok {
				var bs []string
				for _, bv := range mc.Bindings {
					bs = append(bs, org(bv))
				}
				s := strings.Join(bs, ",")
				c.check(strings.Contains(s, "p2") && strings.Contains(s, "p3"), R, fname(m), "closure captures the pool parameters", mc.Pos(), s, "closure captures "+s)
			}
		}
	}
}

func ruleC07_3(c *Ctx) {
	const R = "R-C07-3"
	f := c.lookup("in_toto.VerifyCertificateTrust")
	if f == nil {
		c.undecided(R, "in_toto.VerifyCertificateTrust", "anchor", 0, "not found")
		return
	}
	fn := fname(f)
	set := map[string]string{}
	vcall := firstCall(f, "(*crypto/x509.Certificate).Verify")
	for _, b := range f.Blocks {
		for _, in := range b.Instrs {
			if st, ok := in.(*ssa.Store); ok {
				if fa, ok := st.Addr.(*ssa.FieldAddr); ok && typeStr(fa.X.Type()) == "*crypto/x509.VerifyOptions" {
					name := fieldName(fa.X.Type(), fa.Field)
					if vcall != nil && !instrDominates(st, vcall) {
						set[name] = "conditionally " + org(st.Val)
					} else if _, dup := set[name]; dup {
						set[name] = "assigned more than once"
					} else {
						set[name] = org(st.Val)
					}
				}
			}
		}
	}
	c.check(set["Roots"] == "p1", R, fn, "VerifyOptions.Roots = root pool parameter", f.Pos(), "p1", "Roots is "+set["Roots"]+" (an unset Roots means the system roots)")
	c.check(set["Intermediates"] == "p2", R, fn, "VerifyOptions.Intermediates = intermediate pool parameter", f.Pos(), "p2", "Intermediates is "+set["Intermediates"])
	// options set from inside a function literal of VerifyCertificateTrust (a retry helper, a closure over the options)
	for _, g := range f.AnonFuncs {
		for _, b := range g.Blocks {
			for _, in := range b.Instrs {
				if st, ok := in.(*ssa.Store); ok {
					if fa, ok := st.Addr.(*ssa.FieldAddr); ok && typeStr(fa.X.Type()) == "*crypto/x509.VerifyOptions" {
						set[fieldName(fa.X.Type(), fa.Field)] = "set inside " + fname(g) + " to " + short(org(st.Val))
					}
				}
			}
		}
	}
	var extra []string
	for k := range set {
		if k != "Roots" && k != "Intermediates" {
			extra = append(extra, k)
		}
	}
	sort.Strings(extra)
	c.check(len(extra) == 0, R, fn, "no acceptance-widening options", f.Pos(), "only Roots and Intermediates are set", "additional VerifyOptions are set: "+strings.Join(extra, ", ")+" (KeyUsages / CurrentTime / DNSName can widen or change acceptance)")
	v := firstCall(f, "(*crypto/x509.Certificate).Verify")
	if v == nil {
		inClosure := ""
		for _, g := range f.AnonFuncs {
			if firstCall(g, "(*crypto/x509.Certificate).Verify") != nil {
				inClosure = fname(g)
			}
		}
		if inClosure != "" {
			c.bad(R, fn, "Verify", f.Pos(), "certificate.Verify is only called inside the function literal "+inClosure+", which writes the chain list and the error into captured variables: which attempt's outcome the final test sees is not decidable here (a second attempt overwrites the first attempt's error)")
			return
		}
		c.bad(R, fn, "Verify", f.Pos(), "certificate.Verify is not called")
		return
	}
	c.check(org(v.Common().Args[0]) == "p0", R, fn, "the certificate under test is verified", v.Pos(), "p0", "verifies "+org(v.Common().Args[0]))
	chains := resultN(v, 0)
	for _, r := range c.nilErrReturns(f) {
		okE := c.okCallAt(v, r.Block())
		okL := false
		for _, lc := range lenCompares(f, func(x ssa.Value) bool { return x == chains }) {
			// len(chains) == 0 known false  (or  > 0 known true)
			if c.condAt(lc.bo, evalCmp(lc.op, 1, lc.k), r.Block()) && evalCmp(lc.op, 0, lc.k) != evalCmp(lc.op, 1, lc.k) {
				okL = true
			}
		}
		c.check(okE && okL, R, fn, "success requires a nil error and a non-empty chain list", instrPos(r), "both facts hold at the success return", fmt.Sprintf("success return reachable with err-nil fact=%v, non-empty-chains fact=%v", okE, okL))
	}
}

func ruleC07_4(c *Ctx) {
	const R = "R-C07-4"
	for _, e := range c.entryPoints() {
		th := c.stage(e.f, "in_toto.VerifyLinkSignatureThesholds")
		ok2, d2 := c.stageArgFrom(th, 2, "in_toto.LoadLayoutCertificates", 0)
		ok3, d3 := c.stageArgFrom(th, 3, "in_toto.LoadLayoutCertificates", 1)
		c.check(ok2 && ok3, R, fname(e.f), "threshold check receives (root pool, intermediate pool) = LoadLayoutCertificates #0, #1", e.f.Pos(), "def-use edges present", "pools passed to the threshold check: "+d2+" / "+d3)
		if lc := firstCall(e.f, "in_toto.LoadLayoutCertificates"); lc != nil {
			k, d := c.layoutValue(e, lc.Common().Args[0], lc, 0)
			c.check(k != "", R, fname(e.f), "pools are loaded from the verified layout", lc.Pos(), d, "pools are loaded from "+d)
		}
	}
	// parameter chain down to VerifyCertificateTrust
	if f := c.lookup("in_toto.VerifyLinkSignatureThesholds"); f != nil {
		for _, call := range callsIn(f, "(in_toto.Step).CheckCertConstraints") {
			a := call.Common().Args
			c.check(org(a[3]) == "p2" && org(a[4]) == "p3", R, fname(f), "pools passed on to CheckCertConstraints", call.Pos(), "p2, p3", "passes "+org(a[3])+", "+org(a[4]))
		}
	}
	if f := c.lookup("(in_toto.Step).CheckCertConstraints"); f != nil {
		for _, call := range callsIn(f, "(in_toto.CertificateConstraint).Check") {
			a := call.Common().Args
			c.check(org(a[3]) == "p3" && org(a[4]) == "p4" && org(a[2]) == "p2", R, fname(f), "root ids and pools passed on to Check", call.Pos(), "p2, p3, p4", "passes "+org(a[2])+", "+org(a[3])+", "+org(a[4]))
		}
	}
	if f := c.lookup("(in_toto.CertificateConstraint).Check"); f != nil {
		for _, call := range callsIn(f, "(in_toto.CertificateConstraint).checkRoots") {
			a := call.Common().Args
			c.check(org(a[1]) == "p2" && org(a[2]) == "p3" && org(a[3]) == "p4", R, fname(f), "root ids and pools passed on to checkRoots", call.Pos(), "p2, p3, p4", "passes "+org(a[1])+", "+org(a[2])+", "+org(a[3]))
		}
	}
	c.poolProvenance(R)
}

type poolFeed struct {
	data  string // access path of the PEM data in LoadLayoutCertificates' frame
	pos   ssa.Instruction
	fn    *ssa.Function
	fails bool // a failed append leads to failure
}

// poolProvenance analyses LoadLayoutCertificates (looking through one in_toto helper): the two returned pools are
// never nil, the root pool is fed only from layout.RootCas, intermediates only feed the second pool, a failed
// append fails.
func (c *Ctx) poolProvenance(R string) {
	f := c.lookup("in_toto.LoadLayoutCertificates")
	if f == nil {
		c.undecided(R, "in_toto.LoadLayoutCertificates", "anchor", 0, "not found")
		return
	}
	fn := fname(f)
	isHelper := func(g *ssa.Function) bool {
		return g != nil && g.Blocks != nil && g.Pkg == c.pkg("in_toto") && g != f
	}
	// mayBeNil: can pool value v be nil at instruction `at` (block blk)?
	var mayBeNil func(fr *ssa.Function, v ssa.Value, at ssa.Instruction, blk *ssa.BasicBlock, depth int) (bool, string)
	mayBeNil = func(fr *ssa.Function, v ssa.Value, at ssa.Instruction, blk *ssa.BasicBlock, depth int) (bool, string) {
		r := resolve(v, at)
		if c.nonNilAt(r, blk) {
			return false, ""
		}
		switch x := r.(type) {
		case *ssa.Const:
			if x.Value == nil {
				return true, "a nil pool"
			}
		case *ssa.Call:
			if calleeName(x) == "crypto/x509.NewCertPool" {
				return false, ""
			}
		case *ssa.Phi:
			for i, e := range x.Edges {
				pb := x.Block().Preds[i]
				if c.nonNilAt(resolve(e, x), pb) {
					continue
				}
				if edgeNonNil(pb, x.Block(), resolve(e, x)) {
					continue
				}
				if nilp, why := mayBeNil(fr, e, x, pb, depth+1); nilp {
					return true, why
				}
			}
			return false, ""
		case *ssa.Extract:
			call, ok := x.Tuple.(*ssa.Call)
			if !ok {
				break
			}
			g := call.Call.StaticCallee()
			if !isHelper(g) || depth > 2 {
				break
			}
			for _, ret := range returnsOf(g) {
				// skip failure returns: non-nil error, or a bool result that is false while the caller knows it true
				skip := false
				if ei := errIndex(g); ei >= 0 && !c.mayBeNilErr(ret.Results[ei], ret.Block(), 0) {
					skip = true
				}
				for k := 0; k < len(ret.Results); k++ {
					if cv, isC := ret.Results[k].(*ssa.Const); isC && isBool(cv.Type().Underlying()) && cv.Value.String() == "false" {
						if okv := extractOf(call, k); okv != nil && c.condAt(okv, true, blk) {
							skip = true
						}
					}
				}
				if skip {
					continue
				}
				if nilp, why := mayBeNil(g, ret.Results[x.Index], ret, ret.Block(), depth+1); nilp {
					return true, why + " returned by " + fname(g) + " (" + c.pos(instrPos(ret)) + ")"
				}
			}
			return false, ""
		}
		return true, "a pool of unknown origin: " + short(org(v))
	}
	var rootV, interV ssa.Value
	var retInstr *ssa.Return
	for _, r := range c.nilErrReturns(f) {
		rootV, interV, retInstr = r.Results[0], r.Results[1], r
	}
	if retInstr == nil {
		c.bad(R, fn, "success return", f.Pos(), "no success return")
		return
	}
	// every success return yields two non-nil pools
	for k, r := range c.nilErrReturns(f) {
		for i, v := range []ssa.Value{r.Results[0], r.Results[1]} {
			name := []string{"root pool", "intermediate pool"}[i]
			what := name + " is never nil"
			if k > 0 {
				what = fmt.Sprintf("%s (success return #%d)", what, k+1)
			}
			nilp, why := mayBeNil(f, v, r, r.Block(), 0)
			c.check(!nilp, R, fn, what, instrPos(r), "x509.NewCertPool() on every success path", "LoadLayoutCertificates can return "+why+" as "+name+": a nil root pool makes crypto/x509 fall back to the host's system roots")
		}
	}
	// feeds
	feedsOf := func(pool ssa.Value) []poolFeed {
		var out []poolFeed
		target := resolve(pool, retInstr)
		inPhi := func(v ssa.Value) bool {
			return v == target || derives(target, func(x ssa.Value) bool { return x == v }, false)
		}
		for _, ap := range callsIn(f, "(*crypto/x509.CertPool).AppendCertsFromPEM") {
			a := ap.Common().Args
			if !inPhi(resolve(a[0], ap)) {
				continue
			}
			fails := false
			for _, cu := range condUsers(ap.Value(), false) {
				fails = fails || c.failing(branchTaken(cu, false))
			}
			out = append(out, poolFeed{org(a[1]), ap, f, fails})
		}
		// through a helper that is handed this pool and appends to it: helper(pool, source) bool / error
		for _, hc := range allCalls(f) {
			g := hc.Common().StaticCallee()
			if !isHelper(g) {
				continue
			}
			for ai, a := range hc.Common().Args {
				if ai >= len(g.Params) || !inPhi(resolve(a, hc)) {
					continue
				}
				for _, ap := range callsIn(g, "(*crypto/x509.CertPool).AppendCertsFromPEM") {
					aa := ap.Common().Args
					if resolve(aa[0], ap) != ssa.Value(g.Params[ai]) {
						continue
					}
					sub := map[*ssa.Parameter]string{}
					for k, prm := range g.Params {
						if k < len(hc.Common().Args) {
							sub[prm] = org(hc.Common().Args[k])
						}
					}
					d := orgSubst(aa[1], sub)
					fails := false
					for _, cu := range condUsers(ap.Value(), false) {
						fb := branchTaken(cu, false)
						ret, ok := fb.Instrs[len(fb.Instrs)-1].(*ssa.Return)
						if !ok {
							continue
						}
						for k, rv := range ret.Results {
							if cv, isC := rv.(*ssa.Const); isC && isBool(cv.Type().Underlying()) && cv.Value.String() == "false" {
								var okv ssa.Value
								if len(ret.Results) == 1 {
									okv = hc.Value()
								} else {
									okv = extractOf(hc.Value(), k)
								}
								if okv != nil {
									for _, cu2 := range condUsers(okv, false) {
										fails = fails || c.failing(branchTaken(cu2, false))
									}
								}
							}
						}
						if ei := errIndex(g); ei >= 0 && !c.mayBeNilErr(ret.Results[ei], fb, 0) {
							if e := errResult(hc); e != nil {
								for _, br := range errBranches(e) {
									fails = fails || c.failing(br.NonNil)
								}
							}
						}
					}
					out = append(out, poolFeed{d, ap, g, fails})
				}
			}
		}
		// through a helper whose result is (part of) this pool
		derives(target, func(x ssa.Value) bool {
			ex, ok := x.(*ssa.Extract)
			if !ok {
				return false
			}
			call, ok := ex.Tuple.(*ssa.Call)
			if !ok {
				return false
			}
			g := call.Call.StaticCallee()
			if !isHelper(g) {
				return false
			}
			for _, ap := range callsIn(g, "(*crypto/x509.CertPool).AppendCertsFromPEM") {
				a := ap.Common().Args
				// receiver is what g returns at ex.Index
				isRet := false
				for _, ret := range returnsOf(g) {
					if resolve(ret.Results[ex.Index], ret) == resolve(a[0], ap) {
						isRet = true
					}
				}
				if !isRet {
					continue
				}
				d := org(a[1])
				for k := range g.Params {
					d = strings.ReplaceAll(d, fmt.Sprintf("p%d", k), "\x00"+fmt.Sprint(k)+"\x00")
				}
				for k := range g.Params {
					if k < len(call.Call.Args) {
						d = strings.ReplaceAll(d, "\x00"+fmt.Sprint(k)+"\x00", org(call.Call.Args[k]))
					}
				}
				// failure: the false side returns a failure value and the caller fails on it
				fails := false
				for _, cu := range condUsers(ap.Value(), false) {
					fb := branchTaken(cu, false)
					if ret, ok := fb.Instrs[len(fb.Instrs)-1].(*ssa.Return); ok {
						for k, rv := range ret.Results {
							if cv, isC := rv.(*ssa.Const); isC && isBool(cv.Type().Underlying()) && cv.Value.String() == "false" {
								if okv := extractOf(call, k); okv != nil {
									for _, cu2 := range condUsers(okv, false) {
										fails = fails || c.failing(branchTaken(cu2, false))
									}
								}
							}
						}
						if ei := errIndex(g); ei >= 0 && !c.mayBeNilErr(ret.Results[ei], fb, 0) {
							if e := errResult(call); e != nil {
								for _, br := range errBranches(e) {
									fails = fails || c.failing(br.NonNil)
								}
							}
						}
					}
				}
				out = append(out, poolFeed{d, ap, g, fails})
			}
			return false
		}, false)
		return out
	}
	rootFeeds, interFeeds := feedsOf(rootV), feedsOf(interV)
	okRoot := len(rootFeeds) > 0
	for _, fd := range rootFeeds {
		c.check(fd.data == "p0.RootCas{*}.KeyVal.Certificate", R, fn, "root pool is fed from layout.RootCas only", fd.pos.Pos(), fd.data, "certificate data "+short(fd.data)+" is added to the ROOT pool (it would become a trust anchor)")
		c.check(fd.fails, R, fn, "failed append fails ("+short(fd.data)+")", fd.pos.Pos(), "!ok side is a failing continuation", "an unparsable CA certificate is silently skipped")
	}
	c.check(okRoot, R, fn, "layout.RootCas certificates reach the root pool", f.Pos(), fmt.Sprintf("%d append site(s)", len(rootFeeds)), "no AppendCertsFromPEM feeds the returned root pool")
	seen := map[string]bool{}
	for _, fd := range interFeeds {
		seen[fd.data] = true
		okSrc := fd.data == "p0.IntermediateCas{*}.KeyVal.Certificate" || fd.data == "p1[*]"
		c.check(okSrc, R, fn, "intermediate pool is fed from layout.IntermediateCas and the caller's PEMs", fd.pos.Pos(), fd.data, "certificate data "+short(fd.data)+" is added to the intermediate pool")
		c.check(fd.fails, R, fn, "failed append fails ("+short(fd.data)+")", fd.pos.Pos(), "!ok side is a failing continuation", "an unparsable intermediate certificate is silently skipped")
	}
	c.check(seen["p0.IntermediateCas{*}.KeyVal.Certificate"] && seen["p1[*]"], R, fn, "layout and caller intermediates both reach the intermediate pool", f.Pos(), "2 sources", "an intermediate source is not loaded")
	// the two pools are distinct objects
	c.check(resolve(rootV, retInstr) != resolve(interV, retInstr), R, fn, "root and intermediate pools are distinct", instrPos(retInstr), "two pools", "one pool is returned for both roles")
}

// edgeNonNil: the edge pb->succ itself establishes v != nil.
func edgeNonNil(pb, succ *ssa.BasicBlock, v ssa.Value) bool {
	refs := v.Referrers()
	if refs == nil {
		return false
	}
	for _, r := range *refs {
		bo, ok := r.(*ssa.BinOp)
		if !ok || !(isNilConst(bo.X) || isNilConst(bo.Y)) {
			continue
		}
		if bo.Op == token.NEQ && edgeFact(pb, succ, bo, true) || bo.Op == token.EQL && edgeFact(pb, succ, bo, false) {
			return true
		}
	}
	return false
}

func ruleC07_5(c *Ctx) {
	const R = "R-C07-5"
	f := c.lookup("(in_toto.Step).CheckCertConstraints")
	if f == nil {
		c.undecided(R, "(in_toto.Step).CheckCertConstraints", "anchor", 0, "not found")
		return
	}
	fn := fname(f)
	okEmpty := false
	for _, lc := range lenCompares(f, func(v ssa.Value) bool { return org(v) == "p0.CertificateConstraints" }) {
		for _, cu := range condUsers(lc.bo, false) {
			if c.failing(branchTaken(cu, evalCmp(lc.op, 0, lc.k))) && !c.failing(branchTaken(cu, evalCmp(lc.op, 1, lc.k))) {
				okEmpty = true
			}
		}
	}
	c.check(okEmpty, R, fn, "no constraints => no certificate accepted", f.Pos(), "branch on len(constraints) at 0 fails", "a step without certificate constraints does not reject certificates")
	chk := firstCall(f, "(in_toto.CertificateConstraint).Check")
	if chk == nil {
		c.bad(R, fn, "constraint.Check", f.Pos(), "constraints are not checked")
		return
	}
	a := chk.Common().Args
	c.check(org(a[0]) == "p0.CertificateConstraints[*]" && wholeSliceIndex(a[0].(*ssa.UnOp).X), R, fn, "range over all constraints of the step", chk.Pos(), "p0.CertificateConstraints[i] for the whole range", "Check is applied to "+org(a[0]))
	// certificate = comma-ok assertion of decodeAndParse(key.KeyVal.Certificate)
	co := org(a[1])
	// ... or handed back by an unexported helper that was given the key: on every return with a nil error the result
	// is that assertion of the helper's own parameter, and the check runs only where the helper's error is nil
	if pc, idx := producer(a[1], chk); pc != nil && idx == 0 {
		if h := pc.Common().StaticCallee(); h != nil && h.Blocks != nil && h.Pkg == f.Pkg && h.Parent() == nil && h.Object() != nil && !h.Object().Exported() && errIndex(h) == 1 && c.okCallAt(pc, chk.Block()) {
			for i, ha := range pc.Common().Args {
				if org(ha) != "p1" || i >= len(h.Params) {
					continue
				}
				rets := c.nilErrReturns(h)
				okH := len(rets) > 0
				for _, r := range rets {
					if org(r.Results[0]) != fmt.Sprintf("in_toto.decodeAndParse(p%d.KeyVal.Certificate)#1.(*crypto/x509.Certificate)", i) {
						okH = false
					}
				}
				if okH {
					co = "in_toto.decodeAndParse(p1.KeyVal.Certificate)#1.(*crypto/x509.Certificate)"
				}
			}
		}
	}
	c.check(co == "in_toto.decodeAndParse(p1.KeyVal.Certificate)#1.(*crypto/x509.Certificate)", R, fn, "certificate under test is parsed from the key's certificate", chk.Pos(), co, "certificate under test is "+short(co))
	for _, r := range c.nilErrReturns(f) {
		c.check(c.okCallAt(chk, r.Block()), R, fn, "success only under a successful Check of one constraint", instrPos(r), "dominated by the nil-error edge of constraint.Check", "CheckCertConstraints can succeed without any constraint having matched")
	}
	// after the loop every return is failing: returns not dominated by ok(chk) must be non-nil
	n := 0
	for _, r := range returnsOf(f) {
		if c.okCallAt(chk, r.Block()) {
			continue
		}
		n++
		if c.mayBeNilErr(r.Results[0], r.Block(), 0) {
			c.bad(R, fn, "return without a matching constraint", instrPos(r), "a return that is not under a successful Check may yield nil")
		}
	}
	c.ok(R, fn, "all other returns fail", f.Pos(), fmt.Sprintf("%d failing returns", n))
}

func ruleC07_6(c *Ctx) {
	const R = "R-C07-6"
	table := map[string][2]string{
		"checkCommonName":    {"p0.CommonName", "p1.Subject.CommonName"},
		"checkDNSNames":      {"p0.DNSNames", "p1.DNSNames"},
		"checkEmails":        {"p0.Emails", "p1.EmailAddresses"},
		"checkOrganizations": {"p0.Organizations", "p1.Subject.Organization"},
		"checkURIs":          {"p0.URIs", "p1.URIs"},
	}
	var names []string
	for n := range table {
		names = append(names, n)
	}
	sort.Strings(names)
	for _, n := range names {
		m := c.lookup("(in_toto.CertificateConstraint)." + n)
		if m == nil {
			c.undecided(R, n, "anchor", 0, "not found")
			continue
		}
		call := firstCall(m, "in_toto.checkCertConstraint")
		if call == nil {
			c.bad(R, fname(m), "checkCertConstraint", m.Pos(), "does not use the shared comparison")
			continue
		}
		a := call.Common().Args
		has := func(v ssa.Value, want string) bool {
			return derives(v, func(x ssa.Value) bool { return org(x) == want }, true)
		}
		other := func(v ssa.Value, own string, idx int) string {
			for _, w := range table {
				if w[idx] != own && has(v, w[idx]) {
					return w[idx]
				}
			}
			return ""
		}
		w := table[n]
		ok := has(a[1], w[0]) && has(a[2], w[1]) && other(a[1], w[0], 0) == "" && other(a[2], w[1], 1) == ""
		c.check(ok, R, fname(m), "compares constraint."+strings.TrimPrefix(w[0], "p0.")+" with cert."+strings.TrimPrefix(w[1], "p1."), call.Pos(), "checkCertConstraint(name, "+w[0]+", "+w[1]+")", "compares "+short(org(a[1]))+" with "+short(org(a[2])))
	}
	// checkRoots closure: constraint roots vs layout root ids
	if m := c.lookup("(in_toto.CertificateConstraint).checkRoots"); m != nil && len(m.AnonFuncs) > 0 {
		cl := m.AnonFuncs[0]
		if call := firstCall(cl, "in_toto.checkCertConstraint"); call != nil {
			a := call.Common().Args
			c.check(org(a[1]) == "fv:cc.Roots" && org(a[2]) == "fv:rootCAIDs", R, fname(cl), "compares constraint.Roots with the layout's root CA ids", call.Pos(), "checkCertConstraint(\"root\", cc.Roots, rootCAIDs)", "compares "+org(a[1])+" with "+org(a[2]))
		}
	}
}

// R-C17-6: scanner / matcher agreement on escapes: scanChunk skips the character after a backslash regardless of
// whether it is inside a character class (matchChunk / getEsc honour escapes inside classes, so a scanner that does
// not would cut a chunk in the middle of a class).
func init() {
	if p := registry["C17"]; p != nil {
		p.Rules = append(p.Rules, Rule{ID: "R-C17-6", Doc: "scanChunk honours a backslash escape inside and outside character classes", Min: 1, Run: ruleC17_6})
		p.Explanation += " (R-C17-6) scanner/matcher agreement: in scanChunk the block that skips the character following a backslash is not control-dependent on the in-class state, as matchChunk/getEsc honour escapes inside classes."
	}
}

func ruleC17_6(c *Ctx) {
	const R = "R-C17-6"
	f := c.lookup("in_toto.scanChunk")
	if f == nil {
		c.undecided(R, "in_toto.scanChunk", "anchor", 0, "not found")
		return
	}
	// the in-class state: phi named inrange
	var inrange []*ssa.Phi
	for _, b := range f.Blocks {
		for _, in := range b.Instrs {
			// the in-class state: a boolean phi whose incoming constants are set where the scanned byte is '[' / ']'
			if ph, ok := in.(*ssa.Phi); ok && isBool(ph.Type().Underlying()) && c.setUnderBracket(f, ph) {
				inrange = append(inrange, ph)
			}
		}
	}
	// comparison with '\\'
	found := false
	for _, b := range f.Blocks {
		for _, in := range b.Instrs {
			bo, ok := in.(*ssa.BinOp)
			if !ok || bo.Op != token.EQL {
				continue
			}
			k, isK := constInt(bo.Y)
			if !isK || k != '\\' {
				continue
			}
			found = true
			// blocks where the escape is being handled: bo known true
			okIndep := true
			for _, hb := range f.Blocks {
				if !c.condAt(bo, true, hb) {
					continue
				}
				for _, ph := range inrange {
					if c.condAt(ph, true, hb) || c.condAt(ph, false, hb) {
						okIndep = false
					}
				}
			}
			// and the comparison itself is not reached only under a class-state condition
			for _, ph := range inrange {
				if c.condAt(ph, true, bo.Block()) || c.condAt(ph, false, bo.Block()) {
					okIndep = false
				}
			}
			c.check(okIndep, R, fname(f), "escape handling is independent of the in-class state", bo.Pos(), "the backslash case is reached and handled whether or not the scan is inside [...]", "scanChunk honours a backslash only outside (or only inside) a character class while matchChunk/getEsc honour it inside classes: an escaped ']' followed by '*' in a class splits the chunk in the middle of the class")
		}
	}
	if !found {
		c.bad(R, fname(f), "backslash handling", f.Pos(), "scanChunk does not look for backslash escapes")
	}
}

// R-C17-7: in match the name is consumed only in two ways: it becomes matchChunk's rest, or the star scan retries
// matchChunk on name[i+1:] for every byte offset i < len(name). Any other slicing of the name (computed jumps) is an
// unknown shortcut.
func init() {
	if p := registry["C17"]; p != nil {
		p.Rules = append(p.Rules, Rule{ID: "R-C17-7", Doc: "the star scan tries every byte offset; the name is not sliced otherwise", Min: 2, Run: ruleC17_7})
		p.Explanation += " (R-C17-7) in match the name is only replaced by matchChunk's rest or re-sliced as name[i+1:] with i running over all byte offsets below len(name); a computed jump into the name is an unknown shortcut."
	}
}

func ruleC17_7(c *Ctx) {
	const R = "R-C17-7"
	f := c.lookup("in_toto.match")
	if f == nil {
		c.undecided(R, "in_toto.match", "anchor", 0, "not found")
		return
	}
	n := 0
	for _, b := range f.Blocks {
		for _, in := range b.Instrs {
			sl, ok := in.(*ssa.Slice)
			if !ok || typeStr(sl.X.Type()) != "string" {
				continue
			}
			// only slices of the name (parameter 1 or phis named name)
			isName := derives(sl.X, func(v ssa.Value) bool { return v == ssa.Value(f.Params[1]) }, false)
			if ph, isPhi := sl.X.(*ssa.Phi); isPhi && derives(ph, func(v ssa.Value) bool { return v == ssa.Value(f.Params[1]) }, true) &&
				!derives(ph, func(v ssa.Value) bool { return v == ssa.Value(f.Params[0]) }, false) {
				isName = true
			}
			if !isName {
				continue
			}
			n++
			okScan := false
			if sl.High == nil && sl.Low != nil {
				// Low = i + k, i = s, s+1, ... with s + k == 1 and the last offset tried being len(name)
				var ph *ssa.Phi
				k := int64(0)
				if bo, isBo := sl.Low.(*ssa.BinOp); isBo && bo.Op == token.ADD {
					if kk, isK := constInt(bo.Y); isK {
						ph, _ = bo.X.(*ssa.Phi)
						k = kk
					}
				} else {
					ph, _ = sl.Low.(*ssa.Phi)
				}
				if ph != nil {
					step, start := true, int64(-99)
					for _, e := range ph.Edges {
						if k0, isC := constInt(e); isC {
							start = k0
							continue
						}
						if inc, isInc := e.(*ssa.BinOp); isInc && inc.Op == token.ADD && inc.X == ssa.Value(ph) {
							if k1, isC := constInt(inc.Y); isC && k1 == 1 {
								continue
							}
						}
						step = false
					}
					bound := false
					switch k {
					case 1:
						bound = c.varBelowLen(f, ph, sl.X, sl.Block(), 0) // i < len(name)
					case 0:
						bound = c.varAtMostLen(f, ph, sl.X, sl.Block()) // i <= len(name)
					}
					okScan = step && start+k == 1 && bound
				}
			}
			// the slice feeds matchChunk
			feeds := false
			for _, r := range *sl.Referrers() {
				if call, isCall := r.(ssa.CallInstruction); isCall && calleeName(call) == "in_toto.matchChunk" {
					feeds = true
				}
			}
			c.check(okScan && feeds, R, fname(f), "name re-sliced as name[i+1:] for every byte offset of the star scan", sl.Pos(), "i = 0,1,...,len(name)-1; matchChunk(chunk, name[i+1:])", "the name is sliced with a computed offset (not the exhaustive byte-wise star scan): positions inside multi-byte characters or skipped candidates change what '*' matches")
		}
	}
	c.check(n == 1, R, fname(f), "exactly one place slices the name", f.Pos(), "the star scan", fmt.Sprintf("%d slice expressions on the name", n))
}

// R-C17-8: every term of a chunk consumes one character of the name, so the name is only read (indexed, sliced,
// decoded, handed to a helper) where it is known to be non-empty — directly, or through the `failed` flag whose
// false value implies the emptiness test was passed (flag-implied facts). A term that reads an exhausted name
// matches "nothing" as a character: `[^x]` would match the end of the path.
func init() {
	if p := registry["C17"]; p != nil {
		p.Rules = append(p.Rules, Rule{ID: "R-C17-8", Doc: "matchChunk reads the name only where it is known to be non-empty", Min: 3, Run: ruleC17_8})
		p.Explanation += " (R-C17-8) in matchChunk every read of the name (index, re-slice, rune decoding, helper call) lies where the name is known to be non-empty, directly or through the failed flag."
	}
}

func ruleC17_8(c *Ctx) {
	const R = "R-C17-8"
	f := c.lookup("in_toto.matchChunk")
	if f == nil {
		c.undecided(R, "in_toto.matchChunk", "anchor", 0, "not found")
		return
	}
	fn := fname(f)
	// the name values: parameter 1 and everything derived from it by phi / re-slicing / helper results of type string
	isName := func(v ssa.Value) bool {
		if typeStr(v.Type()) != "string" {
			return false
		}
		return derives(v, func(x ssa.Value) bool { return x == ssa.Value(f.Params[1]) }, true) &&
			!derives(v, func(x ssa.Value) bool { return x == ssa.Value(f.Params[0]) }, true)
	}
	nonEmpty := func(v ssa.Value, blk *ssa.BasicBlock) bool {
		if c.lenFactsExclude(f, v, 1, blk) {
			return true
		}
		// s != "" / s == ""
		if refs := v.Referrers(); refs != nil {
			for _, r := range *refs {
				bo, ok := r.(*ssa.BinOp)
				if !ok || (bo.Op != token.EQL && bo.Op != token.NEQ) {
					continue
				}
				other := bo.Y
				if other == v {
					other = bo.X
				}
				if sv, isS := constString(other); isS && sv == "" && c.condAt(bo, bo.Op == token.NEQ, blk) {
					return true
				}
			}
		}
		return false
	}
	n := 0
	obl := func(v ssa.Value, in ssa.Instruction, what string) {
		n++
		c.check(nonEmpty(v, in.Block()), R, fn, what, in.Pos(), "the name is known to be non-empty here (length fact, possibly through the failed flag)",
			"the name is read ("+what+") where it may be exhausted: the term then matches the end of the path instead of a character")
	}
	seen := map[string]int{}
	key := func(s string) string { seen[s]++; return fmt.Sprintf("%s #%d", s, seen[s]) }
	for _, b := range f.Blocks {
		for _, in := range b.Instrs {
			switch x := in.(type) {
			case *ssa.Slice:
				if isName(x.X) && x.Low != nil {
					if k, isK := constInt(x.Low); isK && k == 0 {
						continue
					}
					obl(x.X, x, key("re-slice of the name"))
				}
			case *ssa.Index:
				if isName(x.X) {
					obl(x.X, x, key("index into the name"))
				}
			case *ssa.Lookup:
				if isName(x.X) {
					obl(x.X, x, key("index into the name"))
				}
			case ssa.CallInstruction:
				cn := calleeName(x)
				if cn == "builtin:len" {
					continue
				}
				for _, a := range callArgs(x) {
					if isName(a) {
						obl(a, x, key("name passed to "+cn))
					}
				}
			}
		}
	}
	if n == 0 {
		c.undecided(R, fn, "reads of the name", f.Pos(), "no read of the name found")
	}
}

// setUnderBracket: some incoming edge of the boolean phi carries a constant on a path where the scanned byte was
// compared equal to '[' or ']' (the class state of the chunk scanner), directly or through another phi.
func (c *Ctx) setUnderBracket(f *ssa.Function, ph *ssa.Phi) bool {
	var brackets []*ssa.BinOp
	for _, b := range f.Blocks {
		for _, in := range b.Instrs {
			if bo, ok := in.(*ssa.BinOp); ok && bo.Op == token.EQL {
				if k, isK := constInt(bo.Y); isK && (k == '[' || k == ']') {
					brackets = append(brackets, bo)
				}
			}
		}
	}
	seen := map[*ssa.Phi]bool{}
	var walk func(p *ssa.Phi) bool
	walk = func(p *ssa.Phi) bool {
		if seen[p] {
			return false
		}
		seen[p] = true
		for i, e := range p.Edges {
			pb := p.Block().Preds[i]
			if _, isC := e.(*ssa.Const); isC {
				for _, bo := range brackets {
					if c.condAt(bo, true, pb) || edgeFact(pb, p.Block(), bo, true) {
						return true
					}
				}
			}
			if q, isPhi := e.(*ssa.Phi); isPhi && walk(q) {
				return true
			}
		}
		return false
	}
	return walk(ph)
}

// badPatternOnly: g is a module function with an error result whose every possibly non-nil error is the bad-pattern
// sentinel or comes from a function of the same kind (a helper split off the matcher).
func badPatternOnly(g *ssa.Function, visiting map[*ssa.Function]bool) bool {
	if g == nil || g.Blocks == nil || g.Pkg == nil || !strings.HasPrefix(g.Pkg.Pkg.Path(), modPath) {
		return false
	}
	if visiting[g] {
		return true
	}
	visiting[g] = true
	defer delete(visiting, g)
	ei := errIndex(g)
	if ei < 0 {
		return false
	}
	for _, r := range returnsOf(g) {
		ev := resolve(r.Results[ei], r)
		if isNilConst(ev) {
			continue
		}
		ok := true
		derives(ev, func(v ssa.Value) bool {
			switch x := v.(type) {
			case *ssa.Global:
				if x.Name() != "errBadPattern" {
					ok = false
				}
			case *ssa.Call:
				if !badPatternOnly(x.Call.StaticCallee(), visiting) {
					ok = false
				}
				return true
			case *ssa.MakeInterface:
				ok = false
			}
			return false
		}, false)
		if !ok {
			return false
		}
	}
	return true
}
