package main

import (
	"fmt"
	"go/token"
	"go/types"
	"sort"
	"strings"

	"golang.org/x/tools/go/ssa"
)

func entryRoots(c *Ctx) []*ssa.Function {
	var out []*ssa.Function
	for _, e := range c.entryPoints() {
		out = append(out, e.f)
	}
	return out
}

func init() {
	register(&Property{ID: "C10",
		Explanation: "Decides structural clauses of 'verification is deterministic and leaves its inputs untouched': (R-C10-1) every range over a Go map in functions reachable from the entry points is free of the four ways iteration order can leak (loop-carried control state, early exit carrying an element, order-dependent accumulation without an order-insensitive consumer, insertion into the ranged map); (R-C10-2) no store / map update / delete / copy through memory reachable from the entry points' parameters, interprocedurally; (R-C10-3) no hidden inputs: time / environment / randomness are read only in the expiry check; (R-C16-1) no mutable package-level state.",
		NotDecided:  []string{"determinism of the external world (file system, inspection commands)", "crypto/x509 path building", "map order inside dependencies other than the cjson sort"},
		Rules: []Rule{
			a3Rule("R-C10-1", 15, entryRoots),
			ruleC10_2(),
			{ID: "R-C10-3", Doc: "no hidden inputs on the verification paths", Min: 1, Run: ruleC10_3},
			ruleC16_1(),
		}})
	register(&Property{ID: "C16",
		Explanation: "Decides a sufficient structural condition for the library's own code: calls on disjoint arguments share no mutable memory. (R-C16-1) no package-level variable of in_toto / internal/spiffe is written, or written through, outside package initialisation; (R-C16-2) no process-global mutators (os.Chdir, os.Setenv, ...) are called; child processes get their directory through Cmd.Dir; (R-C16-3) securesystemslib package-level variables reached from in_toto are only read; (R-C16-4) no exported function returns memory reachable from a package-level variable.",
		NotDecided:  []string{"races on shared arguments (excluded by the property)", "races inside the Go runtime / standard library", "file-system level interference (RunInspections writes <name>.link into the shared cwd: observation, not violation)"},
		Rules: []Rule{
			ruleC16_1(),
			{ID: "R-C16-2", Doc: "no process-global mutators", Min: 1, Run: ruleC16_2},
			{ID: "R-C16-3", Doc: "dependency globals reached from in_toto are read-only", Min: 1, Run: ruleC16_3},
			{ID: "R-C16-4", Doc: "no shared results", Min: 1, Run: ruleC16_4},
		}})
}

func ruleC10_3(c *Ctx) {
	const R = "R-C10-3"
	reach := reachable(c.CG, entryRoots(c)...)
	hidden := func(n string) bool {
		return n == "time.Now" || n == "time.Until" || n == "time.Since" || n == "os.Getenv" || n == "os.LookupEnv" || n == "os.Environ" ||
			strings.HasPrefix(n, "math/rand.") || strings.HasPrefix(n, "math/rand/v2.") || n == "os.Hostname" || n == "os.Getpid" || n == "os.Getwd"
	}
	n := 0
	for _, f := range c.srcFuncs("in_toto") {
		if !reach[f] {
			continue
		}
		n++
		for _, call := range allCalls(f) {
			cn := calleeName(call)
			if !hidden(cn) {
				continue
			}
			// the clock is read by the expiry check (R-C06-2) only: inside an expiry checker, or as the argument that
			// fills an expiry checker's reference-time parameter
			allowed := false
			if strings.HasPrefix(cn, "time.") {
				if c.expiryChecker(f) >= 0 {
					allowed = true
				} else if v := call.Value(); v != nil && v.Referrers() != nil {
					only := len(*v.Referrers()) > 0
					for _, r := range *v.Referrers() {
						if _, isDbg := r.(*ssa.DebugRef); isDbg {
							continue
						}
						cc, isCall := r.(ssa.CallInstruction)
						if !isCall || c.expiryChecker(cc.Common().StaticCallee()) < 0 {
							only = false
						}
					}
					allowed = only
				}
			}
			c.check(allowed, R, fname(f), "reads "+cn, call.Pos(), "the single expiry comparison (R-C06-2)", "a function on the verification path reads "+cn+": the verdict depends on something other than the supplied inputs")
		}
	}
	c.ok(R, "in_toto", "functions reachable from the entry points scanned", 0, fmt.Sprintf("%d in_toto functions", n))
}

// ---------------------------------------------------------------------------
// C16

type globalWrite struct {
	f    *ssa.Function
	in   ssa.Instruction
	g    *ssa.Global
	what string
}

// globalWrites finds writes to / through package-level variables of the given packages in non-init functions.
func (c *Ctx) globalWrites(pkgs ...string) (writes []globalWrite, globals []*ssa.Global) {
	for _, pn := range pkgs {
		sp := c.pkg(pn)
		if sp == nil {
			continue
		}
		var names []string
		for n, m := range sp.Members {
			if _, ok := m.(*ssa.Global); ok && !strings.HasPrefix(n, "init$") {
				names = append(names, n)
			}
		}
		sort.Strings(names)
		for _, n := range names {
			globals = append(globals, sp.Members[n].(*ssa.Global))
		}
		for _, f := range c.srcFuncs(pn) {
			if f.Name() == "init" || strings.HasPrefix(f.Name(), "init#") || (f.Parent() != nil && strings.HasPrefix(f.Parent().Name(), "init")) {
				continue
			}
			fromGlobal := func(v ssa.Value) *ssa.Global {
				if g, ok := memBase(v).(*ssa.Global); ok && g.Pkg == sp {
					return g
				}
				return nil
			}
			for _, b := range f.Blocks {
				for _, in := range b.Instrs {
					switch x := in.(type) {
					case *ssa.Store:
						if g := fromGlobal(x.Addr); g != nil {
							writes = append(writes, globalWrite{f, x, g, "store to " + org(x.Addr)})
						}
					case *ssa.MapUpdate:
						if g := fromGlobal(x.Map); g != nil {
							writes = append(writes, globalWrite{f, x, g, "map update of " + org(x.Map)})
						}
					case *ssa.Send:
						// a package-level channel (semaphore, queue) couples otherwise independent calls
						if g := fromGlobal(x.Chan); g != nil {
							writes = append(writes, globalWrite{f, x, g, "send on " + org(x.Chan)})
						}
					case *ssa.UnOp:
						if x.Op == token.ARROW {
							if g := fromGlobal(x.X); g != nil {
								writes = append(writes, globalWrite{f, x, g, "receive from " + org(x.X)})
							}
						}
					case *ssa.Select:
						for _, st := range x.States {
							if g := fromGlobal(st.Chan); g != nil {
								writes = append(writes, globalWrite{f, x, g, "select on " + org(st.Chan)})
							}
						}
					case ssa.CallInstruction:
						n := calleeName(x)
						args := callArgs(x)
						// methods / builtins that write their receiver or first argument
						writesFirst := n == "builtin:delete" || n == "builtin:copy" || n == "(in_toto.Set).Add" || n == "(in_toto.Set).Remove" ||
							n == "sort.Strings" || n == "sort.Slice"
						if n == "builtin:append" {
							writesFirst = false
						}
						// mutating methods of synchronised containers and locks on package-level variables:
						// shared mutable state, even if race-free
						if strings.HasPrefix(n, "(*sync.Map).") && !strings.HasSuffix(n, ".Load") && !strings.HasSuffix(n, ".Range") {
							writesFirst = true
						}
						if strings.HasPrefix(n, "(*sync.Pool).") {
							writesFirst = true
						}
						if strings.HasPrefix(n, "(*sync.Mutex).") || strings.HasPrefix(n, "(*sync.RWMutex).") || strings.HasPrefix(n, "(*sync.Once).") || strings.HasPrefix(n, "(*sync/atomic.") {
							writesFirst = true
						}
						if writesFirst && len(args) > 0 {
							if g := fromGlobal(args[0]); g != nil {
								writes = append(writes, globalWrite{f, x, g, n + " on " + org(args[0])})
							}
						}
						// a module function that writes through the memory of an argument (A4 effects analysis), handed
						// memory that hangs off a package-level variable: e.g. a method with pointer receiver called on
						// a package-level sentinel
						if callee := x.Common().StaticCallee(); callee != nil && callee.Blocks != nil && callee.Pkg != nil && strings.HasPrefix(callee.Pkg.Pkg.Path(), modPath) && len(args) <= len(callee.Params) {
							for i, av := range args {
								g := fromGlobal(av)
								if g == nil || !hasRefs(av.Type()) {
									continue
								}
								ctx := make([]pc, len(callee.Params))
								ctx[i] = pc{isRefType(av.Type()), true}
								sum := newA4(c.Prog).analyse(callee, ctx, nil)
								if kept, _ := a4FilterReviewed(sum.writes); len(kept) > 0 {
									w := kept[0]
									writes = append(writes, globalWrite{f, x, g, fmt.Sprintf("%s writes through %s (%s at %s)", n, org(av), w.path, c.pos(w.instr.Pos()))})
								}
							}
						}
					}
				}
			}
		}
	}
	return
}

func ruleC16_1() Rule {
	return Rule{ID: "R-C16-1", Doc: "no package-level variable of in_toto / internal/spiffe is written or written through outside initialisation", Min: 20,
		Run: func(c *Ctx) {
			const R = "R-C16-1"
			writes, globals := c.globalWrites("in_toto", "internal/spiffe")
			written := map[*ssa.Global][]globalWrite{}
			for _, w := range writes {
				written[w.g] = append(written[w.g], w)
			}
			for _, g := range globals {
				name := shortName(g.Pkg.Pkg.Path()) + "." + g.Name()
				if ws := written[g]; len(ws) > 0 {
					for _, w := range ws {
						c.bad(R, fname(w.f), "write to package-level "+name, w.in.Pos(), w.what+": package-level mutable state is shared by all concurrent calls (data race; results of one call can leak into another)")
					}
				} else {
					c.ok(R, name, "package-level variable is never written after initialisation", g.Pos(), "read-only")
				}
			}
		}}
}

func ruleC16_2(c *Ctx) {
	const R = "R-C16-2"
	mutators := map[string]bool{"os.Chdir": true, "os.Setenv": true, "os.Unsetenv": true, "os.Clearenv": true, "flag.Set": true,
		"log.SetOutput": true, "log.SetFlags": true, "log.SetPrefix": true, "os/signal.Notify": true, "os/signal.Ignore": true, "os/signal.Reset": true,
		"syscall.Chdir": true, "syscall.Setenv": true, "syscall.Umask": true, "(*os.File).Chdir": true}
	n := 0
	for _, pn := range []string{"in_toto", "internal/spiffe"} {
		for _, f := range c.srcFuncs(pn) {
			n++
			for _, call := range allCalls(f) {
				if mutators[calleeName(call)] {
					c.bad(R, fname(f), "calls "+calleeName(call), call.Pos(), "process-global state is modified: concurrent calls interfere")
				}
			}
		}
	}
	c.ok(R, "in_toto, internal/spiffe", "no process-global mutator is called", 0, fmt.Sprintf("%d functions scanned", n))
	// child processes get their directory through Cmd.Dir
	for _, u := range c.cmdUses() {
		okDir := false
		for _, b := range u.f.Blocks {
			for _, in := range b.Instrs {
				if st, ok := in.(*ssa.Store); ok {
					if fa, ok := st.Addr.(*ssa.FieldAddr); ok && resolve(fa.X, st) == u.cmd && fieldName(fa.X.Type(), fa.Field) == "Dir" {
						okDir = org(st.Val) == "p1"
					}
				}
			}
		}
		c.check(okDir, R, fname(u.f), "working directory via Cmd.Dir", u.create.Pos(), "cmd.Dir = runDir parameter", "the child's working directory is not set through Cmd.Dir from the runDir parameter")
	}
}

func ruleC16_3(c *Ctx) {
	const R = "R-C16-3"
	var roots []*ssa.Function
	for _, f := range c.srcFuncs("in_toto") {
		if f.Parent() == nil && (f.Object() != nil && f.Object().Exported()) {
			roots = append(roots, f)
		}
	}
	reach := reachable(c.CG, roots...)
	n, bad := 0, 0
	for f := range reach {
		if f.Pkg == nil || !strings.HasPrefix(f.Pkg.Pkg.Path(), sslPath) || f.Blocks == nil {
			continue
		}
		if f.Name() == "init" {
			continue
		}
		n++
		for _, b := range f.Blocks {
			for _, in := range b.Instrs {
				var addr ssa.Value
				switch x := in.(type) {
				case *ssa.Store:
					addr = x.Addr
				case *ssa.MapUpdate:
					addr = x.Map
				}
				if addr == nil {
					continue
				}
				var hit *ssa.Global
				derives(addr, func(v ssa.Value) bool {
					if g, ok := v.(*ssa.Global); ok && strings.HasPrefix(g.Pkg.Pkg.Path(), sslPath) {
						hit = g
						return true
					}
					return false
				}, false)
				if hit != nil {
					bad++
					c.bad(R, fname(f), "write to dependency global "+hit.Name(), in.Pos(), "securesystemslib package-level state is written on a path reachable from in_toto's exported API")
				}
			}
		}
	}
	c.ok(R, "securesystemslib", "package-level variables only read on paths from in_toto", 0, fmt.Sprintf("%d reachable securesystemslib functions scanned, %d writes", n, bad))
}

func ruleC16_4(c *Ctx) {
	const R = "R-C16-4"
	n := 0
	for _, pn := range []string{"in_toto", "internal/spiffe"} {
		sp := c.pkg(pn)
		for _, f := range c.srcFuncs(pn) {
			// every function, exported or not: a helper that returns a package-level slice / map hands it to the exported
			// function that stores it in a result object (e.g. a default list that ends up in every loaded Key)
			if f.Name() == "init" || strings.HasPrefix(f.Name(), "init#") {
				continue
			}
			n++
			for _, r := range returnsOf(f) {
				for i, rv := range r.Results {
					if !hasRefs(rv.Type()) || isErrorType(rv.Type()) {
						continue
					}
					var hit *ssa.Global
					derives(rv, func(v ssa.Value) bool {
						// a package-level variable of any package: a dependency's exported default list is shared just the same
						if g, ok := v.(*ssa.Global); ok && (g.Pkg == sp || (g.Pkg != nil && isRefType(g.Type().(*types.Pointer).Elem()))) {
							hit = g
							return true
						}
						return false
					}, false)
					if hit != nil {
						c.bad(R, fname(f), fmt.Sprintf("result %d aliases package-level %s", i, hit.Name()), instrPos(r), "memory reachable from a package-level variable is handed to callers: two callers share it")
					}
				}
			}
		}
	}
	c.ok(R, "in_toto, internal/spiffe", "no function returns package-level memory (other than error sentinels)", 0, fmt.Sprintf("%d functions scanned", n))
}

// R-C16-5: exported functions treat the memory behind their slice / map / pointer parameters as read-only. Callers
// share option lists (hash algorithms, exclude patterns, strip prefixes, key maps) between concurrent calls; a library
// function that writes through such a parameter races with every other call that was handed the same list. Decided by
// the A4 effects analysis with every reference parameter as owned memory. Reviewed exceptions are the pipeline stages
// whose contract is to update the verified-link map they are given.
var c16WriteThroughParams = map[string]string{
	"in_toto.VerifySublayouts": "contract: replaces a verified sublayout by its summary link in the map it is given (R-C08-3); the map is produced by the threshold check of the same verification run",
	"in_toto.VerifyArtifacts":  "verifyMatchRule normalises artifact paths of the links it is given in place (path.Clean); the links are loaded by the same verification run (reviewed: a3MapWriteTable)",
}

func init() {
	if p := registry["C16"]; p != nil {
		p.Rules = append(p.Rules, Rule{ID: "R-C16-5", Doc: "exported functions do not write through their slice / map / pointer parameters", Min: 20, Run: ruleC16_5})
		p.Explanation += " (R-C16-5) no exported non-method function of in_toto writes through memory reachable from its parameters (A4 effects analysis, every reference parameter owned by the caller), except the two reviewed pipeline stages: option lists shared by concurrent calls stay untouched."
	}
}

func ruleC16_5(c *Ctx) {
	const R = "R-C16-5"
	for _, f := range c.srcFuncs("in_toto") {
		if f.Parent() != nil || f.Signature.Recv() != nil || f.Object() == nil || !f.Object().Exported() {
			continue
		}
		ctx := make([]pc, len(f.Params))
		any := false
		for i, prm := range f.Params {
			if hasRefs(prm.Type()) {
				ctx[i] = pc{isRefType(prm.Type()), true}
				any = true
			}
		}
		if !any {
			continue
		}
		fn := fname(f)
		a := newA4(c.Prog)
		s := a.analyse(f, ctx, nil)
		s = &a4Summary{results: s.results, writes: func() []a4Write { k, _ := a4FilterReviewed(s.writes); return k }(), done: true}
		if len(s.writes) == 0 {
			c.ok(R, fn, "parameters are read-only", f.Pos(), fmt.Sprintf("%d function contexts analysed, no write through parameter memory", len(a.memo)))
			continue
		}
		if reason, ok := c16WriteThroughParams[fn]; ok {
			c.ok(R, fn, "parameters are read-only", f.Pos(), "reviewed exception: "+reason)
			continue
		}
		var ws []string
		for _, w := range s.writes {
			ws = append(ws, fmt.Sprintf("%s at %s (%s)", w.path, c.pos(w.instr.Pos()), strings.Join(w.chain, " -> ")))
		}
		c.bad(R, fn, "parameters are read-only", s.writes[0].instr.Pos(), "writes through memory owned by its caller: "+strings.Join(ws, "; ")+" — concurrent calls that share this argument (an option list, a key map) race on it")
	}
}
