package main

import (
	"fmt"
	"go/token"
	"go/types"
	"regexp"
	"sort"
	"strings"

	"golang.org/x/tools/go/ssa"
)

// Rules over the two verification entry points and the stage functions they wire together:
// C05 (wiring / reduce / summary), C06 (expiry), C08 (sublayouts), C09 (inspections).

func firstCall(f *ssa.Function, name string) ssa.CallInstruction {
	cs := callsIn(f, name)
	if len(cs) == 0 {
		return nil
	}
	return cs[0]
}

// argFrom checks that argument argIdx of call is result resIdx of a call to producer (same function).
func argFrom(call ssa.CallInstruction, argIdx int, producerName string, resIdx int) (bool, string) {
	if call == nil {
		return false, "call missing"
	}
	args := call.Common().Args
	if argIdx >= len(args) {
		return false, "argument missing"
	}
	pc, idx := producer(args[argIdx], call)
	if pc != nil && calleeName(pc) == producerName && idx == resIdx {
		return true, ""
	}
	return false, "argument is " + short(org(args[argIdx]))
}

func short(s string) string {
	if len(s) > 160 {
		return s[:157] + "..."
	}
	return s
}

// ---------------------------------------------------------------------------
// C05

func init() {
	register(&Property{ID: "C05",
		Explanation: "Decides structural clauses of 'counted links must agree; summary reports the endpoints': (R-C05-1) def-use wiring in both entry points: only the verified link map flows (thresholds -> sublayouts -> reduce -> step rules / summary / inspection metadata), the raw loaded links flow only into the threshold check; (R-C05-2) in ReduceStepsMetadata every link of a step is compared with the reference on Materials AND Products on every path to the loop latch, mismatches fail, reference and stored link are elements of the same per-step map; (R-C05-3) GetSummaryLink takes Materials from Steps[0], Products from Steps[len-1], Name from the stepName parameter.",
		NotDecided:  []string{"reflect.DeepEqual semantics on nil vs empty maps", "behaviour for duplicate step names", "rule evaluation itself (C03)"},
		Rules: []Rule{
			{ID: "R-C05-1", Doc: "wiring of stage results in both entry points", Min: 18, Run: ruleC05_1},
			{ID: "R-C05-2", Doc: "all links of a step compared on materials and products", Min: 6, Run: ruleC05_2},
			{ID: "R-C05-3", Doc: "summary link endpoints", Min: 3, Run: ruleC05_3},
			a1Rule(6, "in_toto.ReduceStepsMetadata", "in_toto.GetSummaryLink"),
			a3Rule("R-C05-4", 2, nil, "in_toto.VerifyLinkSignatureThesholds", "in_toto.ReduceStepsMetadata"),
		}})
}

// vaStages classifies the VerifyArtifacts calls of an entry point (direct or in a helper) into the step round
// and the inspection round by the producer of their item list.
func (c *Ctx) vaStages(f *ssa.Function) (stepsVA, inspVA *stageCall) {
	for _, va := range c.stages(f, "in_toto.VerifyArtifacts") {
		pc, _ := producer(va.call.Common().Args[0], va.call)
		if pc == nil {
			continue
		}
		switch calleeName(pc) {
		case "(*in_toto.Layout).stepsAsInterfaceSlice":
			stepsVA = va
		case "(*in_toto.Layout).inspectAsInterfaceSlice":
			inspVA = va
		}
	}
	return
}

func ruleC05_1(c *Ctx) {
	const R = "R-C05-1"
	for _, e := range c.entryPoints() {
		fn := fname(e.f)
		type edge struct {
			consumer string
			arg      int
			producer string
			res      int
		}
		edges := []edge{
			{"in_toto.VerifyLinkSignatureThesholds", 1, "in_toto.LoadLinksForLayout", 0},
			{"in_toto.VerifySublayouts", 1, "in_toto.VerifyLinkSignatureThesholds", 0},
			{"in_toto.VerifyStepCommandAlignment", 1, "in_toto.VerifySublayouts", 0},
			{"in_toto.ReduceStepsMetadata", 1, "in_toto.VerifySublayouts", 0},
			{"in_toto.GetSummaryLink", 1, "in_toto.ReduceStepsMetadata", 0},
		}
		for _, ed := range edges {
			st := c.stage(e.f, ed.consumer)
			ok, d := c.stageArgFrom(st, ed.arg, ed.producer, ed.res)
			pos := e.f.Pos()
			if st != nil {
				pos = st.site().Pos()
			}
			c.check(ok, R, fn, fmt.Sprintf("%s arg%d <- %s#%d", trimPkg(ed.consumer), ed.arg, trimPkg(ed.producer), ed.res), pos,
				"def-use edge present", "stage "+ed.consumer+" does not receive the result of "+ed.producer+": "+d)
		}
		stepsVA, inspVA := c.vaStages(e.f)
		ok, d := c.stageArgFrom(stepsVA, 1, "in_toto.ReduceStepsMetadata", 0)
		c.check(ok, R, fn, "VerifyArtifacts(steps) arg1 <- ReduceStepsMetadata#0", e.f.Pos(), "step rules are evaluated against the reduced (counted, agreed) links", "step rules are not evaluated against the reduced verified links: "+d)
		ok, d = c.stageArgFrom(inspVA, 1, "in_toto.RunInspections", 0)
		c.check(ok, R, fn, "VerifyArtifacts(inspect) arg1 <- RunInspections#0", e.f.Pos(), "inspection rules are evaluated against the inspection links", "inspection rules are not evaluated against RunInspections' result: "+d)
		// merge loop: every reduced link is stored into the inspection metadata (in the entry point or in the helper
		// that runs the inspections)
		merged := false
		// frames of the inspection stage: the entry point and every helper on the way to VerifyArtifacts(inspect)
		frames := []*ssa.Function{e.f}
		if inspVA != nil {
			for _, vf := range inspVA.path {
				frames = append(frames, vf.g)
			}
		}
		for lvl, fr := range frames {
			// maps.Copy(inspection links, reduced links) is the same merge
			for _, mc := range allCalls(fr) {
				if genericBase(calleeName(mc)) != "maps.Copy" || len(mc.Common().Args) != 2 {
					continue
				}
				dp, di := producer(mc.Common().Args[0], mc)
				if dp == nil || calleeName(dp) != "in_toto.RunInspections" || di != 0 || !c.okCallAt(dp, mc.Block()) {
					continue
				}
				sv, sat := ssa.Value(mc.Common().Args[1]), ssa.Instruction(mc)
				if lvl > 0 {
					sv, sat = inspVA.mapUp(sv, sat, lvl)
				}
				if n, i := c.deepProducer(sv, sat); n == "in_toto.ReduceStepsMetadata" && i == 0 {
					merged = true
				}
			}
			for _, b := range fr.Blocks {
				for _, in := range b.Instrs {
					mu, ok := in.(*ssa.MapUpdate)
					if !ok {
						continue
					}
					mp, mi := producer(mu.Map, mu)
					if mp == nil || calleeName(mp) != "in_toto.RunInspections" || mi != 0 {
						continue
					}
					ke, ok1 := mu.Key.(*ssa.Extract)
					ve, ok2 := mu.Value.(*ssa.Extract)
					if !ok1 || !ok2 || ke.Tuple != ve.Tuple {
						continue
					}
					nx, ok := ke.Tuple.(*ssa.Next)
					if !ok {
						continue
					}
					rg, ok := nx.Iter.(*ssa.Range)
					if !ok {
						continue
					}
					// the ranged map is the reduced map: directly, or the helper parameter that receives it
					isReduced := false
					rv, rat := ssa.Value(rg.X), ssa.Instruction(rg)
					if lvl > 0 {
						rv, rat = inspVA.mapUp(rv, rat, lvl)
					}
					if n, i := c.deepProducer(rv, rat); n == "in_toto.ReduceStepsMetadata" && i == 0 {
						isReduced = true
					}
					if isReduced && ke.Index == 1 && ve.Index == 2 {
						if okv := extractOf(nx, 0); okv != nil {
							for _, cu := range condUsers(okv, false) {
								body := branchTaken(cu, true)
								if body == mu.Block() || (body.Dominates(mu.Block()) && postDominatesSimple(mu.Block(), body)) {
									merged = true
								}
							}
						}
					}
				}
			}
		}
		c.check(merged, R, fn, "merge reduced links into inspection metadata", e.f.Pos(), "range over ReduceStepsMetadata#0 storing k->v into RunInspections#0", "the reduced step links are not merged into the inspection metadata (inspection rules could not refer to verified step links)")
		// raw loaded links flow only into the threshold check
		if lls := c.stage(e.f, "in_toto.LoadLinksForLayout"); lls != nil {
			ll := lls.call
			raw := resultN(ll, 0)
			bad := ""
			if raw != nil {
				for _, r := range *raw.Referrers() {
					switch x := r.(type) {
					case ssa.CallInstruction:
						if calleeName(x) != "in_toto.VerifyLinkSignatureThesholds" {
							bad = calleeName(x)
						}
					case *ssa.DebugRef:
					default:
						bad = fmt.Sprintf("%T", r)
					}
				}
			}
			c.check(bad == "" && raw != nil, R, fn, "raw links only feed the threshold check", ll.Pos(), "LoadLinksForLayout#0 is used only by VerifyLinkSignatureThesholds", "unverified links flow into "+bad)
		}
	}
}

func ruleC05_2(c *Ctx) {
	const R = "R-C05-2"
	f := c.lookup("in_toto.ReduceStepsMetadata")
	if f == nil {
		c.undecided(R, "in_toto.ReduceStepsMetadata", "anchor", 0, "function not found")
		return
	}
	fn := fname(f)
	// per-step map: comma-ok lookup of p1 by step name
	var stepMap ssa.Value
	for _, b := range f.Blocks {
		for _, in := range b.Instrs {
			if lk, ok := in.(*ssa.Lookup); ok && lk.X == ssa.Value(f.Params[1]) {
				if lk.CommaOk {
					stepMap = extractOf(lk, 0)
				} else {
					stepMap = lk
				}
			}
		}
	}
	if stepMap == nil {
		// the lookup done by an unexported helper that hands the element back unchanged
		for _, call := range allCalls(f) {
			if mi, _, ok := lookupHelper(call.Common().StaticCallee()); ok && call.Common().Args[mi] == ssa.Value(f.Params[1]) {
				if v := call.Value(); v != nil {
					stepMap = v
				}
			}
		}
	}
	if stepMap == nil {
		c.bad(R, fn, "per-step link map", f.Pos(), "no lookup of the links parameter by step name")
		return
	}
	fromStepMap := func(v ssa.Value) bool {
		return derives(v, func(x ssa.Value) bool {
			switch y := x.(type) {
			case *ssa.Range:
				return y.X == stepMap
			case *ssa.Lookup:
				return y.X == stepMap
			}
			return false
		}, true)
	}
	// compare loops: loops that visit every link of the step and whose body calls reflect.DeepEqual. Either a range
	// over the per-step map itself, or a range over the complete list of its keys (collected by an exhaustive range
	// over the map; possibly sorted), the element being looked up in the map; the tail keys[1:] is complete when the
	// reference link is the one under keys[0].
	nLoops := 0
	compare := func(f *ssa.Function, stepMap ssa.Value, elems map[ssa.Value]bool) {
		fn := fname(f)
		// elems: parameters of a helper frame that were handed elements of the per-step map by the caller
		fromStepMap := func(v ssa.Value) bool {
			return derives(v, func(x ssa.Value) bool {
				if elems[x] {
					return true
				}
				switch y := x.(type) {
				case *ssa.Range:
					return y.X == stepMap
				case *ssa.Lookup:
					return y.X == stepMap
				}
				return false
			}, true)
		}
		loops, tailRefs := c.coverLoops(f, stepMap)
		for _, tr := range tailRefs {
			// keys[1:] is complete only against the reference under keys[0]
			refOK := false
			for _, call := range c.equalityCalls(f) {
				for _, a := range call.Common().Args {
					if tr.isFirst(a) {
						refOK = true
					}
				}
			}
			c.check(refOK, R, fn, "the tail keys[1:] is compared with the link under keys[0]", tr.pos, "reference = linksPerStep[keys[0]]", "the compare loop skips the first key but the reference link is not the one under that key: one counted link is never compared")
		}
		for _, cl := range loops {
			{
				header := cl.header
				isIter := cl.isElem
				var eqM, eqP []*ssa.Call
				for _, call := range c.equalityCalls(f) {
					cc := call.(*ssa.Call)
					if !header.Dominates(cc.Block()) || !reaches(cc.Block(), header) {
						continue
					}
					a0, a1 := org(cc.Call.Args[0]), org(cc.Call.Args[1])
					d0 := isIter(cc.Call.Args[0])
					d1 := isIter(cc.Call.Args[1])
					r0, r1 := fromStepMap(cc.Call.Args[0]), fromStepMap(cc.Call.Args[1])
					if !((d0 && r1) || (d1 && r0)) {
						continue
					}
					if strings.HasSuffix(a0, ".(in_toto.Link).Materials") && strings.HasSuffix(a1, ".(in_toto.Link).Materials") {
						eqM = append(eqM, cc)
					}
					if strings.HasSuffix(a0, ".(in_toto.Link).Products") && strings.HasSuffix(a1, ".(in_toto.Link).Products") {
						eqP = append(eqP, cc)
					}
				}
				if len(eqM) == 0 && len(eqP) == 0 {
					continue // pick-reference loop, not the compare loop
				}
				nLoops++
				// latches: predecessors of the header inside the loop
				for _, pb := range header.Preds {
					if !header.Dominates(pb) {
						continue
					}
					holds := func(calls []*ssa.Call) bool {
						for _, cc := range calls {
							if c.condAt(cc, true, pb) {
								return true
							}
							// fact may be established on the edge pb->header itself
							if len(pb.Instrs) > 0 {
								if ifi, ok := pb.Instrs[len(pb.Instrs)-1].(*ssa.If); ok {
									val := pb.Succs[0] == header
									v := ifi.Cond
									neg := false
									for {
										u, ok := v.(*ssa.UnOp)
										if !ok || u.Op != token.NOT {
											break
										}
										v, neg = u.X, !neg
									}
									if v == ssa.Value(cc) && (val != neg) {
										return true
									}
								}
							}
						}
						return false
					}
					c.check(holds(eqM), R, fn, "materials equal on every path to the latch", instrPos(pb.Instrs[0]), "DeepEqual(link.Materials, ref.Materials) known true at the back edge", "the loop continues on a path where the iterated link's Materials were not found equal to the reference's")
					c.check(holds(eqP), R, fn, "products equal on every path to the latch", instrPos(pb.Instrs[0]), "DeepEqual(link.Products, ref.Products) known true at the back edge", "the loop continues on a path where the iterated link's Products were not found equal to the reference's")
				}
				// mismatch sides fail
				for _, cc := range append(append([]*ssa.Call{}, eqM...), eqP...) {
					okF := false
					for _, cu := range condUsers(cc, false) {
						if c.failing(branchTaken(cu, false)) {
							okF = true
						}
					}
					c.check(okF, R, fn, "mismatch fails: "+short(org(cc.Call.Args[0])[strings.LastIndex(org(cc.Call.Args[0]), ".")+1:]), cc.Pos(), "false side of DeepEqual is a failing continuation", "a mismatch between counted links does not fail")
				}
				// the loop is not left early with success: nil-error returns lie after loop exhaustion of this range
			}
		}
	}
	compare(f, stepMap, nil)
	if nLoops == 0 {
		// the compare loop may live in an unexported helper that is handed the per-step map; its error must fail the
		// reduction
		for _, call := range allCalls(f) {
			h := call.Common().StaticCallee()
			if h == nil || h.Blocks == nil || h.Pkg != f.Pkg || (h.Object() != nil && h.Object().Exported()) {
				continue
			}
			for j, a := range call.Common().Args {
				if resolve(a, call) != stepMap || j >= len(h.Params) {
					continue
				}
				before := nLoops
				elems := map[ssa.Value]bool{}
				for k, ak := range call.Common().Args {
					if k != j && k < len(h.Params) && fromStepMap(ak) {
						elems[h.Params[k]] = true
					}
				}
				compare(h, h.Params[j], elems)
				if nLoops > before {
					okFail := false
					if e := errResult(call); e != nil {
						for _, br := range errBranches(e) {
							okFail = okFail || c.failing(br.NonNil)
						}
					}
					c.check(okFail, R, fn, "a disagreement found by "+fname(h)+" fails the reduction", call.Pos(), "non-nil side is a failing continuation", "the error of the helper that compares the counted links is not propagated")
				}
			}
		}
	}
	if nLoops == 0 {
		c.bad(R, fn, "compare loop", f.Pos(), "no range over the per-step link map comparing Materials/Products with reflect.DeepEqual")
	}
	// stored representative is an element of the per-step map
	for _, b := range f.Blocks {
		for _, in := range b.Instrs {
			mu, ok := in.(*ssa.MapUpdate)
			if !ok {
				continue
			}
			if _, isMk := mu.Map.(*ssa.MakeMap); !isMk {
				continue
			}
			c.check(fromStepMap(mu.Value), R, fn, "stored link is an element of the per-step verified map", mu.Pos(), short(org(mu.Value)), "the link stored for the step is not one of the step's verified links: "+short(org(mu.Value)))
		}
	}
	// multi-link steps must go through the compare loop: the single-link shortcut is guarded by len(stepMap)==1
	for _, lc := range lenCompares(f, func(v ssa.Value) bool { return v == stepMap }) {
		if lc.op == token.EQL && lc.k == 1 {
			c.ok(R, fn, "single-link shortcut guarded by len==1", lc.bo.Pos(), "len(linksPerStep) == 1")
		}
	}
}

func ruleC05_3(c *Ctx) {
	const R = "R-C05-3"
	f := c.lookup("in_toto.GetSummaryLink")
	if f == nil {
		c.undecided(R, "in_toto.GetSummaryLink", "anchor", 0, "function not found")
		return
	}
	fn := fname(f)
	want := map[string]*regexp.Regexp{
		"Materials": regexp.MustCompile(`^in_toto\.Metadata\.GetPayload\(p1\{p0\.Steps\[0\]\.SupplyChainItem\.Name\}\)\.\(in_toto\.Link\)\.Materials$`),
		"Products":  regexp.MustCompile(`^in_toto\.Metadata\.GetPayload\(p1\{p0\.Steps\[len\(p0\.Steps\)-1\]\.SupplyChainItem\.Name\}\)\.\(in_toto\.Link\)\.Products$`),
		"Name":      regexp.MustCompile(`^p2$`),
	}
	seen := map[string]bool{}
	for _, b := range f.Blocks {
		for _, in := range b.Instrs {
			st, ok := in.(*ssa.Store)
			if !ok {
				continue
			}
			fa, ok := st.Addr.(*ssa.FieldAddr)
			if !ok || typeStr(fa.X.Type()) != "*in_toto.Link" {
				continue
			}
			name := fieldName(fa.X.Type(), fa.Field)
			re := want[name]
			if re == nil {
				continue
			}
			seen[name] = true
			o := org(st.Val)
			c.check(re.MatchString(o), R, fn, "summary."+name, st.Pos(), o, "summary link's "+name+" is taken from "+short(o))
		}
	}
	for name := range want {
		if !seen[name] {
			c.bad(R, fn, "summary."+name, f.Pos(), "summary link's "+name+" is never set")
		}
	}
	// the endpoints are reported for every layout that has steps: the conditions under which Materials / Products are
	// set, evaluated for a layout with exactly one step, hold (and for no steps, some condition fails)
	isSteps := func(v ssa.Value) bool { return org(v) == "p0.Steps" }
	for _, b := range f.Blocks {
		for _, in := range b.Instrs {
			st, ok := in.(*ssa.Store)
			if !ok {
				continue
			}
			fa, ok := st.Addr.(*ssa.FieldAddr)
			if !ok || typeStr(fa.X.Type()) != "*in_toto.Link" {
				continue
			}
			name := fieldName(fa.X.Type(), fa.Field)
			if name != "Materials" && name != "Products" {
				continue
			}
			one, zero := true, true
			nEval := 0
			for _, ft := range c.factsAt(b) {
				if v1, ok1 := evalLenCond(ft.v, isSteps, 1); ok1 {
					nEval++
					if v1 != ft.val {
						one = false
					}
					if v0, _ := evalLenCond(ft.v, isSteps, 0); v0 != ft.val {
						zero = false
					}
				}
			}
			c.check(one, R, fn, "summary."+name+" is set for a one-step layout", st.Pos(), fmt.Sprintf("%d length condition(s) hold for len(layout.Steps) == 1", nEval), "the summary link's "+name+" is not set for a layout with exactly one step: a one-step sublayout is summarised as an empty link")
			c.check(nEval == 0 || !zero, R, fn, "summary."+name+" is guarded against a layout without steps", st.Pos(), "some length condition fails for len(layout.Steps) == 0", "Steps[0] is read for a layout without steps")
		}
	}
}

// ---------------------------------------------------------------------------
// C06

func init() {
	register(&Property{ID: "C06",
		Explanation: "Decides structural clauses of 'expired or undated layouts are never accepted': (R-C06-1) in both entry points every later stage (certificate/link loading, thresholds, sublayouts, rules, inspections, summary) and every success return lies where VerifyLayoutExpiration on the verified layout is known to have returned nil; (R-C06-2) the callee parses Expires with a constant layout that has date, time, literal Z and no zone token, propagates the parse error, and has a comparison with the current time whose 'in the past' side is a failing continuation; validateLayout uses the same constant.",
		NotDecided:  []string{"clock behaviour", "the exact boundary second"},
		Rules: []Rule{
			{ID: "R-C06-1", Doc: "must-pass-through: later stages and success returns dominated by ok(VerifyLayoutExpiration(layout))", Min: 20, Run: ruleC06_1},
			{ID: "R-C06-2", Doc: "shape of the expiry check: constant UTC layout, parse error propagated, past => failing", Min: 5, Run: ruleC06_2},
			a1Rule(1, "@expiry"),
		}})
}

func ruleC06_1(c *Ctx) {
	const R = "R-C06-1"
	for _, e := range c.entryPoints() {
		fn := fname(e.f)
		var exp ssa.CallInstruction
		for _, call := range allCalls(e.f) {
			g := call.Common().StaticCallee()
			li := c.expiryCheckerLike(g, 0)
			if li < 0 {
				continue
			}
			if k, _ := c.layoutValue(e, call.Common().Args[li], call, 0); k != "" {
				exp = call
			}
		}
		if exp == nil {
			// the expiry check inside a head helper whose success guarantees the check's success
			for _, call := range allCalls(e.f) {
				fe, ok := c.frameEntry(e, call)
				if !ok || !hasErrResult(call) {
					continue
				}
				for _, ic := range allCalls(fe.f) {
					li := c.expiryCheckerLike(ic.Common().StaticCallee(), 0)
					if li < 0 {
						continue
					}
					if k, _ := c.layoutValue(fe, ic.Common().Args[li], ic, 0); k != "" {
						if c.helperGuarantees(fe.f, ic) {
							exp = call
							c.ok(R, fname(fe.f), "expiry check inside the head helper", ic.Pos(), calleeName(ic)+"(layout) with layout from the verified payload; every success return of the helper lies under its nil-error edge")
						} else {
							c.bad(R, fname(fe.f), "expiry check inside the head helper", ic.Pos(), "the helper calls "+calleeName(ic)+" on the verified layout, but a return of the helper with a possibly nil error is reachable without that call having returned nil (its error is dropped or overwritten): an expired layout passes")
						}
					}
				}
			}
		}
		if exp == nil {
			weak := ""
			for _, call := range allCalls(e.f) {
				if w := c.weakExpiryParse(call.Common().StaticCallee()); w != "" {
					weak = w
					c.bad(R, fn, "expiry check", call.Pos(), calleeName(call)+" does not only parse the expiry date: "+w)
				}
			}
			if weak != "" {
				continue
			}
		}
		if exp == nil {
			// an expiry check that only runs deferred decides the result after everything else has happened
			deferred := false
			for _, b := range e.f.Blocks {
				for _, in := range b.Instrs {
					df, ok := in.(*ssa.Defer)
					if !ok {
						continue
					}
					var g *ssa.Function
					if mc, ok := df.Call.Value.(*ssa.MakeClosure); ok {
						g, _ = mc.Fn.(*ssa.Function)
					} else {
						g = df.Call.StaticCallee()
					}
					if g == nil {
						continue
					}
					if c.expiryCheckerLike(g, 0) >= 0 {
						deferred = true
					}
					for _, ic := range allCalls(g) {
						if c.expiryCheckerLike(ic.Common().StaticCallee(), 0) >= 0 {
							deferred = true
						}
					}
					if deferred {
						c.bad(R, fn, "expiry check", df.Pos(), "the expiry check is deferred: it runs when the entry point returns, after links were loaded and the inspection commands were executed; an expired or undated layout must be refused before any of that")
					}
				}
			}
			if deferred {
				continue
			}
		}
		if exp == nil {
			c.bad(R, fn, "expiry check", e.f.Pos(), "no call of an expiry check (a function that parses layout.Expires and compares it with the clock, e.g. VerifyLayoutExpiration) on the verified layout")
			continue
		}
		c.ok(R, fn, "expiry check", exp.Pos(), calleeName(exp)+"(layout) with layout from the verified payload")
		for _, s := range c.trustingCalls(e) {
			if s == exp {
				continue
			}
			cc := s.Common()
			if cc.IsInvoke() && cc.Value == ssa.Value(e.env) {
				continue // payload extraction precedes the expiry check
			}
			if n := calleeName(s); n == "in_toto.SubstituteParameters" {
				// pure Layout->Layout rewriting may come before or after (Expires is not substituted: R-C18-1)
				continue
			}
			c.check(c.okCallAt(exp, s.Block()), R, fn, "sink call "+calleeName(s), s.Pos(), "dominated by nil-error edge of the expiry check",
				"stage is reachable without a successful expiry check of the layout")
		}
		c.helperObligations(R, e, exp, "VerifyLayoutExpiration", func(in ssa.CallInstruction) bool { return calleeName(in) == "in_toto.SubstituteParameters" })
		for _, r := range c.nilErrReturns(e.f) {
			c.check(c.okCallAt(exp, r.Block()), R, fn, "success return", instrPos(r), "dominated by nil-error edge of VerifyLayoutExpiration", "a success return is reachable without a successful expiry check")
		}
	}
}

// expiryChecker: f has a Layout parameter, returns only an error, parses that parameter's Expires with time.Parse
// and uses the clock (time.Now / Until / Since or a time.Time parameter). Returns the Layout parameter index or -1.
func (c *Ctx) expiryChecker(f *ssa.Function) int {
	if f == nil || f.Blocks == nil || f.Pkg != c.pkg("in_toto") {
		return -1
	}
	if rs := resultTypes(f); len(rs) != 1 || rs[0] != "error" {
		return -1
	}
	li := -1
	hasTime := false
	for i, prm := range f.Params {
		switch typeStr(prm.Type()) {
		case "in_toto.Layout":
			li = i
		case "time.Time":
			hasTime = true
		}
	}
	if li < 0 {
		return -1
	}
	if p, _ := c.expiryParse(f, li); p == nil {
		return -1
	}
	if hasTime || len(callsIn(f, "time.Now", "time.Until", "time.Since")) > 0 {
		return li
	}
	return -1
}

// expiryParse finds where f turns its Layout parameter's Expires into a time: a time.Parse / time.ParseInLocation
// call on it, in f or in a one-parameter string helper of package in_toto that f hands it to. It returns the parse
// call and the call in f whose first result is the parsed time.
func (c *Ctx) expiryParse(f *ssa.Function, li int) (parse ssa.CallInstruction, inF ssa.CallInstruction) {
	want := fmt.Sprintf("p%d.Expires", li)
	for _, call := range callsIn(f, "time.Parse", "time.ParseInLocation") {
		if org(call.Common().Args[1]) == want {
			return call, call
		}
	}
	for _, via := range allCalls(f) {
		g := via.Common().StaticCallee()
		if g == nil || g.Blocks == nil || g.Pkg != f.Pkg || len(g.Params) != 1 || typeStr(g.Params[0].Type()) != "string" {
			continue
		}
		if len(via.Common().Args) != 1 || org(via.Common().Args[0]) != want {
			continue
		}
		if rs := resultTypes(g); len(rs) != 2 || rs[0] != "time.Time" || rs[1] != "error" {
			continue
		}
		for _, call := range callsIn(g, "time.Parse", "time.ParseInLocation") {
			if resolve(call.Common().Args[1], call) != ssa.Value(g.Params[0]) {
				continue
			}
			all := true
			for _, r := range returnsOf(g) {
				if pc, idx := producer(r.Results[0], r); pc != call || idx != 0 {
					if !isZeroTime(r.Results[0]) {
						all = false
					}
				}
			}
			if all {
				return call, via
			}
		}
	}
	return nil, nil
}

// weakExpiryParse: f hands its Layout parameter's Expires to a one-argument string helper that does call time.Parse on
// it, but can also return a time obtained some other way. Returns a description of that other way, or "".
func (c *Ctx) weakExpiryParse(f *ssa.Function) string {
	if f == nil || f.Blocks == nil {
		return ""
	}
	for li, prm := range f.Params {
		if typeStr(prm.Type()) != "in_toto.Layout" {
			continue
		}
		want := fmt.Sprintf("p%d.Expires", li)
		for _, via := range allCalls(f) {
			g := via.Common().StaticCallee()
			if g == nil || g.Blocks == nil || g.Pkg != f.Pkg || len(g.Params) != 1 || typeStr(g.Params[0].Type()) != "string" || len(via.Common().Args) != 1 || org(via.Common().Args[0]) != want {
				continue
			}
			for _, call := range callsIn(g, "time.Parse", "time.ParseInLocation") {
				if resolve(call.Common().Args[1], call) != ssa.Value(g.Params[0]) {
					continue
				}
				for _, r := range returnsOf(g) {
					if pc, idx := producer(r.Results[0], r); (pc != call || idx != 0) && !isZeroTime(r.Results[0]) {
						return "the helper " + fname(g) + " returns " + short(org(r.Results[0])) + " at " + c.pos(r.Pos()) + ", a time that does not come from time.Parse: a date built with time.Date is normalised (month 99, day 32 roll over) instead of being rejected, so an impossible date far in the past can pass as a future one"
					}
				}
			}
		}
	}
	return ""
}

func isZeroTime(v ssa.Value) bool {
	o := org(v)
	return strings.HasPrefix(o, "const(") || strings.Contains(o, "complit") || strings.HasPrefix(o, "local(")
}

// expiryCheckerLike: an expiry checker, or a function whose every success return is guaranteed by a call of one on
// its own Layout parameter (a wrapper). Returns the Layout parameter index or -1.
func (c *Ctx) expiryCheckerLike(g *ssa.Function, depth int) int {
	if li := c.expiryChecker(g); li >= 0 {
		return li
	}
	if g == nil || g.Blocks == nil || g.Pkg != c.pkg("in_toto") || depth > 2 {
		return -1
	}
	li := -1
	for i, prm := range g.Params {
		if typeStr(prm.Type()) == "in_toto.Layout" {
			li = i
		}
	}
	if li < 0 {
		return -1
	}
	if rs := resultTypes(g); len(rs) != 1 || rs[0] != "error" {
		return -1
	}
	for _, call := range allCalls(g) {
		h := call.Common().StaticCallee()
		if h == nil || h == g {
			continue
		}
		hi := c.expiryCheckerLike(h, depth+1)
		if hi < 0 {
			continue
		}
		if resolve(call.Common().Args[hi], call) == ssa.Value(g.Params[li]) && c.helperGuarantees(g, call) {
			return li
		}
	}
	return -1
}

func ruleC06_2(c *Ctx) {
	const R = "R-C06-2"
	n := 0
	for _, f := range c.srcFuncs("in_toto") {
		if c.expiryChecker(f) >= 0 {
			n++
			c.ruleC06_2For(f)
		}
	}
	if n == 0 {
		c.undecided(R, "in_toto", "expiry check", 0, "no function parses layout.Expires and compares it with the clock")
	}
}

func (c *Ctx) ruleC06_2For(f *ssa.Function) {
	const R = "R-C06-2"
	li := c.expiryChecker(f)
	fn := fname(f)
	parse, parseInF := c.expiryParse(f, li)
	if parse == nil {
		c.bad(R, fn, "time.Parse", f.Pos(), "expiry is not parsed with time.Parse")
		return
	}
	// the timestamp is UTC: time.Parse (which reads a zone-less layout as UTC), or ParseInLocation with time.UTC
	if calleeName(parse) == "time.ParseInLocation" {
		loc := org(parse.Common().Args[2])
		c.check(loc == "global(time.UTC)", R, fname(parse.Parent()), "the expiry is read as UTC", parse.Pos(), "time.UTC", "the expiry timestamp is interpreted in "+short(loc)+", not in UTC: the literal Z of the layout is not a zone, so the instant shifts by the verifier's UTC offset")
	} else {
		c.ok(R, fname(parse.Parent()), "the expiry is read as UTC", parse.Pos(), "time.Parse: a layout without zone token yields UTC")
	}
	// the time compared with is the clock at the time of the call: time.Now() in the checker itself, or a time.Time
	// parameter that every call site fills with a fresh time.Now()
	freshParam := map[ssa.Value]bool{}
	for i, prm := range f.Params {
		if typeStr(prm.Type()) != "time.Time" {
			continue
		}
		fresh, why := true, ""
		node := c.CG.Nodes[f]
		if node == nil || len(node.In) == 0 {
			fresh, why = false, "no known caller"
		} else {
			for _, in := range node.In {
				if in.Site == nil {
					fresh, why = false, "called dynamically"
					continue
				}
				pc, _ := producer(in.Site.Common().Args[i], in.Site)
				if pc == nil || calleeName(pc) != "time.Now" {
					fresh, why = false, "at the call in "+fname(in.Site.Parent())+" the argument is "+short(org(in.Site.Common().Args[i]))
				}
			}
		}
		c.check(fresh, R, fn, "the reference time parameter "+prm.Name()+" is the clock at the time of the call", f.Pos(), "every call site passes time.Now()", "the time the expiry is compared with is not read from the clock when the layout is verified: "+why)
		if fresh {
			freshParam[prm] = true
		}
	}
	layoutStr, isConst := constString(parse.Common().Args[0])
	c.check(isConst, R, fn, "constant time layout", parse.Pos(), layoutStr, "time layout is not a constant")
	if isConst {
		missing := []string{}
		for _, tok := range []string{"2006", "01", "02", "15", "04", "05", "Z"} {
			if !strings.Contains(layoutStr, tok) {
				missing = append(missing, tok)
			}
		}
		zone := ""
		for _, tok := range []string{"Z07", "-07", "MST", "Z0700", "-0700"} {
			if strings.Contains(layoutStr, tok) {
				zone = tok
			}
		}
		c.check(len(missing) == 0 && zone == "", R, fn, "layout is a full UTC timestamp", parse.Pos(), layoutStr,
			fmt.Sprintf("time layout %q: missing tokens %v, zone token %q (only ...Z timestamps are well-formed)", layoutStr, missing, zone))
	}
	c.ok(R, fn, "parsed field", parse.Pos(), "layout.Expires")
	// sibling agreement with validateLayout
	if vl := c.lookup("in_toto.validateLayout"); vl != nil {
		if p2 := firstCall(vl, "time.Parse"); p2 != nil {
			s2, _ := constString(p2.Common().Args[0])
			c.check(s2 == layoutStr, R, "in_toto.validateLayout", "same time layout constant", p2.Pos(), s2, fmt.Sprintf("validator uses %q, verifier %q", s2, layoutStr))
		}
	}
	// comparison with the current time
	t := resultN(parseInF, 0)
	found := false
	for _, b := range f.Blocks {
		for _, in := range b.Instrs {
			bo, ok := in.(*ssa.BinOp)
			if !ok {
				continue
			}
			// time.Until(t) op 0   |   time.Since(t) op 0
			x, y := bo.X, bo.Y
			op := bo.Op
			call, isCall := x.(*ssa.Call)
			if !isCall {
				if cy, ok := y.(*ssa.Call); ok {
					call, x, y, op = cy, y, x, flipOp(op)
					_ = x
				}
			}
			if call == nil {
				continue
			}
			k, isK := constInt(y)
			if !isK || k != 0 {
				continue
			}
			n := calleeName(call)
			if (n != "time.Until" && n != "time.Since") || resolve(call.Call.Args[0], call) != t {
				continue
			}
			found = true
			// expired by one nanosecond: Until = -1, Since = +1 ; valid for another hour: Until = +3600e9, Since = -3600e9
			pastVal, futVal := int64(-1), int64(3600e9)
			if n == "time.Since" {
				pastVal, futVal = 1, -3600e9
			}
			okPast, okFut := false, false
			for _, cu := range condUsers(bo, false) {
				if c.failing(branchTaken(cu, evalCmp(op, pastVal, 0))) {
					okPast = true
				}
				if !c.failing(branchTaken(cu, evalCmp(op, futVal, 0))) {
					okFut = true
				}
			}
			c.check(okPast, R, fn, "expired => failing", bo.Pos(), n+"(expires) "+op.String()+" 0 evaluated for an expiry in the past leads to a failing continuation", "an expiry in the past does not lead to an error")
			c.check(okFut, R, fn, "future => not failing", bo.Pos(), "an expiry in the future does not fail", "an expiry in the future is rejected")
		}
	}
	// method forms: now.After(t) / t.Before(now)
	for _, call := range allCalls(f) {
		n := calleeName(call)
		if n != "(time.Time).After" && n != "(time.Time).Before" {
			continue
		}
		args := call.Common().Args
		isNow := func(v ssa.Value) bool {
			if freshParam[resolve(v, call)] {
				return true
			}
			pc, _ := producer(v, call)
			return pc != nil && calleeName(pc) == "time.Now"
		}
		var expiredWhenTrue, recognised bool
		switch {
		case n == "(time.Time).After" && isNow(args[0]) && resolve(args[1], call) == t: // now.After(t)
			expiredWhenTrue, recognised = true, true
		case n == "(time.Time).Before" && resolve(args[0], call) == t && isNow(args[1]): // t.Before(now)
			expiredWhenTrue, recognised = true, true
		case n == "(time.Time).After" && resolve(args[0], call) == t && isNow(args[1]): // t.After(now): true = valid
			expiredWhenTrue, recognised = false, true
		case n == "(time.Time).Before" && isNow(args[0]) && resolve(args[1], call) == t: // now.Before(t): true = valid
			expiredWhenTrue, recognised = false, true
		}
		if !recognised {
			continue
		}
		found = true
		okPast := false
		for _, cu := range condUsers(call.Value(), false) {
			if c.failing(branchTaken(cu, expiredWhenTrue)) {
				okPast = true
			}
		}
		c.check(okPast, R, fn, "expired => failing", call.Pos(), n+" form; expired side is a failing continuation", "an expiry in the past does not lead to an error")
	}
	if !found {
		c.undecided(R, fn, "clock comparison", f.Pos(), "no recognised comparison of the parsed expiry with the current time (idioms: time.Until/Since(t) op 0, now.After(t), t.Before(now), t.After(now), now.Before(t))")
	}
}

// ---------------------------------------------------------------------------
// C08

func init() {
	register(&Property{ID: "C08",
		Explanation: "Decides structural clauses of 'sublayouts are verified recursively and replaced by their summary': (R-C08-1) VerifySublayouts ranges over the whole verified map (both levels), every element whose payload asserts (comma-ok) to Layout is passed to a verification entry point (the same implementation, hence subject to the C01/C02/C06/C09 rules), its error fails, success only after both loops; (R-C08-2) the verified map is the argument (wiring), and the key map passed down has exactly one entry: the parent layout's Keys[k] under the functionary key id k of the counted link; (R-C08-3) the summary replaces the link under the same k and the step name passed down is the outer map key; (R-C08-4) the link directory is Join(parentDir, Sprintf(SublayoutLinkDirFormat=\"%s.%.8s\", step, k)); (R-C08-5) later consumers obtain links by comma-ok assertion.",
		NotDecided:  []string{"termination of the recursion on adversarial directory structures", "the artifacts the parent sees beyond R-C05-3 applied one level down"},
		Rules: []Rule{
			{ID: "R-C08-1", Doc: "recursion exists, is complete, errors fail", Min: 5, Run: ruleC08_1},
			{ID: "R-C08-2", Doc: "keys passed down: exactly parent.Keys[k] under k", Min: 3, Run: ruleC08_2},
			{ID: "R-C08-3", Doc: "summary replaces the link under the same key; step name = outer key", Min: 2, Run: ruleC08_3},
			{ID: "R-C08-4", Doc: "sublayout link directory format", Min: 2, Run: ruleC08_4},
			{ID: "R-C08-5", Doc: "consumers assert Link with comma-ok", Min: 3, Run: ruleC08_5},
			a1Rule(1, "in_toto.VerifySublayouts"),
		}})
}

type sublayoutShape struct {
	f                  *ssa.Function
	outerNext, inNext  *ssa.Next
	outerKey, outerVal ssa.Value
	inKey, inVal       ssa.Value
	rec                ssa.CallInstruction
	recFn              *ssa.Function
	// the recursive call may sit in an unexported helper that VerifySublayouts calls per sublayout and whose results
	// are the recursive call's own: via is that call, helper the function
	via    ssa.CallInstruction
	helper *ssa.Function
}

// site: the call that stands for the recursion in VerifySublayouts itself.
func (s *sublayoutShape) site() ssa.CallInstruction {
	if s.via != nil {
		return s.via
	}
	return s.rec
}

// frame: the function that contains the recursive call.
func (s *sublayoutShape) frame() *ssa.Function {
	if s.helper != nil {
		return s.helper
	}
	return s.f
}

// up: a value of the frame seen from VerifySublayouts (helper parameters are replaced by the arguments).
func (s *sublayoutShape) up(v ssa.Value, at ssa.Instruction) ssa.Value {
	x := resolve(v, at)
	if s.via != nil {
		if prm, ok := x.(*ssa.Parameter); ok && prm.Parent() == s.helper && paramIndex(prm) < len(s.via.Common().Args) {
			return resolve(s.via.Common().Args[paramIndex(prm)], s.via)
		}
	}
	return x
}

// derivesUp: v (a value of the frame) derives from target (a value of VerifySublayouts), through helper parameters.
func (s *sublayoutShape) derivesUp(v ssa.Value, target ssa.Value) bool {
	return derives(v, func(x ssa.Value) bool {
		if x == target {
			return true
		}
		if s.via != nil {
			if prm, ok := x.(*ssa.Parameter); ok && prm.Parent() == s.helper && paramIndex(prm) < len(s.via.Common().Args) {
				return derives(s.via.Common().Args[paramIndex(prm)], func(y ssa.Value) bool { return y == target }, false)
			}
		}
		return false
	}, false)
}

func (c *Ctx) sublayoutShape(R string) *sublayoutShape {
	f := c.lookup("in_toto.VerifySublayouts")
	if f == nil {
		c.undecided(R, "in_toto.VerifySublayouts", "anchor", 0, "function not found")
		return nil
	}
	s := &sublayoutShape{f: f}
	for _, b := range f.Blocks {
		for _, in := range b.Instrs {
			rg, ok := in.(*ssa.Range)
			if !ok {
				continue
			}
			var nx *ssa.Next
			for _, r := range *rg.Referrers() {
				if n, ok := r.(*ssa.Next); ok {
					nx = n
				}
			}
			if nx == nil {
				continue
			}
			if rg.X == ssa.Value(f.Params[1]) {
				s.outerNext, s.outerKey, s.outerVal = nx, extractOf(nx, 1), extractOf(nx, 2)
			}
		}
	}
	if s.outerNext == nil {
		return s
	}
	for _, b := range f.Blocks {
		for _, in := range b.Instrs {
			rg, ok := in.(*ssa.Range)
			if !ok || rg.X != s.outerVal {
				continue
			}
			for _, r := range *rg.Referrers() {
				if n, ok := r.(*ssa.Next); ok {
					s.inNext, s.inKey, s.inVal = n, extractOf(n, 1), extractOf(n, 2)
				}
			}
		}
	}
	entries := map[*ssa.Function]bool{}
	for _, e := range c.entryPoints() {
		entries[e.f] = true
	}
	for _, call := range allCalls(f) {
		if g := call.Common().StaticCallee(); g != nil && entries[g] {
			s.rec, s.recFn = call, g
		}
	}
	if s.rec == nil {
		for _, via := range allCalls(f) {
			h := via.Common().StaticCallee()
			if !c.isStageHelper(h) {
				continue
			}
			for _, call := range allCalls(h) {
				if g := call.Common().StaticCallee(); g != nil && entries[g] && c.helperGuarantees(h, call) {
					s.rec, s.recFn, s.via, s.helper = call, g, via, h
				}
			}
		}
	}
	return s
}

func ruleC08_1(c *Ctx) {
	const R = "R-C08-1"
	s := c.sublayoutShape(R)
	if s == nil {
		return
	}
	fn := fname(s.f)
	c.check(s.outerNext != nil, R, fn, "range over all steps of the verified map", s.f.Pos(), "range over parameter 1", "the verified map parameter is not ranged over")
	c.check(s.inNext != nil, R, fn, "range over all links of a step", s.f.Pos(), "range over the outer range value", "the per-step map is not ranged over")
	if s.rec == nil {
		c.bad(R, fn, "recursive verification", s.f.Pos(), "no call of a verification entry point: sublayouts are not verified")
		return
	}
	// the recursive call verifies the iterated metadata and is control-dependent on payload.(Layout) ok
	okArg := s.inVal != nil && s.up(s.rec.Common().Args[0], s.rec) == s.inVal
	c.check(okArg, R, fn, "recursive call verifies the iterated link metadata", s.rec.Pos(), fname(s.recFn)+"(inner range value, ...)", "the recursive call verifies "+short(org(s.rec.Common().Args[0])))
	guard := false
	for _, b := range s.f.Blocks {
		for _, in := range b.Instrs {
			ta, ok := in.(*ssa.TypeAssert)
			if !ok || !ta.CommaOk || typeStr(ta.AssertedType) != "in_toto.Layout" {
				continue
			}
			gp, ok := resolve(ta.X, ta).(*ssa.Call)
			if !ok || !gp.Call.IsInvoke() || gp.Call.Method.Name() != "GetPayload" || gp.Call.Value != s.inVal {
				continue
			}
			if okv := extractOf(ta, 1); okv != nil {
				// every Layout payload reaches the call: the ok-true successor leads to the call block unconditionally
				for _, cu := range condUsers(okv, false) {
					tb := branchTaken(cu, true)
					sb := s.site().Block()
					if tb == sb || (tb.Dominates(sb) && postDominatesSimple(sb, tb)) {
						guard = true
					}
				}
			}
		}
	}
	c.check(guard, R, fn, "every Layout payload is verified", s.rec.Pos(), "ok-true edge of payload.(Layout) leads straight to the recursive call", "not every link whose payload is a Layout reaches the recursive verification")
	okErr := false
	if e := errResult(s.site()); e != nil {
		for _, br := range errBranches(e) {
			if c.failing(br.NonNil) {
				okErr = true
			}
		}
	}
	c.check(okErr, R, fn, "sublayout failure fails the whole verification", s.rec.Pos(), "non-nil side is a failing continuation", "an error inside a sublayout does not fail the parent verification")
	if okv := extractOf(s.outerNext, 0); okv != nil {
		for _, r := range c.nilErrReturns(s.f) {
			c.check(c.condAt(okv, false, r.Block()), R, fn, "success only after all steps were visited", instrPos(r), "dominated by outer range-done edge", "a success return is reachable before all steps/links were examined")
		}
	}
}

// postDominatesSimple: every path from `from` passes through b before leaving (approximation: b is reachable
// from `from` and no block on the way between them has a successor that avoids b ... implemented as: all
// successors chains from `from` hit b before a Return/back edge).
func postDominatesSimple(b, from *ssa.BasicBlock) bool {
	seen := map[*ssa.BasicBlock]bool{}
	var walk func(x *ssa.BasicBlock) bool
	walk = func(x *ssa.BasicBlock) bool {
		if x == b {
			return true
		}
		if seen[x] {
			return true
		}
		seen[x] = true
		if len(x.Succs) == 0 {
			return false
		}
		for _, s := range x.Succs {
			if !from.Dominates(s) && s != b {
				return false
			}
			if !walk(s) {
				return false
			}
		}
		return true
	}
	return walk(from)
}

func ruleC08_2(c *Ctx) {
	const R = "R-C08-2"
	s := c.sublayoutShape(R)
	if s == nil || s.rec == nil {
		c.bad(R, "in_toto.VerifySublayouts", "keys passed down", 0, "no recursive call")
		return
	}
	fn := fname(s.f)
	// which argument is the key map
	var keysArg ssa.Value
	for i, prm := range s.recFn.Params {
		if typeStr(prm.Type()) == "map[string]in_toto.Key" {
			keysArg = s.rec.Common().Args[i]
		}
	}
	mk, ok := s.up(keysArg, s.rec).(*ssa.MakeMap)
	c.check(ok, R, fn, "fresh key map", s.rec.Pos(), "make(map[string]Key)", "the key map passed to the sublayout verification is not a fresh map: "+short(org(keysArg)))
	if !ok {
		return
	}
	var ups []*ssa.MapUpdate
	for _, r := range *mk.Referrers() {
		if mu, ok := r.(*ssa.MapUpdate); ok {
			ups = append(ups, mu)
		}
	}
	c.check(len(ups) == 1, R, fn, "exactly one key is trusted for the sublayout", mk.Pos(), "one MapUpdate", fmt.Sprintf("%d entries are stored into the sublayout key map", len(ups)))
	// fresh per sublayout: the map is made inside the loop over the step's links, so keys of functionaries whose
	// sublayouts were resolved earlier do not accumulate
	inLoop := false
	perCall := mk.Parent() == s.helper && s.helper != nil // made by the helper: fresh for every call; the call is in the loop
	for _, ml := range mapLoops(s.f) {
		blk := mk.Block()
		if perCall {
			blk = s.via.Block()
		}
		if ml.next == s.inNext && ml.body[blk] && blk != ml.header {
			inLoop = true
		}
	}
	c.check(inLoop, R, fn, "the key map is fresh for every sublayout", mk.Pos(), "made inside the per-link loop", "the key map passed to sublayout verification is created outside the per-link loop: keys of earlier sublayouts accumulate, and every later sublayout must also carry signatures of the earlier functionaries")
	for _, mu := range ups {
		keyOK := s.up(mu.Key, mu) == s.inKey
		valOK := false
		if lk, ok := s.up(mu.Value, mu).(*ssa.Lookup); ok {
			valOK = org(lk.X) == "p0.Keys" && resolve(lk.Index, lk) == s.inKey
		}
		c.check(keyOK && valOK, R, fn, "trusted key is parent.Keys[k] under functionary key id k", mu.Pos(), org(mu.Map)+"{"+org(mu.Key)+"} = "+org(mu.Value),
			"the sublayout is verified against "+short(org(mu.Value))+" stored under "+short(org(mu.Key))+", not against the parent layout's key of the functionary who was counted")
	}
}

func ruleC08_3(c *Ctx) {
	const R = "R-C08-3"
	s := c.sublayoutShape(R)
	if s == nil || s.rec == nil {
		c.bad(R, "in_toto.VerifySublayouts", "replacement", 0, "no recursive call")
		return
	}
	fn := fname(s.f)
	replaced := false
	for _, b := range s.f.Blocks {
		for _, in := range b.Instrs {
			mu, ok := in.(*ssa.MapUpdate)
			if !ok || mu.Map != s.outerVal {
				continue
			}
			pc, idx := producer(mu.Value, mu)
			if pc == s.site() && idx == 0 && resolve(mu.Key, mu) == s.inKey && c.okCallAt(s.site(), mu.Block()) {
				replaced = true
			}
		}
	}
	c.check(replaced, R, fn, "summary link replaces the sublayout under the same key", s.rec.Pos(), "linkData[k] = summary on the nil-error edge", "the sublayout's summary link is not stored back under the functionary's key id")
	// step name passed down = outer key: the callee parameter that reaches GetSummaryLink's name argument
	nameIdx := -1
	if gs := c.stage(s.recFn, "in_toto.GetSummaryLink"); gs != nil {
		v, at := gs.arg(2)
		if prm, ok := resolve(v, at).(*ssa.Parameter); ok && prm.Parent() == s.recFn {
			nameIdx = paramIndex(prm)
		}
	}
	okName := nameIdx >= 0 && s.up(s.rec.Common().Args[nameIdx], s.rec) == s.outerKey
	c.check(okName, R, fn, "summary is named after the step", s.rec.Pos(), "step-name argument is the outer map key", "the name passed for the summary link is not the step's name")
}

func ruleC08_4(c *Ctx) {
	const R = "R-C08-4"
	s := c.sublayoutShape(R)
	if s == nil || s.rec == nil {
		c.bad(R, "in_toto.VerifySublayouts", "link dir", 0, "no recursive call")
		return
	}
	fn := fname(s.f)
	// link-dir parameter of the callee: the string parameter that reaches LoadLinksForLayout arg 1
	dirIdx := -1
	if ll := c.stage(s.recFn, "in_toto.LoadLinksForLayout"); ll != nil {
		v, at := ll.arg(1)
		if prm, ok := resolve(v, at).(*ssa.Parameter); ok && prm.Parent() == s.recFn {
			dirIdx = paramIndex(prm)
		}
	}
	if dirIdx < 0 {
		c.undecided(R, fn, "link dir parameter", s.rec.Pos(), "cannot identify the callee's link directory parameter")
		return
	}
	o := org(s.rec.Common().Args[dirIdx])
	// expected: filepath.Join(varargs[p2, Sprintf(const, varargs[outerKey, innerKey])])
	join, ok := s.up(s.rec.Common().Args[dirIdx], s.rec).(*ssa.Call)
	okJoin := ok && calleeName(join) == "path/filepath.Join"
	var spf *ssa.Call
	usesParent := false
	if okJoin {
		usesParent = s.derivesUp(join.Call.Args[0], ssa.Value(s.f.Params[2]))
		derives(join.Call.Args[0], func(v ssa.Value) bool {
			if k, ok := v.(*ssa.Call); ok && calleeName(k) == "fmt.Sprintf" {
				spf = k
			}
			return false
		}, false)
	}
	c.check(okJoin && usesParent && spf != nil, R, fn, "sublayout dir = Join(parent link dir, Sprintf(format, step, keyid))", s.rec.Pos(), short(o), "sublayout link directory is "+short(o))
	if spf != nil {
		format, _ := constString(spf.Call.Args[0])
		c.check(format == "%s.%.8s", R, fn, "SublayoutLinkDirFormat", spf.Pos(), format, fmt.Sprintf("format is %q, the spec'd sublayout directory is <step>.<8 char keyid prefix> (\"%%s.%%.8s\")", format))
		a0 := s.derivesUp(spf.Call.Args[1], s.outerKey)
		a1 := s.derivesUp(spf.Call.Args[1], s.inKey)
		c.check(a0 && a1, R, fn, "format arguments are (step name, functionary key id)", spf.Pos(), short(org(spf.Call.Args[1])), "the directory name is not built from the step name and the functionary key id")
	}
}

func ruleC08_5(c *Ctx) {
	const R = "R-C08-5"
	// every function of the module below the verification entry points (the consumers of the verified map and the
	// helpers they obtain links through)
	var roots []*ssa.Function
	for _, e := range c.entryPoints() {
		roots = append(roots, e.f)
	}
	if len(roots) == 0 {
		c.undecided(R, "in_toto", "anchors", 0, "entry points not found")
		return
	}
	var fs []*ssa.Function
	for f := range reachable(c.CG, roots...) {
		if f.Blocks != nil && f.Pkg != nil && f.Pkg == c.pkg("in_toto") {
			fs = append(fs, f)
		}
	}
	sort.Slice(fs, func(i, j int) bool { return fname(fs[i]) < fname(fs[j]) })
	for _, f := range fs {
		n := fname(f)
		for _, b := range f.Blocks {
			for _, in := range b.Instrs {
				ta, ok := in.(*ssa.TypeAssert)
				if !ok || typeStr(ta.AssertedType) != "in_toto.Link" {
					continue
				}
				if !ta.CommaOk {
					c.bad(R, n, "payload.(Link)", ta.Pos(), "unchecked assertion: an unresolved sublayout (Layout payload) would panic here")
					continue
				}
				okv := extractOf(ta, 1)
				good := false
				if okv != nil {
					for _, cu := range condUsers(okv, false) {
						fb := branchTaken(cu, false)
						if errIndex(f) >= 0 {
							good = good || c.failing(fb)
						} else {
							// functions without error result must leave (return) on !ok
							_, isRet := fb.Instrs[len(fb.Instrs)-1].(*ssa.Return)
							good = good || isRet
						}
					}
				}
				c.check(good, R, n, "payload.(Link) comma-ok", ta.Pos(), "!ok side fails / returns", "a non-link payload is used as a link")
			}
		}
	}
}

// ---------------------------------------------------------------------------
// C09

func init() {
	register(&Property{ID: "C09",
		Explanation: "Decides structural clauses of 'inspections are executed and their rules checked': (R-C09-1) in both entry points RunInspections lies where thresholds, sublayouts, reduce and the step-rule VerifyArtifacts are known to have succeeded, and every success return lies where RunInspections and the inspection-rule VerifyArtifacts succeeded; (R-C09-2) RunInspections ranges over layout.Inspect in slice order, runs InTotoRun with the inspection's Run as command and identical material/product paths, fails on its error and on a non-zero return-value by-product, and stores the produced link under the inspection's name; (R-C09-3) writer and reader of the exit status agree on key and dynamic type; (R-C09-4) InTotoRun records materials before and products after the command, fails on RunCommand's error and stores its capture as by-products; (R-C09-5) command execution is reachable from verification only through RunInspections -> InTotoRun -> RunCommand.",
		NotDecided:  []string{"that recorded artifacts equal the real directory contents (C13)", "rule verdicts (C03)", "behaviour of specific commands"},
		Rules: []Rule{
			{ID: "R-C09-1", Doc: "ordering of inspections relative to step checks and success returns", Min: 12, Run: ruleC09_1},
			{ID: "R-C09-2", Doc: "shape of RunInspections", Min: 7, Run: ruleC09_2},
			{ID: "R-C09-3", Doc: "exit status writer/reader agreement", Min: 2, Run: ruleC09_3},
			{ID: "R-C09-4", Doc: "snapshot discipline in InTotoRun", Min: 6, Run: ruleC09_4},
			{ID: "R-C09-5", Doc: "who may execute commands", Min: 3, Run: ruleC09_5},
			a1Rule(10, "in_toto.RunInspections", "in_toto.InTotoRun", "in_toto.RunCommand"),
		},
	})
}

func ruleC09_1(c *Ctx) {
	const R = "R-C09-1"
	for _, e := range c.entryPoints() {
		fn := fname(e.f)
		ri := c.stage(e.f, "in_toto.RunInspections")
		if ri == nil {
			c.bad(R, fn, "RunInspections", e.f.Pos(), "inspections are never run")
			continue
		}
		stepsVA, inspVA := c.vaStages(e.f)
		pre := map[string]*stageCall{
			"VerifyLinkSignatureThesholds": c.stage(e.f, "in_toto.VerifyLinkSignatureThesholds"),
			"VerifySublayouts":             c.stage(e.f, "in_toto.VerifySublayouts"),
			"ReduceStepsMetadata":          c.stage(e.f, "in_toto.ReduceStepsMetadata"),
			"VerifyArtifacts(steps)":       stepsVA,
		}
		for _, n := range []string{"VerifyLinkSignatureThesholds", "VerifySublayouts", "ReduceStepsMetadata", "VerifyArtifacts(steps)"} {
			c.check(c.stageAfter(ri, pre[n]), R, fn, "RunInspections after successful "+n, ri.site().Pos(), "dominated by nil-error edge", "inspection commands can run although "+n+" has not succeeded")
		}
		for _, r := range c.nilErrReturns(e.f) {
			c.check(c.stageOKAt(ri, r.Block()), R, fn, "success return after successful RunInspections", instrPos(r), "dominated by nil-error edge", "verification can succeed without the inspections having run successfully")
			c.check(inspVA != nil && c.stageOKAt(inspVA, r.Block()), R, fn, "success return after successful inspection rules", instrPos(r), "dominated by nil-error edge of VerifyArtifacts(inspect)", "verification can succeed without the inspection rules having been checked")
		}
		// option wiring (R-C09-6): run directory, line normalisation and wrapper kind reach RunInspections unchanged
		c.optionWiring(e, ri)
	}
	// inspectAsInterfaceSlice covers the whole slice
	for _, n := range []string{"(*in_toto.Layout).inspectAsInterfaceSlice", "(*in_toto.Layout).stepsAsInterfaceSlice"} {
		f := c.lookup(n)
		if f == nil {
			c.undecided(R, n, "anchor", 0, "not found")
			continue
		}
		field := "Inspect"
		if strings.Contains(n, "steps") {
			field = "Steps"
		}
		okAll := false
		for _, b := range f.Blocks {
			for _, in := range b.Instrs {
				if st, ok := in.(*ssa.Store); ok {
					if ia, ok := st.Addr.(*ssa.IndexAddr); ok {
						if _, isMk := resolve(ia.X, st).(*ssa.MakeSlice); isMk && strings.HasPrefix(org(st.Val), "p0."+field+"[*]") {
							okAll = true
						}
					}
				}
			}
		}
		c.check(okAll, R, n, "every element of "+field+" is passed on", f.Pos(), "out[i] = l."+field+"[i] for the whole range", "not every element of layout."+field+" reaches rule verification")
	}
}

func ruleC09_2(c *Ctx) {
	const R = "R-C09-2"
	f := c.lookup("in_toto.RunInspections")
	if f == nil {
		c.undecided(R, "in_toto.RunInspections", "anchor", 0, "function not found")
		return
	}
	fn := fname(f)
	// the InTotoRun call: in RunInspections or in an unexported helper below it (per-inspection body extracted)
	rs := c.stage(f, "in_toto.InTotoRun")
	if rs == nil {
		c.bad(R, fn, "InTotoRun", f.Pos(), "inspection commands are not executed through InTotoRun")
		return
	}
	run := rs.call
	inner := f
	if g := rs.inner(); g != nil {
		inner = g
	}
	// access paths of the inner frame seen from RunInspections
	subst := map[*ssa.Parameter]string{}
	for k := len(rs.path) - 1; k >= 0; k-- {
		vf := rs.path[k]
		for i, prm := range vf.g.Params {
			if i < len(vf.via.Common().Args) {
				subst[prm] = orgSubst(vf.via.Common().Args[i], subst)
			}
		}
	}
	// parameters of outer helpers are substituted after inner ones were rendered; render again outermost-first
	for k := 0; k < len(rs.path); k++ {
		vf := rs.path[k]
		for i, prm := range vf.g.Params {
			if i < len(vf.via.Common().Args) {
				subst[prm] = orgSubst(vf.via.Common().Args[i], subst)
			}
		}
	}
	o := func(v ssa.Value) string { return orgSubst(v, subst) }
	args := run.Common().Args
	c.check(o(args[0]) == "p0.Inspect[*].SupplyChainItem.Name", R, fn, "link name = inspection name", run.Pos(), o(args[0]), "link is named "+o(args[0]))
	c.check(o(args[4]) == "p0.Inspect[*].Run", R, fn, "command = inspection.Run", run.Pos(), o(args[4]), "executed command is "+o(args[4]))
	c.check(args[2] == args[3], R, fn, "materials and products are recorded over the same paths", run.Pos(), "same SSA value", "material paths and product paths differ")
	c.check(o(args[1]) == "p1", R, fn, "run directory parameter passed on", run.Pos(), "p1", "run dir is "+o(args[1]))
	// a failure fails, in every frame on the way up
	failsUp := func(call ssa.CallInstruction) bool {
		e := errResult(call)
		if e == nil {
			return false
		}
		for _, br := range errBranches(e) {
			if c.failing(br.NonNil) {
				return true
			}
		}
		return false
	}
	okErr := failsUp(run)
	for _, vf := range rs.path {
		okErr = okErr && failsUp(vf.via)
	}
	c.check(okErr, R, fn, "command start failure fails", run.Pos(), "non-nil side is a failing continuation", "an inspection that cannot be run does not fail verification")
	// whole-slice index loop over p0.Inspect in order: the element index is the loop's induction variable
	okLoop := false
	for _, b := range f.Blocks {
		for _, in := range b.Instrs {
			if ia, ok := in.(*ssa.IndexAddr); ok && org(ia.X) == "p0.Inspect" {
				if bo, ok := ia.Index.(*ssa.BinOp); ok && bo.Op == token.ADD {
					if ph, ok := bo.X.(*ssa.Phi); ok && ph.Comment == "rangeindex" {
						okLoop = true
					}
				}
			}
		}
	}
	c.check(okLoop, R, fn, "range over layout.Inspect in slice order", f.Pos(), "range-index loop", "inspections are not iterated with a plain range over layout.Inspect")
	// return-value check (in the frame of the InTotoRun call)
	okRV := false
	var cmp *ssa.BinOp
	for _, b := range inner.Blocks {
		for _, in := range b.Instrs {
			bo, ok := in.(*ssa.BinOp)
			if !ok || (bo.Op != token.NEQ && bo.Op != token.EQL) {
				continue
			}
			x, y := org(bo.X), org(bo.Y)
			if strings.HasSuffix(x, `.ByProducts{const("return-value")}`) && strings.HasPrefix(y, "const(0") || strings.HasSuffix(y, `.ByProducts{const("return-value")}`) && strings.HasPrefix(x, "const(0") {
				src := bo.X
				if strings.HasPrefix(x, "const(") {
					src = bo.Y
				}
				if derives(src, func(v ssa.Value) bool { return v == run.Value() }, true) {
					cmp = bo
				}
			}
		}
	}
	if cmp != nil {
		for _, cu := range condUsers(cmp, false) {
			// "not equal to zero" side
			if c.failing(branchTaken(cu, cmp.Op == token.NEQ)) {
				okRV = true
			}
		}
		for _, vf := range rs.path {
			okRV = okRV && failsUp(vf.via)
		}
	}
	pos := f.Pos()
	if cmp != nil {
		pos = cmp.Pos()
	}
	c.check(okRV, R, fn, "non-zero exit status fails", pos, "ByProducts[\"return-value\"] != 0 leads to a failing continuation", "an inspection command's non-zero exit status does not fail verification")
	// stored under the inspection name
	okStore := false
	for _, b := range f.Blocks {
		for _, in := range b.Instrs {
			if mu, ok := in.(*ssa.MapUpdate); ok {
				n, idx := c.deepProducer(mu.Value, mu)
				if n == "in_toto.InTotoRun" && idx == 0 && org(mu.Key) == "p0.Inspect[*].SupplyChainItem.Name" {
					if _, isMk := mu.Map.(*ssa.MakeMap); isMk {
						okStore = true
						for _, r := range c.nilErrReturns(f) {
							if resolve(r.Results[0], r) != mu.Map {
								okStore = false
							}
						}
					}
				}
			}
		}
	}
	c.check(okStore, R, fn, "produced link stored under the inspection name and returned", f.Pos(), "result[inspection.Name] = InTotoRun#0", "the link produced by the inspection is not what is returned under its name")
}

func ruleC09_3(c *Ctx) {
	const R = "R-C09-3"
	rc := c.lookup("in_toto.RunCommand")
	ri := c.lookup("in_toto.RunInspections")
	if rc == nil || ri == nil {
		c.undecided(R, "in_toto.RunCommand", "anchor", 0, "RunCommand/RunInspections not found")
		return
	}
	wtype := ""
	var wpos token.Pos
	for _, wf := range helperClosure(rc, 2) {
		for _, b := range wf.Blocks {
			for _, in := range b.Instrs {
				mu, ok := in.(*ssa.MapUpdate)
				if !ok {
					continue
				}
				if k, ok := constString(mu.Key); ok && k == "return-value" {
					if mi, ok := mu.Value.(*ssa.MakeInterface); ok {
						wtype = typeStr(mi.X.Type())
						wpos = mu.Pos()
					}
				}
			}
		}
	}
	c.check(wtype != "", R, fname(rc), "writes by-product \"return-value\"", wpos, "dynamic type "+wtype, "RunCommand does not store the exit status under \"return-value\"")
	rtype := ""
	var rpos token.Pos
	readers := []*ssa.Function{ri}
	for g := range c.ownedBy(ri) {
		if g != ri {
			readers = append(readers, g)
		}
	}
	for _, rf := range readers {
		for _, b := range rf.Blocks {
			for _, in := range b.Instrs {
				if bo, ok := in.(*ssa.BinOp); ok && (bo.Op == token.NEQ || bo.Op == token.EQL) {
					for _, side := range [][2]ssa.Value{{bo.X, bo.Y}, {bo.Y, bo.X}} {
						if strings.HasSuffix(org(side[0]), `.ByProducts{const("return-value")}`) {
							if mi, ok := side[1].(*ssa.MakeInterface); ok {
								rtype = typeStr(mi.X.Type())
								rpos = bo.Pos()
							}
						}
					}
				}
			}
		}
	}
	c.check(rtype != "" && rtype == wtype, R, fname(ri), "compares \"return-value\" with a constant of the writer's dynamic type", rpos, "reader "+rtype+" == writer "+wtype,
		fmt.Sprintf("RunInspections compares the by-product with a %q constant but RunCommand stores a %q: an interface comparison of different dynamic types is never equal", rtype, wtype))
}

func ruleC09_4(c *Ctx) {
	const R = "R-C09-4"
	f := c.lookup("in_toto.InTotoRun")
	if f == nil {
		c.undecided(R, "in_toto.InTotoRun", "anchor", 0, "function not found")
		return
	}
	fn := fname(f)
	rc := firstCall(f, "in_toto.RunCommand")
	var mat, prod ssa.CallInstruction
	for _, ra := range callsIn(f, "in_toto.RecordArtifacts") {
		switch org(ra.Common().Args[0]) {
		case "p2":
			mat = ra
		case "p3":
			prod = ra
		}
	}
	// RunCommand behind an unexported helper that is handed the command and the directory, returns RunCommand's results
	// as they are, and otherwise returns without error only for the empty command
	var inner ssa.CallInstruction
	var innerFrame *ssa.Function
	cmdIdx, dirIdx := 0, 1
	if rc == nil {
		for _, via := range allCalls(f) {
			h := via.Common().StaticCallee()
			if h == nil || h.Blocks == nil || h.Pkg != f.Pkg || h.Parent() != nil || h.Object() == nil || h.Object().Exported() || !hasErrResult(via) {
				continue
			}
			ic := firstCall(h, "in_toto.RunCommand")
			if ic == nil || len(callsIn(h, "in_toto.RunCommand")) != 1 {
				continue
			}
			p0, ok0 := resolve(ic.Common().Args[0], ic).(*ssa.Parameter)
			p1, ok1 := resolve(ic.Common().Args[1], ic).(*ssa.Parameter)
			if !ok0 || !ok1 || p0.Parent() != h || p1.Parent() != h {
				continue
			}
			okShape := true
			direct := false
			for _, r := range returnsOf(h) {
				if pc, idx := producer(r.Results[0], r); pc == ic && idx == 0 {
					if pe, ie := producer(r.Results[len(r.Results)-1], r); pe == ic && ie == len(r.Results)-1 {
						direct = true
						continue
					}
				}
				if !c.mayBeNilErr(r.Results[len(r.Results)-1], r.Block(), 0) {
					continue
				}
				// a nil-error return without running anything: only for the empty command
				emptyOnly := false
				for _, ft := range c.factsAt(r.Block()) {
					v0, okA := evalLenCond(ft.v, func(v ssa.Value) bool { return resolve(v, nil) == ssa.Value(p0) }, 0)
					v1, okB := evalLenCond(ft.v, func(v ssa.Value) bool { return resolve(v, nil) == ssa.Value(p0) }, 1)
					v2, okC := evalLenCond(ft.v, func(v ssa.Value) bool { return resolve(v, nil) == ssa.Value(p0) }, 2)
					if okA && okB && okC && v0 == ft.val && v1 != ft.val && v2 != ft.val {
						emptyOnly = true
					}
				}
				okShape = okShape && emptyOnly
			}
			if okShape && direct {
				rc, inner, innerFrame = via, ic, h
				cmdIdx, dirIdx = paramIndex(p0), paramIndex(p1)
			}
		}
	}
	if rc == nil || mat == nil || prod == nil {
		c.bad(R, fn, "snapshot calls", f.Pos(), "expected RecordArtifacts(materialPaths), RunCommand, RecordArtifacts(productPaths)")
		return
	}
	c.check(instrDominates(mat, rc) && c.okCallAt(mat, rc.Block()), R, fn, "materials recorded (successfully) before the command runs", mat.Pos(), "RecordArtifacts(materialPaths) dominates RunCommand on its nil-error edge", "the command can run before the materials were recorded")
	c.check(!reaches(prod.Block(), rc.Block()) && reaches(rc.Block(), prod.Block()) && mat.Block().Dominates(prod.Block()), R, fn, "products recorded after the command", prod.Pos(), "no path from the product snapshot back to RunCommand", "the product snapshot can be taken before the command runs")
	okErr := false
	if e := errResult(rc); e != nil {
		for _, br := range errBranches(e) {
			okErr = okErr || c.failing(br.NonNil)
		}
	}
	c.check(okErr, R, fn, "command failure fails", rc.Pos(), "non-nil side is a failing continuation", "RunCommand's error is not fatal")
	c.check(org(rc.Common().Args[cmdIdx]) == "p4" && org(rc.Common().Args[dirIdx]) == "p1", R, fn, "command and run dir are the parameters", rc.Pos(), "RunCommand(cmdArgs, runDir)", "RunCommand("+org(rc.Common().Args[cmdIdx])+", "+org(rc.Common().Args[dirIdx])+")")
	// every non-empty command is handed to RunCommand: the call is control-dependent only on the emptiness test of the
	// command and on earlier stages having succeeded; any further condition silently skips commands (which RunCommand
	// would run, or refuse with an error)
	isCmd := func(v ssa.Value) bool { return org(v) == "p4" }
	var extra []string
	facts := c.factsAt(rc.Block())
	if inner != nil {
		// the conditions inside the helper count as well (its command parameter is the command)
		isOuter := isCmd
		isCmd = func(v ssa.Value) bool {
			return isOuter(v) || (innerFrame != nil && cmdIdx < len(innerFrame.Params) && resolve(v, nil) == ssa.Value(innerFrame.Params[cmdIdx]))
		}
		facts = append(append([]fact{}, facts...), c.factsAt(inner.Block())...)
	}
	for _, ft := range facts {
		if v1, ok := evalLenCond(ft.v, isCmd, 1); ok {
			if v1 != ft.val {
				extra = append(extra, "a length condition that excludes one-element commands")
			}
			continue
		}
		if bo, ok := ft.v.(*ssa.BinOp); ok && (bo.Op == token.EQL || bo.Op == token.NEQ) && (isNilConst(bo.X) || isNilConst(bo.Y)) {
			other := bo.X
			if isNilConst(other) {
				other = bo.Y
			}
			if isErrorType(other.Type()) {
				continue // an earlier stage succeeded
			}
		}
		extra = append(extra, short(org(ft.v))+fmt.Sprintf(" == %v", ft.val))
	}
	sort.Strings(extra)
	c.check(len(extra) == 0, R, fn, "every non-empty command reaches RunCommand", rc.Pos(), "RunCommand is control-dependent only on len(cmdArgs) != 0 and on earlier errors being nil", "the command is run only under an additional condition ("+strings.Join(extra, "; ")+"): other commands are silently skipped and a link without by-products is produced instead of RunCommand's result or error")
	// link literal
	want := map[string]func(v ssa.Value, at ssa.Instruction) bool{
		"Materials": func(v ssa.Value, at ssa.Instruction) bool { p, i := producer(v, at); return p == mat && i == 0 },
		"Products":  func(v ssa.Value, at ssa.Instruction) bool { p, i := producer(v, at); return p == prod && i == 0 },
		"ByProducts": func(v ssa.Value, at ssa.Instruction) bool {
			return derives(v, func(x ssa.Value) bool { return x == rc.Value() }, false)
		},
		"Command": func(v ssa.Value, at ssa.Instruction) bool { return org(v) == "p4" },
		"Name":    func(v ssa.Value, at ssa.Instruction) bool { return org(v) == "p0" },
	}
	seen := map[string]bool{}
	for _, b := range f.Blocks {
		for _, in := range b.Instrs {
			st, ok := in.(*ssa.Store)
			if !ok {
				continue
			}
			fa, ok := st.Addr.(*ssa.FieldAddr)
			if !ok || typeStr(fa.X.Type()) != "*in_toto.Link" {
				continue
			}
			name := fieldName(fa.X.Type(), fa.Field)
			if chk := want[name]; chk != nil {
				seen[name] = true
				c.check(chk(st.Val, st), R, fn, "link."+name, st.Pos(), short(org(st.Val)), "link."+name+" is "+short(org(st.Val)))
			}
		}
	}
	for n := range want {
		if !seen[n] {
			c.bad(R, fn, "link."+n, f.Pos(), "field never set")
		}
	}
}

func ruleC09_5(c *Ctx) {
	const R = "R-C09-5"
	inToto := c.srcFuncs("in_toto")
	callersOf := func(pred func(string) bool) []string {
		var out []string
		for _, f := range inToto {
			for _, call := range allCalls(f) {
				if pred(calleeName(call)) {
					out = append(out, fname(f))
					break
				}
			}
		}
		return out
	}
	execUsers := callersOf(func(n string) bool {
		return n == "os/exec.Command" || n == "os/exec.CommandContext" || strings.HasPrefix(n, "(*os/exec.Cmd).") || n == "os.StartProcess" || n == "syscall.Exec" || n == "syscall.ForkExec"
	})
	// a function "owns" the unexported helpers that only it (or helpers it owns) calls
	within := func(users []string, owner string) bool {
		own := c.ownedBy(c.lookup(owner))
		if len(users) == 0 {
			return false
		}
		for _, u := range users {
			if f := c.lookup(u); f == nil || !own[f] {
				return false
			}
		}
		return true
	}
	c.check(within(execUsers, "in_toto.RunCommand"), R, "in_toto", "os/exec is used only by RunCommand", 0, fmt.Sprint(execUsers), fmt.Sprintf("os/exec is used by %v", execUsers))
	rcUsers := callersOf(func(n string) bool { return n == "in_toto.RunCommand" })
	c.check(within(rcUsers, "in_toto.InTotoRun"), R, "in_toto", "RunCommand is called only by InTotoRun", 0, fmt.Sprint(rcUsers), fmt.Sprintf("RunCommand is called by %v", rcUsers))
	// from the entry points, InTotoRun is reached only through RunInspections
	var roots []*ssa.Function
	for _, e := range c.entryPoints() {
		roots = append(roots, e.f)
	}
	reach := reachable(c.CG, roots...)
	var runUsers []string
	for _, f := range inToto {
		if !reach[f] {
			continue
		}
		for _, call := range allCalls(f) {
			if calleeName(call) == "in_toto.InTotoRun" {
				runUsers = append(runUsers, fname(f))
				break
			}
		}
	}
	c.check(within(runUsers, "in_toto.RunInspections"), R, "in_toto", "from verification, InTotoRun is called only by RunInspections", 0, fmt.Sprint(runUsers), fmt.Sprintf("InTotoRun is called from %v on the verification paths", runUsers))
}

// ownedBy: root and the unexported functions of its package all of whose callers are root or functions owned by root.
func (p *Prog) ownedBy(root *ssa.Function) map[*ssa.Function]bool {
	own := map[*ssa.Function]bool{}
	if root == nil {
		return own
	}
	own[root] = true
	for changed := true; changed; {
		changed = false
		for f := range own {
			for _, call := range allCalls(f) {
				g := call.Common().StaticCallee()
				if g == nil || own[g] || g.Blocks == nil || g.Pkg != root.Pkg || (g.Object() != nil && g.Object().Exported()) {
					continue
				}
				node := p.CG.Nodes[g]
				if node == nil || len(node.In) == 0 {
					continue
				}
				all := true
				for _, in := range node.In {
					if !own[in.Caller.Func] {
						all = false
					}
				}
				if all {
					own[g] = true
					changed = true
				}
			}
		}
	}
	return own
}

// optionWiring checks that the entry point's options reach the stages that take them, also through a helper:
// RunInspections(layout, runDir|"", lineNormalization, useDSSE), VerifySublayouts(..., linkDir, intermediatePems,
// lineNormalization), GetSummaryLink(..., stepName, useDSSE).
func (c *Ctx) optionWiring(e entry, ri *stageCall) {
	const R = "R-C09-6"
	fn := fname(e.f)
	// the entry point's bool parameter (line normalisation) and the wrapper-kind value
	var boolParam *ssa.Parameter
	for _, prm := range e.f.Params {
		if isBool(prm.Type().Underlying()) {
			boolParam = prm
		}
	}
	isUseDSSE := func(v ssa.Value, at ssa.Instruction) bool {
		return c.useDSSEIn(e.f, e.env, v, at, 0)
	}
	isParam := func(v ssa.Value, at ssa.Instruction, prm *ssa.Parameter) bool {
		return prm != nil && resolve(v, at) == ssa.Value(prm)
	}
	if ri != nil {
		v, at := ri.arg(2)
		c.check(isParam(v, at, boolParam), R, fn, "RunInspections gets the caller's line-normalisation flag", ri.site().Pos(), "lineNormalization parameter", "RunInspections' lineNormalization argument is "+short(org(v))+", not the entry point's flag")
		v, at = ri.arg(3)
		c.check(isUseDSSE(v, at), R, fn, "RunInspections gets the wrapper kind of the layout", ri.site().Pos(), "useDSSE = layoutEnv is *Envelope", "RunInspections' useDSSE argument is "+short(org(v))+", not derived from the layout's wrapper")
		v, at = ri.arg(1)
		rv := resolve(v, at)
		okDir := false
		if s, isS := constString(rv); isS && s == "" {
			okDir = true
		}
		if prm, isP := rv.(*ssa.Parameter); isP {
			// the run directory parameter is the one that was checked with os.Stat
			for _, st := range callsIn(e.f, "os.Stat") {
				if resolve(st.Common().Args[0], st) == ssa.Value(prm) {
					okDir = true
				}
			}
			// ... or by an unexported helper that is handed the parameter and whose error refuses
			for _, via := range allCalls(e.f) {
				h := via.Common().StaticCallee()
				if okDir || h == nil || h.Blocks == nil || h.Pkg != e.f.Pkg || h.Parent() != nil || h.Object() == nil || h.Object().Exported() || !hasErrResult(via) {
					continue
				}
				for j, a := range via.Common().Args {
					if resolve(a, via) != ssa.Value(prm) || j >= len(h.Params) {
						continue
					}
					for _, st := range callsIn(h, "os.Stat") {
						if resolve(st.Common().Args[0], st) == ssa.Value(h.Params[j]) && c.helperGuarantees(h, st) {
							okDir = true
						}
					}
				}
			}
		}
		c.check(okDir, R, fn, "RunInspections runs in the requested directory", ri.site().Pos(), "\"\" or the checked runDir parameter", "inspections run in "+short(org(v)))
	}
	if vs := c.stage(e.f, "in_toto.VerifySublayouts"); vs != nil {
		v, at := vs.arg(4)
		c.check(isParam(v, at, boolParam), R, fn, "VerifySublayouts gets the caller's line-normalisation flag", vs.site().Pos(), "lineNormalization parameter", "argument is "+short(org(v)))
		// link dir and intermediates are the ones used for this layout's own links / pools
		ll := c.stage(e.f, "in_toto.LoadLinksForLayout")
		lc := c.stage(e.f, "in_toto.LoadLayoutCertificates")
		if ll != nil {
			a, aat := vs.arg(2)
			b, bat := ll.arg(1)
			c.check(resolve(a, aat) == resolve(b, bat), R, fn, "sublayout directories are resolved relative to this layout's link directory", vs.site().Pos(), "same linkDir value as LoadLinksForLayout", "VerifySublayouts gets another directory than the one the links were loaded from")
		}
		if lc != nil {
			a, aat := vs.arg(3)
			b, bat := lc.arg(1)
			c.check(resolve(a, aat) == resolve(b, bat), R, fn, "sublayouts get the caller's intermediates", vs.site().Pos(), "same intermediatePems value as LoadLayoutCertificates", "VerifySublayouts gets other intermediates")
		}
	}
	if gs := c.stage(e.f, "in_toto.GetSummaryLink"); gs != nil {
		v, at := gs.arg(3)
		c.check(isUseDSSE(v, at), R, fn, "the summary link uses the layout's wrapper kind", gs.site().Pos(), "useDSSE", "argument is "+short(org(v)))
		v, at = gs.arg(2)
		prm, isP := resolve(v, at).(*ssa.Parameter)
		c.check(isP && typeStr(v.Type()) == "string", R, fn, "the summary link is named by the stepName parameter", gs.site().Pos(), org(v), "summary name is "+short(org(v)))
		if isP && prm.Parent() == e.f {
			// the name parameter names the summary and nothing else: a parameter that is also a directory handed to
			// another stage (link directory, run directory) is not the requested name
			other := ""
			for _, r := range *prm.Referrers() {
				call, ok := r.(ssa.CallInstruction)
				if !ok {
					continue
				}
				if call == gs.site() || call == gs.call {
					continue
				}
				// only stages and file-system calls make the parameter a directory; logging it does not
				if n := calleeName(call); strings.HasPrefix(n, "in_toto.") || strings.HasPrefix(n, "os.") || strings.HasPrefix(n, "path/filepath.") {
					other = n
				}
			}
			c.check(other == "", R, fn, "the summary name is a parameter of its own", gs.site().Pos(), prm.Name()+" is used for nothing else",
				"the summary link is named by parameter "+prm.Name()+", which is also an argument of "+other+": a directory is passed where the requested step name belongs")
		}
	}
}

// R-C05-5: the counted links reach the agreement check as they were verified. Between the threshold check and
// ReduceStepsMetadata (inclusive) nothing writes through the verified link map, except VerifySublayouts' replacement
// of a sublayout by its summary (R-C08-3). Decided with the A4 effects analysis, the verified map being the owned memory.
func init() {
	if p := registry["C05"]; p != nil {
		p.Rules = append(p.Rules, Rule{ID: "R-C05-5", Doc: "verified links are not modified before the agreement check", Min: 4, Run: ruleC05_5})
		p.Explanation += " (R-C05-5) no function that receives the verified link map before or at ReduceStepsMetadata writes through it (A4 effects analysis with the map as owned memory), except VerifySublayouts' replacement of a sublayout by its summary link: the agreement check compares the links as they were signed."
	}
}

func ruleC05_5(c *Ctx) {
	const R = "R-C05-5"
	for _, e := range c.entryPoints() {
		fn := fname(e.f)
		red := c.stage(e.f, "in_toto.ReduceStepsMetadata")
		if red == nil {
			c.bad(R, fn, "ReduceStepsMetadata", e.f.Pos(), "the agreement check is never called")
			continue
		}
		n := 0
		// every frame from the entry point down to the one that holds the agreement check: the calls that can run
		// before (or are) the step towards ReduceStepsMetadata; values of a helper frame are read through its parameters
		for lvl := 0; lvl <= len(red.path); lvl++ {
			lvl := lvl
			fr := red.frameFn(lvl)
			barrier := red.elem(lvl)
			isVerified := func(v ssa.Value, at ssa.Instruction) bool {
				if lvl > 0 {
					v, at = red.mapUp(v, at, lvl)
				}
				n, i := c.deepProducer(v, at)
				return i == 0 && (n == "in_toto.VerifyLinkSignatureThesholds" || n == "in_toto.VerifySublayouts")
			}
			for _, call := range allCalls(fr) {
				if _, isDefer := call.(*ssa.Defer); isDefer {
					continue
				}
				// only calls that can run before the agreement check has finished
				if call != barrier && instrDominates(barrier, call) {
					continue
				}
				// the step into the next frame is analysed in that frame
				if lvl < len(red.path) && call == barrier {
					continue
				}
				g := call.Common().StaticCallee()
				args := callArgs(call)
				ctx := make([]pc, len(args))
				tainted := false
				for i, a := range args {
					if hasRefs(a.Type()) && isVerified(a, call) {
						ctx[i] = pc{isRefType(a.Type()), true}
						tainted = true
					}
				}
				if !tainted {
					continue
				}
				n++
				name := calleeName(call)
				if g == nil || g.Blocks == nil {
					c.undecided(R, fn, "call "+name+" with the verified links", call.Pos(), "callee is not analysable")
					continue
				}
				a := newA4(c.Prog)
				s := a.analyse(g, ctx, nil)
				var bad []string
				keptW, _ := a4FilterReviewed(s.writes)
				for _, w := range keptW {
					if name == "in_toto.VerifySublayouts" && w.fn == g {
						if _, isMU := w.instr.(*ssa.MapUpdate); isMU {
							continue // the summary link replaces the sublayout (shape decided by R-C08-3)
						}
					}
					bad = append(bad, fmt.Sprintf("%s at %s (%s)", w.path, c.pos(w.instr.Pos()), strings.Join(w.chain, " -> ")))
				}
				c.check(len(bad) == 0, R, fn, "call "+name+" leaves the verified links as they are", call.Pos(), fmt.Sprintf("%d function contexts analysed, no write through the verified link map", len(a.memo)),
					"the verified links are modified before the agreement check has compared them: "+strings.Join(bad, "; ")+" — links that differ can be made equal (or equal ones different) before reflect.DeepEqual sees them")
			}
			// direct writes in the frame itself
			for _, b := range fr.Blocks {
				for _, in := range b.Instrs {
					if instrDominates(barrier, in) {
						continue
					}
					var base ssa.Value
					switch x := in.(type) {
					case *ssa.MapUpdate:
						base = x.Map
					case *ssa.Store:
						if _, isAlloc := addrRoot(x.Addr).(*ssa.Alloc); !isAlloc {
							base = x.Addr
						}
					}
					if base != nil && derives(base, func(v ssa.Value) bool { return isVerified(v, in) }, false) {
						c.bad(R, fn, "direct write into the verified links", in.Pos(), "the pipeline writes into the verified link map before the agreement check")
					}
				}
			}
		}
		c.check(n >= 2, R, fn, "calls that receive the verified links up to the agreement check", red.call.Pos(), fmt.Sprintf("%d calls analysed", n), fmt.Sprintf("only %d calls receive the verified links", n))
	}
}

// ---------------------------------------------------------------------------
// loops that visit every element of a map

// coverLoop: a loop whose iterations cover every element of map m: a range over m itself, or a range over the
// complete list of its keys (collected by an exhaustive range over m with one unconditional append per key; possibly
// sorted) whose body looks the element up in m. isElem(v): v derives from the current element.
type coverLoop struct {
	header    *ssa.BasicBlock
	isElem    func(v ssa.Value) bool
	exhausted func(blk *ssa.BasicBlock) bool // the loop is known to have run to exhaustion at blk
}

// tailRef: a key-list loop that starts at keys[1:]; it is complete only if the value the elements are compared with is
// the element under keys[0] (isFirst).
type tailRef struct {
	pos     token.Pos
	isFirst func(v ssa.Value) bool
}

func (c *Ctx) coverLoops(f *ssa.Function, m ssa.Value) (loops []coverLoop, tails []tailRef) {
	for _, b := range f.Blocks {
		for _, in := range b.Instrs {
			rg, ok := in.(*ssa.Range)
			if !ok || rg.X != m {
				continue
			}
			var nx *ssa.Next
			for _, r := range *rg.Referrers() {
				if n, ok := r.(*ssa.Next); ok {
					nx = n
				}
			}
			if nx == nil {
				continue
			}
			iterVal := extractOf(nx, 2)
			okv := extractOf(nx, 0)
			loops = append(loops, coverLoop{nx.Block(), func(v ssa.Value) bool {
				return iterVal != nil && derives(v, func(x ssa.Value) bool { return x == iterVal }, true)
			}, func(blk *ssa.BasicBlock) bool { return okv != nil && c.condAt(okv, false, blk) }})
		}
	}
	isKeyList := func(K ssa.Value) bool {
		for _, ml := range mapLoops(f) {
			if ml.rng.X != m || ml.key == nil {
				continue
			}
			exhaustive := true
			for bb := range ml.body {
				if bb == ml.header || !reaches(bb, ml.header) {
					continue
				}
				for _, sc := range bb.Succs {
					if !ml.body[sc] && !c.failing(sc) {
						exhaustive = false
					}
				}
			}
			if !exhaustive {
				continue
			}
			for bb := range ml.body {
				for _, in := range bb.Instrs {
					k, ok := in.(*ssa.Call)
					if !ok || calleeName(k) != "builtin:append" {
						continue
					}
					if !derives(k.Call.Args[1], func(x ssa.Value) bool { return x == ml.key }, false) {
						continue
					}
					uncond := false
					if okv := extractOf(ml.next, 0); okv != nil {
						for _, cu := range condUsers(okv, false) {
							if branchTaken(cu, true) == bb {
								uncond = true
							}
						}
					}
					if uncond && derives(K, func(x ssa.Value) bool { return x == ssa.Value(k) }, false) {
						return true
					}
				}
			}
		}
		return false
	}
	for _, l := range rangeLoops(f) {
		if l.isMap {
			continue
		}
		var ranged, idx ssa.Value
		var bound *ssa.BinOp
		for _, in := range l.header.Instrs {
			ph, ok := in.(*ssa.Phi)
			if !ok || ph.Comment != "rangeindex" {
				continue
			}
			for _, r := range *ph.Referrers() {
				if inc, ok := r.(*ssa.BinOp); ok && inc.Op == token.ADD {
					idx = inc
					for _, rr := range *inc.Referrers() {
						if cmp, ok := rr.(*ssa.BinOp); ok && cmp.Op == token.LSS {
							if k, ok := cmp.Y.(*ssa.Call); ok && calleeName(k) == "builtin:len" {
								ranged = k.Call.Args[0]
								bound = cmp
							}
						}
					}
				}
			}
		}
		if ranged == nil || idx == nil {
			continue
		}
		K, low := resolve(ranged, nil), int64(0)
		if sl, ok := K.(*ssa.Slice); ok && sl.High == nil {
			if sl.Low != nil {
				k, isK := constInt(sl.Low)
				if !isK {
					continue
				}
				low = k
			}
			K = resolve(sl.X, sl)
		}
		if low > 1 || !isKeyList(K) {
			continue
		}
		rangedV, idxV, KV, boundV := ranged, idx, K, bound
		loops = append(loops, coverLoop{l.header, func(v ssa.Value) bool {
			return derives(v, func(x ssa.Value) bool {
				var lkX, lkIdx ssa.Value
				switch y := x.(type) {
				case *ssa.Lookup:
					lkX, lkIdx = y.X, y.Index
				default:
					return false
				}
				if lkX != m {
					return false
				}
				return derives(lkIdx, func(z ssa.Value) bool {
					ia, ok := z.(*ssa.IndexAddr)
					return ok && ia.Index == idxV && resolve(ia.X, ia) == resolve(rangedV, nil)
				}, false)
			}, true)
		}, func(blk *ssa.BasicBlock) bool { return boundV != nil && c.condAt(boundV, false, blk) }})
		if low == 1 {
			tails = append(tails, tailRef{l.pos, func(v ssa.Value) bool {
				return derives(v, func(x ssa.Value) bool {
					lk, ok := x.(*ssa.Lookup)
					if !ok || lk.X != m {
						return false
					}
					return derives(lk.Index, func(y ssa.Value) bool {
						ia, ok := y.(*ssa.IndexAddr)
						if !ok || resolve(ia.X, ia) != KV {
							return false
						}
						k0, isK := constInt(ia.Index)
						return isK && k0 == 0
					}, false)
				}, true)
			}})
		}
	}
	return
}

// lookupHelper: g is an unexported function of the module whose single result is, on every return, the element of its
// map parameter mi under its parameter ki (m[k], comma-ok or not) and nothing else.
func lookupHelper(g *ssa.Function) (mi, ki int, ok bool) {
	if g == nil || g.Blocks == nil || g.Parent() != nil || g.Object() == nil || g.Object().Exported() || g.Signature.Recv() != nil || g.Signature.Results().Len() != 1 {
		return 0, 0, false
	}
	mi, ki = -1, -1
	rets := returnsOf(g)
	if len(rets) == 0 {
		return 0, 0, false
	}
	for _, r := range rets {
		v := resolve(r.Results[0], r)
		if ex, isEx := v.(*ssa.Extract); isEx && ex.Index == 0 {
			v = ex.Tuple
		}
		lk, isLk := v.(*ssa.Lookup)
		if !isLk {
			return 0, 0, false
		}
		m, k := -1, -1
		for i, p := range g.Params {
			if lk.X == ssa.Value(p) {
				m = i
			}
			if lk.Index == ssa.Value(p) {
				k = i
			}
		}
		if m < 0 || k < 0 || (mi >= 0 && (mi != m || ki != k)) {
			return 0, 0, false
		}
		if _, isMap := g.Params[m].Type().Underlying().(*types.Map); !isMap {
			return 0, 0, false
		}
		mi, ki = m, k
	}
	return mi, ki, true
}

// useDSSEIn: v is `_, useDSSE := env.(*Envelope)` of the wrapper parameter env of frame f (directly, as a phi of constants
// under that assertion, or handed back by an unexported helper that was given env and returns it so wherever its error is nil).
func (c *Ctx) useDSSEIn(f *ssa.Function, env *ssa.Parameter, v ssa.Value, at ssa.Instruction, depth int) bool {
	// `_, useDSSE := layoutEnv.(*Envelope)`, possibly handed back by a transparent helper
	if org(resolve(v, at)) == fmt.Sprintf("ok(p%d.(*in_toto.Envelope))", paramIndex(env)) {
		return true
	}
	if ex, ok := resolve(v, at).(*ssa.Extract); ok && ex.Index == 1 {
		if ta, ok := ex.Tuple.(*ssa.TypeAssert); ok && ta.CommaOk && ta.X == ssa.Value(env) && typeStr(ta.AssertedType) == "*in_toto.Envelope" {
			return true
		}
	}
	if ex, ok := resolve(v, at).(*ssa.Extract); ok && depth < 2 {
		if via, isCall := ex.Tuple.(*ssa.Call); isCall {
			if h := via.Common().StaticCallee(); h != nil && h.Blocks != nil && h.Pkg == f.Pkg && h.Parent() == nil && h.Object() != nil && !h.Object().Exported() && errIndex(h) >= 0 {
				for k, a := range via.Call.Args {
					if resolve(a, via) != ssa.Value(env) || k >= len(h.Params) {
						continue
					}
					rets := c.nilErrReturns(h)
					all := len(rets) > 0
					for _, r := range rets {
						if ex.Index >= len(r.Results) || !c.useDSSEIn(h, h.Params[k], r.Results[ex.Index], r, depth+1) {
							all = false
						}
					}
					if all {
						return true
					}
				}
			}
		}
	}
	ph, ok := resolve(v, at).(*ssa.Phi)
	if !ok {
		return false
	}
	for i, ed := range ph.Edges {
		cv, isC := ed.(*ssa.Const)
		if !isC {
			return false
		}
		pb := ph.Block().Preds[i]
		// the true edge comes from a successful env.(*Envelope) assertion
		if cv.Value.String() == "true" {
			found := false
			for _, b := range f.Blocks {
				for _, in := range b.Instrs {
					if ta, ok := in.(*ssa.TypeAssert); ok && ta.CommaOk && ta.X == ssa.Value(env) && typeStr(ta.AssertedType) == "*in_toto.Envelope" {
						if okv := extractOf(ta, 1); okv != nil && (c.condAt(okv, true, pb) || edgeFact(pb, ph.Block(), okv, true)) {
							found = true
						}
					}
				}
			}
			if !found {
				return false
			}
		}
	}
	return true
}
