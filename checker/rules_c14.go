package main

import (
	"fmt"
	"go/types"
	"strings"

	"golang.org/x/tools/go/ssa"
)

func init() {
	register(&Property{ID: "C14",
		Explanation: "Decides structural clauses of 'command output is captured completely and never hangs on volume': (R-C14-1) typestate on every *exec.Cmd created in in_toto: if both stdout and stderr are obtained as pipes, at most one of them may be drained in the goroutine that later calls Wait (sequential draining deadlocks once the child fills the other pipe's buffer); (R-C14-2) every success return after Start passes through Wait, Wait comes after all drains, the exit status stored under \"return-value\" derives from Wait's error through the status conversion helper, and the values stored under \"stdout\"/\"stderr\" derive from the child's stdout/stderr respectively (not swapped); (R-C14-3) errors of drain calls are not dropped (A1); (R-C14-4) an empty argument list fails before cmdArgs[0] is indexed and Start's error is returned.",
		NotDecided:  []string{"exit status of signal-killed children", "timing", "os/exec's own copying goroutines (trusted)"},
		Rules: []Rule{
			{ID: "R-C14-1", Doc: "two pipes of one Cmd are not drained one after the other", Min: 1, Run: ruleC14_1},
			{ID: "R-C14-2", Doc: "completion: Wait after drains; status and streams wired to the right keys", Min: 5, Run: ruleC14_2},
			{ID: "R-C14-4", Doc: "empty command refused before indexing; Start error returned", Min: 2, Run: ruleC14_4},
			a1Rule(1, "in_toto.RunCommand", "in_toto.waitErrToExitCode"),
		}})
}

type cmdUse struct {
	f      *ssa.Function
	cmd    ssa.Value
	create ssa.CallInstruction
	pipes  map[string]ssa.CallInstruction // "Stdout"/"Stderr" -> pipe call
	bufs   map[string]ssa.Value           // "Stdout"/"Stderr" -> value stored to cmd.<S>
	start  ssa.CallInstruction
	wait   ssa.CallInstruction
	runOut ssa.CallInstruction
}

func (c *Ctx) cmdUses() []*cmdUse {
	var out []*cmdUse
	for _, f := range c.srcFuncs("in_toto") {
		for _, call := range callsIn(f, "os/exec.Command", "os/exec.CommandContext") {
			u := &cmdUse{f: f, cmd: call.Value(), create: call, pipes: map[string]ssa.CallInstruction{}, bufs: map[string]ssa.Value{}}
			isCmd := func(v ssa.Value, at ssa.Instruction) bool { return resolve(v, at) == u.cmd }
			for _, k := range allCalls(f) {
				n := calleeName(k)
				if !strings.HasPrefix(n, "(*os/exec.Cmd).") || len(k.Common().Args) == 0 || !isCmd(k.Common().Args[0], k) {
					continue
				}
				switch strings.TrimPrefix(n, "(*os/exec.Cmd).") {
				case "StdoutPipe":
					u.pipes["Stdout"] = k
				case "StderrPipe":
					u.pipes["Stderr"] = k
				case "Start":
					u.start = k
				case "Wait":
					u.wait = k
				case "Run", "Output", "CombinedOutput":
					u.runOut = k
				}
			}
			for _, b := range f.Blocks {
				for _, in := range b.Instrs {
					st, ok := in.(*ssa.Store)
					if !ok {
						continue
					}
					fa, ok := st.Addr.(*ssa.FieldAddr)
					if !ok || !isCmd(fa.X, st) {
						continue
					}
					switch fieldName(fa.X.Type(), fa.Field) {
					case "Stdout":
						u.bufs["Stdout"] = st.Val
					case "Stderr":
						u.bufs["Stderr"] = st.Val
					}
				}
			}
			out = append(out, u)
		}
	}
	return out
}

// drains lists calls in f (outside go statements) that read pipe value p to EOF.
func drainsOf(f *ssa.Function, p ssa.Value) []ssa.CallInstruction {
	var out []ssa.CallInstruction
	for _, k := range allCalls(f) {
		if _, isGo := k.(*ssa.Go); isGo {
			continue
		}
		n := calleeName(k)
		idx := -1
		switch n {
		case "io.ReadAll", "io/ioutil.ReadAll", "bufio.NewScanner", "bufio.NewReader":
			idx = 0
		case "io.Copy", "io.CopyBuffer", "io.CopyN":
			idx = 1
		case "(*bytes.Buffer).ReadFrom":
			idx = 1
		case "iface:io.ReadCloser.Read", "iface:io.Reader.Read":
			idx = 0
		}
		if idx < 0 {
			continue
		}
		args := callArgs(k)
		if idx < len(args) && derives(args[idx], func(v ssa.Value) bool { return v == p }, false) {
			out = append(out, k)
		}
	}
	return out
}

func ruleC14_1(c *Ctx) {
	const R = "R-C14-1"
	uses := c.cmdUses()
	if len(uses) == 0 {
		c.bad(R, "in_toto", "exec.Cmd creation", 0, "no os/exec.Command call found in in_toto (RunCommand missing?)")
		return
	}
	for _, u := range uses {
		fn := fname(u.f)
		var drained []string
		var pos = u.create.Pos()
		for _, s := range []string{"Stdout", "Stderr"} {
			pc := u.pipes[s]
			if pc == nil {
				continue
			}
			p := resultN(pc, 0)
			if p == nil {
				continue
			}
			if ds := drainsOf(u.f, p); len(ds) > 0 {
				drained = append(drained, fmt.Sprintf("%sPipe drained by %s at %s", s, calleeName(ds[0]), c.pos(ds[0].Pos())))
				pos = ds[0].Pos()
			}
		}
		c.check(len(drained) < 2, R, fn, "pipes of one exec.Cmd drained sequentially", pos,
			fmt.Sprintf("%d pipe(s) drained in the waiting goroutine; stdout sink: %s, stderr sink: %s", len(drained), sinkKind(u, "Stdout"), sinkKind(u, "Stderr")),
			"sequential-pipe-drain: "+strings.Join(drained, "; ")+" in one goroutine before Wait: a child that fills the second pipe's buffer before closing the first blocks forever")
	}
}

func sinkKind(u *cmdUse, s string) string {
	if u.pipes[s] != nil {
		return "pipe"
	}
	if u.bufs[s] != nil {
		return "writer assigned to cmd." + s
	}
	return "none"
}

func ruleC14_2(c *Ctx) {
	const R = "R-C14-2"
	for _, u := range c.cmdUses() {
		fn := fname(u.f)
		if u.runOut != nil && u.start == nil {
			c.ok(R, fn, "completion via Run/Output", u.runOut.Pos(), calleeName(u.runOut))
		} else {
			if u.start == nil || u.wait == nil {
				c.bad(R, fn, "Start/Wait", u.create.Pos(), "the command is not both started and waited for")
				continue
			}
			for _, r := range c.nilErrReturns(u.f) {
				if !u.start.Block().Dominates(r.Block()) {
					continue
				}
				c.check(instrDominates(u.wait, r), R, fn, "success return passes through Wait", instrPos(r), "Wait dominates the return", "a success return after Start does not wait for the command to end")
			}
			// Wait after all drains
			okOrder := true
			for _, s := range []string{"Stdout", "Stderr"} {
				if pc := u.pipes[s]; pc != nil {
					if p := resultN(pc, 0); p != nil {
						for _, d := range drainsOf(u.f, p) {
							if !instrDominates(d, u.wait) {
								okOrder = false
							}
						}
					}
				}
			}
			c.check(okOrder, R, fn, "Wait comes after the reads", u.wait.Pos(), "all drains dominate Wait", "Wait may be called before a pipe has been read to EOF (Wait closes the pipes: output is truncated)")
		}
		// keys of the returned map
		src := func(s string) func(ssa.Value) bool {
			return func(v ssa.Value) bool {
				if pc := u.pipes[s]; pc != nil && v == resultN(pc, 0) {
					return true
				}
				if b := u.bufs[s]; b != nil {
					root := resolve(b, nil)
					if mi, ok := b.(*ssa.MakeInterface); ok {
						root = mi.X
					}
					return v == root
				}
				return false
			}
		}
		seen := map[string]bool{}
		// the map may be assembled by an unexported helper that is handed the values: a value stored there derives from
		// what the arguments of the call derive from
		type storeFrame struct {
			g   *ssa.Function
			via ssa.CallInstruction
		}
		frames := []storeFrame{{u.f, nil}}
		for _, via := range allCalls(u.f) {
			h := via.Common().StaticCallee()
			if h == nil || h.Blocks == nil || h.Pkg != u.f.Pkg || h.Parent() != nil || h.Object() == nil || h.Object().Exported() || h == u.f {
				continue
			}
			if rs := h.Signature.Results(); rs.Len() == 1 {
				if _, isMap := rs.At(0).Type().Underlying().(*types.Map); isMap {
					frames = append(frames, storeFrame{h, via})
				}
			}
		}
		plainDerives := derives
		for _, sf := range frames {
			sf := sf
			derives := func(v ssa.Value, pred func(ssa.Value) bool, through bool) bool {
				if sf.via == nil {
					return plainDerives(v, pred, through)
				}
				found := false
				if plainDerives(v, func(x ssa.Value) bool {
					if p, ok := x.(*ssa.Parameter); ok && p.Parent() == sf.g && paramIndex(p) < len(sf.via.Common().Args) {
						if plainDerives(sf.via.Common().Args[paramIndex(p)], pred, through) {
							found = true
						}
					}
					return pred(x)
				}, through) {
					return true
				}
				return found
			}
			for _, b := range sf.g.Blocks {
				for _, in := range b.Instrs {
					mu, ok := in.(*ssa.MapUpdate)
					if !ok {
						continue
					}
					k, ok := constString(mu.Key)
					if !ok {
						continue
					}
					switch k {
					case "stdout", "stderr":
						seen[k] = true
						own, other := "Stdout", "Stderr"
						if k == "stderr" {
							own, other = other, own
						}
						fromOwn := derives(mu.Value, src(own), true)
						fromOther := derives(mu.Value, src(other), true)
						c.check(fromOwn && !fromOther, R, fn, "by-product \""+k+"\" is the child's "+own, mu.Pos(), "derives from the "+sinkKind(u, own)+" of "+own,
							fmt.Sprintf("value stored under %q derives from %s=%v / %s=%v", k, own, fromOwn, other, fromOther))
					case "return-value":
						seen[k] = true
						okRV := false
						derives(mu.Value, func(v ssa.Value) bool {
							if conv, ok := v.(*ssa.Call); ok && calleeName(conv) == "in_toto.waitErrToExitCode" {
								if pc, _ := producer(conv.Call.Args[0], conv); pc != nil && pc == u.wait {
									okRV = true
								}
								if u.runOut != nil {
									if pc, _ := producer(conv.Call.Args[0], conv); pc == u.runOut {
										okRV = true
									}
								}
							}
							return false
						}, true)
						c.check(okRV, R, fn, "by-product \"return-value\" = waitErrToExitCode(cmd.Wait())", mu.Pos(), "derived from Wait's error through the conversion helper", "the stored exit status does not derive from cmd.Wait() through waitErrToExitCode")
					}
				}
			}
		}
		for _, k := range []string{"stdout", "stderr", "return-value"} {
			if !seen[k] {
				c.bad(R, fn, "by-product \""+k+"\"", u.create.Pos(), "key never stored")
			}
		}
	}
	// waitErrToExitCode: nil error => 0
	if w := c.lookup("in_toto.waitErrToExitCode"); w != nil {
		okZero := false
		for _, r := range returnsOf(w) {
			o := org(r.Results[0])
			if strings.Contains(o, "const(0)") && strings.Contains(o, "const(-1)") {
				okZero = true
			}
		}
		if !okZero && len(w.Params) == 1 {
			// the same contract with early returns: the constant 0 is returned exactly where the error is known nil,
			// and -1 is among the values returned for a non-nil error
			type edge struct {
				v   ssa.Value
				blk *ssa.BasicBlock
			}
			var edges []edge
			for _, r := range returnsOf(w) {
				v := r.Results[0]
				if ph, ok := v.(*ssa.Phi); ok && ph.Block() == r.Block() {
					for i, e := range ph.Edges {
						edges = append(edges, edge{e, r.Block().Preds[i]})
					}
				} else {
					edges = append(edges, edge{v, r.Block()})
				}
			}
			zeroUnderNil, zeroElsewhere, nilOther, minusOne := false, false, false, false
			for _, e := range edges {
				k, isK := constInt(e.v)
				isNil := c.nilAt(w.Params[0], e.blk)
				switch {
				case isK && k == 0 && isNil:
					zeroUnderNil = true
				case isK && k == 0:
					zeroElsewhere = true
				case isNil:
					nilOther = true
				}
				if isK && k == -1 && c.nonNilAt(w.Params[0], e.blk) {
					minusOne = true
				}
			}
			okZero = zeroUnderNil && !zeroElsewhere && !nilOther && minusOne
		}
		c.check(okZero, R, fname(w), "returns 0 for nil, -1 when no status can be inferred", w.Pos(), "result is a phi of const(0), const(-1) and ExitStatus()", "unexpected result shape")
	}
}

func ruleC14_4(c *Ctx) {
	const R = "R-C14-4"
	for _, u := range c.cmdUses() {
		fn := fname(u.f)
		if len(u.f.Params) == 0 {
			continue
		}
		args := u.f.Params[0]
		var guardBlocks []*ssa.BasicBlock
		okEmpty := false
		for _, lc := range lenCompares(u.f, func(v ssa.Value) bool { return v == ssa.Value(args) }) {
			val := evalCmp(lc.op, 0, lc.k)
			for _, cu := range condUsers(lc.bo, false) {
				if c.failing(branchTaken(cu, val)) {
					okEmpty = true
					guardBlocks = append(guardBlocks, branchTaken(cu, !val))
				}
			}
		}
		c.check(okEmpty, R, fn, "empty command is an error", u.f.Pos(), "branch on len(cmdArgs) evaluated at 0 fails", "an empty argument list is not refused")
		// cmdArgs[0] dominated by the non-empty side
		for _, b := range u.f.Blocks {
			for _, in := range b.Instrs {
				ia, ok := in.(*ssa.IndexAddr)
				if !ok || ia.X != ssa.Value(args) {
					continue
				}
				dom := false
				for _, g := range guardBlocks {
					if g == b || g.Dominates(b) {
						dom = true
					}
				}
				c.check(dom, R, fn, "cmdArgs[i] after the emptiness check", ia.Pos(), "dominated by the non-empty edge", "cmdArgs is indexed where it may be empty")
			}
		}
		if u.start == nil && u.runOut != nil {
			// Run/Output: its error may be turned into an exit status only if it is nil or an *exec.ExitError
			e := errResult(u.runOut)
			okR := e != nil
			if e != nil {
				for _, conv := range callsIn(u.f, "in_toto.waitErrToExitCode") {
					if !derives(conv.Common().Args[0], func(v ssa.Value) bool { return v == e }, false) {
						continue
					}
					S := nilFacts(e, true)
					for _, b := range u.f.Blocks {
						for _, in := range b.Instrs {
							switch x := in.(type) {
							case *ssa.TypeAssert:
								if x.CommaOk && resolve(x.X, x) == e && typeStr(x.AssertedType) == "*os/exec.ExitError" {
									if okv := extractOf(x, 1); okv != nil {
										S = append(S, boolFacts(okv, true)...)
									}
								}
							case *ssa.Call:
								if calleeName(x) == "errors.As" && derives(x.Call.Args[0], func(v ssa.Value) bool { return v == e }, false) && strings.Contains(typeStr(unwrapIface(x.Call.Args[1]).Type()), "os/exec.ExitError") {
									S = append(S, boolFacts(x, true)...)
								}
							}
						}
					}
					guarded := c.someFactAt(S, conv.Block())
					// every other non-nil error must be returned
					if !guarded {
						okR = false
					}
				}
				returned := flowsTo(e, func(u2 ssa.Instruction, via ssa.Value) bool { _, ok := u2.(*ssa.Return); return ok }, nil)
				okR = okR && returned
			}
			c.check(okR, R, fn, "an error of Run() becomes an exit status only if it is an *exec.ExitError; everything else is returned", u.runOut.Pos(), "guarded conversion", "a command that cannot be started (fork/exec failure, missing working directory) is reported as exit status instead of as an error")
		}
		if u.start != nil {
			okS := false
			if e := errResult(u.start); e != nil {
				for _, br := range errBranches(e) {
					okS = okS || c.failing(br.NonNil)
				}
			}
			c.check(okS, R, fn, "Start failure is returned", u.start.Pos(), "non-nil side is a failing continuation", "a command that cannot be started is not reported as an error")
		}
	}
}

// R-C14-5: no blocking stream read / wait while a mutex is held (two readers that take the same lock before
// draining are serialised: the deadlock of R-C14-1 in disguise).
func init() {
	if p := registry["C14"]; p != nil {
		p.Rules = append(p.Rules, Rule{ID: "R-C14-5", Doc: "no blocking read / wait while a mutex is held", Min: 1, Run: ruleC14_5})
		p.Explanation += " (R-C14-5) no blocking drain (io.ReadAll / io.Copy / Read / Wait) is executed while a sync.Mutex or RWMutex is held: readers of the two pipes that lock one mutex before reading are serialised and deadlock exactly like a sequential drain."
	}
}

func ruleC14_5(c *Ctx) {
	const R = "R-C14-5"
	nLocks := 0
	for _, f := range c.srcFuncs("in_toto") {
		var locks []ssa.CallInstruction
		for _, k := range allCalls(f) {
			n := calleeName(k)
			if n == "(*sync.Mutex).Lock" || n == "(*sync.RWMutex).Lock" || n == "(*sync.RWMutex).RLock" {
				if _, isDefer := k.(*ssa.Defer); !isDefer {
					locks = append(locks, k)
				}
			}
		}
		for _, l := range locks {
			nLocks++
			mu := org(l.Common().Args[0])
			deferred := false
			var unlocks []ssa.CallInstruction
			for _, k := range allCalls(f) {
				n := calleeName(k)
				if (strings.HasSuffix(n, ".Unlock") || strings.HasSuffix(n, ".RUnlock")) && strings.HasPrefix(n, "(*sync.") && org(k.Common().Args[0]) == mu {
					if _, isDefer := k.(*ssa.Defer); isDefer {
						deferred = true
					} else {
						unlocks = append(unlocks, k)
					}
				}
			}
			for _, k := range allCalls(f) {
				n := calleeName(k)
				blocking := n == "io.ReadAll" || n == "io/ioutil.ReadAll" || n == "io.Copy" || n == "io.CopyBuffer" || strings.HasSuffix(n, ".Read") && strings.HasPrefix(n, "iface:io.") ||
					n == "(*os/exec.Cmd).Wait" || n == "(*os/exec.Cmd).Run" || n == "(*bytes.Buffer).ReadFrom" || n == "(*bufio.Scanner).Scan"
				if !blocking || !instrDominates(l, k) {
					continue
				}
				released := false
				if !deferred {
					for _, u := range unlocks {
						if instrDominates(l, u) && instrDominates(u, k) {
							released = true
						}
					}
				}
				c.check(released, R, fname(f), "blocking "+n+" after "+calleeName(l), k.Pos(), "the lock is released before the blocking call",
					"a blocking stream read / wait runs while "+mu+" is held: concurrent readers that take the same lock are serialised; a child that fills the other pipe's buffer blocks forever")
			}
		}
	}
	c.ok(R, "in_toto", "lock regions scanned for blocking reads", 0, fmt.Sprintf("%d lock acquisitions in package in_toto", nLocks))
}

func unwrapIface(v ssa.Value) ssa.Value {
	if mi, ok := v.(*ssa.MakeInterface); ok {
		return mi.X
	}
	return v
}

// R-C14-6: configuration typestate of exec.Cmd. Wait's error is turned into the recorded exit status, so nothing may
// be configured on the Cmd that makes Wait fail for a command that exited normally: WaitDelay (ErrWaitDelay when a
// descendant keeps a stream open) and Cancel (context errors) do exactly that.
func init() {
	if p := registry["C14"]; p != nil {
		p.Rules = append(p.Rules, Rule{ID: "R-C14-6", Doc: "no exec.Cmd option that changes what Wait returns for a command that exited", Min: 2, Run: ruleC14_6})
		p.Explanation += " (R-C14-6) the only exec.Cmd fields the library sets are Path/Args/Env/Dir/Stdin/Stdout/Stderr/ExtraFiles/SysProcAttr; WaitDelay or Cancel would make Wait return an error for a command that exited with status 0, which the status conversion reports as -1."
	}
}

func ruleC14_6(c *Ctx) {
	const R = "R-C14-6"
	allow := map[string]bool{"Path": true, "Args": true, "Env": true, "Dir": true, "Stdin": true, "Stdout": true, "Stderr": true, "ExtraFiles": true, "SysProcAttr": true}
	deny := map[string]string{
		"WaitDelay": "Wait returns exec.ErrWaitDelay when a descendant of the command still holds stdout/stderr open after the delay, although the command itself exited (possibly with status 0)",
		"Cancel":    "Wait returns the context's / Cancel's error instead of the command's exit status",
	}
	n := 0
	for _, pk := range []string{"in_toto", "cmd", "internal/spiffe"} {
		for _, f := range c.srcFuncs(pk) {
			for _, b := range f.Blocks {
				for _, in := range b.Instrs {
					st, ok := in.(*ssa.Store)
					if !ok {
						continue
					}
					fa, ok := st.Addr.(*ssa.FieldAddr)
					if !ok || typeStr(fa.X.Type()) != "*os/exec.Cmd" {
						continue
					}
					n++
					name := fieldName(fa.X.Type(), fa.Field)
					switch {
					case allow[name]:
						c.ok(R, fname(f), "exec.Cmd."+name+" is set", st.Pos(), "does not change what Wait returns for a command that exited")
					case deny[name] != "":
						c.bad(R, fname(f), "exec.Cmd."+name+" is set", st.Pos(), deny[name]+": the status conversion then records -1 for it")
					default:
						c.undecided(R, fname(f), "exec.Cmd."+name+" is set", st.Pos(), "effect of this option on Wait's result is not reviewed")
					}
				}
			}
		}
	}
	// exec.CommandContext implies Cancel
	for _, pk := range []string{"in_toto", "cmd", "internal/spiffe"} {
		for _, f := range c.srcFuncs(pk) {
			for _, call := range callsIn(f, "os/exec.CommandContext") {
				c.bad(R, fname(f), "exec.CommandContext", call.Pos(), "a command bound to a context is killed and Wait returns the context's error: the recorded exit status is then -1")
			}
		}
	}
	c.check(n >= 1, R, "in_toto", "exec.Cmd configuration sites", 0, fmt.Sprintf("%d field assignments", n), "no exec.Cmd configuration found")
}
