package main

func init() {
	register(&Property{ID: "XA1", Explanation: "debug: A1 over everything", Rules: []Rule{
		a1Rule(1, "in_toto.*", "cmd.*", "internal/spiffe.*", "main.*"),
	}})
}
