package main

import (
	"fmt"
	"go/token"
	"go/types"
	"reflect"
	"sort"
	"strings"

	"golang.org/x/tools/go/ssa"
)

func init() {
	register(&Property{ID: "C19",
		Explanation: "Decides structural clauses of 'loaded keys get a stable identity, the right type, scheme and halves': (R-C19-1) the key id is hex(sha256(cjson({keytype, scheme, keyid_hash_algorithms, keyval:{public}}))) fed from the receiver's namesake fields and from no private material, certificate or previous id; (R-C19-2) the type switch of loadKey passes, per parsed Go type, the right public bytes, private bytes only for private types, and the matching key-type constant; certificates recurse on their public key and store the PEM; anything else is an error; the default-scheme table is rsa->rsassa-pss-sha256, ed25519->ed25519, ecdsa->ecdsa-sha2-nistp256; (R-C19-3) a private half is stored only under len(privateKeyBytes) > 0, from the private bytes, with the PEM type of the key type, and KeyVal is rebuilt (never merged) on every load; (R-C19-4) parseKey tries exactly the five accepted encodings and otherwise returns the sentinel, a nil PEM block fails before it is touched; (R-C19-5) the generated id is validated and all errors refuse (A1); (R-C19-6) the SPIFFE conversion marshals the SVID key as PKCS#8, loads it with the defaults loader and attaches the leaf certificate's PEM.",
		NotDecided:  []string{"that two different keys get different ids (hash)", "that what was loaded signs and verifies (crypto)", "tolerance to surrounding whitespace"},
		Rules: []Rule{
			{ID: "R-C19-1", Doc: "key-id preimage", Min: 7, Run: ruleC19_1},
			{ID: "R-C19-2", Doc: "type switch tables of loadKey / getDefaultKeyScheme", Min: 10, Run: ruleC19_2},
			{ID: "R-C19-3", Doc: "private half only from private material; KeyVal rebuilt", Min: 6, Run: ruleC19_3},
			{ID: "R-C19-4", Doc: "accepted encodings", Min: 3, Run: ruleC19_4},
			{ID: "R-C19-6", Doc: "SPIFFE conversion", Min: 3, Run: ruleC19_6},
			a1Rule(20, "(*in_toto.Key).LoadKey", "(*in_toto.Key).LoadKeyDefaults", "(*in_toto.Key).LoadKeyReader", "(*in_toto.Key).LoadKeyReaderDefaults", "(*in_toto.Key).loadKey",
				"(*in_toto.Key).setKeyComponents", "(*in_toto.Key).generateKeyID", "in_toto.decodeAndParse", "in_toto.parseKey", "in_toto.getDefaultKeyScheme", "(in_toto.Signature).GetCertificate",
				"(internal/spiffe.SVIDDetails).InTotoKey", "cmd.loadKeyFromDisk", "in_toto.validateKey", "in_toto.validatePublicKey"),
		}})
}

func ruleC19_1(c *Ctx) {
	const R = "R-C19-1"
	f := c.lookup("(*in_toto.Key).generateKeyID")
	if f == nil {
		c.undecided(R, "(*in_toto.Key).generateKeyID", "anchor", 0, "not found")
		return
	}
	fn := fname(f)
	enc := firstCall(f, "ssl/cjson.EncodeCanonical")
	if enc == nil {
		c.bad(R, fn, "canonicalisation", f.Pos(), "the key description is not canonicalised with cjson")
		return
	}
	outer, _ := resolve(enc.Common().Args[0], enc).(*ssa.MakeMap)
	if outer == nil {
		if !c.c19StructPreimage(R, fn, enc) {
			c.bad(R, fn, "preimage", enc.Pos(), "the hashed value is neither a map literal nor a struct literal: "+short(org(enc.Common().Args[0])))
			return
		}
	}
	if outer != nil {
		want := map[string]string{"keytype": "p0.KeyType", "scheme": "p0.Scheme", "keyid_hash_algorithms": "p0.KeyIDHashAlgorithms"}
		got := map[string]string{}
		var inner *ssa.MakeMap
		for _, r := range *outer.Referrers() {
			if mu, ok := r.(*ssa.MapUpdate); ok && mu.Map == ssa.Value(outer) {
				k, _ := constString(mu.Key)
				if k == "keyval" {
					inner, _ = resolve(mu.Value, mu).(*ssa.MakeMap)
					got[k] = "map"
				} else {
					got[k] = org(mu.Value)
				}
			}
		}
		var keys []string
		for k := range got {
			keys = append(keys, k)
		}
		sort.Strings(keys)
		c.check(strings.Join(keys, ",") == "keyid_hash_algorithms,keytype,keyval,scheme", R, fn, "preimage has exactly keytype, scheme, keyid_hash_algorithms, keyval", outer.Pos(), strings.Join(keys, ","), "hashed description has members {"+strings.Join(keys, ",")+"}")
		for k, w := range want {
			c.check(got[k] == w, R, fn, "preimage member "+k, outer.Pos(), w, "member "+k+" is fed from "+got[k])
		}
		if inner != nil {
			var ik []string
			okPub := false
			for _, r := range *inner.Referrers() {
				if mu, ok := r.(*ssa.MapUpdate); ok && mu.Map == ssa.Value(inner) {
					k, _ := constString(mu.Key)
					ik = append(ik, k)
					if k == "public" && org(mu.Value) == "p0.KeyVal.Public" {
						okPub = true
					}
				}
			}
			sort.Strings(ik)
			c.check(okPub && strings.Join(ik, ",") == "public", R, fn, "keyval holds only the public half", inner.Pos(), "keyval:{public: k.KeyVal.Public}", "keyval members hashed into the id: {"+strings.Join(ik, ",")+"} (private material or certificate would change the id between halves)")
		} else {
			c.bad(R, fn, "keyval member", outer.Pos(), "keyval is not a nested map literal")
		}
	}
	// sha256, hex, stored into KeyID
	okStore := false
	for _, b := range f.Blocks {
		for _, in := range b.Instrs {
			if st, ok := in.(*ssa.Store); ok && org(st.Addr) == "p0.KeyID" {
				viaSumOf := func(v ssa.Value) bool {
					return derives(v, func(v ssa.Value) bool {
						k, ok := v.(*ssa.Call)
						if !ok || calleeName(k) != "crypto/sha256.Sum256" {
							return false
						}
						pc, idx := producer(k.Call.Args[0], k)
						return pc == enc && idx == 0
					}, false)
				}
				if hx, ok := isResultOf(st.Val, st, 0, "encoding/hex.EncodeToString"); ok {
					okStore = viaSumOf(hx.Common().Args[0])
					continue
				}
				sf, ok := isResultOf(st.Val, st, 0, "fmt.Sprintf")
				if !ok {
					continue
				}
				format, _ := constString(sf.Common().Args[0])
				viaSum := derives(sf.Common().Args[1], func(v ssa.Value) bool {
					k, ok := v.(*ssa.Call)
					if !ok || calleeName(k) != "crypto/sha256.Sum256" {
						return false
					}
					pc, idx := producer(k.Call.Args[0], k)
					return pc == enc && idx == 0
				}, false)
				okStore = format == "%x" && viaSum
			}
		}
	}
	c.check(okStore, R, fn, "KeyID = hex(sha256(canonical description))", f.Pos(), "fmt.Sprintf(\"%x\", sha256.Sum256(canonical))", "the stored id is not the lower-case hex SHA-256 of the canonical description")
	vk := firstCall(f, "in_toto.validateKey")
	okV := false
	if vk != nil {
		if e := errResult(vk); e != nil {
			for _, br := range errBranches(e) {
				okV = okV || c.failing(br.NonNil)
			}
			okV = okV || flowsTo(e, func(u ssa.Instruction, via ssa.Value) bool { _, ok := u.(*ssa.Return); return ok }, nil)
		}
	}
	c.check(okV, R, fn, "the finished key is validated", f.Pos(), "validateKey(*k) error refuses", "the generated key is not validated")
	// cross-check with the dependency's literal
	if g := c.lookupAny("ssl/signerverifier.calculateKeyID"); g != nil {
		var dk []string
		for _, b := range g.Blocks {
			for _, in := range b.Instrs {
				if mu, ok := in.(*ssa.MapUpdate); ok {
					if k, ok := constString(mu.Key); ok {
						dk = append(dk, k)
					}
				}
			}
		}
		sort.Strings(dk)
		c.check(strings.Join(dk, ",") == "keyid_hash_algorithms,keytype,keyval,public,scheme", R, fname(g), "securesystemslib hashes the same members", g.Pos(), strings.Join(dk, ","), "securesystemslib's key id preimage has members {"+strings.Join(dk, ",")+"}")
	}
}

func isEmptyByteLiteral(v ssa.Value) bool {
	sl, ok := v.(*ssa.Slice)
	if !ok {
		return false
	}
	al, ok := sl.X.(*ssa.Alloc)
	return ok && typeStr(al.Type()) == "*[0]byte"
}

func ruleC19_2(c *Ctx) {
	const R = "R-C19-2"
	f := c.lookup("(*in_toto.Key).loadKey")
	if f == nil {
		c.undecided(R, "(*in_toto.Key).loadKey", "anchor", 0, "not found")
		return
	}
	fn := fname(f)
	type row struct{ pub, priv, typ string }
	want := map[string]row{
		"*crypto/rsa.PublicKey":     {"crypto/x509.MarshalPKIXPublicKey(p1.(*crypto/rsa.PublicKey))#0", "empty", "rsa"},
		"*crypto/rsa.PrivateKey":    {"crypto/x509.MarshalPKIXPublicKey((*crypto/rsa.PrivateKey).Public(p1.(*crypto/rsa.PrivateKey)))#0", "p2.Bytes", "rsa"},
		"crypto/ed25519.PublicKey":  {"p1.(crypto/ed25519.PublicKey)", "empty", "ed25519"},
		"crypto/ed25519.PrivateKey": {"(crypto/ed25519.PrivateKey).Public(p1.(crypto/ed25519.PrivateKey)).(crypto/ed25519.PublicKey)", "p1.(crypto/ed25519.PrivateKey)", "ed25519"},
		"*crypto/ecdsa.PrivateKey":  {"crypto/x509.MarshalPKIXPublicKey((*crypto/ecdsa.PrivateKey).Public(p1.(*crypto/ecdsa.PrivateKey)))#0", "p2.Bytes", "ecdsa"},
		"*crypto/ecdsa.PublicKey":   {"crypto/x509.MarshalPKIXPublicKey(p1.(*crypto/ecdsa.PublicKey))#0", "empty", "ecdsa"},
	}
	// type-switch arms: TypeAssert comma-ok on p1
	arms := map[string]ssa.Value{}
	for _, b := range f.Blocks {
		for _, in := range b.Instrs {
			if ta, ok := in.(*ssa.TypeAssert); ok && ta.CommaOk && ta.X == ssa.Value(f.Params[1]) {
				arms[typeStr(ta.AssertedType)] = extractOf(ta, 1)
			}
		}
	}
	seen := map[string]bool{}
	for _, call := range callsIn(f, "(*in_toto.Key).setKeyComponents") {
		a := call.Common().Args
		arm := ""
		for t, okv := range arms {
			if okv != nil && c.condAt(okv, true, call.Block()) {
				arm = t
			}
		}
		if arm == "" {
			// one call after the type switch whose arguments are merged per arm: project every argument onto each arm
			underArm := func(pb, succ *ssa.BasicBlock, okv ssa.Value) bool {
				var rec func(b, s2 *ssa.BasicBlock, depth int) bool
				rec = func(b, s2 *ssa.BasicBlock, depth int) bool {
					if c.condAt(okv, true, b) || edgeFact(b, s2, okv, true) {
						return true
					}
					if depth > 3 || len(b.Preds) == 0 {
						return false
					}
					for _, q := range b.Preds {
						if !rec(q, b, depth+1) {
							return false
						}
					}
					return true
				}
				return rec(pb, succ, 0)
			}
			var project func(v ssa.Value, okv ssa.Value, depth int) ssa.Value
			project = func(v ssa.Value, okv ssa.Value, depth int) ssa.Value {
				ph, isPhi := v.(*ssa.Phi)
				if !isPhi || depth > 4 {
					return v
				}
				var sel ssa.Value
				for i, e := range ph.Edges {
					if !underArm(ph.Block().Preds[i], ph.Block(), okv) {
						continue
					}
					pv := project(e, okv, depth+1)
					if sel != nil && sel != pv {
						return nil
					}
					sel = pv
				}
				return sel
			}
			for t, w := range want {
				okv := arms[t]
				if okv == nil {
					continue
				}
				pub, priv, typ := project(a[1], okv, 0), project(a[2], okv, 0), project(a[3], okv, 0)
				if pub == nil || priv == nil || typ == nil {
					continue
				}
				seen[t] = true
				ps := org(priv)
				if isEmptyByteLiteral(priv) || isNilConst(priv) {
					ps = "empty"
				}
				ts, _ := constString(typ)
				got := row{org(pub), ps, ts}
				c.check(got == w && org(a[0]) == "p0" && org(a[4]) == "p3" && org(a[5]) == "p4", R, fn, "case "+t, call.Pos(), fmt.Sprintf("public=%s private=%s type=%s (merged call)", short(got.pub), got.priv, got.typ),
					fmt.Sprintf("case %s passes public=%s private=%s type=%s; expected public=%s private=%s type=%s", t, short(got.pub), got.priv, got.typ, short(w.pub), w.priv, w.typ))
			}
			continue
		}
		w, known := want[arm]
		if !known {
			c.bad(R, fn, "setKeyComponents under case "+arm, call.Pos(), "key components are set for an unexpected parsed type")
			continue
		}
		seen[arm] = true
		priv := org(a[2])
		if isEmptyByteLiteral(a[2]) {
			priv = "empty"
		}
		typ, _ := constString(a[3])
		got := row{org(a[1]), priv, typ}
		c.check(got == w && org(a[0]) == "p0" && org(a[4]) == "p3" && org(a[5]) == "p4", R, fn, "case "+arm, call.Pos(), fmt.Sprintf("public=%s private=%s type=%s", short(got.pub), got.priv, got.typ),
			fmt.Sprintf("case %s passes public=%s private=%s type=%s; expected public=%s private=%s type=%s", arm, short(got.pub), got.priv, got.typ, short(w.pub), w.priv, w.typ))
	}
	for t := range want {
		if !seen[t] {
			c.bad(R, fn, "case "+t, f.Pos(), "parsed keys of type "+t+" are not loaded")
		}
	}
	// certificate arm
	okCert := false
	if okv := arms["*crypto/x509.Certificate"]; okv != nil {
		for _, rc := range callsIn(f, "(*in_toto.Key).loadKey") {
			a := rc.Common().Args
			if c.condAt(okv, true, rc.Block()) && org(a[1]) == "p1.(*crypto/x509.Certificate).PublicKey" && org(a[2]) == "p2" && org(a[3]) == "p3" && org(a[4]) == "p4" {
				for _, b := range f.Blocks {
					for _, in := range b.Instrs {
						if st, ok := in.(*ssa.Store); ok && org(st.Addr) == "p0.KeyVal.Certificate" && org(st.Val) == "encoding/pem.EncodeToMemory(p2)" && c.okCallAt(rc, st.Block()) {
							okCert = true
						}
					}
				}
			}
		}
	}
	c.check(okCert, R, fn, "case *x509.Certificate: load its public key, then attach the certificate PEM", f.Pos(), "loadKey(cert.PublicKey, ...) ok => KeyVal.Certificate = pem(pemData)", "certificates are not loaded as their public key plus the certificate PEM")
	// default arm fails
	okDef := false
	for _, r := range returnsOf(f) {
		under := false
		for _, okv := range arms {
			if okv != nil && c.condAt(okv, true, r.Block()) {
				under = true
			}
		}
		if !under && !c.mayBeNilErr(r.Results[0], r.Block(), 0) {
			okDef = true
		}
	}
	c.check(okDef, R, fn, "any other parsed type is an error", f.Pos(), "default arm returns an error", "an unsupported parsed key type does not fail")
	// default scheme table
	g := c.lookup("in_toto.getDefaultKeyScheme")
	if g == nil {
		c.undecided(R, "in_toto.getDefaultKeyScheme", "anchor", 0, "not found")
		return
	}
	schemeWant := map[string]string{"*crypto/rsa.PublicKey": "rsassa-pss-sha256", "*crypto/rsa.PrivateKey": "rsassa-pss-sha256", "crypto/ed25519.PublicKey": "ed25519", "crypto/ed25519.PrivateKey": "ed25519",
		"*crypto/ecdsa.PublicKey": "ecdsa-sha2-nistp256", "*crypto/ecdsa.PrivateKey": "ecdsa-sha2-nistp256"}
	garms := map[string]ssa.Value{}
	for _, b := range g.Blocks {
		for _, in := range b.Instrs {
			if ta, ok := in.(*ssa.TypeAssert); ok && ta.CommaOk && ta.X == ssa.Value(g.Params[0]) {
				garms[typeStr(ta.AssertedType)] = extractOf(ta, 1)
			}
		}
	}
	var schemePhi *ssa.Phi
	for _, b := range g.Blocks {
		for _, in := range b.Instrs {
			// the merged scheme: the string phi that reaches result 0
			if ph, ok := in.(*ssa.Phi); ok && typeStr(ph.Type()) == "string" {
				for _, r := range returnsOf(g) {
					if len(r.Results) > 0 && resolve(r.Results[0], r) == ssa.Value(ph) {
						schemePhi = ph
					}
				}
			}
		}
	}
	if schemePhi == nil {
		c.undecided(R, fname(g), "scheme selection", g.Pos(), "no merged scheme value found")
		return
	}
	gseen := map[string]bool{}
	// armTypes: the case types under which control reaches block pb (handles multi-type case clauses)
	var armTypes func(pb, succ *ssa.BasicBlock, depth int) ([]string, bool)
	armTypes = func(pb, succ *ssa.BasicBlock, depth int) ([]string, bool) {
		for t, okv := range garms {
			if okv != nil && (c.condAt(okv, true, pb) || edgeFact(pb, succ, okv, true)) {
				return []string{t}, true
			}
		}
		if depth > 3 || len(pb.Preds) == 0 {
			return nil, false
		}
		var all []string
		for _, q := range pb.Preds {
			ts, ok := armTypes(q, pb, depth+1)
			if !ok {
				return nil, false
			}
			all = append(all, ts...)
		}
		return all, true
	}
	for i, e := range schemePhi.Edges {
		pb := schemePhi.Block().Preds[i]
		s, _ := constString(e)
		ts, matched := armTypes(pb, schemePhi.Block(), 0)
		if matched {
			for _, t := range ts {
				gseen[t] = true
				if w, ok := schemeWant[t]; ok {
					c.check(s == w, R, fname(g), "default scheme for "+t, instrPos(pb.Instrs[0]), s, "default scheme for "+t+" is "+s+", expected "+w)
				}
			}
		} else {
			c.check(s == "", R, fname(g), "no scheme for unsupported types", instrPos(pb.Instrs[0]), "empty scheme with ErrUnsupportedKeyType", "an unsupported type gets scheme "+s)
		}
	}
	for t := range schemeWant {
		if !gseen[t] {
			c.bad(R, fname(g), "default scheme for "+t, g.Pos(), "type "+t+" has no default scheme although loadKey accepts it")
		}
	}
}

func ruleC19_3(c *Ctx) {
	const R = "R-C19-3"
	f := c.lookup("(*in_toto.Key).setKeyComponents")
	if f == nil {
		c.undecided(R, "(*in_toto.Key).setKeyComponents", "anchor", 0, "not found")
		return
	}
	fn := fname(f)
	var privGuard *lenCmp
	lcs := lenCompares(f, func(v ssa.Value) bool { return v == ssa.Value(f.Params[2]) })
	cases := stringCases(f, func(v ssa.Value) bool { return org(v) == "p3" })
	pemPriv := map[string]string{"rsa": "RSA PRIVATE KEY", "ecdsa": "PRIVATE KEY"}
	nPriv, nPub, nWhole := 0, 0, 0
	for _, b := range f.Blocks {
		for _, in := range b.Instrs {
			st, ok := in.(*ssa.Store)
			if !ok {
				continue
			}
			o := org(st.Addr)
			if o == "p0.KeyVal" {
				nWhole++
				continue
			}
			if strings.HasPrefix(o, "p0.KeyVal.") {
				c.bad(R, fn, "field-wise update of "+o, st.Pos(), "KeyVal is merged instead of rebuilt: a reused Key object can keep a stale half or certificate")
				continue
			}
			fa, ok := st.Addr.(*ssa.FieldAddr)
			if !ok || typeStr(fa.X.Type()) != "*in_toto.KeyVal" {
				continue
			}
			kt := ""
			for k, bo := range cases {
				if c.condAt(bo, true, st.Block()) {
					kt = k
				}
			}
			switch fieldName(fa.X.Type(), fa.Field) {
			case "Private":
				nPriv++
				guarded := false
				for i := range lcs {
					lc := lcs[i]
					if evalCmp(lc.op, 1, lc.k) != evalCmp(lc.op, 0, lc.k) && c.condAt(lc.bo, evalCmp(lc.op, 1, lc.k), st.Block()) {
						guarded = true
						privGuard = &lcs[i]
					}
				}
				fromPriv := derives(st.Val, func(v ssa.Value) bool { return v == ssa.Value(f.Params[2]) }, true)
				fromPub := derives(st.Val, func(v ssa.Value) bool { return v == ssa.Value(f.Params[1]) }, true)
				okType := true
				if want, ok := pemPriv[kt]; ok {
					okType = derives(st.Val, func(v ssa.Value) bool { s, ok := constString(v); return ok && s == want }, true)
				} else if kt == "ed25519" {
					okType = derives(st.Val, func(v ssa.Value) bool {
						k, ok := v.(*ssa.Call)
						return ok && calleeName(k) == "encoding/hex.EncodeToString"
					}, true)
				}
				if fb := foreignCallsOnDef(st.Val); len(fb) > 0 {
					okType = false
					c.bad(R, fn, "private half ("+kt+") is the encoding of the bytes given", st.Pos(), "the private bytes pass through "+strings.Join(fb, ", ")+" before they are encoded: bytes of the key that happen to look like white space (or whatever the call drops or changes) are lost, the key no longer signs and its id is that of another value")
				}
				c.check(guarded && fromPriv && !fromPub && okType, R, fn, "private half ("+kt+")", st.Pos(), "only under len(privateKeyBytes) > 0, from the private bytes, encoded for "+kt,
					fmt.Sprintf("private half for %s: under length guard=%v, from private bytes=%v, from public bytes=%v, encoding ok=%v", kt, guarded, fromPriv, fromPub, okType))
			case "Public":
				nPub++
				fromPub := derives(st.Val, func(v ssa.Value) bool { return v == ssa.Value(f.Params[1]) }, true)
				fromPriv := derives(st.Val, func(v ssa.Value) bool { return v == ssa.Value(f.Params[2]) }, true)
				okType := true
				if kt == "rsa" || kt == "ecdsa" {
					okType = derives(st.Val, func(v ssa.Value) bool { s, ok := constString(v); return ok && s == "PUBLIC KEY" }, true)
				}
				if fb := foreignCallsOnDef(st.Val); len(fb) > 0 {
					okType = false
					c.bad(R, fn, "public half ("+kt+") is the encoding of the bytes given", st.Pos(), "the public bytes pass through "+strings.Join(fb, ", ")+" before they are encoded: the stored public half, and with it the key id, is no longer that of the loaded key")
				}
				c.check(fromPub && !fromPriv && okType, R, fn, "public half ("+kt+")", st.Pos(), "from the public bytes", fmt.Sprintf("public half for %s: from public bytes=%v, from private bytes=%v, PEM type ok=%v", kt, fromPub, fromPriv, okType))
			case "Certificate":
				c.bad(R, fn, "certificate set in setKeyComponents", st.Pos(), "unexpected certificate store")
			}
		}
	}
	c.check(nWhole >= 6 && nPriv == 3 && nPub == 6, R, fn, "KeyVal is rebuilt in every arm (3 key types x with/without private half)", f.Pos(), fmt.Sprintf("%d whole-struct stores, %d private, %d public", nWhole, nPriv, nPub), fmt.Sprintf("unexpected number of KeyVal constructions: %d whole-struct stores, %d private, %d public", nWhole, nPriv, nPub))
	_ = privGuard
	// metadata fields and id
	wantF := map[string]string{"p0.KeyType": "p3", "p0.Scheme": "p4", "p0.KeyIDHashAlgorithms": "p5"}
	gotF := map[string]string{}
	for _, b := range f.Blocks {
		for _, in := range b.Instrs {
			if st, ok := in.(*ssa.Store); ok {
				if _, ok := wantF[org(st.Addr)]; ok {
					gotF[org(st.Addr)] = org(st.Val)
				}
			}
		}
	}
	okF := true
	for k, w := range wantF {
		if gotF[k] != w {
			okF = false
		}
	}
	gid := firstCall(f, "(*in_toto.Key).generateKeyID")
	c.check(okF && gid != nil && org(gid.Common().Args[0]) == "p0", R, fn, "key type, scheme, hash algorithms set from the parameters, then the id is generated", f.Pos(), "KeyType=p3 Scheme=p4 KeyIDHashAlgorithms=p5; generateKeyID()", fmt.Sprintf("metadata fields: %v", gotF))
}

func ruleC19_4(c *Ctx) {
	const R = "R-C19-4"
	f := c.lookup("in_toto.parseKey")
	if f == nil {
		c.undecided(R, "in_toto.parseKey", "anchor", 0, "not found")
		return
	}
	var got []string
	for _, call := range allCalls(f) {
		n := calleeName(call)
		if strings.HasPrefix(n, "crypto/x509.Parse") {
			got = append(got, strings.TrimPrefix(n, "crypto/x509."))
			if org(call.Common().Args[0]) != "p0" {
				c.bad(R, fname(f), n+" argument", call.Pos(), "parser is applied to "+org(call.Common().Args[0]))
			}
		}
	}
	sort.Strings(got)
	want := "ParseCertificate,ParseECPrivateKey,ParsePKCS1PrivateKey,ParsePKCS8PrivateKey,ParsePKIXPublicKey"
	c.check(strings.Join(got, ",") == want, R, fname(f), "exactly the five accepted encodings are tried", f.Pos(), strings.Join(got, ","), "parsers tried: {"+strings.Join(got, ",")+"}, expected {"+want+"}")
	okSent := false
	for _, r := range returnsOf(f) {
		if isNilConst(r.Results[0]) {
			okSent = org(r.Results[1]) == "global(in_toto.ErrFailedPEMParsing)"
		} else {
			// a key is returned only with a nil error and only where its parser succeeded
			pc, idx := producer(r.Results[0], r)
			bad := "a parsed value is returned although its parser reported an error"
			if pc == nil {
				bad = "the returned key is " + short(org(r.Results[0])) + ", not the direct result of one of the parsers (an element picked out of a list may not exist: x509.ParseCertificates returns an empty list without an error for empty input)"
			}
			c.check(pc != nil && idx == 0 && isNilConst(r.Results[1]) && c.okCallAt(pc, r.Block()), R, fname(f), "a key is returned only where its parser succeeded", instrPos(r), calleeName(pc), bad)
		}
	}
	c.check(okSent, R, fname(f), "otherwise ErrFailedPEMParsing", f.Pos(), "final return (nil, ErrFailedPEMParsing)", "a blob in none of the encodings does not fail with ErrFailedPEMParsing")
	if g := c.lookup("in_toto.decodeAndParse"); g != nil {
		dec := firstCall(g, "encoding/pem.Decode")
		okNil := false
		if dec != nil && org(dec.Common().Args[0]) == "p0" {
			block := resultN(dec, 0)
			okNil = block != nil
			for _, b := range g.Blocks {
				for _, in := range b.Instrs {
					if fa, ok := in.(*ssa.FieldAddr); ok && fa.X == block {
						if !c.nonNilAt(block, fa.Block()) {
							okNil = false
						}
					}
				}
			}
			if block != nil {
				fails := false
				for _, br := range errBranches(block) {
					if c.failing(br.Nil) {
						fails = true
					}
				}
				okNil = okNil && fails
			}
		}
		c.check(okNil, R, fname(g), "no PEM block => ErrNoPEMBlock before the block is touched", g.Pos(), "nil test of pem.Decode's block dominates data.Bytes and fails", "a missing PEM block is dereferenced or accepted")
		// the decoded bytes go to the try-all-encodings parser whatever the block's label says: the library itself
		// stores private halves under fixed labels (setKeyComponents: ecdsa -> "PRIVATE KEY", rsa -> "RSA PRIVATE KEY")
		// with the DER bytes as they were loaded (PKCS#1, PKCS#8 or SEC1), so a parser chosen by label refuses keys the
		// library has loaded itself
		for _, r := range c.nilErrReturns(g) {
			if len(r.Results) < 2 {
				continue
			}
			pc, idx := producer(r.Results[1], r)
			okParse := pc != nil && idx == 0 && pc.Common().StaticCallee() == f && dec != nil &&
				org(pc.Common().Args[0]) == org(resultN(dec, 0))+".Bytes"
			what := "-"
			if pc != nil {
				what = calleeName(pc) + "(" + short(org(pc.Common().Args[0])) + ")"
			}
			c.check(okParse, R, fname(g), "the key object is "+fname(f)+"(block.Bytes)", instrPos(r), "all five encodings are tried on the decoded bytes, independent of the PEM label", "the key object comes from "+what+", not from the try-all-encodings parser applied to the block's bytes: key material the library stored itself (original DER under a fixed label) may be refused")
		}
		readsType := false
		for _, fn2 := range c.srcFuncs("in_toto") {
			for _, b := range fn2.Blocks {
				for _, in := range b.Instrs {
					if fa, ok := in.(*ssa.FieldAddr); ok && typeStr(fa.X.Type()) == "*encoding/pem.Block" && fieldName(fa.X.Type(), fa.Field) == "Type" {
						for _, rr := range *fa.Referrers() {
							if ld, isLd := rr.(*ssa.UnOp); isLd && ld.Op == token.MUL {
								readsType = true
								c.bad(R, fname(fn2), "PEM label is read", ld.Pos(), "the PEM block's Type decides something here, but the labels the library writes do not identify the encoding of the bytes below them")
							}
						}
					}
				}
			}
		}
		if !readsType {
			c.ok(R, "in_toto", "PEM labels are never read", 0, "no load of pem.Block.Type in package in_toto")
		}
	}
}

func ruleC19_6(c *Ctx) {
	const R = "R-C19-6"
	f := c.lookup("(internal/spiffe.SVIDDetails).InTotoKey")
	if f == nil {
		c.undecided(R, "(internal/spiffe.SVIDDetails).InTotoKey", "anchor", 0, "not found")
		return
	}
	fn := fname(f)
	mk := firstCall(f, "crypto/x509.MarshalPKCS8PrivateKey")
	c.check(mk != nil && org(mk.Common().Args[0]) == "p0.PrivateKey", R, fn, "the SVID private key is marshalled as PKCS#8", f.Pos(), "x509.MarshalPKCS8PrivateKey(s.PrivateKey)", "the SVID key is not marshalled as PKCS#8")
	ld := firstCall(f, "(*in_toto.Key).LoadKeyReaderDefaults")
	okLd := false
	if ld != nil && mk != nil {
		okLd = derives(ld.Common().Args[1], func(v ssa.Value) bool { return v == resultN(mk, 0) }, true) &&
			derives(ld.Common().Args[1], func(v ssa.Value) bool { s, ok := constString(v); return ok && s == "PRIVATE KEY" }, true)
	}
	c.check(okLd, R, fn, "loaded through the defaults loader from a PRIVATE KEY PEM of those bytes", f.Pos(), "LoadKeyReaderDefaults(pem(PRIVATE KEY, pkcs8))", "the key is not loaded from the PKCS#8 PEM of the SVID key")
	okCert := false
	for _, b := range f.Blocks {
		for _, in := range b.Instrs {
			if st, ok := in.(*ssa.Store); ok && strings.HasSuffix(org(st.Addr), ".KeyVal.Certificate") {
				fromLeaf := derives(st.Val, func(v ssa.Value) bool { return org(v) == "p0.Certificate.Raw" }, true)
				typ := derives(st.Val, func(v ssa.Value) bool { s, ok := constString(v); return ok && s == "CERTIFICATE" }, true)
				okCert = fromLeaf && typ && ld != nil && c.okCallAt(ld, st.Block())
			}
		}
	}
	c.check(okCert, R, fn, "the leaf certificate's PEM is attached after a successful load", f.Pos(), "KeyVal.Certificate = pem(CERTIFICATE, s.Certificate.Raw)", "the leaf certificate is not attached to the loaded key")
	if g := c.lookup("internal/spiffe.GetSVID"); g != nil {
		okLeaf := false
		for _, b := range g.Blocks {
			for _, in := range b.Instrs {
				if st, ok := in.(*ssa.Store); ok && strings.HasSuffix(org(st.Addr), ".Certificate") && strings.HasSuffix(org(st.Val), ".Certificates[0]") {
					okLeaf = true
				}
			}
		}
		c.check(okLeaf, R, fname(g), "leaf = first certificate of the SVID, intermediates = the rest", g.Pos(), "Certificates[0] / Certificates[1:]", "the leaf certificate is not Certificates[0]")
	}
}

// c19StructPreimage: the key-id preimage given as a struct literal. The JSON view of the struct type must have exactly
// the members keytype, scheme, keyid_hash_algorithms, keyval, none of them omitted when empty (a nil or empty algorithm
// list is part of the description), each fed from the receiver's namesake field; keyval is a struct literal that sets
// only the member "public", from the receiver's public half, and whose other members are omitted when empty.
func (c *Ctx) c19StructPreimage(R, fn string, enc ssa.CallInstruction) bool {
	v := enc.Common().Args[0]
	if mi, ok := v.(*ssa.MakeInterface); ok {
		v = mi.X
	}
	litOf := func(v ssa.Value) *ssa.Alloc {
		if u, ok := v.(*ssa.UnOp); ok && u.Op == token.MUL {
			if al, ok := u.X.(*ssa.Alloc); ok && al.Comment == "complit" {
				return al
			}
		}
		return nil
	}
	al := litOf(v)
	if al == nil {
		return false
	}
	fieldStores := func(al *ssa.Alloc) map[string]ssa.Value {
		out := map[string]ssa.Value{}
		for _, r := range *al.Referrers() {
			if fa, ok := r.(*ssa.FieldAddr); ok {
				for _, rr := range *fa.Referrers() {
					if st, ok := rr.(*ssa.Store); ok && st.Addr == fa {
						out[fieldName(fa.X.Type(), fa.Field)] = st.Val
					}
				}
			}
		}
		return out
	}
	type member struct {
		field     string
		omitempty bool
		typ       types.Type
	}
	view := func(t types.Type) map[string]member {
		st, ok := t.Underlying().(*types.Struct)
		if !ok {
			return nil
		}
		out := map[string]member{}
		for i := 0; i < st.NumFields(); i++ {
			f := st.Field(i)
			if !f.Exported() {
				continue
			}
			tag := reflect.StructTag(st.Tag(i)).Get("json")
			name, opts, _ := strings.Cut(tag, ",")
			if name == "-" {
				continue
			}
			if name == "" {
				name = f.Name()
			}
			out[name] = member{f.Name(), strings.Contains(opts, "omitempty") || strings.Contains(opts, "omitzero"), f.Type()}
		}
		return out
	}
	outerT := al.Type().(*types.Pointer).Elem()
	mv := view(outerT)
	var names []string
	for n := range mv {
		names = append(names, n)
	}
	sort.Strings(names)
	c.check(strings.Join(names, ",") == "keyid_hash_algorithms,keytype,keyval,scheme", R, fn, "preimage has exactly keytype, scheme, keyid_hash_algorithms, keyval", al.Pos(), strings.Join(names, ","), "hashed description has members {"+strings.Join(names, ",")+"}")
	stores := fieldStores(al)
	want := map[string]string{"keytype": "p0.KeyType", "scheme": "p0.Scheme", "keyid_hash_algorithms": "p0.KeyIDHashAlgorithms"}
	for _, n := range []string{"keyid_hash_algorithms", "keytype", "scheme"} {
		m, ok := mv[n]
		if !ok {
			continue
		}
		c.check(!m.omitempty, R, fn, "preimage member "+n+" is always present", al.Pos(), "no omitempty", "member "+n+" is left out of the description when it is empty (omitempty): a key with a nil or empty value gets an id that is not the hash of its description, and nil / empty / absent collapse into one id")
		got := "<not set>"
		if sv, ok := stores[m.field]; ok {
			got = org(sv)
		}
		c.check(got == want[n], R, fn, "preimage member "+n, al.Pos(), want[n], "member "+n+" is fed from "+got)
	}
	if m, ok := mv["keyval"]; ok {
		c.check(!m.omitempty, R, fn, "preimage member keyval is always present", al.Pos(), "no omitempty", "member keyval is left out when empty")
		var innerT types.Type
		var is map[string]ssa.Value
		if inner := litOf(stores[m.field]); inner != nil {
			innerT, is = inner.Type().(*types.Pointer).Elem(), fieldStores(inner)
		} else {
			// the nested literal is written in place: stores into &outer.keyval.<member>
			for _, r := range *al.Referrers() {
				fa, ok := r.(*ssa.FieldAddr)
				if !ok || fieldName(fa.X.Type(), fa.Field) != m.field {
					continue
				}
				for _, rr := range *fa.Referrers() {
					fa2, ok := rr.(*ssa.FieldAddr)
					if !ok {
						continue
					}
					for _, r3 := range *fa2.Referrers() {
						if st, ok := r3.(*ssa.Store); ok && st.Addr == fa2 {
							if is == nil {
								is = map[string]ssa.Value{}
							}
							is[fieldName(fa2.X.Type(), fa2.Field)] = st.Val
							innerT = m.typ
						}
					}
				}
			}
		}
		okInner := innerT != nil
		detail := "keyval is not a struct literal"
		if innerT != nil {
			iv := view(innerT)
			var set []string
			for n, im := range iv {
				if _, stored := is[im.field]; stored {
					set = append(set, n)
				} else if !im.omitempty {
					okInner = false
					detail = "keyval member " + n + " is not set but always encoded"
				}
			}
			sort.Strings(set)
			pub, hasPub := iv["public"]
			if strings.Join(set, ",") != "public" || !hasPub || pub.omitempty || org(is[pub.field]) != "p0.KeyVal.Public" {
				okInner = false
				detail = "keyval members set: {" + strings.Join(set, ",") + "}"
			}
		}
		c.check(okInner, R, fn, "keyval holds only the public half", al.Pos(), "keyval:{public: k.KeyVal.Public}, every other member omitted when empty", detail+" (private material or certificate would change the id between halves)")
	}
	return true
}

// keyEncodingCalls: what may stand between the key bytes handed to setKeyComponents and the string stored in KeyVal.
// strings.TrimSpace is applied to the *encoded* text (PEM, hex), where white space carries nothing.
var keyEncodingCalls = map[string]bool{
	"encoding/hex.EncodeToString":    true,
	"in_toto.generatePEMBlock":       true,
	"encoding/pem.EncodeToMemory":    true,
	"strings.TrimSpace":              true,
	"strings.TrimRight":              true,
	"strings.TrimSuffix":             true,
	"builtin:len":                    true,
	"builtin:append":                 true,
	"builtin:copy":                   true,
	"encoding/hex.EncodedLen":        true,
	"encoding/hex.Encode":            true,
	"(*strings.Builder).WriteString": true,
	"(*strings.Builder).String":      true,
}

// foreignCallsOnDef lists the calls, outside keyEncodingCalls, that the definition of v runs through. A call that is
// applied to raw key bytes (bytes.TrimSpace, bytes.ToLower, a re-slicing helper) changes the key.
func foreignCallsOnDef(v ssa.Value) []string {
	seen := map[ssa.Value]bool{}
	found := map[string]bool{}
	var walk func(x ssa.Value, depth int)
	walk = func(x ssa.Value, depth int) {
		if x == nil || seen[x] || depth > 40 {
			return
		}
		seen[x] = true
		switch y := x.(type) {
		case *ssa.Call:
			n := calleeName(y)
			if !keyEncodingCalls[n] {
				found[n] = true
			}
			for _, a := range y.Call.Args {
				walk(a, depth+1)
			}
			if y.Call.IsInvoke() {
				walk(y.Call.Value, depth+1)
			}
		case *ssa.Phi:
			for _, e := range y.Edges {
				walk(e, depth+1)
			}
		case *ssa.Parameter, *ssa.Const, *ssa.Global, *ssa.Alloc, *ssa.FreeVar, *ssa.Function:
		case ssa.Instruction:
			for _, op := range y.Operands(nil) {
				if *op != nil {
					walk(*op, depth+1)
				}
			}
		}
	}
	walk(v, 0)
	var out []string
	for n := range found {
		out = append(out, n)
	}
	sort.Strings(out)
	return out
}
