package main

import (
	"fmt"
	"go/token"
	"strings"

	"golang.org/x/tools/go/ssa"
)

// Rules added for the round-9 seeded changes ("shows only when something fails at a particular point").

func init() {
	share := func(prop, id, doc string, min int, run func(*Ctx), expl string) {
		if p := registry[prop]; p != nil {
			p.Rules = append(p.Rules, Rule{ID: id, Doc: doc, Min: min, Run: run})
			if expl != "" {
				p.Explanation += " " + expl
			}
		}
	}
	share("C01", "R-C20-6", "the verify command hands every --layout-keys file to the library, under its own key id (shared with C20)", 6, ruleC20_6, "(R-C20-6, shared with C20) the command-line verifier loads every --layout-keys argument and fails on a key it cannot load: no supplied key silently drops out of the set the layout must be signed with.")
	share("C02", "R-C02-7", "a link file that does not load is skipped, never fatal", 2, ruleC02_7, "(R-C02-7) in LoadLinksForLayout the error of LoadMetadata never reaches a failing continuation: whatever unreadable, unparsable or foreign files lie next to the honest links, the honest links still count.")
	share("C11", "R-C11-7", "SetPayload updates the envelope only after the last point of failure", 2, ruleC11_7, "(R-C11-7) no failing return of Envelope.SetPayload is reachable after a store into the receiver: a refused payload leaves the reported payload and the signed bytes in agreement.")
	share("C14", "R-C14-9", "once the command was started and waited for, its outcome is handed back", 1, ruleC14_9, "(R-C14-9) RunCommand has no failing return after a successful Start: a command killed by a signal or exiting with any status yields its output and return value, not an error.")
	share("C15", "R-C15-8", "no result of a fallible call is used where the call's error has not been examined", 50, ruleC15_8, "(R-C15-8) in every module function below the loaders, validators and verification entry points, a reference-typed result of a call that also returns an error is used only where that error is known nil or known non-nil (or handed on together with it): a nil Metadata / Layout / pool from a failed call is not dereferenced.")
	share("C17", "R-C17-12", "the failure flag of matchChunk is sticky", 2, ruleC17_12, "(R-C17-12) on every back edge of matchChunk's term loop the failure flag is its previous value or the constant true: a later term (a negated class over the unread position) cannot clear an earlier mismatch.")
	share("C03", "R-C17-12", "the failure flag of matchChunk is sticky (shared with C17)", 2, ruleC17_12, "")
}

// R-C02-7 -------------------------------------------------------------------------------------------------------------

func ruleC02_7(c *Ctx) {
	const R = "R-C02-7"
	f := c.lookup("in_toto.LoadLinksForLayout")
	if f == nil {
		c.undecided(R, "in_toto.LoadLinksForLayout", "anchor", 0, "not found")
		return
	}
	fn := fname(f)
	lm := firstCall(f, "in_toto.LoadMetadata")
	if lm == nil {
		c.undecided(R, fn, "LoadMetadata", f.Pos(), "the loader does not call LoadMetadata directly")
		return
	}
	e := errResult(lm)
	if e == nil {
		c.bad(R, fn, "LoadMetadata error", lm.Pos(), "the error of LoadMetadata is not bound")
		return
	}
	// no failing block is reachable, within the iteration, from the non-nil side of the error test
	brs := errBranches(e)
	c.check(len(brs) > 0, R, fn, "the load error is tested", lm.Pos(), "err != nil => skip", "the error of LoadMetadata is never tested: a file that did not load is processed")
	hdr := innermostLoopHeader(lm.Block())
	for _, br := range brs {
		bad := ""
		for _, b := range f.Blocks {
			if !c.failing(b) {
				continue
			}
			if _, isRet := b.Instrs[len(b.Instrs)-1].(*ssa.Return); !isRet {
				continue
			}
			reach := b == br.NonNil
			if hdr != nil {
				reach = reach || reachesAvoiding(br.NonNil, b, hdr)
			} else {
				reach = reach || reaches(br.NonNil, b)
			}
			// a failing return is only attributable to the load error if the error is still known non-nil there
			if reach && c.nonNilAt(e, b) {
				bad = c.pos(b.Instrs[len(b.Instrs)-1].Pos())
			}
		}
		c.check(bad == "", R, fn, "a file that does not load is skipped", lm.Pos(), "the non-nil side continues with the next file",
			"a link file that cannot be loaded aborts the loading of all links (failing return at "+bad+"): honest links next to an unreadable, foreign or garbage file no longer satisfy the threshold")
	}
}

// R-C11-7 -------------------------------------------------------------------------------------------------------------

func ruleC11_7(c *Ctx) {
	const R = "R-C11-7"
	f := c.lookup("(*in_toto.Envelope).SetPayload")
	if f == nil {
		c.undecided(R, "(*in_toto.Envelope).SetPayload", "anchor", 0, "not found")
		return
	}
	fn := fname(f)
	n := 0
	for _, b := range f.Blocks {
		for _, in := range b.Instrs {
			st, ok := in.(*ssa.Store)
			if !ok {
				continue
			}
			fa, ok := st.Addr.(*ssa.FieldAddr)
			if !ok || org(fa.X) != "p0" {
				continue
			}
			n++
			bad := ""
			for _, fb := range f.Blocks {
				if !c.failing(fb) {
					continue
				}
				r, isRet := fb.Instrs[len(fb.Instrs)-1].(*ssa.Return)
				if !isRet {
					continue
				}
				if fb == b && instrIndex(st) < instrIndex(r) || fb != b && reaches(b, fb) {
					bad = c.pos(r.Pos())
				}
			}
			c.check(bad == "", R, fn, "store into receiver."+fieldName(fa.X.Type(), fa.Field), st.Pos(), "no failing return is reachable after it",
				"the envelope's "+fieldName(fa.X.Type(), fa.Field)+" is replaced before SetPayload can still fail (failing return at "+bad+"): after a refused payload GetPayload() reports an object that is not what the envelope carries and signs")
		}
	}
	if n == 0 {
		c.undecided(R, fn, "stores into the receiver", f.Pos(), "SetPayload stores nothing into the receiver")
	}
}

// R-C14-9 -------------------------------------------------------------------------------------------------------------

func ruleC14_9(c *Ctx) {
	const R = "R-C14-9"
	f := c.lookup("in_toto.RunCommand")
	if f == nil {
		c.undecided(R, "in_toto.RunCommand", "anchor", 0, "not found")
		return
	}
	// the frame that starts the command: RunCommand or an unexported helper it forwards to
	frames := []*ssa.Function{f}
	for _, call := range allCalls(f) {
		if g := call.Common().StaticCallee(); g != nil && g.Blocks != nil && g.Pkg == f.Pkg && g.Object() != nil && !g.Object().Exported() {
			frames = append(frames, g)
		}
	}
	n := 0
	for _, fr := range frames {
		for _, st := range callsIn(fr, "(*os/exec.Cmd).Start") {
			n++
			bad := ""
			for _, b := range fr.Blocks {
				r, isRet := b.Instrs[len(b.Instrs)-1].(*ssa.Return)
				if !isRet || !c.failing(b) || !c.okCallAt(st, b) {
					continue
				}
				bad = c.pos(r.Pos())
			}
			c.check(bad == "", R, fname(fr), "no failing return after a successful Start", st.Pos(), "every return under Start's nil-error edge hands back the by-products",
				"the command runner returns an error after the command was started (failing return at "+bad+"): a command that ran and ended by a signal, or with some status, yields no output and no return value")
		}
		for _, rn := range callsIn(fr, "(*os/exec.Cmd).Run") {
			n++
			e := errResult(rn)
			bad := ""
			for _, b := range fr.Blocks {
				r, isRet := b.Instrs[len(b.Instrs)-1].(*ssa.Return)
				if !isRet || !c.failing(b) || !rn.Block().Dominates(b) || b == rn.Block() {
					continue
				}
				// allowed: the failing return that reports Run's own non-ExitError error
				if e != nil && c.nonNilAt(e, b) {
					continue
				}
				bad = c.pos(r.Pos())
			}
			c.check(bad == "", R, fname(fr), "no failing return after Run other than Run's own start error", rn.Pos(), "failing returns after Run lie under err != nil",
				"the command runner returns an error after the command ran (failing return at "+bad+")")
		}
	}
	if n == 0 {
		c.undecided(R, fname(f), "Start / Run", f.Pos(), "no exec.Cmd Start or Run below RunCommand")
	}
}

// R-C17-12 ------------------------------------------------------------------------------------------------------------

func ruleC17_12(c *Ctx) {
	const R = "R-C17-12"
	f := c.lookup("in_toto.matchChunk")
	if f == nil {
		c.undecided(R, "in_toto.matchChunk", "anchor", 0, "not found")
		return
	}
	fn := fname(f)
	// the failure flag: a bool phi at a loop header with an incoming constant true somewhere in its closure and a
	// constant false on entry
	n := 0
	for _, b := range f.Blocks {
		for _, in := range b.Instrs {
			ph, ok := in.(*ssa.Phi)
			if !ok || !isBool(ph.Type().Underlying()) {
				continue
			}
			isHeader, entryFalse := false, false
			for i, e := range ph.Edges {
				if b.Dominates(b.Preds[i]) {
					isHeader = true
				} else if k, ok := e.(*ssa.Const); ok && k.Value != nil && k.Value.String() == "false" {
					entryFalse = true
				}
			}
			if !isHeader || !entryFalse {
				continue
			}
			// closure of the values that flow back into the phi
			sawTrue := false
			var offenders []string
			seen := map[ssa.Value]bool{}
			var walk func(v ssa.Value)
			walk = func(v ssa.Value) {
				if seen[v] {
					return
				}
				seen[v] = true
				switch x := v.(type) {
				case *ssa.Phi:
					if x == ph {
						return
					}
					for _, e := range x.Edges {
						walk(e)
					}
				case *ssa.Const:
					if x.Value != nil && x.Value.String() == "true" {
						sawTrue = true
					} else {
						offenders = append(offenders, "constant "+x.Value.String()+" at "+c.pos(ph.Pos()))
					}
				case *ssa.BinOp:
					// failed || x keeps a set flag
					if x.Op == token.OR || x.Op == token.LOR {
						if x.X == ssa.Value(ph) || x.Y == ssa.Value(ph) {
							sawTrue = true
							return
						}
					}
					offenders = append(offenders, short(org(x))+" at "+c.pos(x.Pos()))
				default:
					offenders = append(offenders, short(org(v))+" at "+c.pos(v.Pos()))
				}
			}
			for i, e := range ph.Edges {
				if b.Dominates(b.Preds[i]) {
					walk(e)
				}
			}
			if !sawTrue && len(offenders) == 0 {
				continue
			}
			if !sawTrue {
				continue // not a flag that is ever raised: some other loop-carried bool
			}
			n++
			c.check(len(offenders) == 0, R, fn, "sticky flag "+phName(ph)+" is only ever raised", ph.Pos(), "back edges carry the flag itself or true",
				"the flag is assigned "+strings.Join(offenders, "; ")+" inside the term loop: a later term can clear an earlier mismatch (the loop keeps scanning after a failure only to validate the pattern, with nothing read from the name)")
		}
	}
	if n == 0 {
		c.undecided(R, fn, "failure flag", f.Pos(), "no loop-carried flag that starts false and is raised inside the term loop")
	} else {
		c.ok(R, fn, "failure flags examined", f.Pos(), fmt.Sprintf("%d", n))
	}
}

// R-C15-8 -------------------------------------------------------------------------------------------------------------

func ruleC15_8(c *Ctx) {
	const R = "R-C15-8"
	var roots []*ssa.Function
	for _, e := range c.entryPoints() {
		roots = append(roots, e.f)
	}
	for _, n := range []string{"in_toto.LoadMetadata", "(*in_toto.Metablock).Load", "in_toto.ValidateMetablock", "(*in_toto.Metablock).Sign", "(*in_toto.Envelope).Sign",
		"(*in_toto.Metablock).VerifySignature", "(*in_toto.Envelope).VerifySignature", "(*in_toto.Envelope).SetPayload", "(*in_toto.Key).LoadKey", "(*in_toto.Key).LoadKeyReader"} {
		if f := c.lookup(n); f != nil {
			roots = append(roots, f)
		}
	}
	if len(roots) < 8 {
		c.undecided(R, "in_toto", "anchors", 0, "entry points not found")
		return
	}
	var fs []*ssa.Function
	for f := range reachable(c.CG, roots...) {
		pk := f.Pkg
		if pk == nil && f.Parent() != nil {
			pk = f.Parent().Pkg
		}
		if f.Blocks != nil && pk != nil && strings.HasPrefix(pk.Pkg.Path(), modPath) {
			fs = append(fs, f)
		}
	}
	sortFuncs(fs)
	for _, f := range fs {
		fnd := c.a1UseBeforeCheck(f)
		if len(fnd) == 0 {
			c.ok(R, fname(f), "results of fallible calls are used after their error was examined", f.Pos(), "no use on an unexamined path")
			continue
		}
		for _, d := range fnd {
			c.bad(R, fname(f), d.what, d.pos, d.detail+" (a nil interface or pointer from a failed call panics when it is used)")
		}
	}
}

func sortFuncs(fs []*ssa.Function) {
	for i := 1; i < len(fs); i++ {
		for j := i; j > 0 && fname(fs[j]) < fname(fs[j-1]); j-- {
			fs[j], fs[j-1] = fs[j-1], fs[j]
		}
	}
}
