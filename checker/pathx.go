package main

import (
	"go/constant"
	"go/token"
	"go/types"

	"golang.org/x/tools/go/ssa"
)

// pathx: bounded path-sensitive exploration of one function (static; nothing is executed and no solver is involved).
// Every acyclic path from the entry block to a return is enumerated; along a path the explorer keeps
//   - the incoming value selected for each phi,
//   - the emptiness of string values that were tested against "" or whose len was tested against 0 (keyed by access path),
//   - for calls whose error result was tested against nil: whether it was nil,
//   - the outcome of any other condition value (so that the same condition is not taken both ways on one path).
// A branch whose condition is decided by what the path already knows is followed one way only, so that infeasible
// combinations such as  keyPath == ""  followed by  len(keyPath) > 0  are not reported as paths. Paths that would
// re-enter a block are cut (pathxResult.cut): the client decides whether that makes its verdict undecided.

type pathEnv struct {
	phi     map[*ssa.Phi]ssa.Value
	empty   map[string]bool
	callOK  map[ssa.CallInstruction]bool
	boolv   map[ssa.Value]bool
	visited map[*ssa.BasicBlock]bool
	trace   []*ssa.BasicBlock
}

func (e *pathEnv) clone() *pathEnv {
	n := &pathEnv{phi: map[*ssa.Phi]ssa.Value{}, empty: map[string]bool{}, callOK: map[ssa.CallInstruction]bool{}, boolv: map[ssa.Value]bool{}, visited: map[*ssa.BasicBlock]bool{}}
	for k, v := range e.phi {
		n.phi[k] = v
	}
	for k, v := range e.empty {
		n.empty[k] = v
	}
	for k, v := range e.callOK {
		n.callOK[k] = v
	}
	for k, v := range e.boolv {
		n.boolv[k] = v
	}
	for k, v := range e.visited {
		n.visited[k] = v
	}
	n.trace = append([]*ssa.BasicBlock{}, e.trace...)
	return n
}

// val resolves phis through the path's selections.
func (e *pathEnv) val(v ssa.Value) ssa.Value {
	for i := 0; i < 20; i++ {
		ph, ok := v.(*ssa.Phi)
		if !ok {
			return v
		}
		s, ok := e.phi[ph]
		if !ok {
			return v
		}
		v = s
	}
	return v
}

type pathxResult struct {
	paths int
	cut   int
	limit bool
}

// atom classifies a boolean SSA value as one of the tracked predicates.
//
//	kind "empty": string with access path key is empty (neg: is not empty)
//	kind "callok": the error result of call is nil (neg: non-nil)
//	kind "": untracked
type pathAtom struct {
	kind string
	key  string
	call ssa.CallInstruction
	neg  bool
}

func (e *pathEnv) atom(v ssa.Value) pathAtom {
	v = e.val(v)
	b, ok := v.(*ssa.BinOp)
	if !ok {
		return pathAtom{}
	}
	x, y := e.val(b.X), e.val(b.Y)
	op := b.Op
	// constant on the left: mirror
	if _, ok := x.(*ssa.Const); ok {
		if _, ok2 := y.(*ssa.Const); !ok2 {
			x, y = y, x
			switch op {
			case token.LSS:
				op = token.GTR
			case token.GTR:
				op = token.LSS
			case token.LEQ:
				op = token.GEQ
			case token.GEQ:
				op = token.LEQ
			}
		}
	}
	k, ok := y.(*ssa.Const)
	if !ok {
		return pathAtom{}
	}
	// string == "" / != ""
	if bt, ok := x.Type().Underlying().(*types.Basic); ok && bt.Info()&types.IsString != 0 && k.Value != nil && k.Value.Kind() == constant.String && constant.StringVal(k.Value) == "" {
		switch op {
		case token.EQL:
			return pathAtom{kind: "empty", key: org(x)}
		case token.NEQ:
			return pathAtom{kind: "empty", key: org(x), neg: true}
		}
		return pathAtom{}
	}
	// len(s) cmp n
	if call, ok := x.(*ssa.Call); ok && calleeName(call) == "builtin:len" && len(call.Call.Args) == 1 {
		if n, ok := constInt(k); ok {
			arg := e.val(call.Call.Args[0])
			if bt, ok := arg.Type().Underlying().(*types.Basic); ok && bt.Info()&types.IsString != 0 {
				key := org(arg)
				switch {
				case (op == token.EQL && n == 0) || (op == token.LEQ && n == 0) || (op == token.LSS && n == 1):
					return pathAtom{kind: "empty", key: key}
				case (op == token.NEQ && n == 0) || (op == token.GTR && n == 0) || (op == token.GEQ && n == 1):
					return pathAtom{kind: "empty", key: key, neg: true}
				}
			}
		}
		return pathAtom{}
	}
	// err == nil / err != nil
	if k.IsNil() && isErrorType(x.Type()) {
		if pcall, idx := producer(x, b); pcall != nil && idx >= 0 && errResult(pcall) != nil {
			switch op {
			case token.EQL:
				return pathAtom{kind: "callok", call: pcall}
			case token.NEQ:
				return pathAtom{kind: "callok", call: pcall, neg: true}
			}
		}
	}
	return pathAtom{}
}

// eval: the value of condition v on this path, if the path decides it.
func (e *pathEnv) eval(v ssa.Value) (bool, bool) {
	v = e.val(v)
	if k, ok := v.(*ssa.Const); ok && k.Value != nil && k.Value.Kind() == constant.Bool {
		return constant.BoolVal(k.Value), true
	}
	if u, ok := v.(*ssa.UnOp); ok && u.Op == token.NOT {
		r, known := e.eval(u.X)
		return !r, known
	}
	a := e.atom(v)
	switch a.kind {
	case "empty":
		if r, ok := e.empty[a.key]; ok {
			return r != a.neg, true
		}
	case "callok":
		if r, ok := e.callOK[a.call]; ok {
			return r != a.neg, true
		}
	}
	if r, ok := e.boolv[v]; ok {
		return r, true
	}
	return false, false
}

func (e *pathEnv) assume(v ssa.Value, outcome bool) {
	v = e.val(v)
	if u, ok := v.(*ssa.UnOp); ok && u.Op == token.NOT {
		e.assume(u.X, !outcome)
		return
	}
	a := e.atom(v)
	switch a.kind {
	case "empty":
		e.empty[a.key] = outcome != a.neg
	case "callok":
		e.callOK[a.call] = outcome != a.neg
	}
	e.boolv[v] = outcome
}

func explorePaths(f *ssa.Function, maxPaths int, visit func(ret *ssa.Return, env *pathEnv)) pathxResult {
	var res pathxResult
	if len(f.Blocks) == 0 {
		return res
	}
	var walk func(b, from *ssa.BasicBlock, env *pathEnv)
	walk = func(b, from *ssa.BasicBlock, env *pathEnv) {
		if res.limit {
			return
		}
		if env.visited[b] {
			res.cut++
			return
		}
		env.visited[b] = true
		env.trace = append(env.trace, b)
		if from != nil {
			idx := -1
			for i, p := range b.Preds {
				if p == from {
					idx = i
				}
			}
			// all phis of a block read their operands simultaneously
			sel := map[*ssa.Phi]ssa.Value{}
			for _, in := range b.Instrs {
				ph, ok := in.(*ssa.Phi)
				if !ok {
					break
				}
				if idx >= 0 {
					sel[ph] = env.val(ph.Edges[idx])
				}
			}
			for ph, v := range sel {
				env.phi[ph] = v
			}
		}
		last := b.Instrs[len(b.Instrs)-1]
		switch t := last.(type) {
		case *ssa.Return:
			res.paths++
			if res.paths > maxPaths {
				res.limit = true
				return
			}
			visit(t, env)
		case *ssa.If:
			if r, known := env.eval(t.Cond); known {
				if r {
					walk(b.Succs[0], b, env)
				} else {
					walk(b.Succs[1], b, env)
				}
				return
			}
			et, ef := env.clone(), env.clone()
			et.assume(t.Cond, true)
			ef.assume(t.Cond, false)
			walk(b.Succs[0], b, et)
			walk(b.Succs[1], b, ef)
		case *ssa.Jump:
			walk(b.Succs[0], b, env)
		default: // panic
		}
	}
	walk(f.Blocks[0], nil, (&pathEnv{}).clone())
	return res
}
