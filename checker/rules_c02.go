package main

import (
	"fmt"
	"go/token"
	"strings"

	"golang.org/x/tools/go/ssa"
)

func init() {
	register(&Property{ID: "C02",
		Explanation: "Decides structural clauses of 'thresholds count distinct, authorised, validly signing functionaries': (R-C02-1) every store into the per-step verified map is dominated by a successful VerifySignature of the stored link under a key K that is either layout.Keys[id] (comma-ok) for an id of the current step's PubKeys equal to the map key, or the certificate of the link's own signature for that key id with a successful CheckCertConstraints(step, K, layout.RootCAIDs(), rootPool, intermediatePool); (R-C02-2) on the certificate route the map key equals the verifying certificate's own key id; (R-C02-3) exactly one comparison len(verified) vs step.Threshold, failing iff len < threshold, evaluated for every step, success only after all steps; the verified map is what is returned for the step; (R-C02-4) no order-dependent state in the per-link map loop; (R-C02-5) LoadLinksForLayout keys a file by one of its own signatures' key id selected by the file name's prefix, globs LinkGlobFormat, and skips unloadable files instead of failing.",
		NotDecided:  []string{"the cryptography", "dsse envelope-internal key-id matching", "semantics of each constraint attribute (C07)", "layouts whose keys map is inconsistent (Keys[id].KeyID != id): the layout signer is trusted for that"},
		Rules: []Rule{
			{ID: "R-C02-1", Doc: "guarded store into the verified map (key route / certificate route)", Min: 2, Run: ruleC02_1},
			{ID: "R-C02-2", Doc: "certificate route counts under the certificate's own key id", Min: 1, Run: ruleC02_2},
			{ID: "R-C02-3", Doc: "threshold comparison normal form", Min: 4, Run: ruleC02_3},
			a3Rule("R-C02-4", 1, nil, "in_toto.VerifyLinkSignatureThesholds", "in_toto.LoadLinksForLayout"),
			{ID: "R-C02-5", Doc: "link loading: key provenance, glob, garbage tolerated", Min: 4, Run: ruleC02_5},
			a1Rule(8, "in_toto.VerifyLinkSignatureThesholds", "in_toto.LoadLinksForLayout", "(in_toto.Signature).GetCertificate", "(in_toto.Step).CheckCertConstraints"),
		}})
}

type thresholdShape struct {
	f       *ssa.Function
	M       *ssa.MakeMap
	cmp     *ssa.BinOp
	op      token.Token // normalised: len(M) op Threshold
	updates []*ssa.MapUpdate
}

func (c *Ctx) thresholdShape(R string) *thresholdShape {
	f := c.lookup("in_toto.VerifyLinkSignatureThesholds")
	if f == nil {
		c.undecided(R, "in_toto.VerifyLinkSignatureThesholds", "anchor", 0, "function not found")
		return nil
	}
	s := &thresholdShape{f: f}
	for _, b := range f.Blocks {
		for _, in := range b.Instrs {
			bo, ok := in.(*ssa.BinOp)
			if !ok {
				continue
			}
			lenOf := func(v ssa.Value) *ssa.MakeMap {
				call, ok := v.(*ssa.Call)
				if !ok || calleeName(call) != "builtin:len" {
					return nil
				}
				m, _ := resolve(call.Call.Args[0], call).(*ssa.MakeMap)
				return m
			}
			isThr := func(v ssa.Value) bool { return org(v) == "p0.Steps[*].Threshold" }
			if m := lenOf(bo.X); m != nil && isThr(bo.Y) {
				s.M, s.cmp, s.op = m, bo, bo.Op
			} else if m := lenOf(bo.Y); m != nil && isThr(bo.X) {
				s.M, s.cmp, s.op = m, bo, flipOp(bo.Op)
			}
		}
	}
	if s.M != nil {
		for _, r := range *s.M.Referrers() {
			if mu, ok := r.(*ssa.MapUpdate); ok && mu.Map == ssa.Value(s.M) {
				s.updates = append(s.updates, mu)
			}
		}
	}
	return s
}

// routeOf classifies a store into the verified map.
// guardFrame is the frame in which the guards of a counted link are looked for: the threshold function itself, or an
// unexported helper whose successful call dominates the store (e.g. the certificate route extracted into a function).
type guardFrame struct {
	f      *ssa.Function
	via    ssa.CallInstruction                             // nil for the threshold function itself
	okAt   func(call ssa.CallInstruction) bool             // call known to have succeeded where the link is counted
	factAt func(v ssa.Value, want bool) bool               // boolean fact known where the link is counted
	val    func(v ssa.Value, at ssa.Instruction) ssa.Value // resolved value, mapped to the caller through parameters
	org    func(v ssa.Value) string                        // access path seen from the caller
}

func (c *Ctx) guardFrames(s *thresholdShape, mu *ssa.MapUpdate) []guardFrame {
	direct := guardFrame{f: s.f,
		okAt:   func(call ssa.CallInstruction) bool { return c.okCallAt(call, mu.Block()) },
		factAt: func(v ssa.Value, want bool) bool { return c.condAt(v, want, mu.Block()) },
		val:    func(v ssa.Value, at ssa.Instruction) ssa.Value { return resolve(v, at) },
		org:    org,
	}
	out := []guardFrame{direct}
	for _, h := range allCalls(s.f) {
		g := h.Common().StaticCallee()
		if !c.isStageHelper(g) || !hasErrResult(h) || !c.okCallAt(h, mu.Block()) {
			continue
		}
		h, g := h, g
		subst := map[*ssa.Parameter]string{}
		for i, prm := range g.Params {
			if i < len(h.Common().Args) {
				subst[prm] = org(h.Common().Args[i])
			}
		}
		rets := c.nilErrReturns(g)
		out = append(out, guardFrame{f: g, via: h,
			okAt: func(call ssa.CallInstruction) bool { return c.helperGuarantees(g, call) },
			factAt: func(v ssa.Value, want bool) bool {
				if len(rets) == 0 {
					return false
				}
				for _, r := range rets {
					if !c.condAt(v, want, r.Block()) {
						return false
					}
				}
				return true
			},
			val: func(v ssa.Value, at ssa.Instruction) ssa.Value {
				x := resolve(v, at)
				if prm, ok := x.(*ssa.Parameter); ok && prm.Parent() == g {
					return resolve(h.Common().Args[paramIndex(prm)], h)
				}
				return x
			},
			org: func(v ssa.Value) string { return orgSubst(v, subst) },
		})
	}
	// predicate helpers: g(...) bool whose true result is known where the link is counted. The guards are those that
	// hold at every `return true` of g.
	for _, h := range allCalls(s.f) {
		g := h.Common().StaticCallee()
		if !c.isStageHelper(g) || h.Value() == nil || g.Signature.Results().Len() != 1 || !isBool(g.Signature.Results().At(0).Type().Underlying()) || !c.condAt(h.Value(), true, mu.Block()) {
			continue
		}
		h, g := h, g
		subst := map[*ssa.Parameter]string{}
		for i, prm := range g.Params {
			if i < len(h.Common().Args) {
				subst[prm] = org(h.Common().Args[i])
			}
		}
		var rets []*ssa.Return
		for _, r := range returnsOf(g) {
			// through phis: an edge that can carry true
			mayTrue := false
			var walk func(v ssa.Value, d int)
			walk = func(v ssa.Value, d int) {
				if d > 6 {
					mayTrue = true
					return
				}
				switch x := v.(type) {
				case *ssa.Const:
					if x.Value != nil && x.Value.String() == "true" {
						mayTrue = true
					}
				case *ssa.Phi:
					for _, e := range x.Edges {
						walk(e, d+1)
					}
				default:
					mayTrue = true
				}
			}
			walk(r.Results[0], 0)
			if mayTrue {
				rets = append(rets, r)
			}
		}
		// only plain `return true` / `return false` helpers are read (a phi result would need edge facts)
		plain := len(rets) > 0
		for _, r := range rets {
			if k, ok := r.Results[0].(*ssa.Const); !ok || k.Value == nil || k.Value.String() != "true" {
				plain = false
			}
		}
		if !plain {
			continue
		}
		out = append(out, guardFrame{f: g, via: h,
			okAt: func(call ssa.CallInstruction) bool {
				for _, r := range rets {
					if !c.okCallAt(call, r.Block()) {
						return false
					}
				}
				return true
			},
			factAt: func(v ssa.Value, want bool) bool {
				for _, r := range rets {
					if !c.condAt(v, want, r.Block()) {
						return false
					}
				}
				return true
			},
			val: func(v ssa.Value, at ssa.Instruction) ssa.Value {
				x := resolve(v, at)
				if prm, ok := x.(*ssa.Parameter); ok && prm.Parent() == g {
					return resolve(h.Common().Args[paramIndex(prm)], h)
				}
				return x
			},
			org: func(v ssa.Value) string { return orgSubst(v, subst) },
		})
	}
	return out
}

func (c *Ctx) routeOf(s *thresholdShape, mu *ssa.MapUpdate) (route string, K ssa.Value, vs ssa.CallInstruction, why string) {
	route, K, vs, why, _ = c.routeOfFrame(s, mu)
	return
}

func (c *Ctx) routeOfFrame(s *thresholdShape, mu *ssa.MapUpdate) (route string, K ssa.Value, vs ssa.CallInstruction, why string, frame *guardFrame) {
	v := resolve(mu.Value, mu)
	k := resolve(mu.Key, mu)
	lastWhy := "no successful VerifySignature of the stored link dominates the store"
	for _, fr := range c.guardFrames(s, mu) {
		fr := fr
		for _, call := range allCalls(fr.f) {
			cc := call.Common()
			if !cc.IsInvoke() || cc.Method.Name() != "VerifySignature" || fr.val(cc.Value, call) != v {
				continue
			}
			if !fr.okAt(call) {
				continue
			}
			K = resolve(cc.Args[0], call)
			vs = call
			ex, isEx := K.(*ssa.Extract)
			if !isEx {
				lastWhy = "verification key comes from " + short(fr.org(K))
				continue
			}
			// key route?
			if lk, ok := ex.Tuple.(*ssa.Lookup); ok && ex.Index == 0 && lk.CommaOk && fr.org(lk.X) == "p0.Keys" {
				okv := extractOf(lk, 1)
				if okv == nil || !fr.factAt(okv, true) {
					return "", K, vs, "layout.Keys lookup is not checked with comma-ok", &fr
				}
				id := resolve(lk.Index, lk)
				if fr.val(lk.Index, lk) == k {
					// the key is looked up under the signer's own key id: that id must be known to be a member of the
					// current step's PubKeys (slices.Contains(step.PubKeys, id) true where the link is counted)
					member := false
					for _, mc := range allCalls(fr.f) {
						if genericBase(calleeName(mc)) != "slices.Contains" || len(mc.Common().Args) != 2 || mc.Value() == nil {
							continue
						}
						if fr.org(mc.Common().Args[0]) == "p0.Steps[*].PubKeys" && fr.val(mc.Common().Args[1], mc) == k && fr.factAt(mc.Value(), true) {
							member = true
						}
					}
					if !member {
						return "", K, vs, "the link is verified with layout.Keys[signer key id], but that id is not known to be one of the current step's PubKeys (no membership fact)", &fr
					}
					return "key", K, vs, "VerifySignature(layout.Keys[id]) ok, slices.Contains(step.PubKeys, id), key == id", &fr
				}
				if fr.org(id) != "p0.Steps[*].PubKeys[*]" {
					return "", K, vs, "verification key id is " + fr.org(id) + ", not an element of the current step's PubKeys", &fr
				}
				// k == id must hold
				eq := false
				if refs := id.Referrers(); refs != nil {
					for _, r := range *refs {
						if bo, ok := r.(*ssa.BinOp); ok && (bo.Op == token.EQL || bo.Op == token.NEQ) && ((fr.val(bo.X, bo) == k && resolve(bo.Y, bo) == id) || (fr.val(bo.Y, bo) == k && resolve(bo.X, bo) == id)) {
							// signer == authorized known true, or signer != authorized known false
							if fr.factAt(bo, bo.Op == token.EQL) {
								eq = true
							}
						}
					}
				}
				if !eq {
					return "", K, vs, "the link is not known to be stored under the authorised key id (no signerKeyID == authorizedKeyID fact)", &fr
				}
				return "key", K, vs, "VerifySignature(layout.Keys[id]) ok, id in step.PubKeys, key == id", &fr
			}
			// certificate route?
			if gc, ok := ex.Tuple.(*ssa.Call); ok && ex.Index == 0 && calleeName(gc) == "(in_toto.Signature).GetCertificate" {
				sigc, si := producer(gc.Call.Args[0], gc)
				if sigc == nil || si != 0 || !sigc.Common().IsInvoke() || sigc.Common().Method.Name() != "GetSignatureForKeyID" ||
					fr.val(sigc.Common().Value, sigc) != v || fr.val(sigc.Common().Args[0], sigc) != k {
					return "", K, vs, "certificate does not come from the stored link's own signature for the key id it is stored under", &fr
				}
				// constraint check on K
				for _, cc2 := range callsIn(fr.f, "(in_toto.Step).CheckCertConstraints") {
					a := cc2.Common().Args
					if resolve(a[1], cc2) != K {
						continue
					}
					if !fr.okAt(cc2) {
						continue
					}
					if fr.org(a[0]) != "p0.Steps[*]" {
						return "", K, vs, "constraints of " + fr.org(a[0]) + " are checked, not those of the current step", &fr
					}
					if fr.org(a[2]) != "(*in_toto.Layout).RootCAIDs(p0)" || fr.org(a[3]) != "p2" || fr.org(a[4]) != "p3" {
						return "", K, vs, "CheckCertConstraints is not called with layout.RootCAIDs() and the two pool parameters: " + fr.org(a[2]) + ", " + fr.org(a[3]) + ", " + fr.org(a[4]), &fr
					}
					where := ""
					if fr.via != nil {
						where = " (inside helper " + fname(fr.f) + ", whose nil result dominates the store)"
					}
					return "cert", K, vs, "VerifySignature(cert) ok, cert = link.GetSignatureForKeyID(key).GetCertificate(), CheckCertConstraints(step, cert, layout.RootCAIDs(), pools) ok" + where, &fr
				}
				return "", K, vs, "no successful CheckCertConstraints on the verifying certificate dominates the store", &fr
			}
			lastWhy = "verification key comes from " + short(fr.org(K))
		}
	}
	return "", K, vs, lastWhy, nil
}

func ruleC02_1(c *Ctx) {
	const R = "R-C02-1"
	s := c.thresholdShape(R)
	if s == nil {
		return
	}
	fn := fname(s.f)
	if s.M == nil {
		c.bad(R, fn, "verified map", s.f.Pos(), "no map whose length is compared with step.Threshold")
		return
	}
	if len(s.updates) == 0 {
		c.bad(R, fn, "stores into the verified map", s.M.Pos(), "nothing is ever counted")
	}
	routes := map[string]bool{}
	for _, mu := range s.updates {
		route, _, _, why := c.routeOf(s, mu)
		routes[route] = true
		c.check(route != "", R, fn, "counted link ("+route+" route)", mu.Pos(), why, "a link is counted without the required guards: "+why)
	}
	c.check(routes["key"], R, fn, "public-key route exists", s.f.Pos(), "present", "no store on the public-key route: honest key-signed links are never counted")
}

func ruleC02_2(c *Ctx) {
	const R = "R-C02-2"
	s := c.thresholdShape(R)
	if s == nil || s.M == nil {
		return
	}
	fn := fname(s.f)
	n := 0
	for _, mu := range s.updates {
		route, K, _, _, fr := c.routeOfFrame(s, mu)
		if route != "cert" || fr == nil {
			continue
		}
		n++
		k := resolve(mu.Key, mu)
		eq := false
		for _, b := range fr.f.Blocks {
			for _, in := range b.Instrs {
				bo, ok := in.(*ssa.BinOp)
				if !ok || (bo.Op != token.EQL && bo.Op != token.NEQ) {
					continue
				}
				isKID := func(v ssa.Value) bool {
					// K.KeyID : Field of the Key value or load through an Alloc holding it
					o := org(v)
					return strings.HasSuffix(o, ".KeyID") && derives(v, func(x ssa.Value) bool { return x == K }, false)
				}
				if (isKID(bo.X) && fr.val(bo.Y, bo) == k) || (isKID(bo.Y) && fr.val(bo.X, bo) == k) {
					if fr.factAt(bo, bo.Op == token.EQL) {
						eq = true
					}
				}
			}
		}
		c.check(eq, R, fn, "certificate route: counted under the verifying certificate's key id", mu.Pos(), "cert.KeyID == signerKeyID holds at the store",
			"on the certificate route the link is counted under the key id *claimed* by a signature, while the signature is verified under the certificate's own key id: one certificate holder can be counted several times under forged key ids")
	}
	if n == 0 {
		c.trivial(R, fn, "certificate route", s.f.Pos(), "no certificate route store found (R-C02-1 reports the routes)")
	}
}

func ruleC02_3(c *Ctx) {
	const R = "R-C02-3"
	s := c.thresholdShape(R)
	if s == nil {
		return
	}
	fn := fname(s.f)
	if s.cmp == nil {
		c.bad(R, fn, "threshold comparison", s.f.Pos(), "no comparison of len(verified links) with step.Threshold")
		return
	}
	// error iff len < T : sample T=2 with len 1,2,3
	uses := condUsers(s.cmp, false)
	okNF := len(uses) > 0
	for _, cu := range uses {
		for _, ln := range []int64{1, 2, 3} {
			fails := c.failing(branchTaken(cu, evalCmp(s.op, ln, 2)))
			if fails != (ln < 2) {
				okNF = false
			}
		}
	}
	c.check(okNF, R, fn, "error iff len(verified) < threshold", s.cmp.Pos(), "len(M) "+s.op.String()+" Threshold: failing exactly for len = T-1, not for T, T+1",
		"the comparison len(verified) "+s.op.String()+" threshold does not fail exactly when fewer than threshold links were verified")
	// evaluated for every step: at the back edge of the step loop the non-failing outcome is known
	var stepHeader *ssa.BasicBlock
	for _, b := range s.f.Blocks {
		for _, in := range b.Instrs {
			if ph, ok := in.(*ssa.Phi); ok && ph.Comment == "rangeindex" && stepHeader == nil && b.Dominates(s.cmp.Block()) {
				// outermost range-index loop dominating the comparison
				stepHeader = b
			}
		}
	}
	okEvery := false
	if stepHeader != nil {
		okEvery = true
		for _, pb := range stepHeader.Preds {
			if !stepHeader.Dominates(pb) {
				continue
			}
			known := false
			for _, val := range []bool{true, false} {
				if c.condAt(s.cmp, val, pb) || edgeFact(pb, stepHeader, s.cmp, val) {
					known = true
				}
			}
			if !known {
				okEvery = false
			}
		}
	}
	c.check(okEvery, R, fn, "comparison executed for every step", s.cmp.Pos(), "its outcome is known on every back edge of the step loop", "a step can be skipped without its threshold being compared")
	// success only after all steps
	for _, r := range c.nilErrReturns(s.f) {
		okAfter := false
		if stepHeader != nil {
			if ifi, ok := stepHeader.Instrs[len(stepHeader.Instrs)-1].(*ssa.If); ok {
				okAfter = c.condAt(ifi.Cond, false, r.Block())
			}
		}
		c.check(okAfter, R, fn, "success only after all steps", instrPos(r), "dominated by the step loop's exhaustion edge", "a success return is reachable before all steps were checked")
		// returned map holds M under the step name
		okRet := false
		if rm, ok := resolve(r.Results[0], r).(*ssa.MakeMap); ok {
			for _, rr := range *rm.Referrers() {
				if mu, ok := rr.(*ssa.MapUpdate); ok && resolve(mu.Value, mu) == ssa.Value(s.M) && org(mu.Key) == "p0.Steps[*].SupplyChainItem.Name" {
					okRet = true
				}
			}
		}
		c.check(okRet, R, fn, "the counted map is what is returned for the step", instrPos(r), "result[step.Name] = verified map", "the map returned for a step is not the map whose size was compared with the threshold")
	}
}

// edgeFact: the edge pb->succ itself establishes cond == val.
func edgeFact(pb, succ *ssa.BasicBlock, cond ssa.Value, val bool) bool {
	if len(pb.Instrs) == 0 {
		return false
	}
	ifi, ok := pb.Instrs[len(pb.Instrs)-1].(*ssa.If)
	if !ok || pb.Succs[0] == pb.Succs[1] {
		return false
	}
	v, neg := ifi.Cond, false
	for {
		u, ok := v.(*ssa.UnOp)
		if !ok || u.Op != token.NOT {
			break
		}
		v, neg = u.X, !neg
	}
	if v != cond {
		return false
	}
	taken := pb.Succs[0] == succ
	return (taken != neg) == val
}

func ruleC02_5(c *Ctx) {
	const R = "R-C02-5"
	f := c.lookup("in_toto.LoadLinksForLayout")
	if f == nil {
		c.undecided(R, "in_toto.LoadLinksForLayout", "anchor", 0, "function not found")
		return
	}
	fn := fname(f)
	lm := firstCall(f, "in_toto.LoadMetadata")
	// how the directory is listed: the files that match the naming format in the directory itself
	for _, g := range append([]*ssa.Function{f}, f.AnonFuncs...) {
		for _, call := range allCalls(g) {
			switch n := calleeName(call); n {
			case "path/filepath.Walk", "path/filepath.WalkDir", "io/fs.WalkDir":
				c.bad(R, fn, "directory listing", call.Pos(), "the link files are found with "+n+", which descends into every sub-directory unless the callback returns SkipDir for it: the link directories of nested sublayouts (<step>.<keyid>/) lie below this one, so their links are taken as evidence for this layout")
			case "os.ReadDir", "(*os.File).Readdirnames", "(*os.File).ReadDir", "(*os.File).Readdir", "io/ioutil.ReadDir":
				c.undecided(R, fn, "directory listing", call.Pos(), "the link files are found with "+n+" and a hand-written name filter, not with filepath.Glob over the naming format: which names are accepted is not decided here")
			}
		}
	}
	if lm == nil {
		inClosure := ""
		for _, g := range f.AnonFuncs {
			if firstCall(g, "in_toto.LoadMetadata") != nil {
				inClosure = fname(g)
			}
		}
		if inClosure != "" {
			c.bad(R, fn, "LoadMetadata", f.Pos(), "link files are loaded inside the function literal "+inClosure+" (a directory-walk callback): the rules about skipping, naming and filing of link files are decided for a loop over filepath.Glob results only")
			return
		}
		c.bad(R, fn, "LoadMetadata", f.Pos(), "link files are not loaded through LoadMetadata")
		return
	}
	// load error => continue (not failing, loop goes on)
	okSkip := false
	if e := errResult(lm); e != nil {
		for _, br := range errBranches(e) {
			if !c.failing(br.NonNil) && reaches(br.NonNil, lm.Block()) {
				okSkip = true
			}
		}
	}
	c.check(okSkip, R, fn, "unloadable link file is skipped", lm.Pos(), "non-nil side continues the file loop", "an unparsable file in the link directory fails verification (garbage can veto honest links) or is not skipped")
	// glob
	okGlob := false
	if g := firstCall(f, "path/filepath.Glob"); g != nil {
		var format string
		derives(g.Common().Args[0], func(v ssa.Value) bool {
			if k, ok := v.(*ssa.Call); ok && calleeName(k) == "fmt.Sprintf" {
				format, _ = constString(k.Call.Args[0])
				if derives(k.Call.Args[1], func(x ssa.Value) bool { return org(x) == "p0.Steps[*].SupplyChainItem.Name" }, false) {
					okGlob = true
				}
			}
			return false
		}, true)
		usesDir := derives(g.Common().Args[0], func(v ssa.Value) bool { return v == ssa.Value(f.Params[1]) }, true)
		c.check(okGlob && usesDir && format == "%s.????????.link", R, fn, "glob = Join(linkDir, Sprintf(LinkGlobFormat, step.Name))", g.Pos(), format, fmt.Sprintf("glob pattern built from format %q, step name used=%v, linkDir used=%v", format, okGlob, usesDir))
	} else {
		c.bad(R, fn, "glob", f.Pos(), "no filepath.Glob")
	}
	// store
	n := 0
	for _, b := range f.Blocks {
		for _, in := range b.Instrs {
			mu, ok := in.(*ssa.MapUpdate)
			if !ok {
				continue
			}
			pc, idx := producer(mu.Value, mu)
			if pc != lm || idx != 0 {
				continue
			}
			n++
			ko := org(mu.Key)
			okKey := ko == "in_toto.Metadata.Sigs(in_toto.LoadMetadata("+org(lm.Common().Args[0])+")#0)[*].KeyID"
			// prefix selection
			okPre := false
			for _, hp := range callsIn(f, "strings.HasPrefix") {
				a := hp.Common().Args
				if org(a[0]) == ko && c.condAt(hp.Value(), true, mu.Block()) {
					fromName := derives(a[1], func(v ssa.Value) bool {
						k, ok := v.(*ssa.Call)
						return ok && calleeName(k) == "path/filepath.Base" && resolve(k.Call.Args[0], k) == resolve(lm.Common().Args[0], lm)
					}, true)
					if fromName {
						okPre = true
					}
				}
			}
			if !okPre || !okKey {
				// sigs[i].KeyID with i = slices.IndexFunc(sigs, func(s) bool { return strings.HasPrefix(s.KeyID, short) }), i >= 0
				kv := resolve(mu.Key, mu)
				var elem ssa.Value
				switch x := kv.(type) {
				case *ssa.Field:
					if fieldName(x.X.Type(), x.Field) == "KeyID" {
						elem = x.X
					}
				case *ssa.UnOp:
					if fa, isFA := x.X.(*ssa.FieldAddr); isFA && fieldName(fa.X.Type(), fa.Field) == "KeyID" {
						elem = fa.X
					}
				}
				if elem != nil {
					if list, pred, bind, okE := c.indexFuncElem(elem, mu.Block()); okE && org(list) == "in_toto.Metadata.Sigs(in_toto.LoadMetadata("+org(lm.Common().Args[0])+")#0)" {
						sel := len(returnsOf(pred)) > 0
						for _, pr := range returnsOf(pred) {
							hp, isCall := pr.Results[0].(*ssa.Call)
							if !isCall || calleeName(hp) != "strings.HasPrefix" || !fieldOfParam(hp.Call.Args[0], pred, "KeyID") {
								sel = false
								continue
							}
							fromName := derives(outerValueOf(hp.Call.Args[1], pred, bind), func(v ssa.Value) bool {
								k, ok := v.(*ssa.Call)
								return ok && calleeName(k) == "path/filepath.Base" && resolve(k.Call.Args[0], k) == resolve(lm.Common().Args[0], lm)
							}, true)
							if !fromName {
								sel = false
							}
						}
						if sel && c.okCallAt(lm, mu.Block()) {
							okPre, okKey = true, true
						}
					}
				}
			}
			c.check(okKey && c.okCallAt(lm, mu.Block()), R, fn, "link stored under one of its own signatures' key id", mu.Pos(), ko, "the map key is "+short(ko))
			c.check(okPre, R, fn, "signature selected by the file name's key-id prefix", mu.Pos(), "strings.HasPrefix(sig.KeyID, <prefix from filepath.Base(linkPath)>) holds", "the signature whose key id names the link is not selected by the file name's prefix")
		}
	}
	if n == 0 {
		c.bad(R, fn, "store of loaded link", f.Pos(), "loaded links are not stored")
	}
}
