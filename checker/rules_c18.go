package main

import (
	"fmt"
	"go/token"
	"go/types"
	"regexp"
	"regexp/syntax"
	"sort"
	"strings"

	"golang.org/x/tools/go/ssa"
)

func init() {
	register(&Property{ID: "C18",
		Explanation: "Decides structural clauses of 'parameter substitution rewrites exactly the marked places': (R-C18-1) the set of fields SubstituteParameters assigns in the returned layout is exactly {Step.ExpectedMaterials, Step.ExpectedProducts, Step.ExpectedCommand, Inspection.ExpectedMaterials, Inspection.ExpectedProducts, Inspection.Run}, each inside a loop over the whole slice, each assigned the helper applied to the same field of the same element; (R-C18-2) replacer pairs are (\"{\"+name+\"}\", value) for every dictionary entry, old before new; (R-C18-3) names are matched against a constant regexp equal to ^[a-zA-Z0-9_-]+$, a mismatch fails, and the replacer is built only after all entries were visited; (R-C18-4) one strings.Replacer, each rewritten string is one Replace applied to an original element; (R-C18-5) an empty dictionary returns the input layout; (R-C18-6) independence of dictionary iteration order; (R-C10-2) no write through the caller's layout.",
		NotDecided:  []string{"strings.Replacer's own algorithm (left-to-right, single pass, trusted)"},
		Rules: []Rule{
			{ID: "R-C18-1", Doc: "exactly six fields are rewritten, each from itself", Min: 8, Run: ruleC18_1},
			{ID: "R-C18-2", Doc: "replacer pairs (\"{\"+k+\"}\", v)", Min: 2, Run: ruleC18_2},
			{ID: "R-C18-3", Doc: "parameter name validation", Min: 3, Run: ruleC18_3},
			{ID: "R-C18-4", Doc: "single pass over original strings", Min: 4, Run: ruleC18_4},
			{ID: "R-C18-5", Doc: "no parameters: layout returned unchanged", Min: 1, Run: ruleC18_5},
			a3Rule("R-C18-6", 1, nil, "in_toto.SubstituteParameters"),
			{ID: "R-C10-2", Doc: "SubstituteParameters does not write through its layout argument's memory", Min: 1, Run: ruleC18_alias},
			a1Rule(0, "in_toto.SubstituteParameters"),
		}})
}

func ruleC18_1(c *Ctx) {
	const R = "R-C18-1"
	f := c.lookup("in_toto.SubstituteParameters")
	if f == nil {
		c.undecided(R, "in_toto.SubstituteParameters", "anchor", 0, "function not found")
		return
	}
	fn := fname(f)
	want := map[string]string{
		"p0.Steps[*].SupplyChainItem.ExpectedMaterials":   "in_toto.substituteParametersInSliceOfSlices",
		"p0.Steps[*].SupplyChainItem.ExpectedProducts":    "in_toto.substituteParametersInSliceOfSlices",
		"p0.Steps[*].ExpectedCommand":                     "in_toto.substituteParamatersInSlice",
		"p0.Inspect[*].SupplyChainItem.ExpectedMaterials": "in_toto.substituteParametersInSliceOfSlices",
		"p0.Inspect[*].SupplyChainItem.ExpectedProducts":  "in_toto.substituteParametersInSliceOfSlices",
		"p0.Inspect[*].Run":                               "in_toto.substituteParamatersInSlice",
	}
	seen := map[string]int{}
	containerRe := regexp.MustCompile(`^p0\.(Steps|Inspect)$`)
	elemRe := regexp.MustCompile(`^p0\.(Steps|Inspect)\[\*\](\.SupplyChainItem)?$`)
	// Two styles are recognised. (A) the list is replaced by a copy of itself and the fields of its elements are
	// assigned in place. (B) a fresh list of the same length is filled, at the range index, with a local copy of the
	// element whose fields were assigned. In (B) the local copy is an "element alias" of layout.Steps[i] / layout.Inspect[i].
	type elemAlias struct {
		list string
		idx  ssa.Value
		init *ssa.Store
	}
	aliases := map[*ssa.Alloc]elemAlias{}
	for _, b := range f.Blocks {
		for _, in := range b.Instrs {
			al, ok := in.(*ssa.Alloc)
			if !ok || al.Comment == "complit" {
				continue
			}
			whole := storesTo(al)
			if len(whole) != 1 {
				continue
			}
			ld, ok := whole[0].Val.(*ssa.UnOp)
			if !ok || ld.Op != token.MUL {
				continue
			}
			ia, ok := ld.X.(*ssa.IndexAddr)
			if !ok || !containerRe.MatchString(org(ia.X)) {
				continue
			}
			aliases[al] = elemAlias{list: org(ia.X), idx: ia.Index, init: whole[0]}
		}
	}
	aliasOf := func(addr ssa.Value) (*ssa.Alloc, bool) {
		al, ok := addrRoot(addr).(*ssa.Alloc)
		if !ok {
			return nil, false
		}
		_, is := aliases[al]
		return al, is
	}
	// org of an address / value below an element alias, expressed as a path of the layout parameter
	aliasOrg := func(v ssa.Value, al *ssa.Alloc) string {
		o := org(v)
		pre := org(al)
		if strings.HasPrefix(o, pre) {
			return aliases[al].list + "[*]" + strings.TrimPrefix(o, pre)
		}
		return o
	}
	freshStores := map[ssa.Value][]*ssa.Store{} // fresh list -> element stores
	for _, b := range f.Blocks {
		for _, in := range b.Instrs {
			st, ok := in.(*ssa.Store)
			if !ok {
				continue
			}
			if al, is := aliasOf(st.Addr); is && st.Addr != ssa.Value(al) {
				// style B: field of the local element copy
				o := aliasOrg(st.Addr, al)
				helper, expected := want[o]
				if !expected {
					c.bad(R, fn, "assignment to "+o, st.Pos(), "a field outside the six substituted ones is assigned: layout."+strings.TrimPrefix(o, "p0."))
					continue
				}
				seen[o]++
				pc, idx := producer(st.Val, st)
				okVal := pc != nil && idx == 0 && calleeName(pc) == helper && len(pc.Common().Args) > 1
				if okVal {
					arg := pc.Common().Args[1]
					okVal = false
					if ld, isLd := arg.(*ssa.UnOp); isLd && ld.Op == token.MUL {
						if al2, is2 := aliasOf(ld.X); is2 && al2 == al && aliasOrg(ld.X, al) == o && instrDominates(aliases[al].init, ld) {
							okVal = true
						}
					}
					if !okVal && org(arg) == o && findIndex(arg) == aliases[al].idx {
						okVal = true
					}
				}
				c.check(okVal, R, fn, "assignment to "+o, st.Pos(), helper+"(replacer, same field of the same element)", "assigned value is "+short(org(st.Val))+", not the substitution of this very field")
				c.check(isRangeIndex(aliases[al].idx), R, fn, "loop over the whole list for "+o, st.Pos(), "element index is the range-index induction variable", "the element index is not the induction variable of a range over the whole list")
				continue
			}
			if _, isField := st.Addr.(*ssa.FieldAddr); !isField {
				ia, isIdx := st.Addr.(*ssa.IndexAddr)
				if isIdx {
					if _, isMk := ia.X.(*ssa.MakeSlice); isMk {
						freshStores[ia.X] = append(freshStores[ia.X], st)
						continue
					}
				}
				if !isIdx || !strings.HasPrefix(org(ia), "p0.") {
					continue
				}
			}
			o := org(st.Addr)
			if !strings.HasPrefix(o, "p0.") {
				continue
			}
			if containerRe.MatchString(o) {
				// copying the list before rewriting is allowed if the copy derives from the same list
				okCopy := derives(st.Val, func(v ssa.Value) bool { return org(v) == o }, true)
				if mk, isMk := st.Val.(*ssa.MakeSlice); isMk && !okCopy {
					// style B: fresh list of the same length, every element written once at the range index from the
					// element alias of the same index, after all field assignments of the alias
					okLen := false
					if l, isLen := mk.Len.(*ssa.Call); isLen && calleeName(l) == "builtin:len" && org(l.Call.Args[0]) == o {
						okLen = true
					}
					es := freshStores[mk]
					okElems := len(es) == 1
					if okElems {
						e := es[0]
						ia := e.Addr.(*ssa.IndexAddr)
						ld, isLd := e.Val.(*ssa.UnOp)
						okElems = false
						if isLd && ld.Op == token.MUL {
							if al, isAl := ld.X.(*ssa.Alloc); isAl {
								if a, isAlias := aliases[al]; isAlias && a.list == o && a.idx == ia.Index && isRangeIndex(ia.Index) && rangeBoundIs(ia.Index, o) {
									okElems = true
									// every field assignment of the alias precedes the write-back
									for _, r := range *al.Referrers() {
										if fa, isFa := r.(*ssa.FieldAddr); isFa {
											if !allStoresBelowDominate(fa, e) {
												okElems = false
											}
										}
									}
								}
							}
						}
						okElems = okElems && reaches(e.Block(), st.Block()) && everyIteration(e.Addr.(*ssa.IndexAddr).Index, e)
					}
					c.check(okLen && okElems, R, fn, "list "+o+" replaced by a fresh list filled element by element from itself", st.Pos(), "make(len("+o+")); fresh[i] = rewritten copy of "+o+"[i] for every i", "layout."+strings.TrimPrefix(o, "p0.")+" is replaced by a new list that is not provably the element-wise rewritten copy of the old one (length, index or element source differ)")
					continue
				}
				c.check(okCopy, R, fn, "list "+o+" replaced by a copy of itself", st.Pos(), short(org(st.Val)), "layout."+strings.TrimPrefix(o, "p0.")+" is replaced by "+short(org(st.Val)))
				continue
			}
			helper, expected := want[o]
			if !expected {
				c.bad(R, fn, "assignment to "+o, st.Pos(), "a field outside the six substituted ones is assigned: layout."+strings.TrimPrefix(o, "p0."))
				continue
			}
			seen[o]++
			pc, idx := producer(st.Val, st)
			okVal := pc != nil && idx == 0 && calleeName(pc) == helper && len(pc.Common().Args) > 1 && org(pc.Common().Args[1]) == o && sameElement(st.Addr, pc.Common().Args[1])
			detail := short(org(st.Val))
			c.check(okVal, R, fn, "assignment to "+o, st.Pos(), helper+"(replacer, same field of the same element)", "assigned value is "+detail+", not the substitution of this very field")
			// whole-slice range-index loop
			c.check(wholeSliceIndex(st.Addr), R, fn, "loop over the whole list for "+o, st.Pos(), "element index is the range-index induction variable", "the element index is not the induction variable of a range over the whole list")
			c.check(everyIteration(findIndex(st.Addr), st), R, fn, "assignment to "+o+" happens for every element", st.Pos(), "the assignment lies on every path through the loop body", "the field is not assigned for every element: some steps / inspections are skipped (their markers stay unsubstituted)")
		}
	}
	// Style C: the loop over one of the two lists lives in an unexported helper that receives the list. The helper's
	// stores are judged like the in-place assignments of style A, with the helper's parameter read as the list it is
	// called with (that the call lies on every success path with a non-empty dictionary is R-C18-8).
	for _, call := range allCalls(f) {
		g := call.Common().StaticCallee()
		if g == nil || g.Blocks == nil || g.Pkg != f.Pkg || (g.Object() != nil && g.Object().Exported()) {
			continue
		}
		if _, isCall := call.(*ssa.Call); !isCall {
			continue
		}
		for j, a := range call.Common().Args {
			list := org(a)
			// a pointer to one element (or to its embedded SupplyChainItem) handed to a per-element helper: the loop
			// is the caller's
			perElem := elemRe.MatchString(list) && j < len(g.Params)
			if perElem {
				if _, isPtr := a.Type().Underlying().(*types.Pointer); !isPtr {
					perElem = false
				}
			}
			if !perElem && (!containerRe.MatchString(list) || j >= len(g.Params)) {
				continue
			}
			prm := fmt.Sprintf("p%d", j)
			tr := func(o string) (string, bool) {
				if o == prm || strings.HasPrefix(o, prm+"[") || strings.HasPrefix(o, prm+".") {
					return list + strings.TrimPrefix(o, prm), true
				}
				return o, false
			}
			for _, b := range g.Blocks {
				for _, in := range b.Instrs {
					st, ok := in.(*ssa.Store)
					if !ok {
						continue
					}
					o, below := tr(org(st.Addr))
					if !below {
						continue
					}
					helper, expected := want[o]
					if !expected {
						c.bad(R, fname(g), "assignment to "+o, st.Pos(), "a field outside the six substituted ones is assigned: layout."+strings.TrimPrefix(o, "p0."))
						continue
					}
					seen[o]++
					pc, idx := producer(st.Val, st)
					okVal := pc != nil && idx == 0 && calleeName(pc) == helper && len(pc.Common().Args) > 1 && (perElem || sameElement(st.Addr, pc.Common().Args[1]))
					if okVal {
						ao, _ := tr(org(pc.Common().Args[1]))
						okVal = ao == o
					}
					c.check(okVal, R, fname(g), "assignment to "+o, st.Pos(), helper+"(replacer, same field of the same element)", "assigned value is "+short(org(st.Val))+", not the substitution of this very field")
					if perElem {
						okVal2 := pc != nil && idx == 0 && calleeName(pc) == helper && len(pc.Common().Args) > 1
						if okVal2 {
							ao, _ := tr(org(pc.Common().Args[1]))
							okVal2 = ao == o
						}
						_ = okVal2
						c.check(wholeSliceIndex(a), R, fn, "loop over the whole list for "+o, call.Pos(), "the element handed to "+fname(g)+" is indexed by the range-index induction variable", "the element index is not the induction variable of a range over the whole list")
						unconditional := true
						for _, r := range returnsOf(g) {
							if !instrDominates(st, r) {
								unconditional = false
							}
						}
						c.check(everyIteration(findIndex(a), call) && unconditional, R, fn, "assignment to "+o+" happens for every element", call.Pos(), "the call lies on every path through the loop body and the helper assigns unconditionally", "the field is not assigned for every element: some steps / inspections are skipped (their markers stay unsubstituted)")
						continue
					}
					c.check(wholeSliceIndex(st.Addr), R, fname(g), "loop over the whole list for "+o, st.Pos(), "element index is the range-index induction variable", "the element index is not the induction variable of a range over the whole list")
					c.check(everyIteration(findIndex(st.Addr), st), R, fname(g), "assignment to "+o+" happens for every element", st.Pos(), "the assignment lies on every path through the loop body", "the field is not assigned for every element: some steps / inspections are skipped (their markers stay unsubstituted)")
				}
			}
		}
	}
	// fresh lists that are filled but never become part of the result are ignored; fresh lists stored into the layout
	// were handled above. A field substituted twice is not a single pass.
	for o, n := range seen {
		c.check(n == 1, R, fn, "field "+o+" is assigned once", f.Pos(), "1 assignment", fmt.Sprintf("%d assignments: the substitution is applied more than once to the same field", n))
	}
	var missing []string
	for k := range want {
		if seen[k] == 0 {
			missing = append(missing, strings.TrimPrefix(k, "p0."))
		}
	}
	sort.Strings(missing)
	c.check(len(missing) == 0, R, fn, "all six fields are substituted", f.Pos(), "6 of 6", "not substituted: "+strings.Join(missing, ", "))
	// result is the local layout
	for _, r := range c.nilErrReturns(f) {
		c.check(org(r.Results[0]) == "p0", R, fn, "returns the (rewritten copy of the) layout parameter", instrPos(r), "p0 (by-value copy)", "returns "+short(org(r.Results[0])))
	}
}

// sameElement: both address/values index the same slice with the same index value.
func sameElement(a, b ssa.Value) bool {
	ia := findIndex(a)
	ib := findIndex(b)
	return ia != nil && ib != nil && ia == ib
}

func findIndex(v ssa.Value) ssa.Value {
	for i := 0; i < 12; i++ {
		switch x := v.(type) {
		case *ssa.IndexAddr:
			return x.Index
		case *ssa.FieldAddr:
			v = x.X
		case *ssa.UnOp:
			v = x.X
		case *ssa.Field:
			v = x.X
		case *ssa.Index:
			return x.Index
		default:
			return nil
		}
	}
	return nil
}

// everyIteration: instruction in lies on every path through the body of the range loop whose induction variable is idx.
func everyIteration(idx ssa.Value, in ssa.Instruction) bool {
	bo, ok := idx.(*ssa.BinOp)
	if !ok {
		return false
	}
	ph, ok := bo.X.(*ssa.Phi)
	if !ok || ph.Comment != "rangeindex" {
		return false
	}
	h := ph.Block()
	if len(h.Succs) != 2 {
		return false
	}
	entry := h.Succs[0]
	return in.Block() == entry || postDominatesSimple(in.Block(), entry)
}

// isRangeIndex: idx is the induction variable of a `for i := range x` loop.
func isRangeIndex(idx ssa.Value) bool {
	if bo, ok := idx.(*ssa.BinOp); ok && bo.Op == token.ADD {
		if ph, ok := bo.X.(*ssa.Phi); ok && ph.Comment == "rangeindex" {
			return true
		}
	}
	return false
}

// rangeBoundIs: the range loop of induction variable idx runs over a value whose org is list (bound = len(list)).
func rangeBoundIs(idx ssa.Value, list string) bool {
	for _, r := range *idx.Referrers() {
		bo, ok := r.(*ssa.BinOp)
		if !ok || bo.Op != token.LSS || bo.X != idx {
			continue
		}
		if l, ok := bo.Y.(*ssa.Call); ok && calleeName(l) == "builtin:len" && org(l.Call.Args[0]) == list {
			return true
		}
	}
	return false
}

// allStoresBelowDominate: every store through an address derived from fa precedes (dominates) instruction at.
func allStoresBelowDominate(fa ssa.Value, at ssa.Instruction) bool {
	refs := fa.Referrers()
	if refs == nil {
		return true
	}
	for _, r := range *refs {
		switch x := r.(type) {
		case *ssa.Store:
			if x.Addr == fa && !instrDominates(x, at) {
				return false
			}
		case *ssa.FieldAddr:
			if !allStoresBelowDominate(x, at) {
				return false
			}
		}
	}
	return true
}

func wholeSliceIndex(addr ssa.Value) bool {
	idx := findIndex(addr)
	if idx == nil {
		return false
	}
	if bo, ok := idx.(*ssa.BinOp); ok && bo.Op == token.ADD {
		if ph, ok := bo.X.(*ssa.Phi); ok && ph.Comment == "rangeindex" {
			return true
		}
	}
	return false
}

func ruleC18_2(c *Ctx) {
	const R = "R-C18-2"
	f := c.lookup("in_toto.SubstituteParameters")
	if f == nil {
		return
	}
	f, dictIdx, _ := c.replacerFrame(f)
	dict := fmt.Sprintf("p%d", dictIdx)
	fn := fname(f)
	var appends []*ssa.Call
	for _, call := range callsIn(f, "builtin:append") {
		cc := call.(*ssa.Call)
		if typeStr(cc.Type()) == "[]string" {
			appends = append(appends, cc)
		}
	}
	elem := func(a *ssa.Call) string {
		s := ""
		derives(a.Call.Args[1], func(v ssa.Value) bool {
			if al, ok := v.(*ssa.Alloc); ok && al.Comment == "varargs" {
				for _, r := range *al.Referrers() {
					if ia, ok := r.(*ssa.IndexAddr); ok {
						for _, rr := range *ia.Referrers() {
							if st, ok := rr.(*ssa.Store); ok {
								s = org(st.Val)
							}
						}
					}
				}
				return true
			}
			return false
		}, false)
		return s
	}
	okPair := false
	for _, a2 := range appends {
		a1, ok := a2.Call.Args[0].(*ssa.Call)
		if !ok || calleeName(a1) != "builtin:append" {
			continue
		}
		if elem(a1) == `((const("{")+key(`+dict+`))+const("}"))` && elem(a2) == dict+"{*}" {
			okPair = true
			c.ok(R, fn, "pair (\"{\"+name+\"}\", value), old before new", a2.Pos(), elem(a1)+" , "+elem(a2))
		}
	}
	// one append of both: append(list, "{"+name+"}", value)
	if !okPair {
		for _, a := range appends {
			var both []string
			derives(a.Call.Args[1], func(v ssa.Value) bool {
				if al, ok := v.(*ssa.Alloc); ok && al.Comment == "varargs" {
					vals := map[int64]string{}
					for _, r := range *al.Referrers() {
						if ia, ok := r.(*ssa.IndexAddr); ok {
							i, _ := constInt(ia.Index)
							for _, rr := range *ia.Referrers() {
								if st, ok := rr.(*ssa.Store); ok {
									vals[i] = org(st.Val)
								}
							}
						}
					}
					if len(vals) == 2 {
						both = []string{vals[0], vals[1]}
					}
					return true
				}
				return false
			}, false)
			if len(both) == 2 && both[0] == `((const("{")+key(`+dict+`))+const("}"))` && both[1] == dict+"{*}" {
				okPair = true
				c.ok(R, fn, "pair (\"{\"+name+\"}\", value), old before new", a.Pos(), both[0]+" , "+both[1])
			}
		}
	}
	if !okPair {
		var got []string
		for _, a := range appends {
			got = append(got, elem(a))
		}
		c.bad(R, fn, "replacer pairs", f.Pos(), "expected consecutive appends of \"{\"+key+\"}\" and the entry's value; found "+strings.Join(got, " ; "))
	}
	// the replacer is built from exactly that slice
	if nr := firstCall(f, "strings.NewReplacer"); nr != nil {
		fromAppends := derives(nr.Common().Args[0], func(v ssa.Value) bool {
			for _, a := range appends {
				if v == ssa.Value(a) {
					return true
				}
			}
			return false
		}, false)
		c.check(fromAppends, R, fn, "replacer built from the accumulated pairs", nr.Pos(), "strings.NewReplacer(parameters...)", "the replacer is not built from the accumulated pairs")
		// ... and from nothing else: the list starts empty and every append on the way is one of the pair appends
		var bases []ssa.Value
		extra := 0
		seenV := map[ssa.Value]bool{}
		var back func(v ssa.Value)
		back = func(v ssa.Value) {
			if v == nil || seenV[v] {
				return
			}
			seenV[v] = true
			switch x := v.(type) {
			case *ssa.Phi:
				for _, e := range x.Edges {
					back(e)
				}
			case *ssa.Call:
				if calleeName(x) == "builtin:append" {
					isPair := false
					for _, a := range appends {
						if a == x {
							isPair = true
						}
					}
					if !isPair {
						extra++
					}
					back(x.Call.Args[0])
					return
				}
				bases = append(bases, v)
			default:
				bases = append(bases, v)
			}
		}
		back(nr.Common().Args[0])
		okBase := len(bases) > 0
		bad := ""
		for _, b := range bases {
			if !emptySliceValue(b) {
				okBase = false
				bad = short(org(b))
			}
		}
		c.check(okBase && extra == 0, R, fn, "the pair list starts empty", nr.Pos(), "make([]string, 0) / nil, then only the pair appends", "the list handed to strings.NewReplacer does not start empty ("+bad+") or gets other elements: text that is not a {NAME} marker of a supplied parameter is rewritten as well")
	} else {
		c.bad(R, fn, "strings.NewReplacer", f.Pos(), "no strings.Replacer is built")
	}
}

func ruleC18_3(c *Ctx) {
	const R = "R-C18-3"
	f := c.lookup("in_toto.SubstituteParameters")
	if f == nil {
		return
	}
	outer := f
	f, dictIdx, via := c.replacerFrame(f)
	dict := fmt.Sprintf("p%d", dictIdx)
	if via != nil {
		// the helper's error (an invalid name) fails SubstituteParameters
		okErr := false
		if e := errResult(via); e != nil {
			for _, br := range errBranches(e) {
				okErr = okErr || c.failing(br.NonNil)
			}
		}
		c.check(okErr, R, fname(outer), "an error of "+fname(f)+" fails the substitution", via.Pos(), "non-nil side is a failing continuation", "the error of the helper that validates the parameter names is not propagated")
	}
	fn := fname(f)
	var match ssa.CallInstruction
	for _, call := range callsIn(f, "(*regexp.Regexp).MatchString", "regexp.MatchString") {
		match = call
	}
	if match == nil {
		c.bad(R, fn, "name check", f.Pos(), "parameter names are not matched against a regular expression")
		return
	}
	var pat string
	isConst := false
	if calleeName(match) == "regexp.MatchString" {
		pat, isConst = constString(match.Common().Args[0])
	} else if mc := regexpCompileOf(resolve(match.Common().Args[0], match)); mc != nil {
		pat, isConst = constString(mc.Call.Args[0])
	}
	same := false
	if isConst {
		a, err1 := syntax.Parse(pat, syntax.Perl)
		b, _ := syntax.Parse("^[a-zA-Z0-9_-]+$", syntax.Perl)
		if err1 == nil {
			same = a.Simplify().String() == b.Simplify().String()
		}
	}
	c.check(isConst && same, R, fn, "constant pattern equals ^[a-zA-Z0-9_-]+$", match.Pos(), pat, fmt.Sprintf("parameter-name pattern %q (constant=%v) differs from the documented ^[a-zA-Z0-9_-]+$", pat, isConst))
	nameArg := match.Common().Args[len(match.Common().Args)-1]
	c.check(org(nameArg) == "key("+dict+")", R, fn, "the matched string is the dictionary key", match.Pos(), "key("+dict+")", "matched string is "+org(nameArg))
	okFail := false
	mv := resultN(match, 0)
	if mv != nil {
		for _, cu := range condUsers(mv, false) {
			if c.failing(branchTaken(cu, false)) {
				okFail = true
			}
		}
	}
	c.check(okFail, R, fn, "invalid name fails", match.Pos(), "false side is a failing continuation", "a parameter name that does not match is not rejected")
	// the replacer is built only after all entries were visited
	if nr := firstCall(f, "strings.NewReplacer"); nr != nil {
		okAll := false
		for _, l := range mapLoops(f) {
			if l.rng.X == ssa.Value(f.Params[dictIdx]) {
				if okv := extractOf(l.next, 0); okv != nil && c.condAt(okv, false, nr.Block()) {
					okAll = true
				}
			}
		}
		c.check(okAll, R, fn, "replacer built after every entry was validated", nr.Pos(), "dominated by the range-done edge over the dictionary", "the replacer can be built before all dictionary entries were visited")
	}
}

func ruleC18_4(c *Ctx) {
	const R = "R-C18-4"
	f := c.lookup("in_toto.SubstituteParameters")
	h1 := c.lookup("in_toto.substituteParamatersInSlice")
	h2 := c.lookup("in_toto.substituteParametersInSliceOfSlices")
	if f == nil || h1 == nil || h2 == nil {
		c.undecided(R, "in_toto.SubstituteParameters", "anchors", 0, "SubstituteParameters or its helpers not found")
		return
	}
	rf, _, _ := c.replacerFrame(f)
	nrs := callsIn(rf, "strings.NewReplacer")
	inLoop := false
	for _, nr := range nrs {
		if reaches(nr.Block(), nr.Block()) {
			inLoop = true
		}
	}
	c.check(len(nrs) == 1 && !inLoop, R, fname(f), "one replacer, built once", f.Pos(), "single strings.NewReplacer outside loops", fmt.Sprintf("%d NewReplacer calls (in loop: %v)", len(nrs), inLoop))
	// helper 1: Replace applied to original elements, results collected in a fresh slice
	if len(h1.Params) != 2 {
		c.undecided(R, fname(h1), "helper signature", h1.Pos(), fmt.Sprintf("the helper has %d parameter(s); the rule reads helpers of the form (replacer, slice): where the replacer comes from cannot be decided here", len(h1.Params)))
		return
	}
	reps := callsIn(h1, "(*strings.Replacer).Replace")
	c.check(len(reps) == 1, R, fname(h1), "exactly one Replace per string", h1.Pos(), "1", fmt.Sprintf("%d Replace calls", len(reps)))
	for _, rp := range reps {
		a := rp.Common().Args
		c.check(org(a[0]) == "p0" && org(a[1]) == "p1[*]" && wholeSliceIndex(a[1].(*ssa.UnOp).X), R, fname(h1), "Replace(original element) with the passed replacer", rp.Pos(), "replacer.Replace(slice[i])", "Replace is applied to "+org(a[1])+" with replacer "+org(a[0]))
		again := flowsTo(rp.Value(), func(u ssa.Instruction, via ssa.Value) bool {
			k, ok := u.(ssa.CallInstruction)
			return ok && calleeName(k) == "(*strings.Replacer).Replace"
		}, nil)
		c.check(!again, R, fname(h1), "no second pass over a substituted string", rp.Pos(), "Replace result does not flow into Replace", "a substituted string is substituted again (markers introduced by values would be expanded)")
	}
	// every element of the result is a Replace result: no append of an unsubstituted element, and the Replace lies on
	// every path through the loop body
	for _, ap := range callsIn(h1, "builtin:append") {
		cc := ap.(*ssa.Call)
		if len(cc.Call.Args) < 2 {
			continue
		}
		okEl := len(reps) == 1 && derives(cc.Call.Args[1], func(v ssa.Value) bool { return v == reps[0].Value() }, false)
		raw := derives(cc.Call.Args[1], func(v ssa.Value) bool { return org(v) == "p1[*]" }, false) && !okEl
		c.check(okEl && !raw, R, fname(h1), "appended element is the Replace result", ap.Pos(), "append(result, replacer.Replace(item))", "an element is appended without going through the replacer ("+short(org(cc.Call.Args[1]))+"): its markers stay unsubstituted")
	}
	for _, rp := range reps {
		if ld, ok := rp.Common().Args[1].(*ssa.UnOp); ok {
			c.check(everyIteration(findIndex(ld.X), rp), R, fname(h1), "Replace is applied to every element", rp.Pos(), "the Replace call lies on every path through the loop body", "some elements skip the replacer (a shortcut in front of Replace): their markers stay unsubstituted")
		}
	}
	for _, r := range returnsOf(h1) {
		fresh := derives(r.Results[0], func(v ssa.Value) bool {
			if _, ok := v.(*ssa.MakeSlice); ok {
				return true
			}
			al, ok := v.(*ssa.Alloc)
			return ok && al.Comment == "makeslice"
		}, false) &&
			!derives(r.Results[0], func(v ssa.Value) bool { return v == ssa.Value(h1.Params[1]) }, false)
		c.check(fresh, R, fname(h1), "returns a fresh slice", instrPos(r), "result built by append on a new slice", "the helper returns (or appends to) its input slice: "+short(org(r.Results[0])))
	}
	// helper 2 delegates element-wise to helper 1
	inner := callsIn(h2, "in_toto.substituteParamatersInSlice")
	okInner := len(inner) == 1 && org(inner[0].Common().Args[0]) == "p0" && org(inner[0].Common().Args[1]) == "p1[*]"
	c.check(okInner, R, fname(h2), "element-wise delegation", h2.Pos(), "substituteParamatersInSlice(replacer, slice[i]) for every i", "the slice-of-slices helper does not apply the slice helper to each original element")
}

func ruleC18_5(c *Ctx) {
	const R = "R-C18-5"
	f := c.lookup("in_toto.SubstituteParameters")
	if f == nil {
		return
	}
	ok := false
	for _, lc := range lenCompares(f, func(v ssa.Value) bool { return v == ssa.Value(f.Params[1]) }) {
		for _, cu := range condUsers(lc.bo, false) {
			b := branchTaken(cu, evalCmp(lc.op, 0, lc.k))
			if r, isRet := b.Instrs[len(b.Instrs)-1].(*ssa.Return); isRet {
				if org(r.Results[0]) == "p0" && isNilConst(r.Results[1]) {
					// and nothing was stored before
					ok = true
				}
			}
		}
	}
	c.check(ok, R, fname(f), "empty dictionary returns the input layout and nil", f.Pos(), "branch on len(dict) evaluated at 0 returns (layout, nil)", "with no parameters the layout is not returned unchanged")
}

func ruleC18_alias(c *Ctx) {
	const R = "R-C10-2"
	f := c.lookup("in_toto.SubstituteParameters")
	if f == nil {
		return
	}
	a := newA4(c.Prog)
	ctx := make([]pc, len(f.Params))
	for i, prm := range f.Params {
		if hasRefs(prm.Type()) {
			ctx[i] = pc{isRefType(prm.Type()), true}
		}
	}
	s := a.analyse(f, ctx, nil)
	keptW, _ := a4FilterReviewed(s.writes)
	for _, w := range keptW {
		c.bad(R, fname(w.fn), "write "+w.path, w.instr.Pos(), "SubstituteParameters writes through memory of its layout/dictionary arguments: the caller's layout is modified")
	}
	c.ok(R, fname(f), "effects summary", f.Pos(), fmt.Sprintf("%d contexts, %d argument-memory writes", len(a.memo), len(s.writes)))
}

// R-C18-7: whenever SubstituteParameters (or a helper it calls) rebuilds a Layout / Step / Inspection /
// SupplyChainItem with a composite literal, every field of the type is assigned — a field left out of the literal is
// silently reset (e.g. Threshold 0).
func init() {
	for _, id := range []string{"C18", "C02"} {
		if p := registry[id]; p != nil {
			p.Rules = append(p.Rules, Rule{ID: "R-C18-7", Doc: "metadata structs rebuilt during substitution keep every field", Min: 1, Run: ruleC18_7})
			if id == "C02" {
				p.Rules = append(p.Rules, Rule{ID: "R-C18-1", Doc: "substitution rewrites exactly six fields: thresholds, keys and constraints reach the threshold check unchanged (shared with C18)", Min: 8, Run: ruleC18_1})
			}
		}
	}
	if p := registry["C18"]; p != nil {
		p.Explanation += " (R-C18-7) a Step / Inspection / SupplyChainItem / Layout rebuilt by a composite literal during substitution assigns every field of its type."
	}
}

func ruleC18_7(c *Ctx) {
	const R = "R-C18-7"
	root := c.lookup("in_toto.SubstituteParameters")
	if root == nil {
		c.undecided(R, "in_toto.SubstituteParameters", "anchor", 0, "not found")
		return
	}
	fns := []*ssa.Function{root}
	seen := map[*ssa.Function]bool{root: true}
	for i := 0; i < len(fns); i++ {
		for _, call := range allCalls(fns[i]) {
			if g := call.Common().StaticCallee(); g != nil && g.Blocks != nil && g.Pkg == c.pkg("in_toto") && !seen[g] {
				seen[g] = true
				fns = append(fns, g)
			}
		}
	}
	watched := map[string]bool{"in_toto.Step": true, "in_toto.Inspection": true, "in_toto.SupplyChainItem": true, "in_toto.Layout": true}
	n := 0
	for _, f := range fns {
		for _, b := range f.Blocks {
			for _, in := range b.Instrs {
				al, ok := in.(*ssa.Alloc)
				if !ok || al.Comment != "complit" {
					continue
				}
				pt, ok := al.Type().Underlying().(*types.Pointer)
				if !ok || !watched[typeStr(pt.Elem())] {
					continue
				}
				st := pt.Elem().Underlying().(*types.Struct)
				set := map[string]bool{}
				for _, r := range *al.Referrers() {
					if fa, ok := r.(*ssa.FieldAddr); ok {
						for _, rr := range *fa.Referrers() {
							if _, ok := rr.(*ssa.Store); ok {
								set[fieldName(fa.X.Type(), fa.Field)] = true
							}
						}
					}
				}
				var missing []string
				for i := 0; i < st.NumFields(); i++ {
					if !set[st.Field(i).Name()] {
						missing = append(missing, st.Field(i).Name())
					}
				}
				n++
				c.check(len(missing) == 0, R, fname(f), "literal "+typeStr(pt.Elem())+" assigns every field", al.Pos(), fmt.Sprintf("%d fields", st.NumFields()), "a "+typeStr(pt.Elem())+" is rebuilt without the field(s) "+strings.Join(missing, ", ")+": they are reset to their zero value by parameter substitution")
			}
		}
	}
	c.ok(R, fname(root), "struct literals in the substitution code scanned", root.Pos(), fmt.Sprintf("%d functions, %d literals of metadata types", len(fns), n))
}

// replacerFrame: the function that builds the strings.Replacer from the dictionary: SubstituteParameters itself, or an
// unexported helper it hands the dictionary to. dict is the index of the dictionary parameter in that function.
func (c *Ctx) replacerFrame(f *ssa.Function) (fr *ssa.Function, dict int, via ssa.CallInstruction) {
	if len(callsIn(f, "strings.NewReplacer")) > 0 || len(f.Params) < 2 {
		return f, 1, nil
	}
	for _, call := range allCalls(f) {
		h := call.Common().StaticCallee()
		if !c.isStageHelper(h) || len(callsIn(h, "strings.NewReplacer")) == 0 {
			continue
		}
		for j, a := range call.Common().Args {
			if resolve(a, call) == ssa.Value(f.Params[1]) && j < len(h.Params) {
				return h, j, call
			}
		}
	}
	return f, 1, nil
}
