package main

import (
	"fmt"
	"sort"
	"strings"

	"golang.org/x/tools/go/ssa"
)

// Round 15 of seeded changes (environment, shapes of names and files): rules added or shared after the round.
// See DESIGN.md section 10.15.

func init() {
	share := func(prop, id, doc string, min int, run func(*Ctx), expl string) {
		if p := registry[prop]; p != nil {
			p.Rules = append(p.Rules, Rule{ID: id, Doc: doc, Min: min, Run: run})
			if expl != "" {
				p.Explanation += " " + expl
			}
		}
	}
	share("C01", "R-C19-7", "key files are opened by the path as given (shared with C19)", 6, ruleC19_7, "(R-C19-7, shared with C19) LoadKey / LoadKeyDefaults open the very path they are given: the key the verifier holds is the one at the path it named.")
	for _, p := range []string{"C12", "C04", "C02", "C14", "C09", "C01", "C19"} {
		share(p, "R-C12-9", "files and directories are used by the name given", 4, ruleC12_9, "")
	}
	if p := registry["C12"]; p != nil {
		p.Explanation += " (R-C12-9) the functions that open a file or start a command in a directory named by a parameter (LoadMetadata, Metablock.Load, the LoadKey wrappers, RunCommand, and the unexported helpers they call) hand that very name to the operating system: no filepath.Clean / Abs / EvalSymlinks of it (lexical clean-up names another file once a symbolic link is followed by '..'), and no os.Lstat of it (which judges the link instead of the file it names)."
	}
	share("C18", "R-C18-9", "substituted strings are the replacer's output", 2, ruleC18_9, "(R-C18-9) what the two substitution helpers append to their result is the value returned by Replacer.Replace or by the inner helper, untouched: no clean-up, trimming or case change of rule elements after substitution.")
	share("C20", "R-C20-11", "the commands fail only where a call failed", 4, ruleC20_11, "(R-C20-11) every failing return of verify, sign, run, record and match-products carries an error obtained from a call (returned as it is or wrapped), or the reviewed usage errors: the commands add no verdicts of their own (an extra expiry or sanity check in the command makes its exit status differ from the library's answer).")
	share("C11", "R-C11-10", "loaded links reach the signature check as loaded", 1, ruleC11_10, "(R-C11-10) between LoadMetadata and the threshold check nothing writes through a loaded link (A4 effects analysis of every module function LoadLinksForLayout hands the link or a part of it to): what is verified is what was signed.")
	share("C02", "R-C11-10", "loaded links reach the signature check as loaded (shared with C11)", 1, ruleC11_10, "")
}

// R-C12-9 -------------------------------------------------------------------------------------------------------------

var c12NameUsers = []string{"in_toto.LoadMetadata", "(*in_toto.Metablock).Load", "(*in_toto.Key).LoadKey", "(*in_toto.Key).LoadKeyDefaults", "in_toto.RunCommand"}

var c12NameTransforms = map[string]string{
	"path/filepath.Clean":        "lexical clean-up drops 'link/..' although the operating system would follow the link first",
	"path/filepath.Abs":          "Abs cleans the path lexically (and builds it from $PWD)",
	"path/filepath.EvalSymlinks": "the name is resolved at one time and used at another",
	"path.Clean":                 "lexical clean-up drops 'link/..' although the operating system would follow the link first",
	"os.Lstat":                   "Lstat describes a symbolic link itself, not the file or directory it names",
	"os.Readlink":                "the link is read instead of followed",
}

func ruleC12_9(c *Ctx) {
	const R = "R-C12-9"
	for _, n := range c12NameUsers {
		f := c.lookup(n)
		if f == nil {
			c.undecided(R, n, "anchor", 0, "not found")
			continue
		}
		// the function and the unexported helpers it hands a string parameter to
		type frame struct {
			g      *ssa.Function
			params map[*ssa.Parameter]bool
		}
		strParams := map[*ssa.Parameter]bool{}
		for _, p := range f.Params {
			if typeStr(p.Type()) == "string" {
				strParams[p] = true
			}
		}
		frames := []frame{{f, strParams}}
		seen := map[*ssa.Function]bool{f: true}
		for i := 0; i < len(frames) && i < 8; i++ {
			fr := frames[i]
			for _, call := range allCalls(fr.g) {
				h := call.Common().StaticCallee()
				if h == nil || h.Blocks == nil || h.Pkg != f.Pkg || seen[h] || (h.Object() != nil && h.Object().Exported()) {
					continue
				}
				hp := map[*ssa.Parameter]bool{}
				for j, a := range callArgs(call) {
					if prm, ok := resolve(a, call).(*ssa.Parameter); ok && fr.params[prm] && j < len(h.Params) {
						hp[h.Params[j]] = true
					}
				}
				if len(hp) > 0 {
					seen[h] = true
					frames = append(frames, frame{h, hp})
				}
			}
		}
		var bad []string
		uses := 0
		for _, fr := range frames {
			for _, call := range allCalls(fr.g) {
				cn := calleeName(call)
				for _, a := range callArgs(call) {
					prm, ok := resolve(a, call).(*ssa.Parameter)
					if !ok || !fr.params[prm] {
						continue
					}
					if why, isT := c12NameTransforms[cn]; isT {
						bad = append(bad, fmt.Sprintf("%s(%s) in %s at %s: %s", cn, prm.Name(), fname(fr.g), c.pos(call.Pos()), why))
					}
					if strings.HasPrefix(cn, "os.") || strings.HasPrefix(cn, "os/exec.") {
						uses++
					}
				}
			}
			// cmd.Dir = runDir
			for _, b := range fr.g.Blocks {
				for _, in := range b.Instrs {
					if st, ok := in.(*ssa.Store); ok {
						if prm, ok := resolve(st.Val, st).(*ssa.Parameter); ok && fr.params[prm] {
							uses++
						}
					}
				}
			}
		}
		sort.Strings(bad)
		switch {
		case len(bad) > 0:
			c.bad(R, n, "the name parameter reaches the operating system as given", f.Pos(), strings.Join(bad, "; ")+" — the file (directory) that is used is not always the one the caller named, or a name that works is refused")
		case uses == 0:
			c.undecided(R, n, "the name parameter reaches the operating system as given", f.Pos(), "no os / os/exec use of a string parameter found in the function or its helpers")
		default:
			c.ok(R, n, "the name parameter reaches the operating system as given", f.Pos(), fmt.Sprintf("%d frame(s), %d uses, no lexical clean-up, no Lstat", len(frames), uses))
		}
	}
}

// R-C18-9 -------------------------------------------------------------------------------------------------------------

func ruleC18_9(c *Ctx) {
	const R = "R-C18-9"
	for _, n := range []string{"in_toto.substituteParamatersInSlice", "in_toto.substituteParametersInSliceOfSlices"} {
		h := c.lookup(n)
		if h == nil {
			c.trivial(R, n, "helper", 0, "not present (R-C18-1 / R-C18-4 read the substitution where it is)")
			continue
		}
		k := 0
		for _, ap := range callsIn(h, "builtin:append") {
			cc := ap.(*ssa.Call)
			if len(cc.Call.Args) < 2 {
				continue
			}
			k++
			// the appended element: stored into the varargs array
			var elems []ssa.Value
			derives(cc.Call.Args[1], func(v ssa.Value) bool {
				if al, ok := v.(*ssa.Alloc); ok && al.Comment == "varargs" {
					for _, r := range *al.Referrers() {
						if ia, ok := r.(*ssa.IndexAddr); ok {
							for _, rr := range *ia.Referrers() {
								if st, ok := rr.(*ssa.Store); ok {
									elems = append(elems, st.Val)
								}
							}
						}
					}
					return true
				}
				return false
			}, false)
			ok := len(elems) > 0
			detail := ""
			for _, e := range elems {
				// through phis only: every leaf is a call of Replace or of a substitution helper
				leafOK := true
				seen := map[ssa.Value]bool{}
				var walk func(v ssa.Value)
				walk = func(v ssa.Value) {
					if seen[v] {
						return
					}
					seen[v] = true
					switch x := v.(type) {
					case *ssa.Phi:
						for _, ed := range x.Edges {
							walk(ed)
						}
					case *ssa.Call:
						cn := calleeName(x)
						if cn != "(*strings.Replacer).Replace" && cn != "in_toto.substituteParamatersInSlice" && cn != "in_toto.substituteParametersInSliceOfSlices" {
							leafOK = false
							detail = short(org(x))
						}
						// ... and not rewritten in place before it is appended
						for _, r := range *x.Referrers() {
							if ia, ok := r.(*ssa.IndexAddr); ok {
								for _, rr := range *ia.Referrers() {
									if st, ok := rr.(*ssa.Store); ok && st.Addr == ssa.Value(ia) {
										leafOK = false
										detail = short(org(x)) + " with elements overwritten by " + short(org(st.Val))
									}
								}
							}
						}
					default:
						leafOK = false
						detail = short(org(v))
					}
				}
				walk(e)
				if !leafOK {
					ok = false
				}
			}
			c.check(ok, R, n, fmt.Sprintf("appended element #%d is the replacer's output", k), ap.Pos(), "Replace(...) / inner helper result, untouched",
				"an element of the result is "+detail+", not the unmodified result of the substitution: rule text outside the markers is rewritten too (a trailing slash, './' or a doubled slash next to a marker disappears)")
		}
	}
}

// R-C20-11 ------------------------------------------------------------------------------------------------------------

// reviewed usage errors of the commands: failing returns that do not stem from a failed call
var c20OwnErrors = map[string][]string{
	"cmd.matchProducts": {"metadata must be link"},
	"cmd.run":           {"metadata must be link", "command arguments passed with --no-command", "no command arguments passed"},
	"cmd.recordStart":   {"metadata must be link"},
	"cmd.recordStop":    {"metadata must be link"},
	"cmd.sign":          {},
	"cmd.verify":        {},
}

func ruleC20_11(c *Ctx) {
	const R = "R-C20-11"
	for _, n := range []string{"cmd.verify", "cmd.sign", "cmd.run", "cmd.recordStart", "cmd.recordStop", "cmd.matchProducts"} {
		f := c.lookup(n)
		if f == nil {
			c.undecided(R, n, "anchor", 0, "not found")
			continue
		}
		ei := errIndex(f)
		if ei < 0 {
			continue
		}
		k := 0
		for _, r := range returnsOf(f) {
			ev := r.Results[ei]
			if isNilConst(resolve(ev, r)) {
				continue
			}
			k++
			// the error derives from the error result of some call (possibly wrapped by fmt.Errorf / errors.Join)
			fromCall := false
			own := ""
			derives(ev, func(v ssa.Value) bool {
				switch x := v.(type) {
				case *ssa.Extract:
					if isErrorType(x.Type()) {
						fromCall = true
					}
				case *ssa.Call:
					if isErrorType(x.Type()) && calleeName(x) != "fmt.Errorf" && calleeName(x) != "errors.New" {
						fromCall = true
					}
				case *ssa.Const:
					if s, ok := constString(x); ok && own == "" {
						own = s
					}
				}
				return false
			}, true)
			if fromCall {
				c.ok(R, n, fmt.Sprintf("failing return #%d", k), instrPos(r), "carries the error of a call")
				continue
			}
			reviewed := false
			for _, frag := range c20OwnErrors[n] {
				if strings.Contains(own, frag) {
					reviewed = true
				}
			}
			c.check(reviewed, R, n, fmt.Sprintf("failing return #%d", k), instrPos(r), "reviewed usage error: "+own,
				fmt.Sprintf("the command fails with an error of its own (%q) that no call returned: it adds a verdict to the library's, so its exit status can differ from the library's answer for the same files", own))
		}
	}
}

// R-C11-10 ------------------------------------------------------------------------------------------------------------

func ruleC11_10(c *Ctx) {
	const R = "R-C11-10"
	f := c.lookup("in_toto.LoadLinksForLayout")
	if f == nil {
		c.undecided(R, "in_toto.LoadLinksForLayout", "anchor", 0, "not found")
		return
	}
	fn := fname(f)
	loads := callsIn(f, "in_toto.LoadMetadata")
	if len(loads) == 0 {
		c.undecided(R, fn, "loaded links", f.Pos(), "LoadLinksForLayout does not call LoadMetadata itself")
		return
	}
	isLoaded := func(v ssa.Value) bool {
		return derives(v, func(x ssa.Value) bool {
			for _, l := range loads {
				if x == l.Value() {
					return true
				}
				if ex, ok := x.(*ssa.Extract); ok && ex.Tuple == l.Value() {
					return true
				}
			}
			return false
		}, true)
	}
	var bad []string
	n := 0
	for _, call := range allCalls(f) {
		g := call.Common().StaticCallee()
		if g == nil || g.Blocks == nil || g.Pkg == nil || !strings.HasPrefix(g.Pkg.Pkg.Path(), modPath) {
			continue
		}
		args := callArgs(call)
		if len(args) > len(g.Params) {
			continue
		}
		ctx := make([]pc, len(g.Params))
		any := false
		for i, a := range args {
			if hasRefs(a.Type()) && isLoaded(a) {
				ctx[i] = pc{isRefType(a.Type()), true}
				any = true
			}
		}
		if !any {
			continue
		}
		n++
		sum := newA4(c.Prog).analyse(g, ctx, nil)
		if kept, _ := a4FilterReviewed(sum.writes); len(kept) > 0 {
			w := kept[0]
			bad = append(bad, fmt.Sprintf("%s writes %s (%s)", fname(g), w.path, c.pos(w.instr.Pos())))
		}
	}
	// direct stores through the loaded object
	for _, b := range f.Blocks {
		for _, in := range b.Instrs {
			switch x := in.(type) {
			case *ssa.MapUpdate:
				if isLoaded(x.Map) {
					bad = append(bad, "map update of "+short(org(x.Map))+" ("+c.pos(x.Pos())+")")
				}
			case *ssa.Store:
				if _, isAl := memBase(x.Addr).(*ssa.Alloc); !isAl && isLoaded(x.Addr) {
					bad = append(bad, "store to "+short(org(x.Addr))+" ("+c.pos(x.Pos())+")")
				}
			}
		}
	}
	sort.Strings(bad)
	c.check(len(bad) == 0, R, fn, "nothing writes through a loaded link before it is verified", f.Pos(), fmt.Sprintf("%d module callee(s) handed (parts of) a loaded link, no write", n),
		"a loaded link is modified before its signature is checked ("+strings.Join(bad, "; ")+"): the signable bytes of the object under verification are no longer those that were signed (legacy wrapper), and the payload no longer matches the signed payload (DSSE)")
}
