package main

import (
	"fmt"
	"go/constant"
	"go/token"
	"go/types"
	"reflect"
	"sort"
	"strings"

	"golang.org/x/tools/go/ssa"
)

// ---------------------------------------------------------------------------
// callee resolution

// calleeName returns a short, stable name of the callee of a call instruction:
//
//	static:  "in_toto.VerifyLayoutSignatures", "(*in_toto.Metablock).Sign"
//	invoke:  "iface:in_toto.Metadata.VerifySignature"
//	builtin: "builtin:len"
//	dynamic: "dynamic"
func calleeName(c ssa.CallInstruction) string {
	if c == nil || reflect.ValueOf(c).IsNil() {
		return "<no call>"
	}
	cc := c.Common()
	if cc.IsInvoke() {
		recv := cc.Value.Type()
		return "iface:" + shortName(types.TypeString(recv, nil)) + "." + cc.Method.Name()
	}
	switch v := cc.Value.(type) {
	case *ssa.Function:
		return fname(v)
	case *ssa.Builtin:
		return "builtin:" + v.Name()
	case *ssa.MakeClosure:
		if f, ok := v.Fn.(*ssa.Function); ok {
			return fname(f)
		}
	}
	return "dynamic"
}

func isCallTo(instr ssa.Instruction, names ...string) (ssa.CallInstruction, bool) {
	c, ok := instr.(ssa.CallInstruction)
	if !ok {
		return nil, false
	}
	n := calleeName(c)
	for _, x := range names {
		if n == x {
			return c, true
		}
	}
	return nil, false
}

// callsIn lists the call instructions of f (not of nested closures) whose callee name matches one of names.
func callsIn(f *ssa.Function, names ...string) []ssa.CallInstruction {
	var out []ssa.CallInstruction
	if f == nil {
		return out
	}
	for _, b := range f.Blocks {
		for _, in := range b.Instrs {
			if c, ok := isCallTo(in, names...); ok {
				out = append(out, c)
			}
		}
	}
	return out
}

func allCalls(f *ssa.Function) []ssa.CallInstruction {
	var out []ssa.CallInstruction
	for _, b := range f.Blocks {
		for _, in := range b.Instrs {
			if c, ok := in.(ssa.CallInstruction); ok {
				out = append(out, c)
			}
		}
	}
	return out
}

var errorType = types.Universe.Lookup("error").Type()

func isErrorType(t types.Type) bool { return types.Identical(t, errorType) }

// errResult returns the SSA value carrying the error result of call c (nil if none).
func errResult(c ssa.CallInstruction) ssa.Value {
	v := c.Value()
	if v == nil {
		return nil
	}
	sig := c.Common().Signature()
	res := sig.Results()
	for i := 0; i < res.Len(); i++ {
		if isErrorType(res.At(i).Type()) {
			if res.Len() == 1 {
				return v
			}
			for _, r := range *v.Referrers() {
				if e, ok := r.(*ssa.Extract); ok && e.Index == i {
					return e
				}
			}
			return nil // error result never extracted
		}
	}
	return nil
}

func hasErrResult(c ssa.CallInstruction) bool {
	res := c.Common().Signature().Results()
	for i := 0; i < res.Len(); i++ {
		if isErrorType(res.At(i).Type()) {
			return true
		}
	}
	return false
}

// resultN returns the Extract #i of a tuple call (or the call itself if single result and i==0).
func resultN(c ssa.CallInstruction, i int) ssa.Value {
	v := c.Value()
	if v == nil {
		return nil
	}
	if c.Common().Signature().Results().Len() == 1 {
		if i == 0 {
			return v
		}
		return nil
	}
	for _, r := range *v.Referrers() {
		if e, ok := r.(*ssa.Extract); ok && e.Index == i {
			return e
		}
	}
	return nil
}

func isNilConst(v ssa.Value) bool {
	c, ok := v.(*ssa.Const)
	return ok && c.Value == nil
}

func constInt(v ssa.Value) (int64, bool) {
	c, ok := v.(*ssa.Const)
	if !ok || c.Value == nil || c.Value.Kind() != constant.Int {
		return 0, false
	}
	n, ok := constant.Int64Val(c.Value)
	return n, ok
}

func constString(v ssa.Value) (string, bool) {
	c, ok := v.(*ssa.Const)
	if !ok || c.Value == nil || c.Value.Kind() != constant.String {
		return "", false
	}
	return constant.StringVal(c.Value), true
}

// ---------------------------------------------------------------------------
// branch facts: which If-conditions hold on every path to a block

type fact struct {
	v   ssa.Value
	val bool
}

type factSet struct {
	in map[*ssa.BasicBlock]map[fact]bool
}

func (p *Prog) facts(f *ssa.Function) *factSet {
	if fs, ok := p.factMemo[f]; ok {
		return fs
	}
	fs := &factSet{in: map[*ssa.BasicBlock]map[fact]bool{}}
	p.factMemo[f] = fs
	if len(f.Blocks) == 0 {
		return fs
	}
	universe := map[fact]bool{}
	edge := func(pb, b *ssa.BasicBlock) (fact, bool) {
		if len(pb.Instrs) == 0 {
			return fact{}, false
		}
		ifi, ok := pb.Instrs[len(pb.Instrs)-1].(*ssa.If)
		if !ok || pb.Succs[0] == pb.Succs[1] {
			return fact{}, false
		}
		if pb.Succs[0] == b {
			return fact{ifi.Cond, true}, true
		}
		return fact{ifi.Cond, false}, true
	}
	for _, b := range f.Blocks {
		for _, s := range b.Succs {
			if ft, ok := edge(b, s); ok {
				universe[ft] = true
			}
		}
	}
	top := func() map[fact]bool {
		m := make(map[fact]bool, len(universe))
		for k := range universe {
			m[k] = true
		}
		return m
	}
	for i, b := range f.Blocks {
		if i == 0 || len(b.Preds) == 0 {
			fs.in[b] = map[fact]bool{}
		} else {
			fs.in[b] = top()
		}
	}
	changed := true
	for changed {
		changed = false
		for i, b := range f.Blocks {
			if i == 0 || len(b.Preds) == 0 {
				continue
			}
			var acc map[fact]bool
			for _, pb := range b.Preds {
				out := map[fact]bool{}
				for k := range fs.in[pb] {
					out[k] = true
				}
				if ft, ok := edge(pb, b); ok {
					out[ft] = true
				}
				if acc == nil {
					acc = out
				} else {
					for k := range acc {
						if !out[k] {
							delete(acc, k)
						}
					}
				}
			}
			if len(acc) != len(fs.in[b]) {
				fs.in[b] = acc
				changed = true
			}
		}
	}
	return fs
}

// condAt reports whether boolean SSA value v is known to be `want` at block b.
func (p *Prog) condAt(v ssa.Value, want bool, b *ssa.BasicBlock) bool {
	fs := p.facts(b.Parent())
	if fs.in[b][fact{v, want}] {
		return true
	}
	// v = !x
	if u, ok := v.(*ssa.UnOp); ok && u.Op == token.NOT {
		return p.condAt(u.X, !want, b)
	}
	// some w = !v is known
	if refs := v.Referrers(); refs != nil {
		for _, r := range *refs {
			if u, ok := r.(*ssa.UnOp); ok && u.Op == token.NOT {
				if fs.in[b][fact{u, !want}] {
					return true
				}
			}
		}
	}
	// a known boolean phi (a flag) whose value implies the fact: `failed = failed || len(s) == 0 ... if !failed { use s }`
	if p.flagDepth < 3 {
		p.flagDepth++
		defer func() { p.flagDepth-- }()
		for ft := range fs.in[b] {
			x, cx := ft.v, ft.val
			for {
				u, ok := x.(*ssa.UnOp)
				if !ok || u.Op != token.NOT {
					break
				}
				x, cx = u.X, !cx
			}
			ph, ok := x.(*ssa.Phi)
			if !ok || ph == v || !ph.Block().Dominates(b) {
				continue
			}
			// the instance of v the fact speaks about must still be the current one at b: v's block dominates the
			// phi's block, or cannot reach b without passing the phi's block again
			if vi, isInstr := v.(ssa.Instruction); isInstr && vi.Block() != nil && !vi.Block().Dominates(ph.Block()) && reachesAvoiding(vi.Block(), b, ph.Block()) {
				continue
			}
			if p.phiImplies(ph, cx, v, want) {
				return true
			}
		}
	}
	return false
}

// phiImplies: (ph == c) implies (v == want): on every incoming edge of the boolean phi that can carry the value c,
// the fact (v == want) holds. Edges whose value is the constant !c, or an SSA value known to be !c on that edge,
// cannot be the one taken.
func (p *Prog) phiImplies(ph *ssa.Phi, c bool, v ssa.Value, want bool) bool {
	if !isBool(ph.Type().Underlying()) {
		return false
	}
	possible := 0
	for i, e := range ph.Edges {
		pb := ph.Block().Preds[i]
		if k, isC := e.(*ssa.Const); isC {
			if k.Value != nil && (k.Value.String() == "true") != c {
				continue
			}
		} else if p.condAt(e, !c, pb) || edgeFact(pb, ph.Block(), e, !c) {
			continue
		}
		possible++
		if p.condAt(v, want, pb) || edgeFact(pb, ph.Block(), v, want) {
			continue
		}
		// the edge carries v itself: the phi equals c there exactly when v does (the last conjunct of  a && b && v
		// evaluated as a value, as in the case expression of a tagless switch)
		if e == v && c == want {
			continue
		}
		// the edge value is itself a flag that equals c here
		if ph2, isPhi := e.(*ssa.Phi); isPhi && ph2 != ph && p.flagDepth < 3 {
			p.flagDepth++
			ok := p.phiImplies(ph2, c, v, want)
			p.flagDepth--
			if ok {
				continue
			}
		}
		return false
	}
	return possible > 0
}

// nilAt: e is known to be nil at block b (via a dominating comparison with nil).
func (p *Prog) nilAt(e ssa.Value, b *ssa.BasicBlock) bool { return p.nilnessAt(e, true, b) }

// nonNilAt: e is known to be non-nil at block b.
func (p *Prog) nonNilAt(e ssa.Value, b *ssa.BasicBlock) bool { return p.nilnessAt(e, false, b) }

func (p *Prog) nilnessAt(e ssa.Value, wantNil bool, b *ssa.BasicBlock) bool {
	refs := e.Referrers()
	if refs == nil {
		return false
	}
	for _, r := range *refs {
		bo, ok := r.(*ssa.BinOp)
		if !ok || (bo.Op != token.EQL && bo.Op != token.NEQ) {
			continue
		}
		if !(isNilConst(bo.X) || isNilConst(bo.Y)) {
			continue
		}
		// EQL true => nil ; NEQ false => nil
		want := wantNil
		if bo.Op == token.NEQ {
			want = !wantNil
		}
		if p.condAt(bo, want, b) {
			return true
		}
	}
	// the value spilled into a variable (a named result, a variable captured by a closure): a test of a load whose
	// reaching store is that spill is a test of the value itself
	for _, r := range *refs {
		st, ok := r.(*ssa.Store)
		if !ok || st.Val != e {
			continue
		}
		al, ok := st.Addr.(*ssa.Alloc)
		if !ok {
			continue
		}
		for _, rr := range *al.Referrers() {
			if u, ok := rr.(*ssa.UnOp); ok && u.X == ssa.Value(al) && u != e && reachingStore(al, u) == st {
				if p.nilnessAt(u, wantNil, b) {
					return true
				}
			}
		}
	}
	return false
}

// instrBlock is a helper for nil Block (parameters etc.).
func blockOf(in ssa.Instruction) *ssa.BasicBlock { return in.Block() }

// okCallAt: the error result of call c is known nil at block b.
func (p *Prog) okCallAt(c ssa.CallInstruction, b *ssa.BasicBlock) bool {
	e := errResult(c)
	if e == nil {
		return false
	}
	return p.nilAt(e, b)
}

// forwardAliases lists phis that e flows into (one level is enough for this code base).
func forwardAliases(e ssa.Value) []ssa.Value {
	var out []ssa.Value
	if refs := e.Referrers(); refs != nil {
		for _, r := range *refs {
			if ph, ok := r.(*ssa.Phi); ok {
				out = append(out, ph)
			}
		}
	}
	return out
}

// ---------------------------------------------------------------------------
// failing continuation

// mayBeNilErr reports whether error value v may be nil when returned from block b.
func (p *Prog) mayBeNilErr(v ssa.Value, b *ssa.BasicBlock, depth int) bool {
	if depth > 6 {
		return true
	}
	if p.nonNilAt(v, b) {
		return false
	}
	switch x := v.(type) {
	case *ssa.Const:
		return x.Value == nil
	case *ssa.MakeInterface:
		return false
	case *ssa.ChangeInterface:
		return p.mayBeNilErr(x.X, b, depth+1)
	case *ssa.Phi:
		for i, e := range x.Edges {
			// edge i comes from pred i of the phi's block
			pb := x.Block().Preds[i]
			if p.mayBeNilErr(e, pb, depth+1) {
				return true
			}
		}
		return false
	case *ssa.UnOp:
		if x.Op == token.MUL {
			if g, ok := x.X.(*ssa.Global); ok {
				_ = g
				return false // package-level sentinel error
			}
			if a, ok := x.X.(*ssa.Alloc); ok {
				// named result / local spilled (defer): consult the store that reaches this load
				if s := reachingStore(a, x); s != nil {
					// (the stored value is immutable: what is known about it where the load happens counts too)
					if p.nonNilAt(s.Val, b) {
						return false
					}
					// every load with the same reaching store reads the same value: a test of a sibling load counts
					for _, rr := range *a.Referrers() {
						sib, ok := rr.(*ssa.UnOp)
						if !ok || sib.X != ssa.Value(a) || reachingStore(a, sib) != s {
							continue
						}
						if p.nonNilAt(sib, b) || p.equalsSentinelAt(sib, b) {
							return false
						}
					}
					if p.equalsSentinelAt(s.Val, b) {
						return false
					}
					return p.mayBeNilErr(s.Val, s.Block(), depth+1) && p.mayBeNilErr(s.Val, b, depth+1)
				}
				stores := storesTo(a)
				if len(stores) == 0 {
					return true
				}
				for _, s := range stores {
					if p.mayBeNilErr(s.Val, s.Block(), depth+1) {
						return true
					}
				}
				return false
			}
		}
	case *ssa.Call:
		n := calleeName(x)
		switch n {
		case "fmt.Errorf", "errors.New", "errors.Join":
			return false
		}
		// a module function that builds an error: every return hands back a non-nil error
		if p.alwaysErr(x.Call.StaticCallee(), depth) {
			return false
		}
	}
	if p.nonNilAt(v, b) {
		return false
	}
	// v == <package-level sentinel> known true at b
	if p.equalsSentinelAt(v, b) {
		return false
	}
	return true
}

// equalsSentinelAt: a comparison v == <package-level variable> is known true at b (the sentinel errors are non-nil).
func (p *Prog) equalsSentinelAt(v ssa.Value, b *ssa.BasicBlock) bool {
	refs := v.Referrers()
	if refs == nil {
		return false
	}
	for _, r := range *refs {
		bo, ok := r.(*ssa.BinOp)
		if !ok || bo.Op != token.EQL {
			continue
		}
		other := bo.X
		if other == v {
			other = bo.Y
		}
		if u, ok := other.(*ssa.UnOp); ok && u.Op == token.MUL {
			if _, isG := u.X.(*ssa.Global); isG && p.condAt(bo, true, b) {
				return true
			}
		}
	}
	return false
}

func storesTo(a *ssa.Alloc) []*ssa.Store {
	var out []*ssa.Store
	if refs := a.Referrers(); refs != nil {
		for _, r := range *refs {
			if s, ok := r.(*ssa.Store); ok && s.Addr == a {
				out = append(out, s)
			}
		}
	}
	return out
}

// errIndex returns the index of the error result of f (or -1).
func errIndex(f *ssa.Function) int {
	res := f.Signature.Results()
	for i := 0; i < res.Len(); i++ {
		if isErrorType(res.At(i).Type()) {
			return i
		}
	}
	return -1
}

// failing reports whether every path from the start of block b ends in a Return with a definitely non-nil
// error result, a panic, or os.Exit with non-zero constant — and never rejoins code not dominated by b.
func (p *Prog) failing(b *ssa.BasicBlock) bool {
	f := b.Parent()
	ei := errIndex(f)
	seen := map[*ssa.BasicBlock]bool{}
	var walk func(x *ssa.BasicBlock) bool
	walk = func(x *ssa.BasicBlock) bool {
		if seen[x] {
			return true
		}
		seen[x] = true
		if x != b && !b.Dominates(x) {
			return false
		}
		for _, in := range x.Instrs {
			if c, ok := in.(*ssa.Call); ok {
				if calleeName(c) == "os.Exit" {
					if n, ok := constInt(c.Call.Args[0]); ok && n != 0 {
						return true
					}
				}
			}
		}
		last := x.Instrs[len(x.Instrs)-1]
		switch t := last.(type) {
		case *ssa.Panic:
			return true
		case *ssa.Return:
			if ei < 0 || ei >= len(t.Results) {
				return false
			}
			return !p.mayBeNilErr(t.Results[ei], x, 0)
		}
		if len(x.Succs) == 0 {
			return false
		}
		for _, s := range x.Succs {
			if !walk(s) {
				return false
			}
		}
		return true
	}
	return walk(b)
}

// errCheckBranches returns, for error value e, the (nonNilSucc, nilSucc, ifBlock) of every If that tests e against nil.
type errBranch struct {
	If      *ssa.If
	NonNil  *ssa.BasicBlock
	Nil     *ssa.BasicBlock
	Compare *ssa.BinOp
}

func errBranches(e ssa.Value) []errBranch {
	var out []errBranch
	refs := e.Referrers()
	if refs == nil {
		return out
	}
	for _, r := range *refs {
		bo, ok := r.(*ssa.BinOp)
		if !ok || (bo.Op != token.EQL && bo.Op != token.NEQ) || !(isNilConst(bo.X) || isNilConst(bo.Y)) {
			continue
		}
		for _, ifi := range condUsers(bo, false) {
			br := errBranch{If: ifi.If, Compare: bo}
			t, f := ifi.If.Block().Succs[0], ifi.If.Block().Succs[1]
			neg := ifi.Neg
			// bo true means: EQL -> nil ; NEQ -> non-nil
			isNilWhenTrue := bo.Op == token.EQL
			if neg {
				isNilWhenTrue = !isNilWhenTrue
			}
			if isNilWhenTrue {
				br.Nil, br.NonNil = t, f
			} else {
				br.Nil, br.NonNil = f, t
			}
			out = append(out, br)
		}
	}
	return out
}

type condUse struct {
	If  *ssa.If
	Neg bool
}

// condUsers finds If instructions controlled by boolean v (possibly through !).
func condUsers(v ssa.Value, neg bool) []condUse {
	var out []condUse
	refs := v.Referrers()
	if refs == nil {
		return out
	}
	for _, r := range *refs {
		switch x := r.(type) {
		case *ssa.If:
			out = append(out, condUse{x, neg})
		case *ssa.UnOp:
			if x.Op == token.NOT {
				out = append(out, condUsers(x, !neg)...)
			}
		}
	}
	return out
}

// ---------------------------------------------------------------------------
// origins: a symbolic access path for a value, relative to the function's parameters

type orgCtx struct {
	seen  map[ssa.Value]bool
	depth int
	subst map[*ssa.Parameter]string // helper parameters rendered as the caller's argument
	// fields of a helper parameter whose argument is a fresh composite literal of the caller: what the caller stored there
	substField map[*ssa.Parameter]map[string]string
}

// orgSubst renders v like org, with the given parameters replaced by the given strings (a value of a helper frame
// seen from its caller).
func orgSubst(v ssa.Value, subst map[*ssa.Parameter]string) string {
	return (&orgCtx{seen: map[ssa.Value]bool{}, subst: subst}).org(v)
}

func org(v ssa.Value) string { return (&orgCtx{seen: map[ssa.Value]bool{}}).org(v) }

func paramIndex(p *ssa.Parameter) int {
	for i, q := range p.Parent().Params {
		if q == p {
			return i
		}
	}
	return -1
}

// reachingStore returns the unique store to alloc a that reaches instruction at (in block b, index idx); nil if ambiguous.
func reachingStore(a *ssa.Alloc, user ssa.Instruction) *ssa.Store {
	stores := storesTo(a)
	if len(stores) == 0 {
		return nil
	}
	if len(stores) == 1 {
		return stores[0]
	}
	ub := user.Block()
	var best *ssa.Store
	for _, s := range stores {
		if !instrDominates(s, user) {
			// a store that does not dominate the user might still reach it
			if reaches(s.Block(), ub) {
				return nil
			}
			continue
		}
		if best == nil || instrDominates(best, s) {
			best = s
		}
	}
	return best
}

func instrIndex(in ssa.Instruction) int {
	for i, x := range in.Block().Instrs {
		if x == in {
			return i
		}
	}
	return -1
}

func instrDominates(a, b ssa.Instruction) bool {
	if a.Block() == b.Block() {
		return instrIndex(a) < instrIndex(b)
	}
	return a.Block().Dominates(b.Block())
}

func reaches(from, to *ssa.BasicBlock) bool {
	seen := map[*ssa.BasicBlock]bool{}
	stack := []*ssa.BasicBlock{from}
	for len(stack) > 0 {
		x := stack[len(stack)-1]
		stack = stack[:len(stack)-1]
		for _, s := range x.Succs {
			if s == to {
				return true
			}
			if !seen[s] {
				seen[s] = true
				stack = append(stack, s)
			}
		}
	}
	return false
}

func fieldName(t types.Type, idx int) string {
	if pt, ok := t.Underlying().(*types.Pointer); ok {
		t = pt.Elem()
	}
	if st, ok := t.Underlying().(*types.Struct); ok && idx < st.NumFields() {
		return st.Field(idx).Name()
	}
	return fmt.Sprintf("f%d", idx)
}

func (o *orgCtx) org(v ssa.Value) string {
	if v == nil {
		return "<nil>"
	}
	if o.depth > 24 {
		return "…"
	}
	o.depth++
	defer func() { o.depth-- }()
	switch x := v.(type) {
	case *ssa.Parameter:
		if r, ok := o.subst[x]; ok {
			return r
		}
		return fmt.Sprintf("p%d", paramIndex(x))
	case *ssa.FreeVar:
		return "fv:" + x.Name()
	case *ssa.Const:
		if x.Value == nil {
			return "nil"
		}
		return "const(" + x.Value.ExactString() + ")"
	case *ssa.Global:
		return "global(" + shortName(x.Pkg.Pkg.Path()) + "." + x.Name() + ")"
	case *ssa.Function:
		return "func(" + fname(x) + ")"
	case *ssa.Alloc:
		stores := storesTo(x)
		if len(stores) == 1 {
			return o.org(stores[0].Val)
		}
		return "local(" + x.Comment + ")"
	case *ssa.UnOp:
		if x.Op == token.MUL {
			if a, ok := x.X.(*ssa.Alloc); ok {
				if s := reachingStore(a, x); s != nil {
					return o.org(s.Val)
				}
				return "local(" + a.Comment + ")"
			}
			return o.org(x.X)
		}
		return x.Op.String() + o.org(x.X)
	case *ssa.FieldAddr:
		if prm, ok := x.X.(*ssa.Parameter); ok {
			if s, ok := o.substField[prm][fieldName(x.X.Type(), x.Field)]; ok {
				return s
			}
		}
		return o.org(x.X) + "." + fieldName(x.X.Type(), x.Field)
	case *ssa.Field:
		return o.org(x.X) + "." + fieldName(x.X.Type(), x.Field)
	case *ssa.IndexAddr:
		return o.org(x.X) + o.idx(x.Index)
	case *ssa.Index:
		return o.org(x.X) + o.idx(x.Index)
	case *ssa.Lookup:
		return o.org(x.X) + "{" + o.org(x.Index) + "}"
	case *ssa.Extract:
		switch t := x.Tuple.(type) {
		case *ssa.Next:
			rg, _ := t.Iter.(*ssa.Range)
			if rg != nil {
				if x.Index == 1 {
					return "key(" + o.org(rg.X) + ")"
				}
				if x.Index == 2 {
					return o.org(rg.X) + "{*}"
				}
			}
			return "next?"
		case *ssa.Lookup:
			if x.Index == 0 {
				return o.org(t)
			}
			return "ok(" + o.org(t) + ")"
		case *ssa.TypeAssert:
			if x.Index == 0 {
				return o.org(t)
			}
			return "ok(" + o.org(t) + ")"
		case *ssa.Call:
			if r, ok := o.transparentOrg(t, x.Index); ok {
				return r
			}
			return fmt.Sprintf("%s#%d", o.org(t), x.Index)
		}
		return fmt.Sprintf("extract(%s)#%d", o.org(x.Tuple), x.Index)
	case *ssa.Call:
		cc := x.Common()
		var args []string
		if cc.IsInvoke() {
			args = append(args, o.org(cc.Value))
		}
		for _, a := range cc.Args {
			args = append(args, o.org(a))
		}
		// a single-result transparent helper is rendered as the value it hands back, in the caller's terms
		if x.Type() != nil {
			if _, isTuple := x.Type().(*types.Tuple); !isTuple {
				if r, ok := o.transparentOrg(x, 0); ok {
					return r
				}
			}
		}
		n := calleeName(x)
		n = strings.TrimPrefix(n, "iface:")
		return n + "(" + strings.Join(args, ",") + ")"
	case *ssa.TypeAssert:
		return o.org(x.X) + ".(" + shortName(types.TypeString(x.AssertedType, nil)) + ")"
	case *ssa.MakeInterface:
		return o.org(x.X)
	case *ssa.ChangeInterface:
		return o.org(x.X)
	case *ssa.ChangeType:
		return o.org(x.X)
	case *ssa.Convert:
		return o.org(x.X)
	case *ssa.Slice:
		return o.org(x.X) + "[:]"
	case *ssa.Phi:
		if o.seen[x] {
			return "φ"
		}
		o.seen[x] = true
		defer delete(o.seen, x)
		set := map[string]bool{}
		for _, e := range x.Edges {
			s := o.org(e)
			if s != "φ" {
				set[s] = true
			}
		}
		var parts []string
		for s := range set {
			parts = append(parts, s)
		}
		sort.Strings(parts)
		if len(parts) == 1 {
			return parts[0]
		}
		return "phi(" + strings.Join(parts, "|") + ")"
	case *ssa.BinOp:
		return "(" + o.org(x.X) + x.Op.String() + o.org(x.Y) + ")"
	case *ssa.MakeMap:
		return "makemap"
	case *ssa.MakeSlice:
		return "makeslice"
	case *ssa.MakeClosure:
		var b []string
		for _, bv := range x.Bindings {
			b = append(b, o.org(bv))
		}
		return "closure(" + fname(x.Fn.(*ssa.Function)) + ";" + strings.Join(b, ",") + ")"
	case *ssa.Builtin:
		return "builtin:" + x.Name()
	}
	return fmt.Sprintf("?%T", v)
}

func (o *orgCtx) idx(i ssa.Value) string {
	if n, ok := constInt(i); ok {
		return fmt.Sprintf("[%d]", n)
	}
	// len(x)-1
	if bo, ok := i.(*ssa.BinOp); ok && bo.Op == token.SUB {
		if k, ok := constInt(bo.Y); ok && k == 1 {
			if c, ok := bo.X.(*ssa.Call); ok && calleeName(c) == "builtin:len" {
				return "[len(" + o.org(c.Call.Args[0]) + ")-1]"
			}
		}
	}
	return "[*]"
}

// ---------------------------------------------------------------------------
// value flow helpers

// derives reports whether value v is derived (through copies, phis, fields, slices, conversions, calls'
// arguments if throughCalls) from a value satisfying pred.
func derives(v ssa.Value, pred func(ssa.Value) bool, throughCalls bool) bool {
	seen := map[ssa.Value]bool{}
	var rec func(v ssa.Value, d int) bool
	rec = func(v ssa.Value, d int) bool {
		if v == nil || seen[v] || d > 40 {
			return false
		}
		seen[v] = true
		if pred(v) {
			return true
		}
		switch x := v.(type) {
		case *ssa.Phi:
			for _, e := range x.Edges {
				if rec(e, d+1) {
					return true
				}
			}
		case *ssa.UnOp:
			if x.Op == token.MUL {
				if a, ok := x.X.(*ssa.Alloc); ok {
					for _, s := range storesTo(a) {
						if rec(s.Val, d+1) {
							return true
						}
					}
					// element stores into arrays (varargs)
					return rec(a, d+1)
				}
			}
			return rec(x.X, d+1)
		case *ssa.Alloc:
			for _, s := range storesTo(x) {
				if rec(s.Val, d+1) {
					return true
				}
			}
			if refs := x.Referrers(); refs != nil {
				for _, r := range *refs {
					switch y := r.(type) {
					case *ssa.IndexAddr:
						for _, rr := range *y.Referrers() {
							if s, ok := rr.(*ssa.Store); ok && s.Addr == y && rec(s.Val, d+1) {
								return true
							}
						}
					case *ssa.FieldAddr:
						for _, rr := range *y.Referrers() {
							if s, ok := rr.(*ssa.Store); ok && s.Addr == y && rec(s.Val, d+1) {
								return true
							}
						}
					}
				}
			}
		case *ssa.FieldAddr:
			return rec(x.X, d+1)
		case *ssa.Field:
			return rec(x.X, d+1)
		case *ssa.IndexAddr:
			return rec(x.X, d+1)
		case *ssa.Index:
			return rec(x.X, d+1)
		case *ssa.Lookup:
			return rec(x.X, d+1)
		case *ssa.Extract:
			return rec(x.Tuple, d+1)
		case *ssa.Next:
			return rec(x.Iter, d+1)
		case *ssa.Range:
			return rec(x.X, d+1)
		case *ssa.TypeAssert:
			return rec(x.X, d+1)
		case *ssa.MakeInterface:
			return rec(x.X, d+1)
		case *ssa.ChangeInterface:
			return rec(x.X, d+1)
		case *ssa.ChangeType:
			return rec(x.X, d+1)
		case *ssa.Convert:
			return rec(x.X, d+1)
		case *ssa.Slice:
			return rec(x.X, d+1)
		case *ssa.BinOp:
			return rec(x.X, d+1) || rec(x.Y, d+1)
		case *ssa.Call:
			if throughCalls {
				cc := x.Common()
				if cc.IsInvoke() && rec(cc.Value, d+1) {
					return true
				}
				for _, a := range cc.Args {
					if rec(a, d+1) {
						return true
					}
				}
			}
		}
		return false
	}
	return rec(v, 0)
}

// flowsTo: forward slice from v; returns true if any reached instruction satisfies sink.
// It follows phis, extracts, conversions, interface boxing, slices, stores into locals (then their loads),
// varargs arrays, and (if throughCalls != nil) results of calls for which throughCalls(call) is true.
func flowsTo(v ssa.Value, sink func(user ssa.Instruction, via ssa.Value) bool, throughCalls func(ssa.CallInstruction) bool) bool {
	seen := map[ssa.Value]bool{}
	var rec func(v ssa.Value, d int) bool
	rec = func(v ssa.Value, d int) bool {
		if v == nil || seen[v] || d > 60 {
			return false
		}
		seen[v] = true
		refs := v.Referrers()
		if refs == nil {
			return false
		}
		for _, r := range *refs {
			if sink(r, v) {
				return true
			}
			switch x := r.(type) {
			case *ssa.Phi, *ssa.Extract, *ssa.MakeInterface, *ssa.ChangeInterface, *ssa.ChangeType, *ssa.Convert, *ssa.Slice, *ssa.TypeAssert, *ssa.Field, *ssa.Index:
				if rec(x.(ssa.Value), d+1) {
					return true
				}
			case *ssa.UnOp:
				if rec(x, d+1) {
					return true
				}
			case *ssa.FieldAddr, *ssa.IndexAddr:
				if rec(x.(ssa.Value), d+1) {
					return true
				}
			case *ssa.Store:
				if x.Val == v {
					// follow the memory: loads of the same address root
					root := addrRoot(x.Addr)
					if root != nil && rec(root, d+1) {
						return true
					}
				}
			case ssa.CallInstruction:
				if throughCalls != nil && throughCalls(x) {
					if cv := x.Value(); cv != nil && rec(cv, d+1) {
						return true
					}
				}
			}
		}
		return false
	}
	return rec(v, 0)
}

// addrRoot returns the Alloc (or other root) an address expression is based on.
func addrRoot(a ssa.Value) ssa.Value {
	for i := 0; i < 20; i++ {
		switch x := a.(type) {
		case *ssa.FieldAddr:
			a = x.X
		case *ssa.IndexAddr:
			a = x.X
		case *ssa.Alloc:
			return x
		default:
			return a
		}
	}
	return a
}

// ---------------------------------------------------------------------------
// misc

func hasParamTypes(f *ssa.Function, want ...string) bool {
	ps := f.Signature.Params()
	for _, w := range want {
		found := false
		for i := 0; i < ps.Len(); i++ {
			if shortName(types.TypeString(ps.At(i).Type(), nil)) == w {
				found = true
			}
		}
		if !found {
			return false
		}
	}
	return true
}

func resultTypes(f *ssa.Function) []string {
	var out []string
	rs := f.Signature.Results()
	for i := 0; i < rs.Len(); i++ {
		out = append(out, shortName(types.TypeString(rs.At(i).Type(), nil)))
	}
	return out
}

func typeStr(t types.Type) string { return shortName(types.TypeString(t, nil)) }

// returnsOf lists the Return instructions of f.
func returnsOf(f *ssa.Function) []*ssa.Return {
	var out []*ssa.Return
	for _, b := range f.Blocks {
		if len(b.Instrs) == 0 {
			continue
		}
		if r, ok := b.Instrs[len(b.Instrs)-1].(*ssa.Return); ok {
			out = append(out, r)
		}
	}
	return out
}

// nilErrReturns lists returns of f whose error result may be nil.
func (p *Prog) nilErrReturns(f *ssa.Function) []*ssa.Return {
	ei := errIndex(f)
	var out []*ssa.Return
	for _, r := range returnsOf(f) {
		if r.Block() == f.Recover {
			continue // reachable only after a recovered panic
		}
		if ei < 0 || p.mayBeNilErr(r.Results[ei], r.Block(), 0) {
			out = append(out, r)
		}
	}
	return out
}

// ---------------------------------------------------------------------------
// value resolution

// resolve strips loads of locals (taking the store that reaches the use), interface boxing and type changes.
func resolve(v ssa.Value, at ssa.Instruction) ssa.Value {
	for i := 0; i < 30; i++ {
		switch x := v.(type) {
		case *ssa.UnOp:
			if x.Op != token.MUL {
				return v
			}
			if a, ok := x.X.(*ssa.Alloc); ok {
				s := reachingStore(a, x)
				if s == nil {
					return v
				}
				v = s.Val
				continue
			}
			return v
		case *ssa.Alloc:
			if at == nil {
				return v
			}
			s := reachingStore(x, at)
			if s == nil {
				return v
			}
			v = s.Val
			at = s
		case *ssa.MakeInterface:
			v = x.X
		case *ssa.ChangeInterface:
			v = x.X
		case *ssa.ChangeType:
			v = x.X
		default:
			return v
		}
	}
	return v
}

// producer returns the call (and result index) that produced v, looking through locals and boxing.
func producer(v ssa.Value, at ssa.Instruction) (ssa.CallInstruction, int) {
	v = resolve(v, at)
	switch x := v.(type) {
	case *ssa.Call:
		return x, 0
	case *ssa.Extract:
		if c, ok := x.Tuple.(*ssa.Call); ok {
			return c, x.Index
		}
	}
	return nil, -1
}

// isResultOf reports whether v is result idx of a call to one of the named callees.
func isResultOf(v ssa.Value, at ssa.Instruction, idx int, names ...string) (ssa.CallInstruction, bool) {
	c, i := producer(v, at)
	if c == nil || i != idx {
		return nil, false
	}
	n := calleeName(c)
	for _, x := range names {
		if x == n {
			return c, true
		}
	}
	return nil, false
}

// callArgs returns the receiver (for invoke) followed by the arguments.
func callArgs(c ssa.CallInstruction) []ssa.Value {
	cc := c.Common()
	var out []ssa.Value
	if cc.IsInvoke() {
		out = append(out, cc.Value)
	}
	return append(out, cc.Args...)
}

// blockHasFactOK: all guard calls' success holds at the instruction.
func instrPos(in ssa.Instruction) token.Pos {
	if in.Pos().IsValid() {
		return in.Pos()
	}
	// fall back to any positioned instruction in the block
	for _, x := range in.Block().Instrs {
		if x.Pos().IsValid() {
			return x.Pos()
		}
	}
	return in.Parent().Pos()
}

// memBase returns the value whose memory an address / reference expression is based on
// (following the address structure only, never the values stored in locals' elements).
func memBase(v ssa.Value) ssa.Value {
	for i := 0; i < 30; i++ {
		switch x := v.(type) {
		case *ssa.FieldAddr:
			v = x.X
		case *ssa.IndexAddr:
			v = x.X
		case *ssa.Slice:
			v = x.X
		case *ssa.ChangeType:
			v = x.X
		case *ssa.MakeInterface:
			v = x.X
		case *ssa.Lookup:
			v = x.X
		case *ssa.Extract:
			if lk, ok := x.Tuple.(*ssa.Lookup); ok && x.Index == 0 {
				v = lk.X
				continue
			}
			return v
		case *ssa.Field:
			v = x.X
		case *ssa.Index:
			v = x.X
		case *ssa.UnOp:
			if x.Op != token.MUL {
				return v
			}
			if a, ok := x.X.(*ssa.Alloc); ok {
				s := reachingStore(a, x)
				if s == nil {
					return a
				}
				v = s.Val
				continue
			}
			v = x.X
		default:
			return v
		}
	}
	return v
}

// derivesAvoiding: like derives(v, pred, true) but never traverses through the value `stop`.
func derivesAvoiding(v ssa.Value, pred func(ssa.Value) bool, stop ssa.Value) bool {
	seen := map[ssa.Value]bool{stop: true}
	var rec func(v ssa.Value, d int) bool
	rec = func(v ssa.Value, d int) bool {
		if v == nil || seen[v] || d > 40 {
			return false
		}
		seen[v] = true
		if pred(v) {
			return true
		}
		var ops []*ssa.Value
		if in, ok := v.(ssa.Instruction); ok {
			ops = in.Operands(nil)
		}
		for _, op := range ops {
			if *op != nil && rec(*op, d+1) {
				return true
			}
		}
		if a, ok := v.(*ssa.Alloc); ok {
			for _, s := range storesTo(a) {
				if rec(s.Val, d+1) {
					return true
				}
			}
			if refs := a.Referrers(); refs != nil {
				for _, r := range *refs {
					if ia, ok := r.(*ssa.IndexAddr); ok {
						for _, rr := range *ia.Referrers() {
							if st, ok := rr.(*ssa.Store); ok && rec(st.Val, d+1) {
								return true
							}
						}
					}
				}
			}
		}
		return false
	}
	return rec(v, 0)
}

// ---------------------------------------------------------------------------
// disjunctive facts: on every path to b at least one of the given branch facts has been established
// (greatest fixpoint; SSA values never change, so an established fact stays true).

func boolFacts(v ssa.Value, want bool) []fact {
	out := []fact{{v, want}}
	if u, ok := v.(*ssa.UnOp); ok && u.Op == token.NOT {
		out = append(out, boolFacts(u.X, !want)...)
	}
	if refs := v.Referrers(); refs != nil {
		for _, r := range *refs {
			if u, ok := r.(*ssa.UnOp); ok && u.Op == token.NOT {
				out = append(out, fact{u, !want})
			}
		}
	}
	return out
}

func nilFacts(e ssa.Value, wantNil bool) []fact {
	var out []fact
	refs := e.Referrers()
	if refs == nil {
		return nil
	}
	for _, r := range *refs {
		bo, ok := r.(*ssa.BinOp)
		if !ok || (bo.Op != token.EQL && bo.Op != token.NEQ) || !(isNilConst(bo.X) || isNilConst(bo.Y)) {
			continue
		}
		want := wantNil
		if bo.Op == token.NEQ {
			want = !wantNil
		}
		out = append(out, boolFacts(bo, want)...)
	}
	return out
}

func (p *Prog) someFactAt(S []fact, b *ssa.BasicBlock) bool {
	f := b.Parent()
	set := map[fact]bool{}
	for _, x := range S {
		set[x] = true
	}
	edge := func(pb, s *ssa.BasicBlock) bool {
		if len(pb.Instrs) == 0 {
			return false
		}
		ifi, ok := pb.Instrs[len(pb.Instrs)-1].(*ssa.If)
		if !ok || pb.Succs[0] == pb.Succs[1] {
			return false
		}
		return set[fact{ifi.Cond, pb.Succs[0] == s}]
	}
	d := map[*ssa.BasicBlock]bool{}
	for i, blk := range f.Blocks {
		d[blk] = !(i == 0 || len(blk.Preds) == 0)
	}
	for changed := true; changed; {
		changed = false
		for i, blk := range f.Blocks {
			if i == 0 || len(blk.Preds) == 0 || !d[blk] {
				continue
			}
			for _, pb := range blk.Preds {
				if !edge(pb, blk) && !d[pb] {
					d[blk] = false
					changed = true
					break
				}
			}
		}
	}
	return d[b]
}

// reachesAvoiding: there is a path from `from` to `to` (of length >= 1) that does not pass through `avoid`.
func reachesAvoiding(from, to, avoid *ssa.BasicBlock) bool {
	seen := map[*ssa.BasicBlock]bool{}
	stack := append([]*ssa.BasicBlock(nil), from.Succs...)
	for len(stack) > 0 {
		x := stack[len(stack)-1]
		stack = stack[:len(stack)-1]
		if x == avoid || seen[x] {
			continue
		}
		seen[x] = true
		if x == to {
			return true
		}
		stack = append(stack, x.Succs...)
	}
	return false
}

// ---------------------------------------------------------------------------
// control conditions of a block and their evaluation for a given length

// factsAt lists the branch facts (condition value, polarity) known at block b, NOT-chains stripped.
func (p *Prog) factsAt(b *ssa.BasicBlock) []fact {
	var out []fact
	for ft := range p.facts(b.Parent()).in[b] {
		v, val := ft.v, ft.val
		for {
			u, ok := v.(*ssa.UnOp)
			if !ok || u.Op != token.NOT {
				break
			}
			v, val = u.X, !val
		}
		out = append(out, fact{v, val})
	}
	return out
}

// evalLenExpr evaluates an integer expression built from len(x) (with isX(x)), integer constants, + and -, for
// len(x) = n.
func evalLenExpr(v ssa.Value, isX func(ssa.Value) bool, n int64) (int64, bool) {
	switch y := v.(type) {
	case *ssa.Const:
		return constInt(y)
	case *ssa.Call:
		if calleeName(y) == "builtin:len" && isX(resolve(y.Call.Args[0], y)) {
			return n, true
		}
	case *ssa.BinOp:
		a, ok1 := evalLenExpr(y.X, isX, n)
		b, ok2 := evalLenExpr(y.Y, isX, n)
		if ok1 && ok2 {
			switch y.Op {
			case token.ADD:
				return a + b, true
			case token.SUB:
				return a - b, true
			}
		}
	}
	return 0, false
}

// evalLenCond evaluates a comparison of two len-expressions for len(x) = n.
func evalLenCond(v ssa.Value, isX func(ssa.Value) bool, n int64) (bool, bool) {
	bo, ok := v.(*ssa.BinOp)
	if !ok {
		return false, false
	}
	a, ok1 := evalLenExpr(bo.X, isX, n)
	b, ok2 := evalLenExpr(bo.Y, isX, n)
	if !ok1 || !ok2 {
		return false, false
	}
	switch bo.Op {
	case token.LSS, token.LEQ, token.GTR, token.GEQ, token.EQL, token.NEQ:
		return evalCmp(bo.Op, a, b), true
	}
	return false, false
}

// rangedLiteralElems: if v is the element variable of a range loop over a slice literal (a load from the literal's
// backing array at the range index), the values stored into the literal; otherwise v itself.
func rangedLiteralElems(v ssa.Value, at ssa.Instruction) []ssa.Value {
	raw := v
	if u, isU := raw.(*ssa.UnOp); !isU || u.Op != token.MUL {
		raw = resolve(v, at)
	} else if _, isIA := u.X.(*ssa.IndexAddr); !isIA {
		raw = resolve(v, at)
	}
	if x, ok := raw.(*ssa.UnOp); ok {
		if ia, ok := x.X.(*ssa.IndexAddr); ok && wholeSliceIndex(ia) {
			base := ia.X
			if sl, isSl := base.(*ssa.Slice); isSl {
				base = sl.X
			}
			if al, ok := addrRoot(base).(*ssa.Alloc); ok {
				var vals []ssa.Value
				for _, r := range *al.Referrers() {
					if ia2, ok := r.(*ssa.IndexAddr); ok {
						for _, rr := range *ia2.Referrers() {
							if st, ok := rr.(*ssa.Store); ok {
								vals = append(vals, resolve(st.Val, st))
							}
						}
					}
				}
				if len(vals) > 0 {
					return vals
				}
			}
		}
	}
	return []ssa.Value{raw}
}

// transparent helpers: an unexported module function whose results are, on every return that can carry a nil error,
// the same SSA values (no phi merge, no second success return with other values), and which stores nothing outside
// its own locals. Returns that certainly fail (error known non-nil there) are ignored. Such a helper adds conditions
// but no choice of provenance, so org() renders "helper(args)#i" as the i-th of those values in the caller's terms:
// rules keyed on access paths see through a thin forwarding or checked-assertion helper, and keep reporting a helper
// that remembers, defaults or selects (its success returns disagree).
var transparentMemo = map[*ssa.Function][]ssa.Value{}

// helpers that rules refer to by name (they have a rule of their own that pins what they return)
var opaqueAnchors = map[string]string{
	"in_toto.decodeAndParse": "R-C19-4 pins its results (first PEM block, try-all parser); R-C07-5, R-C15-2 and R-C19-7 name it",
}
var curProg *Prog

func transparentResults(g *ssa.Function) []ssa.Value {
	if g == nil || g.Blocks == nil || g.Pkg == nil || !strings.HasPrefix(g.Pkg.Pkg.Path(), modPath) || g.Parent() != nil || curProg == nil {
		return nil
	}
	if g.Object() == nil || g.Object().Exported() {
		return nil
	}
	if r, ok := transparentMemo[g]; ok {
		return r
	}
	transparentMemo[g] = nil
	if _, anchored := opaqueAnchors[fname(g)]; anchored {
		return nil
	}
	for _, b := range g.Blocks {
		for _, in := range b.Instrs {
			switch y := in.(type) {
			case *ssa.MapUpdate, *ssa.Send, *ssa.Go, *ssa.Defer, *ssa.Panic:
				return nil
			case *ssa.Store:
				al, ok := addrRoot(y.Addr).(*ssa.Alloc)
				if !ok || (al.Heap && al.Comment != "varargs" && al.Comment != "complit" && al.Comment != "slicelit") {
					// named results and locals live in non-heap allocs; a heap alloc is fine only as a literal / varargs
					if !ok {
						return nil
					}
				}
			case *ssa.Call:
				// a call that may write through a parameter makes the helper more than a view of its arguments
				n := genericBase(calleeName(y))
				if _, w := a4ExternalWriters[n]; w || n == "builtin:delete" || n == "builtin:copy" || n == "builtin:clear" {
					return nil
				}
			}
		}
	}
	ei := errIndex(g)
	var vals []ssa.Value
	var dead []bool // result positions that are not one fixed view on every success return
	for _, r := range returnsOf(g) {
		if ei >= 0 && ei < len(r.Results) && !curProg.mayBeNilErr(r.Results[ei], r.Block(), 0) {
			continue // certainly failing
		}
		cur := make([]ssa.Value, len(r.Results))
		for i, res := range r.Results {
			cur[i] = resolve(res, r)
		}
		if vals == nil {
			vals = cur
			dead = make([]bool, len(cur))
			continue
		}
		for i := range cur {
			if i != ei && cur[i] != vals[i] {
				dead[i] = true
			}
		}
	}
	if vals == nil {
		return nil
	}
	// a result that is just a constant says nothing about provenance, and a result the helper builds itself (a fresh
	// map, slice, struct or closure) or selects (phi) is no view of the arguments: that position keeps the helper's name
	any := false
	for i, v := range vals {
		if i == ei || dead[i] {
			vals[i] = nil
			continue
		}
		if _, isConst := v.(*ssa.Const); isConst {
			vals[i] = nil
			continue
		}
		fresh := derives(v, func(x ssa.Value) bool {
			switch x.(type) {
			case *ssa.Alloc, *ssa.MakeMap, *ssa.MakeSlice, *ssa.MakeClosure, *ssa.MakeChan, *ssa.Phi:
				return true
			}
			return false
		}, true)
		if fresh {
			vals[i] = nil
			continue
		}
		any = true
	}
	if !any {
		return nil
	}
	transparentMemo[g] = vals
	return vals
}

// transparentOrg renders result idx of the call x of a transparent helper in the caller's terms ("" if x is none).
func (o *orgCtx) transparentOrg(x *ssa.Call, idx int) (string, bool) {
	g := x.Common().StaticCallee()
	vals := transparentResults(g)
	if vals == nil || idx >= len(vals) || vals[idx] == nil || o.depth >= 20 {
		return "", false
	}
	if ei := errIndex(g); ei == idx {
		return "", false
	}
	sub := map[*ssa.Parameter]string{}
	subF := map[*ssa.Parameter]map[string]string{}
	actual := callArgs(x)
	for i, prm := range g.Params {
		if i < len(actual) {
			sub[prm] = o.org(actual[i])
			// argument is a composite literal built by the caller: its fields hold what the caller stored
			if al, ok := actual[i].(*ssa.Alloc); ok && al.Comment == "complit" {
				fm := map[string]string{}
				cnt := map[string]int{}
				for _, r := range *al.Referrers() {
					if fa, ok := r.(*ssa.FieldAddr); ok {
						for _, rr := range *fa.Referrers() {
							if st, ok := rr.(*ssa.Store); ok && st.Addr == fa {
								fn := fieldName(fa.X.Type(), fa.Field)
								cnt[fn]++
								fm[fn] = o.org(st.Val)
							}
						}
					}
				}
				for k, n := range cnt {
					if n != 1 {
						delete(fm, k)
					}
				}
				subF[prm] = fm
			}
		}
	}
	return (&orgCtx{seen: map[ssa.Value]bool{}, depth: o.depth, subst: sub, substField: subF}).org(vals[idx]), true
}

// equalityCalls lists the calls in f that compare two values for deep equality: reflect.DeepEqual, maps.Equal, or a
// module function that is recognised as an equality predicate on two maps (isMapEqualityPredicate).
func (c *Ctx) equalityCalls(f *ssa.Function) []ssa.CallInstruction {
	var out []ssa.CallInstruction
	for _, call := range allCalls(f) {
		switch genericBase(calleeName(call)) {
		case "reflect.DeepEqual", "maps.Equal":
			out = append(out, call)
			continue
		}
		if g := call.Common().StaticCallee(); g != nil && c.isMapEqualityPredicate(g) {
			out = append(out, call)
		}
	}
	return out
}

var mapEqMemo = map[*ssa.Function]bool{}

// isMapEqualityPredicate: g(a, b M) bool with M a map type, shaped as
//
//	if len(a) != len(b) { return false }
//	for k, v := range a { if w, ok := b[k]; !ok || w != v { return false } }
//	return true
//
// Checked: the length test with its false return; one range over one parameter; a comma-ok lookup of the range key in
// the other; a comparison of the looked-up value with the range value; every edge that leaves the loop other than by
// exhaustion runs into `return false`; `return true` is reached from exhaustion only.
func (c *Ctx) isMapEqualityPredicate(g *ssa.Function) bool {
	if v, ok := mapEqMemo[g]; ok {
		return v
	}
	res := c.mapEqualityShape(g)
	mapEqMemo[g] = res
	return res
}

func (c *Ctx) mapEqualityShape(g *ssa.Function) bool {
	if g == nil || g.Blocks == nil || len(g.Params) != 2 || g.Signature.Results().Len() != 1 || g.Pkg == nil || !strings.HasPrefix(g.Pkg.Pkg.Path(), modPath) {
		return false
	}
	if bt, ok := g.Signature.Results().At(0).Type().Underlying().(*types.Basic); !ok || bt.Kind() != types.Bool {
		return false
	}
	p0, p1 := g.Params[0], g.Params[1]
	if _, ok := p0.Type().Underlying().(*types.Map); !ok || !types.Identical(p0.Type(), p1.Type()) {
		return false
	}
	retConst := func(from, to *ssa.BasicBlock) (bool, bool) {
		r, path := followJumps(from, to)
		if r == nil || len(r.Results) != 1 {
			return false, false
		}
		k, ok := phiAlong(r.Results[0], path).(*ssa.Const)
		if !ok || k.Value == nil || k.Value.Kind() != constant.Bool {
			return false, false
		}
		return constant.BoolVal(k.Value), true
	}
	// (a) length test
	okLen := false
	isLenOf := func(v ssa.Value, p *ssa.Parameter) bool {
		k, ok := v.(*ssa.Call)
		return ok && calleeName(k) == "builtin:len" && k.Call.Args[0] == ssa.Value(p)
	}
	for _, b := range g.Blocks {
		for _, in := range b.Instrs {
			bo, ok := in.(*ssa.BinOp)
			if !ok || (bo.Op != token.NEQ && bo.Op != token.EQL) {
				continue
			}
			if !(isLenOf(bo.X, p0) && isLenOf(bo.Y, p1) || isLenOf(bo.X, p1) && isLenOf(bo.Y, p0)) {
				continue
			}
			for _, cu := range condUsers(bo, false) {
				differ := branchTaken(cu, bo.Op == token.NEQ)
				if v, ok := retConst(cu.If.Block(), differ); ok && !v {
					okLen = true
				}
			}
		}
	}
	if !okLen {
		return false
	}
	// (b) one range over a parameter, lookup in the other, value comparison
	mls := mapLoops(g)
	if len(mls) != 1 {
		return false
	}
	ml := mls[0]
	var other *ssa.Parameter
	switch ml.rng.X {
	case ssa.Value(p0):
		other = p1
	case ssa.Value(p1):
		other = p0
	default:
		return false
	}
	okLookup, okCmp := false, false
	for b := range ml.body {
		for _, in := range b.Instrs {
			switch x := in.(type) {
			case *ssa.Lookup:
				if x.X == ssa.Value(other) && x.Index == ml.key && x.CommaOk {
					okLookup = true
				}
			case *ssa.BinOp:
				if x.Op != token.NEQ && x.Op != token.EQL {
					continue
				}
				isLooked := func(v ssa.Value) bool {
					ex, ok := v.(*ssa.Extract)
					if !ok || ex.Index != 0 {
						return false
					}
					lk, ok := ex.Tuple.(*ssa.Lookup)
					return ok && lk.X == ssa.Value(other) && lk.Index == ml.key
				}
				if (isLooked(x.X) && x.Y == ml.val) || (isLooked(x.Y) && x.X == ml.val) {
					okCmp = true
				}
			}
		}
	}
	if !okLookup || !okCmp {
		return false
	}
	// (c) every edge out of the loop other than exhaustion returns false; exhaustion returns true
	for b := range ml.body {
		for _, s := range b.Succs {
			if ml.body[s] {
				continue
			}
			v, ok := retConst(b, s)
			if !ok {
				return false
			}
			if b == ml.header {
				if !v {
					return false
				}
			} else if v {
				return false
			}
		}
	}
	return true
}

// isOrServesOnly: f is one of the named functions, or an unexported module function all of whose callers (call graph,
// up to three levels) are: a helper that exists only to serve the named functions inherits what was reviewed for them.
func (c *Prog) isOrServesOnly(f *ssa.Function, names ...string) bool {
	set := map[string]bool{}
	for _, n := range names {
		set[n] = true
	}
	var rec func(g *ssa.Function, depth int) bool
	rec = func(g *ssa.Function, depth int) bool {
		if set[fname(g)] {
			return true
		}
		if depth > 3 || g.Object() == nil || g.Object().Exported() && g.Signature.Recv() == nil {
			return false
		}
		if g.Object().Exported() {
			return false
		}
		node := c.CG.Nodes[g]
		if node == nil || len(node.In) == 0 {
			return false
		}
		for _, e := range node.In {
			if e.Caller.Func == g {
				continue
			}
			if !rec(e.Caller.Func, depth+1) {
				return false
			}
		}
		return true
	}
	return rec(f, 0)
}

var alwaysErrMemo = map[*ssa.Function]int{} // 0 unknown, 1 yes, 2 no, 3 in progress

// alwaysErr: g is a module function with a single error result that is non-nil on every return (an error constructor
// such as  func malformed(rule []string) error { return fmt.Errorf(...) }).
func (p *Prog) alwaysErr(g *ssa.Function, depth int) bool {
	if g == nil || g.Blocks == nil || g.Pkg == nil || !strings.HasPrefix(g.Pkg.Pkg.Path(), modPath) || g.Signature.Results().Len() != 1 || !isErrorType(g.Signature.Results().At(0).Type()) {
		return false
	}
	switch alwaysErrMemo[g] {
	case 1:
		return true
	case 2, 3:
		return false
	}
	alwaysErrMemo[g] = 3
	ok := len(returnsOf(g)) > 0
	for _, r := range returnsOf(g) {
		if p.mayBeNilErr(r.Results[0], r.Block(), depth+1) {
			ok = false
		}
	}
	if ok {
		alwaysErrMemo[g] = 1
	} else {
		alwaysErrMemo[g] = 2
	}
	return ok
}

// indexFuncElem: v is an element list[i] with i = slices.IndexFunc(list', pred), list' as long as list, and i known
// >= 0 at blk. Returns the list, the predicate function and the values bound to its free variables (nil for a plain
// function).
func (c *Ctx) indexFuncElem(v ssa.Value, blk *ssa.BasicBlock) (list ssa.Value, pred *ssa.Function, bindings []ssa.Value, ok bool) {
	var idx ssa.Value
	switch x := v.(type) {
	case *ssa.UnOp:
		if ia, isIA := x.X.(*ssa.IndexAddr); isIA && x.Op == token.MUL {
			list, idx = ia.X, ia.Index
		}
	case *ssa.Index:
		list, idx = x.X, x.Index
	case *ssa.IndexAddr:
		list, idx = x.X, x.Index
	}
	ic, isCall := idx.(*ssa.Call)
	if !isCall || genericBase(calleeName(ic)) != "slices.IndexFunc" || len(ic.Call.Args) != 2 || !sameLen(ic.Call.Args[0], list) || !c.indexFound(ic, blk) {
		return nil, nil, nil, false
	}
	switch p := ic.Call.Args[1].(type) {
	case *ssa.MakeClosure:
		pred, bindings = p.Fn.(*ssa.Function), p.Bindings
	case *ssa.Function:
		pred = p
	}
	return list, pred, bindings, pred != nil && pred.Blocks != nil
}

// outerValueOf: a value inside a closure seen from the function that made it: a load of a free variable is the value
// stored in the captured variable (the only store), anything else stays as it is.
func outerValueOf(v ssa.Value, pred *ssa.Function, bindings []ssa.Value) ssa.Value {
	if u, ok := v.(*ssa.UnOp); ok && u.Op == token.MUL {
		if fv, ok := u.X.(*ssa.FreeVar); ok {
			for i, f := range pred.FreeVars {
				if f == fv && i < len(bindings) {
					if al, ok := bindings[i].(*ssa.Alloc); ok {
						if st := storesTo(al); len(st) == 1 {
							return resolve(st[0].Val, st[0])
						}
					}
					return bindings[i]
				}
			}
		}
	}
	if fv, ok := v.(*ssa.FreeVar); ok {
		for i, f := range pred.FreeVars {
			if f == fv && i < len(bindings) {
				return bindings[i]
			}
		}
	}
	return v
}

// fieldOfParam: v is <first parameter of pred>.<name> (the parameter may be spilled).
func fieldOfParam(v ssa.Value, pred *ssa.Function, name string) bool {
	if len(pred.Params) == 0 {
		return false
	}
	isParam := func(x ssa.Value) bool {
		if x == ssa.Value(pred.Params[0]) {
			return true
		}
		if al, ok := x.(*ssa.Alloc); ok {
			for _, st := range storesTo(al) {
				if st.Val == ssa.Value(pred.Params[0]) {
					return true
				}
			}
		}
		return false
	}
	switch x := v.(type) {
	case *ssa.Field:
		return fieldName(x.X.Type(), x.Field) == name && isParam(x.X)
	case *ssa.UnOp:
		if fa, ok := x.X.(*ssa.FieldAddr); ok && x.Op == token.MUL {
			return fieldName(fa.X.Type(), fa.Field) == name && isParam(fa.X)
		}
	}
	return false
}
