package main

// Registration of the exhaustive-loop rule (A2, a2_loops.go) per property. This file sorts after all other rule files,
// so the registry is complete when its init runs.

func init() {
	add := func(prop string, min int, expl string, roots ...string) {
		p := registry[prop]
		if p == nil {
			return
		}
		p.Rules = append(p.Rules, exhaustiveLoopsRule(min, roots...))
		p.Explanation += " (A2) " + expl
	}
	add("C01", 1, "the key loop of the layout signature check and every loop below it visit every element or fail.", "in_toto.VerifyLayoutSignatures")
	add("C02", 3, "the step / link loops of the threshold check visit every element or fail (the pubkey search loop is a reviewed search).", "in_toto.VerifyLinkSignatureThesholds")
	add("C03", 10, "every item, round, rule and artifact loop of rule verification visits every element or fails: no rule after an early exit is skipped.", "in_toto.VerifyArtifacts")
	add("C05", 3, "the step / link loops of ReduceStepsMetadata visit every element or fail.", "in_toto.ReduceStepsMetadata", "in_toto.GetSummaryLink")
	add("C07", 4, "certificate / constraint loops visit every element or fail, except the reviewed existential test.", "in_toto.LoadLayoutCertificates", "(in_toto.Step).CheckCertConstraints")
	add("C09", 1, "every inspection is run: the loops of RunInspections and below visit every element or fail.", "in_toto.RunInspections")
	add("C12", 8, "every validator loop visits every element or fails.", "in_toto.LoadMetadata", "in_toto.ValidateMetablock", "(*in_toto.Metablock).Dump")
	add("C13", 4, "the recording loops (paths, hash algorithms, walk results) visit every element or fail, except the reviewed first-prefix search.", "in_toto.RecordArtifacts", "in_toto.InTotoMatchProducts")
	add("C18", 5, "the substitution loops visit every element.", "in_toto.SubstituteParameters")
	add("C20", 4, "the key / certificate / output loops of the commands visit every element or fail.", "cmd.verify", "cmd.matchProducts")
}

// Inspection rules are evaluated by the same rule engine as step rules: the MATCH guards (R-C03-6: an artifact is
// consumed only after its hash objects were compared for equality) are shared with C09, whose "final product was
// tampered with" clause rests on them.
func init() {
	if p := registry["C09"]; p != nil {
		p.Rules = append(p.Rules, Rule{ID: "R-C03-6", Doc: "MATCH consumes only under its guards (shared with C03): inspection rules compare the real directory's hashes with the links'", Min: 4, Run: ruleC03_6})
		p.Explanation += " (R-C03-6, shared with C03) a MATCH rule consumes an artifact only where the source and destination hash objects were compared with reflect.DeepEqual and found equal."
	}
}
