package main

import (
	"fmt"
	"go/token"
	"strings"

	"golang.org/x/tools/go/ssa"
)

// Registration of the exhaustive-loop rule (A2, a2_loops.go) per property. This file sorts after all other rule files,
// so the registry is complete when its init runs.

func init() {
	add := func(prop string, min int, expl string, roots ...string) {
		p := registry[prop]
		if p == nil {
			return
		}
		p.Rules = append(p.Rules, exhaustiveLoopsRule(min, roots...))
		p.Explanation += " (A2) " + expl
	}
	add("C01", 1, "the key loop of the layout signature check and every loop below it visit every element or fail.", "in_toto.VerifyLayoutSignatures")
	add("C02", 3, "the step / link loops of the threshold check visit every element or fail (the pubkey search loop is a reviewed search).", "in_toto.VerifyLinkSignatureThesholds")
	add("C03", 10, "every item, round, rule and artifact loop of rule verification visits every element or fails: no rule after an early exit is skipped.", "in_toto.VerifyArtifacts")
	add("C05", 3, "the step / link loops of ReduceStepsMetadata visit every element or fail.", "in_toto.ReduceStepsMetadata", "in_toto.GetSummaryLink")
	add("C07", 4, "certificate / constraint loops visit every element or fail, except the reviewed existential test.", "in_toto.LoadLayoutCertificates", "(in_toto.Step).CheckCertConstraints")
	add("C09", 1, "every inspection is run: the loops of RunInspections and below visit every element or fail.", "in_toto.RunInspections")
	add("C12", 8, "every validator loop visits every element or fails.", "in_toto.LoadMetadata", "in_toto.ValidateMetablock", "(*in_toto.Metablock).Dump")
	add("C13", 4, "the recording loops (paths, hash algorithms, walk results) visit every element or fail, except the reviewed first-prefix search.", "in_toto.RecordArtifacts", "in_toto.InTotoMatchProducts")
	add("C18", 5, "the substitution loops visit every element.", "in_toto.SubstituteParameters")
	add("C20", 4, "the key / certificate / output loops of the commands visit every element or fail.", "cmd.verify", "cmd.matchProducts")
}

// Inspection rules are evaluated by the same rule engine as step rules: the MATCH guards (R-C03-6: an artifact is
// consumed only after its hash objects were compared for equality) are shared with C09, whose "final product was
// tampered with" clause rests on them.
func init() {
	if p := registry["C09"]; p != nil {
		p.Rules = append(p.Rules, Rule{ID: "R-C03-6", Doc: "MATCH consumes only under its guards (shared with C03): inspection rules compare the real directory's hashes with the links'", Min: 4, Run: ruleC03_6})
		p.Explanation += " (R-C03-6, shared with C03) a MATCH rule consumes an artifact only where the source and destination hash objects were compared with reflect.DeepEqual and found equal."
	}
}

// Rules shared across properties whose clauses overlap:
//   - C02's certificate route ("chains to a root CA of the layout") rests on the pool provenance (R-C07-4) and on
//     VerifyCertificateTrust using exactly those pools (R-C07-3);
//   - C08's "verified against the links in the step's sublayout directory" rests on the option wiring (R-C09-6): the
//     directory handed to VerifySublayouts is the one this layout's own links were loaded from.
func init() {
	if p := registry["C02"]; p != nil {
		p.Rules = append(p.Rules,
			Rule{ID: "R-C07-4", Doc: "pool provenance (shared with C07): the root pool is never nil and fed only from layout.RootCas", Min: 8, Run: ruleC07_4},
			Rule{ID: "R-C07-3", Doc: "VerifyCertificateTrust uses exactly the two pool parameters (shared with C07)", Min: 3, Run: ruleC07_3})
		p.Explanation += " (R-C07-3, R-C07-4, shared with C07) the certificate route trusts only the layout's root CAs: both pools returned by LoadLayoutCertificates are non-nil on every success return (a nil root pool means the host's system roots), the root pool is fed only from layout.RootCas, and VerifyCertificateTrust sets Roots / Intermediates from its parameters."
	}
	if p := registry["C08"]; p != nil {
		p.Rules = append(p.Rules, Rule{ID: "R-C09-6", Doc: "option wiring (shared with C09): VerifySublayouts gets this layout's link directory, intermediates and flags", Min: 6, Run: func(c *Ctx) {
			for _, e := range c.entryPoints() {
				c.optionWiring(e, c.stage(e.f, "in_toto.RunInspections"))
			}
		}})
		p.Explanation += " (R-C09-6, shared with C09) in both entry points VerifySublayouts receives the directory this layout's own links were loaded from, the caller's intermediates and line-normalisation flag."
	}
}

//   - C05's "all counted links agree" presupposes that each counted sublayout was replaced by the summary of its own
//     verification (R-C08-1, R-C08-3): a summary copied from another functionary's sublayout makes the links agree trivially;
//   - C09's inspection rules are evaluated by the same engine as step rules: queue / consumption wiring (R-C03-5) and
//     which rule types fail (R-C03-4) are shared with C03.
func init() {
	if p := registry["C05"]; p != nil {
		p.Rules = append(p.Rules,
			Rule{ID: "R-C08-1", Doc: "every counted sublayout is verified recursively (shared with C08)", Min: 5, Run: ruleC08_1},
			Rule{ID: "R-C08-3", Doc: "each sublayout is replaced by the summary of its own verification, under the same key (shared with C08)", Min: 2, Run: ruleC08_3})
		p.Explanation += " (R-C08-1, R-C08-3, shared with C08) every counted link whose payload is a layout is replaced, under its own key, by the summary link of its own recursive verification: the agreement check compares what each functionary's evidence really says."
	}
	if p := registry["C09"]; p != nil {
		p.Rules = append(p.Rules,
			Rule{ID: "R-C03-5", Doc: "live queue and per-type consumption wiring of the rule engine (shared with C03)", Min: 12, Run: ruleC03_5},
			Rule{ID: "R-C03-4", Doc: "failing rules fail, consuming rules never fail (shared with C03)", Min: 3, Run: ruleC03_4})
		p.Explanation += " (R-C03-4, R-C03-5, shared with C03) the rule engine that evaluates the inspection rules keeps a live queue per artifact type, each rule type consumes exactly its set, and only DISALLOW / REQUIRE fail."
	}
}

// R-C11-6: the loader hands out exactly what it decoded. Between the strict Decode and the return nothing writes into
// the decoded Link / Layout: the legacy wrapper re-canonicalises that object to obtain the signed bytes, and the DSSE
// wrapper hands it out as "the payload that was signed"; a loader that normalises anything (case of digests, paths,
// defaults) makes both disagree with the file. Direct stores and calls that write through the decoded object (A4
// effects analysis with the object as owned memory) are reported. Shared by C11, C12 and C01.
func init() {
	for _, id := range []string{"C11", "C12", "C01"} {
		if p := registry[id]; p != nil {
			p.Rules = append(p.Rules, Rule{ID: "R-C11-6", Doc: "the payload loader returns the decoded object unmodified", Min: 2, Run: ruleC11_6})
			p.Explanation += " (R-C11-6) loadPayload returns the Link / Layout exactly as the strict decoder filled it: no store into it and no call that writes through it (A4 effects analysis) between Decode and return."
		}
	}
}

func ruleC11_6(c *Ctx) {
	const R = "R-C11-6"
	f := c.lookup("in_toto.loadPayload")
	if f == nil {
		c.undecided(R, "in_toto.loadPayload", "anchor", 0, "not found")
		return
	}
	fn := fname(f)
	n := 0
	for _, sd := range c.strictDecodes(f) {
		dec := sd.site
		var al *ssa.Alloc
		derives(sd.target, func(v ssa.Value) bool {
			if a, ok := v.(*ssa.Alloc); ok {
				al = a
				return true
			}
			return false
		}, false)
		if al == nil {
			continue
		}
		ts := typeStr(al.Type())
		if ts != "*in_toto.Link" && ts != "*in_toto.Layout" {
			continue
		}
		n++
		var bad []string
		fromObj := func(v ssa.Value) bool {
			if memBase(v) == ssa.Value(al) {
				return true
			}
			return derives(v, func(x ssa.Value) bool { return x == ssa.Value(al) || memBase(x) == ssa.Value(al) }, false)
		}
		for _, b := range f.Blocks {
			for _, in := range b.Instrs {
				if in == ssa.Instruction(dec) || !(instrDominates(dec, in) || reaches(dec.Block(), b) && b != dec.Block()) {
					continue
				}
				switch x := in.(type) {
				case *ssa.Store:
					if x.Addr != ssa.Value(al) && addrRoot(x.Addr) == ssa.Value(al) {
						bad = append(bad, "store to "+short(org(x.Addr))+" at "+c.pos(x.Pos()))
					} else if _, isAlloc := addrRoot(x.Addr).(*ssa.Alloc); !isAlloc && fromObj(x.Addr) {
						bad = append(bad, "store through "+short(org(x.Addr))+" at "+c.pos(x.Pos()))
					}
				case *ssa.MapUpdate:
					if fromObj(x.Map) {
						bad = append(bad, "map update of "+short(org(x.Map))+" at "+c.pos(x.Pos()))
					}
				case ssa.CallInstruction:
					g := x.Common().StaticCallee()
					cargs := callArgs(x)
					ctx := make([]pc, len(cargs))
					tainted := false
					for i, a := range cargs {
						if hasRefs(a.Type()) && fromObj(a) {
							ctx[i] = pc{isRefType(a.Type()), true}
							tainted = true
						}
					}
					if !tainted {
						continue
					}
					if g == nil || g.Blocks == nil {
						if n := calleeName(x); n == "builtin:delete" || n == "builtin:copy" {
							bad = append(bad, n+" on the decoded object at "+c.pos(x.Pos()))
						}
						continue
					}
					if g.Pkg == nil || !strings.HasPrefix(g.Pkg.Pkg.Path(), modPath) {
						continue
					}
					a4 := newA4(c.Prog)
					keptW, _ := a4FilterReviewed(a4.analyse(g, ctx, nil).writes)
					for _, w := range keptW {
						bad = append(bad, fmt.Sprintf("%s writes %s at %s", calleeName(x), w.path, c.pos(w.instr.Pos())))
					}
				}
			}
		}
		c.check(len(bad) == 0, R, fn, "decoded "+strings.TrimPrefix(ts, "*in_toto.")+" is returned as decoded", dec.Pos(), "no store into it and no call that writes through it after Decode",
			"the loader modifies the object it decoded ("+strings.Join(bad, "; ")+"): the bytes re-canonicalised from it differ from the signed bytes, and GetPayload() of a loaded envelope is not the payload that was signed")
	}
	if n == 0 {
		c.undecided(R, fn, "strict decode of Link / Layout", f.Pos(), "no Decode into a Link or Layout variable found")
	}
}

// Further shared rules (round 5 of the seeded changes):
//   - C02's loader clause (links are filed under the key id found by the file name's short id) rests on the loader's
//     trimming agreeing with the naming format (R-C20-3);
//   - C08's summary clause rests on GetSummaryLink (R-C05-3);
//   - C09's "rules checked against the real directory" rests on the walk discipline of the recorder (R-C13-3);
//   - C12's round trip of DSSE files rests on the encoder provenance of the envelope payload (R-C11-3);
//   - C14's "a command that cannot be started is an error" rests on InTotoRun handing every non-empty command to
//     RunCommand (R-C09-4).
func init() {
	share := func(prop, id, doc string, min int, run func(*Ctx), expl string) {
		if p := registry[prop]; p != nil {
			p.Rules = append(p.Rules, Rule{ID: id, Doc: doc, Min: min, Run: run})
			p.Explanation += " " + expl
		}
	}
	share("C02", "R-C20-3", "link naming formats agree with the loader's trimming (shared with C20)", 3, ruleC20_3, "(R-C20-3, shared with C20) the loader cuts the short key id out of a link file name with TrimPrefix(step name + \".\") / TrimSuffix(\".link\"), the inverse of the naming format.")
	share("C08", "R-C05-3", "summary link endpoints, also for one-step layouts (shared with C05)", 3, ruleC05_3, "(R-C05-3, shared with C05) the summary link takes Materials from Steps[0] and Products from Steps[len-1] for every layout with at least one step.")
	share("C09", "R-C13-3", "walk discipline of the artifact recorder (shared with C13)", 8, ruleC13_3, "(R-C13-3, shared with C13) the walk that records the inspection's view of the directory returns errors, skips only excluded paths and unfollowed directory symlinks (without cutting the rest of the directory short), and follows symlinks as requested.")
	share("C12", "R-C11-3", "encoder provenance of the DSSE payload (shared with C11)", 2, ruleC11_3, "(R-C11-3, shared with C11) the DSSE payload bytes are the encoding of the payload that was set.")
	share("C14", "R-C09-4", "snapshot discipline of InTotoRun; every non-empty command reaches RunCommand (shared with C09)", 6, ruleC09_4, "(R-C09-4, shared with C09) InTotoRun hands every non-empty command to RunCommand and fails on its error.")
}

// R-C04-7: signatures are decoded by the signature libraries only. The DSSE library accepts standard and URL-safe
// base64; a decode of a signature in package in_toto fixes one alphabet and refuses envelopes written by other
// implementations. Who-may-call: no (*base64.Encoding).DecodeString / Decode in package in_toto.
func init() {
	if p := registry["C04"]; p != nil {
		p.Rules = append(p.Rules, Rule{ID: "R-C04-7", Doc: "package in_toto does not base64-decode signatures (or anything else) itself", Min: 1, Run: func(c *Ctx) {
			const R = "R-C04-7"
			n := 0
			for _, f := range c.srcFuncs("in_toto") {
				for _, call := range allCalls(f) {
					cn := calleeName(call)
					if strings.HasPrefix(cn, "(*encoding/base64.Encoding).Decode") || cn == "encoding/base64.NewDecoder" {
						n++
						c.bad(R, fname(f), "base64 decoding", call.Pos(), cn+" in package in_toto: envelope fields are base64 in either the standard or the URL-safe alphabet, which only the DSSE library's decoder handles; a decode with one fixed alphabet refuses valid envelopes of other implementations")
					}
				}
			}
			c.ok(R, "in_toto", "base64 decoding is left to the DSSE library", 0, fmt.Sprintf("%d decode calls in package in_toto", n))
		}})
		p.Explanation += " (R-C04-7) package in_toto never base64-decodes envelope fields itself (who-may-call): the DSSE library's decoder accepts both alphabets."
	}
}

// R-C17-9: utf8.RuneError is an error only together with width 1: U+FFFD is a valid three-byte character. Every
// failing continuation that is entered because a decoded rune equals RuneError must also know that the width is 1.
func init() {
	if p := registry["C17"]; p != nil {
		p.Rules = append(p.Rules, Rule{ID: "R-C17-9", Doc: "RuneError counts as malformed only with width 1", Min: 1, Run: ruleC17_9})
		p.Explanation += " (R-C17-9) in the matcher a decoded rune equal to utf8.RuneError leads to the bad-pattern error only where the decoded width is known to be 1 (U+FFFD itself is a valid character)."
	}
}

func ruleC17_9(c *Ctx) {
	const R = "R-C17-9"
	n := 0
	for _, name := range []string{"in_toto.getEsc", "in_toto.matchChunk", "in_toto.match", "in_toto.scanChunk"} {
		f := c.lookup(name)
		if f == nil {
			continue
		}
		for _, dec := range callsIn(f, "unicode/utf8.DecodeRuneInString", "unicode/utf8.DecodeRune") {
			r, w := extractOf(dec.Value(), 0), extractOf(dec.Value(), 1)
			if r == nil {
				continue
			}
			for _, ref := range *r.Referrers() {
				bo, ok := ref.(*ssa.BinOp)
				if !ok || (bo.Op != token.EQL && bo.Op != token.NEQ) {
					continue
				}
				k, isK := constInt(bo.Y)
				if !isK || k != 0xFFFD {
					continue
				}
				n++
				// blocks entered with "r == RuneError" known that fail (directly, or by feeding a non-nil error into
				// the error result's phi): width == 1 must be known there too
				failsFrom := func(b *ssa.BasicBlock) bool {
					if c.failing(b) {
						return true
					}
					for _, sb := range b.Succs {
						for _, in := range sb.Instrs {
							ph, ok := in.(*ssa.Phi)
							if !ok {
								break
							}
							if !isErrorType(ph.Type()) {
								continue
							}
							for i, e := range ph.Edges {
								if sb.Preds[i] == b && !isNilConst(e) && !c.mayBeNilErr(e, b, 0) {
									return true
								}
							}
						}
					}
					return false
				}
				for _, b := range f.Blocks {
					if !c.condAt(bo, bo.Op == token.EQL, b) || !failsFrom(b) {
						continue
					}
					okW := false
					if w != nil {
						for _, wr := range *w.Referrers() {
							wb, ok := wr.(*ssa.BinOp)
							if !ok {
								continue
							}
							if k1, isK1 := constInt(wb.Y); isK1 && k1 == 1 && ((wb.Op == token.EQL && c.condAt(wb, true, b)) || (wb.Op == token.NEQ && c.condAt(wb, false, b))) {
								okW = true
							}
						}
					}
					pos := bo.Pos()
					c.check(okW, R, fname(f), "RuneError fails only with width 1", pos, "r == utf8.RuneError && n == 1", "a decoded rune equal to utf8.RuneError is treated as malformed without looking at its width: U+FFFD (a valid three-byte character) in a pattern is refused")
					break
				}
			}
		}
	}
	c.check(n >= 1, R, "in_toto", "RuneError comparisons found", 0, fmt.Sprintf("%d", n), "no comparison of a decoded rune with utf8.RuneError in the matcher (malformed UTF-8 in a class is not detected)")
}

// ---------------------------------------------------------------------------
// round 6 of the seeded changes

// R-C13-7: the recording options of the three link-producing entry points reach RecordArtifacts in their declared
// positions. Callers bind the options positionally (…, hashAlgorithms, gitignorePatterns, lStripPaths,
// lineNormalization, followSymlinkDirs, …); in each of InTotoRun, InTotoRecordStart and InTotoRecordStop the k-th
// []string option and the k-th bool option after the paths must be passed to RecordArtifacts' k-th []string / bool
// parameter — the same mapping in all three siblings.
func init() {
	for _, id := range []string{"C13", "C09"} {
		if p := registry[id]; p != nil {
			p.Rules = append(p.Rules, Rule{ID: "R-C13-7", Doc: "recording options reach RecordArtifacts in their declared positions (sibling agreement)", Min: 3, Run: ruleC13_7})
		}
	}
	if p := registry["C13"]; p != nil {
		p.Explanation += " (R-C13-7) in InTotoRun, InTotoRecordStart and InTotoRecordStop the hash algorithm / exclude / strip-prefix lists and the line-normalisation / follow-symlink flags are passed to RecordArtifacts in the order in which the functions declare them."
	}
}

func ruleC13_7(c *Ctx) {
	const R = "R-C13-7"
	ra := c.lookup("in_toto.RecordArtifacts")
	if ra == nil {
		c.undecided(R, "in_toto.RecordArtifacts", "anchor", 0, "not found")
		return
	}
	for _, name := range []string{"in_toto.InTotoRun", "in_toto.InTotoRecordStart", "in_toto.InTotoRecordStop"} {
		f := c.lookup(name)
		if f == nil {
			c.undecided(R, name, "anchor", 0, "not found")
			continue
		}
		// the option parameters of f in declaration order: []string lists that are not the recorded paths, bools
		for _, call := range callsIn(f, "in_toto.RecordArtifacts") {
			args := call.Common().Args
			// RecordArtifacts(paths, hashAlgorithms, gitignorePatterns, lStripPaths, lineNormalization, followSymlinkDirs)
			var listParams, boolParams []*ssa.Parameter
			pathsPrm, _ := resolve(args[0], call).(*ssa.Parameter)
			for _, prm := range f.Params {
				switch typeStr(prm.Type()) {
				case "[]string":
					listParams = append(listParams, prm)
				case "bool":
					boolParams = append(boolParams, prm)
				}
			}
			// the lists that are recording options: those after the last path list / command list, i.e. the last three
			okLists := len(listParams) >= 3
			var got []string
			if okLists {
				opts := listParams[len(listParams)-3:]
				for k := 0; k < 3; k++ {
					got = append(got, org(args[1+k]))
					if resolve(args[1+k], call) != ssa.Value(opts[k]) {
						okLists = false
					}
				}
			}
			okBools := len(boolParams) >= 2
			if okBools {
				for k := 0; k < 2; k++ {
					got = append(got, org(args[4+k]))
					if resolve(args[4+k], call) != ssa.Value(boolParams[k]) {
						okBools = false
					}
				}
			}
			what := "RecordArtifacts options in declared order"
			if pathsPrm != nil {
				what += " (" + pathsPrm.Name() + ")"
			}
			c.check(okLists && okBools, R, name, what, call.Pos(), "hashAlgorithms, gitignorePatterns, lStripPaths, lineNormalization, followSymlinkDirs = the function's last three []string and first two bool parameters, in order",
				"the recording options are passed to RecordArtifacts in another order than the function declares them ("+strings.Join(got, ", ")+"): callers bind them positionally, so e.g. the line-normalisation and follow-symlink switches are exchanged")
		}
	}
}

// R-C09-2 extension (registered as R-C09-7): inspections record the whole run directory with sha256, nothing excluded,
// nothing stripped.
func init() {
	if p := registry["C09"]; p != nil {
		p.Rules = append(p.Rules, Rule{ID: "R-C09-7", Doc: "inspections record with sha256, no exclude patterns and no strip prefixes", Min: 3, Run: func(c *Ctx) {
			const R = "R-C09-7"
			f := c.lookup("in_toto.RunInspections")
			if f == nil {
				c.undecided(R, "in_toto.RunInspections", "anchor", 0, "not found")
				return
			}
			rs := c.stage(f, "in_toto.InTotoRun")
			if rs == nil {
				c.bad(R, fname(f), "InTotoRun", f.Pos(), "inspection commands are not executed through InTotoRun")
				return
			}
			a := rs.call.Common().Args
			// InTotoRun(name, runDir, materialPaths, productPaths, cmdArgs, key, hashAlgorithms, gitignorePatterns, lStripPaths, ...)
			algs := ""
			derives(a[6], func(v ssa.Value) bool {
				if s, ok := constString(v); ok {
					algs += s + " "
				}
				return false
			}, false)
			c.check(strings.TrimSpace(algs) == "sha256", R, fname(f), "hash algorithms = [sha256]", rs.call.Pos(), algs, "inspections hash with ["+strings.TrimSpace(algs)+"]")
			c.check(isNilConst(resolve(a[7], rs.call)), R, fname(f), "no exclude patterns", rs.call.Pos(), "nil", "inspections exclude files ("+short(org(a[7]))+"): what the inspection rules see is not the whole directory — files can be added or changed unnoticed")
			c.check(isNilConst(resolve(a[8], rs.call)), R, fname(f), "no strip prefixes", rs.call.Pos(), "nil", "inspection artifacts are recorded with stripped prefixes ("+short(org(a[8]))+")")
		}})
		p.Explanation += " (R-C09-7) RunInspections records with sha256 only, without exclude patterns and without strip prefixes."
	}
}

// R-C14-7: the exit status that is recorded is exactly what the operating system reported: the value returned by
// waitErrToExitCode is the constant 0 (no error), the constant -1 (no status available) or the unmodified result of
// WaitStatus.ExitStatus().
func init() {
	if p := registry["C14"]; p != nil {
		p.Rules = append(p.Rules, Rule{ID: "R-C14-7", Doc: "the exit status is handed through unmodified", Min: 3, Run: func(c *Ctx) {
			const R = "R-C14-7"
			f := c.lookup("in_toto.waitErrToExitCode")
			if f == nil {
				c.undecided(R, "in_toto.waitErrToExitCode", "anchor", 0, "not found")
				return
			}
			n := 0
			var walk func(v ssa.Value, at token.Pos, depth int)
			seen := map[ssa.Value]bool{}
			walk = func(v ssa.Value, at token.Pos, depth int) {
				if seen[v] || depth > 10 {
					return
				}
				seen[v] = true
				if ph, ok := v.(*ssa.Phi); ok {
					for _, e := range ph.Edges {
						walk(e, at, depth+1)
					}
					return
				}
				// a value handed back by an unexported helper of the module: whatever the helper can return there
				{
					var hc *ssa.Call
					ri := 0
					switch x := v.(type) {
					case *ssa.Extract:
						hc, _ = x.Tuple.(*ssa.Call)
						ri = x.Index
					case *ssa.Call:
						hc = x
					}
					if hc != nil {
						if h := hc.Common().StaticCallee(); h != nil && h.Blocks != nil && h.Pkg == f.Pkg && h.Parent() == nil && h.Object() != nil && !h.Object().Exported() {
							for _, r := range returnsOf(h) {
								if ri < len(r.Results) {
									walk(r.Results[ri], instrPos(r), depth+1)
								}
							}
							return
						}
					}
				}
				n++
				if k, ok := constInt(v); ok {
					c.check(k == 0 || k == -1, R, fname(f), fmt.Sprintf("constant result %d", k), at, "0 = success, -1 = no status", fmt.Sprintf("the status conversion returns the constant %d", k))
					return
				}
				call, isCall := v.(*ssa.Call)
				okRaw := isCall && strings.HasSuffix(calleeName(call), ".ExitStatus")
				pos := at
				if in, ok := v.(ssa.Instruction); ok && in.Pos() != token.NoPos {
					pos = in.Pos()
				}
				c.check(okRaw, R, fname(f), "status taken from WaitStatus.ExitStatus() as is", pos, "unmodified", "the recorded exit status is "+short(org(v))+", not the unmodified WaitStatus.ExitStatus(): distinct outcomes (a signal's -1, exit 255) can collapse into one value")
			}
			for _, r := range returnsOf(f) {
				walk(r.Results[0], instrPos(r), 0)
			}
			c.check(n >= 3, R, fname(f), "result leaves", f.Pos(), fmt.Sprintf("%d", n), "the status conversion does not distinguish success / status / no status")
		}})
		p.Explanation += " (R-C14-7) waitErrToExitCode returns 0, -1 or the unmodified WaitStatus.ExitStatus()."
	}
}

// R-C07-6 extension (registered as R-C07-8): the URI attribute is compared on the certificate's URIs rendered with
// (*url.URL).String — the exact value, including user information.
func init() {
	if p := registry["C07"]; p != nil {
		p.Rules = append(p.Rules, Rule{ID: "R-C07-8", Doc: "certificate URIs are compared as their exact string form", Min: 1, Run: func(c *Ctx) {
			const R = "R-C07-8"
			f := c.lookup("in_toto.urisToStrings")
			if f == nil {
				c.undecided(R, "in_toto.urisToStrings", "anchor", 0, "not found")
				return
			}
			n := 0
			for _, ap := range callsIn(f, "builtin:append") {
				cc := ap.(*ssa.Call)
				if len(cc.Call.Args) < 2 {
					continue
				}
				n++
				ok := false
				derives(cc.Call.Args[1], func(v ssa.Value) bool {
					if k, isCall := v.(*ssa.Call); isCall {
						if calleeName(k) == "(*net/url.URL).String" && org(k.Call.Args[0]) == "p0[*]" {
							ok = true
						}
					}
					return false
				}, false)
				c.check(ok, R, fname(f), "element = uri.String()", ap.Pos(), "(*url.URL).String of every certificate URI", "a certificate URI is rendered as "+short(org(cc.Call.Args[1]))+" before it is compared with the constraint: Redacted / Path / Host forms make different URIs equal and the exact one unequal")
			}
			// or a pre-sized slice filled by index
			for _, b := range f.Blocks {
				for _, in := range b.Instrs {
					st, isSt := in.(*ssa.Store)
					if !isSt {
						continue
					}
					ia, isIA := st.Addr.(*ssa.IndexAddr)
					if !isIA {
						continue
					}
					if _, isMk := resolve(ia.X, st).(*ssa.MakeSlice); !isMk {
						continue
					}
					n++
					ok := false
					if k, isCall := resolve(st.Val, st).(*ssa.Call); isCall && calleeName(k) == "(*net/url.URL).String" && org(k.Call.Args[0]) == "p0[*]" && wholeSliceIndex(ia) {
						ok = true
					}
					c.check(ok, R, fname(f), "element = uri.String()", st.Pos(), "(*url.URL).String of every certificate URI", "a certificate URI is rendered as "+short(org(st.Val))+" before it is compared with the constraint")
				}
			}
			c.check(n == 1, R, fname(f), "one append per URI", f.Pos(), "1", fmt.Sprintf("%d appends", n))
		}})
		p.Explanation += " (R-C07-8) urisToStrings renders every certificate URI with (*url.URL).String."
	}
}

// shares of round 6
func init() {
	share := func(prop, id, doc string, min int, run func(*Ctx), expl string) {
		if p := registry[prop]; p != nil {
			p.Rules = append(p.Rules, Rule{ID: id, Doc: doc, Min: min, Run: run})
			p.Explanation += " " + expl
		}
	}
	share("C02", "R-C07-2", "checkRoots verifies the chain with (root pool, intermediate pool) in that order (shared with C07)", 2, ruleC07_2, "(R-C07-2, shared with C07) checkRoots hands the certificate, the root pool and the intermediate pool to VerifyCertificateTrust in that order and fails on its error.")
	share("C03", "R-C17-7", "star scan of the glob matcher (shared with C17)", 2, ruleC17_7, "(R-C17-7/8/9, shared with C17) the glob matcher's star scan tries every byte offset, reads the name only where it is non-empty, and treats RuneError as malformed only with width 1.")
	share("C03", "R-C17-8", "matchChunk reads the name only where it is non-empty (shared with C17)", 3, ruleC17_8, "")
	share("C03", "R-C17-9", "RuneError counts as malformed only with width 1 (shared with C17)", 1, ruleC17_9, "")
	share("C05", "R-C02-5", "link loader: one link per functionary key id, glob = naming format (shared with C02)", 3, ruleC02_5, "(R-C02-5, shared with C02) LoadLinksForLayout globs exactly the LinkGlobFormat names and files each link under the key id selected by the file name's 8-character prefix, so two files cannot displace each other's functionary.")
	share("C08", "R-C02-4", "no order-dependent state / early exit in the per-link loop of the threshold check (shared with C02)", 1, a3Rule("R-C02-4", 1, nil, "in_toto.VerifyLinkSignatureThesholds", "in_toto.LoadLinksForLayout").Run, "(R-C02-4, shared with C02) every validly signed, authorized link of a step reaches VerifySublayouts: the per-link loop of the threshold check is not left early.")
	share("C11", "R-C12-2", "required-member check (shared with C12): only an absent key is refused", 3, ruleC12_2, "(R-C12-2, shared with C12) the loader refuses a member only when its key is absent, so the null the writers emit for nil collections loads back.")
	share("C12", "R-C06-2", "expiry format agreement of validator and verifier (shared with C06)", 5, ruleC06_2, "(R-C06-2, shared with C06) validateLayout parses Expires with the same constant layout as the expiry check.")
	share("C19", "R-C16-4", "no function returns package-level memory (shared with C16)", 1, ruleC16_4, "(R-C16-4, shared with C16) loaded keys do not share a package-level default list (key id hash algorithms) with each other.")
}

// R-C17-10: getEsc is the single place that reads one member of a character class (low and high end of a range alike).
// It refuses an empty rest, an unescaped '-' and an unescaped ']' as a member: the class loop of matchChunk relies on
// that for the upper bound of a range, which it does not test itself.
func init() {
	for _, id := range []string{"C17", "C03"} {
		if p := registry[id]; p != nil {
			p.Rules = append(p.Rules, Rule{ID: "R-C17-10", Doc: "getEsc refuses an empty rest, a bare '-' and a bare ']' as class member", Min: 3, Run: ruleC17_10})
		}
	}
	if p := registry["C17"]; p != nil {
		p.Explanation += " (R-C17-10) getEsc returns the bad-pattern error for an empty rest and for an unescaped '-' or ']' in member position (both ends of a range go through it)."
	}
}

func ruleC17_10(c *Ctx) {
	const R = "R-C17-10"
	f := c.lookup("in_toto.getEsc")
	if f == nil {
		c.undecided(R, "in_toto.getEsc", "anchor", 0, "not found")
		return
	}
	// the refusals happen on the unmodified parameter (before an escape is skipped)
	first := func(v ssa.Value) bool {
		if ix, ok := v.(*ssa.Index); ok {
			if k, isK := constInt(ix.Index); isK && k == 0 && ix.X == ssa.Value(f.Params[0]) {
				return true
			}
		}
		if lk, ok := v.(*ssa.Lookup); ok {
			if k, isK := constInt(lk.Index); isK && k == 0 && lk.X == ssa.Value(f.Params[0]) {
				return true
			}
		}
		return false
	}
	failsWhenTrue := func(cond ssa.Value) bool {
		// the branch taken when the condition holds is a failing continuation (short-circuit || chains share it)
		for _, cu := range condUsers(cond, false) {
			if c.failing(branchTaken(cu, true)) {
				return true
			}
		}
		return false
	}
	for _, want := range []struct {
		ch   int64
		name string
	}{{'-', "'-'"}, {']', "']'"}} {
		ok := false
		for _, b := range f.Blocks {
			for _, in := range b.Instrs {
				bo, isBo := in.(*ssa.BinOp)
				if !isBo || bo.Op != token.EQL || !first(bo.X) {
					continue
				}
				if k, isK := constInt(bo.Y); isK && k == want.ch && failsWhenTrue(bo) {
					ok = true
				}
			}
		}
		c.check(ok, R, fname(f), "a bare "+want.name+" in member position is malformed", f.Pos(), "chunk[0] == "+want.name+" => errBadPattern", "getEsc accepts an unescaped "+want.name+" as class member: a range whose upper bound is that character (\"[+-]]\") is parsed as a valid class")
	}
	okEmpty := false
	for _, lc := range lenCompares(f, func(v ssa.Value) bool { return v == ssa.Value(f.Params[0]) }) {
		if failsWhenTrue(lc.bo) == evalCmp(lc.op, 0, lc.k) && evalCmp(lc.op, 0, lc.k) {
			okEmpty = true
		}
	}
	c.check(okEmpty, R, fname(f), "an empty rest is malformed", f.Pos(), "len(chunk) == 0 => errBadPattern", "getEsc does not refuse an exhausted pattern")
}
