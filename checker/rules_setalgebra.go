package main

import (
	"go/token"
	"strings"

	"golang.org/x/tools/go/ssa"
)

// Shape rules for the small value-level helpers the interpreter (C03) and the constraint check (C07) are built on.
// They decide guards around the single store / failing branch each helper has, not the helper's behaviour on all inputs.

func init() {
	if p := registry["C03"]; p != nil {
		p.Rules = append(p.Rules, Rule{ID: "R-C03-8", Doc: "Set helpers: each element is added/kept exactly under its membership guard", Min: 9, Run: ruleC03_8})
		p.Rules = append(p.Rules, Rule{ID: "R-C17-1", Doc: "Set.Filter adds an element only under an error-free positive match (shared with C17)", Min: 2, Run: ruleC17_1})
		p.Rules = append(p.Rules, Rule{ID: "R-C17-2", Doc: "one matcher on the rule-verification paths (shared with C17)", Min: 1, Run: ruleC17_2})
		p.Explanation += " (R-C03-8) the Set helpers have the guard shapes their names promise: Intersection adds an element only where the other set has it, Difference only where it has not, Has is the map lookup, NewSet adds every argument, Add/Remove store/delete the given element, Filter/IsSubSet likewise."
	}
	if p := registry["C07"]; p != nil {
		p.Rules = append(p.Rules, Rule{ID: "R-C07-7", Doc: "checkCertConstraint: wildcard / empty / exact-set guard shapes", Min: 7, Run: ruleC07_7})
		p.Explanation += " (R-C07-7) checkCertConstraint: the only early success is the single-wildcard constraint; an empty constraint with values fails; every certificate value must be in the set of unmet constraints (else fail) and is removed from it; leftovers fail; success only after the loop with no leftovers."
	}
}

func ruleC03_8(c *Ctx) {
	const R = "R-C03-8"
	// guardedAdd: the helper builds a fresh set and adds an element of the ranged operand exactly where the membership
	// test in the other operand has the wanted outcome. "Add" is res.Add(e) or res[e] = struct{}{}; the membership test
	// is other.Has(e) or the comma-ok lookup other[e]; the fresh set is NewSet() or make(Set, ...). For the symmetric
	// Intersection the ranged / tested operands may be chosen per call (the smaller one is ranged), as long as they are
	// the two different operands on every path.
	guardedAdd := func(name string, wantHas bool, symmetric bool) {
		f := c.lookup(name)
		if f == nil {
			c.undecided(R, name, "anchor", 0, "not found")
			return
		}
		type addSite struct {
			in   ssa.Instruction
			res  ssa.Value
			elem ssa.Value
		}
		var adds []addSite
		for _, add := range callsIn(f, "(in_toto.Set).Add") {
			adds = append(adds, addSite{add, resolve(add.Common().Args[0], add), resolve(add.Common().Args[1], add)})
		}
		for _, b := range f.Blocks {
			for _, in := range b.Instrs {
				if mu, ok := in.(*ssa.MapUpdate); ok && typeStr(mu.Map.Type()) == "in_toto.Set" {
					adds = append(adds, addSite{mu, resolve(mu.Map, mu), resolve(mu.Key, mu)})
				}
			}
		}
		isFresh := func(v ssa.Value) bool {
			if _, ok := v.(*ssa.MakeMap); ok {
				return true
			}
			return org(v) == "in_toto.NewSet(nil)"
		}
		// operand pairs (ranged, tested) that are {receiver, argument}
		operandsOK := func(ranged, tested ssa.Value) bool {
			p0, p1 := ssa.Value(f.Params[0]), ssa.Value(f.Params[1])
			if ranged == p0 && tested == p1 {
				return true
			}
			if !symmetric {
				return false
			}
			if ranged == p1 && tested == p0 {
				return true
			}
			rp, ok1 := ranged.(*ssa.Phi)
			tp, ok2 := tested.(*ssa.Phi)
			if !ok1 || !ok2 || rp.Block() != tp.Block() || len(rp.Edges) != len(tp.Edges) {
				return false
			}
			for i := range rp.Edges {
				a, b := rp.Edges[i], tp.Edges[i]
				if !((a == p0 && b == p1) || (a == p1 && b == p0)) {
					return false
				}
			}
			return true
		}
		for _, ad := range adds {
			// the element is the key of a range over some operand
			var ranged ssa.Value
			if ex, ok := ad.elem.(*ssa.Extract); ok && ex.Index == 1 {
				if nx, ok := ex.Tuple.(*ssa.Next); ok {
					if rg, ok := nx.Iter.(*ssa.Range); ok {
						ranged = resolve(rg.X, rg)
					}
				}
			}
			ok := false
			if ranged != nil {
				for _, has := range callsIn(f, "(in_toto.Set).Has") {
					a := has.Common().Args
					if resolve(a[1], has) == ad.elem && operandsOK(ranged, resolve(a[0], has)) && c.condAt(has.Value(), wantHas, ad.in.Block()) {
						ok = true
					}
				}
				for _, b := range f.Blocks {
					for _, in := range b.Instrs {
						lk, isLk := in.(*ssa.Lookup)
						if !isLk || !lk.CommaOk || resolve(lk.Index, lk) != ad.elem || !operandsOK(ranged, resolve(lk.X, lk)) {
							continue
						}
						if okv := extractOf(lk, 1); okv != nil && c.condAt(okv, wantHas, ad.in.Block()) {
							ok = true
						}
					}
				}
			}
			c.check(ok && isFresh(ad.res), R, name, "res.Add(elem) guard", ad.in.Pos(), "elem of one operand, added to a fresh set only where the other operand has it: "+boolStr(wantHas),
				"an element is added without the membership test other.Has(elem) == "+boolStr(wantHas))
		}
		if len(adds) != 1 {
			c.bad(R, name, "exactly one Add", f.Pos(), "unexpected number of Add calls")
		}
		for _, r := range returnsOf(f) {
			c.check(isFresh(resolve(r.Results[0], r)), R, name, "returns the fresh set", instrPos(r), "NewSet() / make(Set)", "returns "+short(org(r.Results[0])))
		}
	}
	guardedAdd("(in_toto.Set).Intersection", true, true)
	guardedAdd("(in_toto.Set).Difference", false, false)
	if f := c.lookup("(in_toto.Set).Has"); f != nil {
		ok := false
		for _, r := range returnsOf(f) {
			ok = org(r.Results[0]) == "ok(p0{p1})"
		}
		c.check(ok, R, fname(f), "Has = presence of the key", f.Pos(), "_, ok := s[elem]", "Has does not return the lookup's ok")
	}
	if f := c.lookup("(in_toto.Set).Add"); f != nil {
		ok := false
		for _, b := range f.Blocks {
			for _, in := range b.Instrs {
				if mu, isMu := in.(*ssa.MapUpdate); isMu && org(mu.Map) == "p0" && org(mu.Key) == "p1" {
					ok = true
				}
			}
		}
		c.check(ok, R, fname(f), "Add stores the element", f.Pos(), "s[elem] = struct{}{}", "Add does not store the given element")
	}
	if f := c.lookup("(in_toto.Set).Remove"); f != nil {
		ok := false
		for _, call := range callsIn(f, "builtin:delete") {
			ok = org(call.Common().Args[0]) == "p0" && org(call.Common().Args[1]) == "p1"
		}
		c.check(ok, R, fname(f), "Remove deletes the element", f.Pos(), "delete(s, elem)", "Remove does not delete the given element")
	}
	if f := c.lookup("in_toto.NewSet"); f != nil {
		ok := false
		for _, add := range callsIn(f, "(in_toto.Set).Add") {
			a := add.Common().Args
			if org(a[1]) == "p0[*]" {
				if u, isU := a[1].(*ssa.UnOp); isU && wholeSliceIndex(u.X) {
					if _, isMk := resolve(a[0], add).(*ssa.MakeMap); isMk || strings.HasPrefix(org(a[0]), "makemap") {
						ok = true
					}
				}
			}
		}
		c.check(ok, R, fname(f), "NewSet adds every argument to a fresh map", f.Pos(), "for each elems[i]: s.Add(elems[i])", "NewSet does not add every argument")
	}
	if f := c.lookup("(in_toto.Set).IsSubSet"); f != nil {
		okMiss := false
		for _, has := range callsIn(f, "(in_toto.Set).Has") {
			a := has.Common().Args
			if org(a[0]) == "p0" && org(a[1]) == "key(p1)" {
				for _, cu := range condUsers(has.Value(), false) {
					// the branch for a missing element runs, by plain jumps, into a return of false (directly, or through
					// a flag that is false on that path)
					fb := branchTaken(cu, false)
					if r, path := followJumps(cu.If.Block(), fb); r != nil && len(r.Results) == 1 {
						if cv, ok := phiAlong(r.Results[0], path).(*ssa.Const); ok && cv.Value != nil && cv.Value.String() == "false" {
							okMiss = true
						}
					}
				}
			}
		}
		c.check(okMiss, R, fname(f), "a missing element means: not a subset", f.Pos(), "!s.Has(key) => return false", "IsSubSet does not return false for an element the superset lacks")
	}
	if f := c.lookup("in_toto.artifactsDictKeyStrings"); f != nil {
		ok := len(returnsOf(f)) > 0
		for _, r := range returnsOf(f) {
			if m := c.keysOfMap(r.Results[0], r); m == nil || len(f.Params) == 0 || m != ssa.Value(f.Params[0]) {
				ok = false
			}
		}
		c.check(ok, R, fname(f), "returns the keys of the artifact map", f.Pos(), "every key of the parameter is stored / appended unconditionally in a range over it", "does not return exactly the map's keys")
	}
}

func boolStr(b bool) string {
	if b {
		return "true"
	}
	return "false"
}

func ruleC07_7(c *Ctx) {
	const R = "R-C07-7"
	f := c.lookup("in_toto.checkCertConstraint")
	if f == nil {
		c.undecided(R, "in_toto.checkCertConstraint", "anchor", 0, "not found")
		return
	}
	fn := fname(f)
	// comparisons of element 0 with string constants
	elem0 := func(param string) map[string]*ssa.BinOp {
		return stringCases(f, func(v ssa.Value) bool { return org(v) == param+"[0]" })
	}
	len1 := func(param ssa.Value) *lenCmp {
		for _, lc := range lenCompares(f, func(v ssa.Value) bool { return v == param }) {
			if lc.op == token.EQL && lc.k == 1 {
				l := lc
				return &l
			}
		}
		return nil
	}
	// wildcard: the only success return before the set comparison
	star := elem0("p1")["*"]
	l1 := len1(f.Params[1])
	var unmetCall ssa.CallInstruction
	for _, ns := range callsIn(f, "in_toto.NewSet") {
		unmetCall = ns
	}
	nEarly, okStar := 0, false
	for _, r := range c.nilErrReturns(f) {
		if unmetCall != nil && instrDominates(unmetCall, r) {
			continue
		}
		nEarly++
		if star != nil && l1 != nil && c.condAt(star, true, r.Block()) && c.condAt(l1.bo, true, r.Block()) {
			okStar = true
		}
	}
	c.check(nEarly == 1 && okStar, R, fn, "the only early success is the single wildcard constraint", f.Pos(), "len(constraints) == 1 && constraints[0] == \"*\" => nil", "checkCertConstraint has an early success that is not (exactly) the single-wildcard case")
	// empty constraint with values fails
	okEmpty := false
	for _, r := range returnsOf(f) {
		if c.mayBeNilErr(r.Results[0], r.Block(), 0) {
			continue
		}
		for _, lc0 := range lenComparesAny(f) {
			for _, lcv := range lenComparesAny(f) {
				if lc0.op == token.EQL && lc0.k == 0 && lcv.op == token.GTR && lcv.k == 0 && c.condAt(lc0.bo, true, r.Block()) && c.condAt(lcv.bo, true, r.Block()) {
					okEmpty = true
				}
			}
		}
	}
	c.check(okEmpty, R, fn, "no constraint but certificate values => fail", f.Pos(), "len(constraints) == 0 && len(values) > 0 => error", "an empty constraint does not demand that the attribute is absent")
	// normalisation of the single empty string
	for _, p := range []string{"p1", "p2"} {
		bo := elem0(p)[""]
		c.check(bo != nil, R, fn, "a single empty string in "+map[string]string{"p1": "constraints", "p2": "values"}[p]+" counts as empty", f.Pos(), "x[0] == \"\" under len(x) == 1 => []string{}", "the single-empty-string normalisation is missing")
	}
	if unmetCall == nil {
		c.bad(R, fn, "set of unmet constraints", f.Pos(), "no NewSet(constraints...)")
		return
	}
	unmet := unmetCall.Value()
	okFrom := derives(unmetCall.Common().Args[0], func(v ssa.Value) bool { return v == ssa.Value(f.Params[1]) }, false) && !derives(unmetCall.Common().Args[0], func(v ssa.Value) bool { return v == ssa.Value(f.Params[2]) }, false)
	c.check(okFrom, R, fn, "unmet = set of the constraint values", unmetCall.Pos(), "NewSet(constraints...)", "the set of unmet constraints is not built from the constraints")
	// every certificate value must be in unmet, and is removed
	has := firstCall(f, "(in_toto.Set).Has")
	rem := firstCall(f, "(in_toto.Set).Remove")
	okHas := false
	if has != nil && has.Common().Args[0] == unmet {
		v := has.Common().Args[1]
		isVal := derives(v, func(x ssa.Value) bool { return x == ssa.Value(f.Params[2]) }, false)
		whole := false
		if u, ok := v.(*ssa.UnOp); ok {
			whole = wholeSliceIndex(u.X)
		}
		for _, cu := range condUsers(has.Value(), false) {
			if c.failing(branchTaken(cu, false)) && isVal && whole {
				okHas = true
			}
		}
	}
	c.check(okHas, R, fn, "a certificate value that is not an unmet constraint fails", f.Pos(), "for every values[i]: !unmet.Has(v) => error", "unexpected certificate values are tolerated (or not every value is examined)")
	okRem := rem != nil && has != nil && rem.Common().Args[0] == unmet && resolve(rem.Common().Args[1], rem) == resolve(has.Common().Args[1], has) && c.condAt(has.Value(), true, rem.Block())
	c.check(okRem, R, fn, "a met constraint is consumed (one-to-one matching)", f.Pos(), "unmet.Remove(v) on the Has-true side", "met constraints are not removed: duplicates in the certificate would match one constraint twice, and leftovers cannot be detected")
	// leftovers fail; final success only without leftovers
	okLeft := false
	var leftCmp *lenCmp
	for _, lc := range lenCompares(f, func(v ssa.Value) bool { return v == unmet }) {
		for _, cu := range condUsers(lc.bo, false) {
			if c.failing(branchTaken(cu, evalCmp(lc.op, 1, lc.k))) && !c.failing(branchTaken(cu, evalCmp(lc.op, 0, lc.k))) {
				okLeft = true
				l := lc
				leftCmp = &l
			}
		}
	}
	c.check(okLeft, R, fn, "unmet constraints left over => fail", f.Pos(), "len(unmet) > 0 => error", "constraints the certificate does not meet are tolerated")
	for _, r := range c.nilErrReturns(f) {
		if !instrDominates(unmetCall, r) {
			continue
		}
		c.check(leftCmp != nil && c.condAt(leftCmp.bo, evalCmp(leftCmp.op, 0, leftCmp.k), r.Block()), R, fn, "final success only with no unmet constraint", instrPos(r), "dominated by len(unmet) == 0", "the final success return is reachable with unmet constraints")
	}
}
