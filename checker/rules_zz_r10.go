package main

import (
	"fmt"
	"strings"

	"golang.org/x/tools/go/ssa"
)

// Rules added for the round-10 seeded changes ("a misused library contract").

func init() {
	share := func(prop, id, doc string, min int, run func(*Ctx), expl string) {
		if p := registry[prop]; p != nil {
			p.Rules = append(p.Rules, Rule{ID: id, Doc: doc, Min: min, Run: run})
			if expl != "" {
				p.Explanation += " " + expl
			}
		}
	}
	share("C01", "R-C20-2", "flag wiring of the command-line tools (shared with C20)", 30, ruleC20_2, "(R-C20-2, shared with C20) every flag of the verify command is documented, bound to a variable of its own and read by the handler: no key given on the command line drops out of the set the layout must be signed with.")
	share("C08", "R-C02-5", "links of a (sub)layout are the LinkGlobFormat files of its own directory (shared with C02)", 3, ruleC02_5, "(R-C02-5, shared with C02) LoadLinksForLayout takes the links of a layout from the files that match the naming format in the given directory itself (filepath.Glob, no descent into the directories of nested sublayouts).")
	share("C09", "R-C13-2", "recorded digests cover the whole file (shared with C13)", 6, ruleC13_2, "(R-C13-2, shared with C13) what an inspection records for a file is the digest of all of its bytes as read by os.ReadFile / io.ReadAll, rewritten only by the two-step line normaliser.")
	share("C04", "R-C11-8", "SetPayload always encodes the payload it is given", 1, ruleC11_8, "(R-C11-8) every success return of Envelope.SetPayload lies behind the stores of the new payload object and of the envelope built from its encoding: no early exit keeps old payload bytes and signatures for an object that was changed.")
	share("C11", "R-C11-8", "SetPayload always encodes the payload it is given (shared with C04)", 1, ruleC11_8, "(R-C11-8) no success return of Envelope.SetPayload skips the encoding.")
	share("C11", "R-C11-9", "the payload loader refuses trailing data", 1, ruleC11_9, "(R-C11-9) loadPayload hands the complete byte string to json.Unmarshal (which rejects anything after the first value) and fails on its error before any success return: a json.Decoder alone reads only the first value.")
	share("C12", "R-C11-9", "the payload loader refuses trailing data (shared with C11)", 1, ruleC11_9, "")
	share("C14", "R-C14-10", "the two capture buffers do not share memory", 1, ruleC14_10, "(R-C14-10) the buffers behind Cmd.Stdout and Cmd.Stderr are zero-value buffers or are built over allocations of their own: bytes.NewBuffer takes over the whole capacity of the slice it is handed.")
	share("C20", "R-C20-9", "intermediate certificate files reach the library as read", 1, ruleC20_9, "(R-C20-9) every element of the intermediatePems argument of the verification entry point is the unmodified result of reading one --intermediate-certs file: the library, not the command, decides which PEM blocks of a bundle count.")
	share("C07", "R-C20-9", "intermediate certificate files reach the library as read (shared with C20)", 1, ruleC20_9, "")
}

// R-C11-8 -------------------------------------------------------------------------------------------------------------

func ruleC11_8(c *Ctx) {
	const R = "R-C11-8"
	f := c.lookup("(*in_toto.Envelope).SetPayload")
	if f == nil {
		c.undecided(R, "(*in_toto.Envelope).SetPayload", "anchor", 0, "not found")
		return
	}
	fn := fname(f)
	var stores []*ssa.Store
	for _, b := range f.Blocks {
		for _, in := range b.Instrs {
			if st, ok := in.(*ssa.Store); ok {
				if fa, ok := st.Addr.(*ssa.FieldAddr); ok && org(fa.X) == "p0" {
					stores = append(stores, st)
				}
			}
		}
	}
	if len(stores) < 2 {
		c.undecided(R, fn, "stores into the receiver", f.Pos(), fmt.Sprintf("%d stores into the receiver, expected the payload object and the envelope", len(stores)))
		return
	}
	for _, r := range c.nilErrReturns(f) {
		missing := []string{}
		for _, st := range stores {
			if !instrDominates(st, r) {
				fa := st.Addr.(*ssa.FieldAddr)
				missing = append(missing, fieldName(fa.X.Type(), fa.Field))
			}
		}
		c.check(len(missing) == 0, R, fn, "success return behind the update of payload and envelope", instrPos(r), "dominated by both stores",
			"SetPayload can return success without storing "+strings.Join(missing, ", ")+": the envelope keeps the old payload bytes and their signatures although it was asked to carry this object (an equality test on objects that share maps and slices with the caller's copy cannot see an in-place change)")
	}
}

// R-C11-9 -------------------------------------------------------------------------------------------------------------

func ruleC11_9(c *Ctx) {
	const R = "R-C11-9"
	f := c.lookup("in_toto.loadPayload")
	if f == nil {
		c.undecided(R, "in_toto.loadPayload", "anchor", 0, "not found")
		return
	}
	fn := fname(f)
	var whole ssa.CallInstruction
	for _, um := range callsIn(f, "encoding/json.Unmarshal") {
		if resolve(um.Common().Args[0], um) == ssa.Value(f.Params[0]) {
			whole = um
		}
	}
	if whole == nil {
		c.bad(R, fn, "json.Unmarshal of the complete payload", f.Pos(), "the payload bytes are never handed to json.Unmarshal as a whole: json.NewDecoder(...).Decode reads the first JSON value and leaves the rest unread, so a payload with a second document or garbage behind the first is loaded (and later signed as it is)")
		return
	}
	okFail := false
	if e := errResult(whole); e != nil {
		for _, br := range errBranches(e) {
			okFail = okFail || c.failing(br.NonNil)
		}
	}
	c.check(okFail, R, fn, "a syntax error anywhere in the payload fails the load", whole.Pos(), "json.Unmarshal(payloadBytes, …) error fails", "the error of json.Unmarshal over the whole payload does not fail the load")
	for _, r := range c.nilErrReturns(f) {
		c.check(c.okCallAt(whole, r.Block()), R, fn, "success only after the whole payload parsed", instrPos(r), "dominated by the nil-error edge", "a success return does not lie behind the successful parse of the whole payload")
	}
}

// R-C14-10 ------------------------------------------------------------------------------------------------------------

func ruleC14_10(c *Ctx) {
	const R = "R-C14-10"
	n := 0
	for _, u := range c.cmdUses() {
		so, se := u.bufs["Stdout"], u.bufs["Stderr"]
		if so == nil || se == nil {
			continue
		}
		n++
		base := func(v ssa.Value) (ssa.Value, string) {
			if mi, ok := v.(*ssa.MakeInterface); ok {
				v = mi.X
			}
			r := resolve(v, nil)
			if al, ok := r.(*ssa.Alloc); ok {
				return al, "zero-value buffer"
			}
			if call, ok := r.(*ssa.Call); ok {
				switch calleeName(call) {
				case "bytes.NewBuffer", "bytes.NewBufferString":
					arg := call.Call.Args[0]
					if isNilConst(arg) {
						return call, "NewBuffer(nil)"
					}
					var root ssa.Value
					derives(arg, func(x ssa.Value) bool {
						switch x.(type) {
						case *ssa.MakeSlice, *ssa.Alloc, *ssa.Global, *ssa.Parameter:
							root = x
							return true
						}
						return false
					}, false)
					if root != nil {
						return root, "NewBuffer over " + short(org(root))
					}
					return nil, "NewBuffer over " + short(org(arg))
				}
			}
			return nil, short(org(r))
		}
		bo, do := base(so)
		be, de := base(se)
		switch {
		case bo == nil || be == nil:
			c.undecided(R, fname(u.f), "capture buffers", u.create.Pos(), "cannot identify what the capture buffers are built over: stdout "+do+", stderr "+de)
		case bo == be:
			c.bad(R, fname(u.f), "capture buffers", u.create.Pos(), "stdout and stderr are captured in buffers over the same allocation ("+do+"): bytes.NewBuffer takes over the full capacity of the slice it is given, so one stream grows into the memory of the other")
		default:
			c.ok(R, fname(u.f), "capture buffers", u.create.Pos(), "independent: stdout "+do+", stderr "+de)
		}
	}
	if n == 0 {
		c.undecided(R, "in_toto.RunCommand", "capture buffers", 0, "no exec.Cmd with both Stdout and Stderr writers found")
	}
}

// R-C20-9 -------------------------------------------------------------------------------------------------------------

func ruleC20_9(c *Ctx) {
	const R = "R-C20-9"
	f := c.lookup("cmd.verify")
	if f == nil {
		c.undecided(R, "cmd.verify", "anchor", 0, "not found")
		return
	}
	fn := fname(f)
	entries := map[*ssa.Function]bool{}
	for _, e := range c.entryPoints() {
		entries[e.f] = true
	}
	var call ssa.CallInstruction
	for _, k := range allCalls(f) {
		if g := k.Common().StaticCallee(); g != nil && entries[g] {
			call = k
		}
	}
	if call == nil {
		c.undecided(R, fn, "library entry point", f.Pos(), "verify does not call a verification entry point directly")
		return
	}
	var arg ssa.Value
	for _, a := range call.Common().Args {
		if typeStr(a.Type()) == "[][]byte" {
			arg = a
		}
	}
	if arg == nil {
		c.undecided(R, fn, "intermediatePems argument", call.Pos(), "no [][]byte argument")
		return
	}
	srcs := appendedSources(arg)
	if len(srcs) == 0 {
		c.undecided(R, fn, "intermediatePems argument", call.Pos(), "the elements of the list are not appended one by one: "+short(org(arg)))
		return
	}
	for _, s := range srcs {
		pc, idx := producer(resolve(s, nil), nil)
		okRead := pc != nil && idx == 0 && (calleeName(pc) == "os.ReadFile" || calleeName(pc) == "io.ReadAll" || calleeName(pc) == "io/ioutil.ReadFile")
		c.check(okRead, R, fn, "element of intermediatePems", s.Pos(), "the bytes read from one --intermediate-certs file",
			"an element of the intermediate list is "+short(org(s))+", not the bytes of the file as read: a re-encoded first PEM block drops the other certificates of a bundle, which the library (AppendCertsFromPEM) would have loaded")
	}
}
