package main

import (
	"fmt"
	"go/constant"
	"go/token"
	"go/types"
	"sort"
	"strings"

	"golang.org/x/tools/go/ssa"
)

// Rules added for the round-8 seeded changes ("looks like a behaviour-preserving refactoring").

func init() {
	share := func(prop, id, doc string, min int, run func(*Ctx), expl string) {
		if p := registry[prop]; p != nil {
			p.Rules = append(p.Rules, Rule{ID: id, Doc: doc, Min: min, Run: run})
			if expl != "" {
				p.Explanation += " " + expl
			}
		}
	}
	r102 := ruleC10_2()
	share("C02", "R-C10-2", "verification does not write through the layout (shared with C10)", r102.Min, r102.Run, "(R-C10-2, shared with C10) evaluating a step's keys and certificate constraints leaves them as they are, so the second link of a step is judged like the first.")
	share("C07", "R-C10-2", "verification does not write through the layout (shared with C10)", r102.Min, r102.Run, "(R-C10-2, shared with C10) evaluating a certificate constraint does not consume it: the constraint lists are the layout's own memory.")
	share("C08", "R-C02-1", "a link or sublayout is counted only under the authorization guards (shared with C02)", 2, ruleC02_1, "(R-C02-1, shared with C02) a sublayout enters the verified map, and is followed, only if its signer is authorized for that step.")
	share("C12", "R-C12-7", "Dump replaces the file", 2, ruleC12_7, "(R-C12-7) the Dump methods write with os.WriteFile / os.Create or an os.OpenFile whose constant flags contain O_TRUNC: what is loaded back is what was dumped, whatever the path held before.")
	share("C04", "R-C12-7", "Dump replaces the file (shared with C12)", 2, ruleC12_7, "(R-C12-7, shared with C12) dumped metadata replaces the previous content of the path, so sign / dump / load sequences read back what was written.")
	share("C15", "R-C15-7", "no recursion from inside a loop (backtracking) outside the reviewed recursions", 3, ruleC15_7, "(R-C15-7) no module function reachable from the loaders, validators and verification entry points calls itself (directly or through a cycle) from inside a loop, except the reviewed recursions bounded by the directory tree: exponential backtracking on hostile patterns / metadata needs exactly that shape.")
	share("C17", "R-C17-11", "an escaped character is compared literally", 2, ruleC17_11, "(R-C17-11) in matchChunk no comparison with '[' or '?' is reachable, within one iteration, from the branch that consumed a backslash: an escaped metacharacter is a literal.")
	share("C03", "R-C17-11", "an escaped character is compared literally (shared with C17)", 2, ruleC17_11, "")
	share("C11", "R-C04-1", "the bytes a DSSE Sign signs are the envelope's own current payload bytes (shared with C04)", 5, ruleC04_1, "(R-C04-1, shared with C04) Envelope.Sign signs DecodeB64Payload() of the receiver's current envelope (directly or through a helper that only forwards to it): no remembered copy of the bytes can go stale after SetPayload.")
	share("C14", "R-C14-8", "captured output is not re-encoded on its way into the by-products", 1, ruleC14_8, "(R-C14-8) no module function below RunCommand calls into encoding/*, unicode/utf8 validation or quoting helpers: the stdout / stderr strings are the bytes the command wrote (a JSON or UTF-8 round trip replaces invalid bytes).")
	share("C16", "R-C16-6", "no closure that outlives its creating call writes its captured variables", 1, ruleC16_6, "(R-C16-6) a function literal that is returned or stored (and so can be called by several goroutines) does not store into variables it captured: such a variable is process-wide state in disguise.")
	share("C19", "R-C16-6", "no closure that outlives its creating call writes its captured variables (shared with C16)", 1, ruleC16_6, "")
}

// R-C12-7 -------------------------------------------------------------------------------------------------------------

func osConst(c *Ctx, name string) (int64, bool) {
	sp := c.SSAPkgs["os"]
	if sp == nil {
		return 0, false
	}
	if k, ok := sp.Members[name].(*ssa.NamedConst); ok {
		if v, ok := constant.Int64Val(constant.ToInt(k.Value.Value)); ok {
			return v, true
		}
	}
	return 0, false
}

func ruleC12_7(c *Ctx) {
	const R = "R-C12-7"
	oTrunc, ok1 := osConst(c, "O_TRUNC")
	oAppend, ok2 := osConst(c, "O_APPEND")
	oExcl, ok3 := osConst(c, "O_EXCL")
	oWr, ok4 := osConst(c, "O_WRONLY")
	oRdwr, ok5 := osConst(c, "O_RDWR")
	if !(ok1 && ok2 && ok3 && ok4 && ok5) {
		c.undecided(R, "os", "flag constants", 0, "os.O_* constants not found")
		return
	}
	for _, n := range []string{"(*in_toto.Metablock).Dump", "(*in_toto.Envelope).Dump"} {
		f := c.lookup(n)
		if f == nil {
			c.undecided(R, n, "anchor", 0, "not found")
			continue
		}
		sinks := 0
		var fs []*ssa.Function
		for g := range reachable(c.CG, f) {
			if g.Blocks != nil && g.Pkg != nil && strings.HasPrefix(g.Pkg.Pkg.Path(), modPath) {
				fs = append(fs, g)
			}
		}
		sort.Slice(fs, func(i, j int) bool { return fname(fs[i]) < fname(fs[j]) })
		for _, g := range fs {
			for _, call := range allCalls(g) {
				switch calleeName(call) {
				case "os.WriteFile", "os.Create":
					sinks++
					c.ok(R, n, "written with "+calleeName(call), call.Pos(), "truncates an existing file")
				case "os.OpenFile":
					sinks++
					fl, isConst := constInt(call.Common().Args[1])
					if !isConst {
						c.undecided(R, n, "os.OpenFile flags", call.Pos(), "the flags are not a constant")
						continue
					}
					if fl&(oWr|oRdwr) == 0 {
						continue // read-only
					}
					c.check(fl&oTrunc != 0 || fl&oAppend != 0 && false || fl&oExcl != 0, R, n, "os.OpenFile flags", call.Pos(), "O_TRUNC (or O_EXCL) is set",
						"the file is opened for writing without O_TRUNC: dumping over a longer file leaves the tail of the old document behind the new one, and the result does not load")
				}
			}
		}
		if sinks == 0 {
			c.undecided(R, n, "file sink", f.Pos(), "no os.WriteFile / os.Create / os.OpenFile below Dump: how the file is written is not recognised")
		}
	}
}

// R-C15-7 -------------------------------------------------------------------------------------------------------------

// reviewed recursions from inside a loop: caller -> reason it is bounded
var c15LoopRecursion = map[string]string{
	"in_toto.VerifySublayouts":  "one recursion per sublayout link found on disk; depth bounded by the depth of the link directory tree (each level reads <dir>/<step>.<keyid>)",
	"in_toto.recordArtifacts$1": "one recursion per directory symlink, guarded by the visitedSymlinks set (a revisit is ErrSymCycle)",
	"in_toto.recordArtifacts":   "calls the walk whose callback recurses per directory symlink (visitedSymlinks guard)",
}

func unwrapChange(v ssa.Value) ssa.Value {
	for {
		switch x := v.(type) {
		case *ssa.ChangeType:
			v = x.X
		case *ssa.MakeInterface:
			v = x.X
		default:
			return v
		}
	}
}

func inLoop(b *ssa.BasicBlock) bool {
	// b lies on a cycle of the CFG
	seen := map[*ssa.BasicBlock]bool{}
	stack := append([]*ssa.BasicBlock{}, b.Succs...)
	for len(stack) > 0 {
		x := stack[len(stack)-1]
		stack = stack[:len(stack)-1]
		if x == b {
			return true
		}
		if seen[x] {
			continue
		}
		seen[x] = true
		stack = append(stack, x.Succs...)
	}
	return false
}

func ruleC15_7(c *Ctx) {
	const R = "R-C15-7"
	var roots []*ssa.Function
	for _, e := range c.entryPoints() {
		roots = append(roots, e.f)
	}
	for _, n := range []string{"in_toto.LoadMetadata", "(*in_toto.Metablock).Load", "in_toto.ValidateMetablock", "(*in_toto.Metablock).Sign", "(*in_toto.Envelope).Sign",
		"(*in_toto.Metablock).VerifySignature", "(*in_toto.Envelope).VerifySignature", "in_toto.InTotoRun", "in_toto.InTotoRecordStart", "in_toto.InTotoRecordStop", "in_toto.InTotoMatchProducts"} {
		if f := c.lookup(n); f != nil {
			roots = append(roots, f)
		}
	}
	if len(roots) < 8 {
		c.undecided(R, "in_toto", "anchors", 0, "entry points not found")
		return
	}
	inMod := func(f *ssa.Function) bool {
		pk := f.Pkg
		if pk == nil && f.Parent() != nil {
			pk = f.Parent().Pkg
		}
		return f.Blocks != nil && pk != nil && strings.HasPrefix(pk.Pkg.Path(), modPath)
	}
	reach := reachable(c.CG, roots...)
	var fs []*ssa.Function
	for f := range reach {
		if inMod(f) {
			fs = append(fs, f)
		}
	}
	sort.Slice(fs, func(i, j int) bool { return fname(fs[i]) < fname(fs[j]) })
	// module-only call edges (static callees and closures created in the function), then: can g reach f again?
	succ := map[*ssa.Function][]*ssa.Function{}
	for _, f := range fs {
		for _, call := range allCalls(f) {
			if g := call.Common().StaticCallee(); g != nil && inMod(g) {
				succ[f] = append(succ[f], g)
			} else if n := c.CG.Nodes[f]; n != nil && g == nil {
				for _, e := range n.Out {
					if e.Site == call && inMod(e.Callee.Func) {
						succ[f] = append(succ[f], e.Callee.Func)
					}
				}
			}
			// function literals handed to a callee (filepath.Walk callback) run inside that call
			for _, a := range callArgs(call) {
				if mc, ok := unwrapChange(a).(*ssa.MakeClosure); ok {
					if g, ok := mc.Fn.(*ssa.Function); ok && inMod(g) {
						succ[f] = append(succ[f], g)
					}
				}
			}
		}
	}
	reachesFn := func(from, to *ssa.Function) bool {
		seen := map[*ssa.Function]bool{}
		stack := []*ssa.Function{from}
		for len(stack) > 0 {
			x := stack[len(stack)-1]
			stack = stack[:len(stack)-1]
			if x == to {
				return true
			}
			if seen[x] {
				continue
			}
			seen[x] = true
			stack = append(stack, succ[x]...)
		}
		return false
	}
	nRec := 0
	for _, f := range fs {
		for _, call := range allCalls(f) {
			var targets []*ssa.Function
			if g := call.Common().StaticCallee(); g != nil && inMod(g) {
				targets = append(targets, g)
			}
			for _, a := range callArgs(call) {
				if mc, ok := unwrapChange(a).(*ssa.MakeClosure); ok {
					if g, ok := mc.Fn.(*ssa.Function); ok && inMod(g) {
						targets = append(targets, g)
					}
				}
			}
			for _, g := range targets {
				if !reachesFn(g, f) {
					continue
				}
				nRec++
				looped := inLoop(call.Block())
				if !looped {
					c.ok(R, fname(f), "recursive call of "+fname(g), call.Pos(), "not inside a loop: one recursive call per activation (linear)")
					continue
				}
				if reason, ok := c15LoopRecursion[fname(f)]; ok {
					c.ok(R, fname(f), "recursive call of "+fname(g)+" inside a loop", call.Pos(), "reviewed: "+reason)
					continue
				}
				c.bad(R, fname(f), "recursive call of "+fname(g)+" inside a loop", call.Pos(), "a function calls itself from inside a loop (backtracking): the number of activations can grow exponentially with the size of a hostile input, so the call may practically never return")
			}
		}
	}
	c.ok(R, "call graph below the entry points", "recursion census", 0, fmt.Sprintf("%d module functions, %d recursive call sites", len(fs), nRec))
}

// R-C17-11 ------------------------------------------------------------------------------------------------------------

func innermostLoopHeader(b *ssa.BasicBlock) *ssa.BasicBlock {
	for d := b; d != nil; d = d.Idom() {
		for _, p := range d.Preds {
			if d.Dominates(p) && (p == b || b == d || reachesAvoiding(b, p, d)) {
				return d
			}
		}
	}
	return nil
}

func byteConst(v ssa.Value) (int64, bool) {
	k, ok := v.(*ssa.Const)
	if !ok || k.Value == nil || k.Value.Kind() != constant.Int {
		return 0, false
	}
	n, ok := constant.Int64Val(k.Value)
	return n, ok
}

func ruleC17_11(c *Ctx) {
	const R = "R-C17-11"
	f := c.lookup("in_toto.matchChunk")
	if f == nil {
		c.undecided(R, "in_toto.matchChunk", "anchor", 0, "not found")
		return
	}
	fn := fname(f)
	// comparisons of a byte of the pattern with '\\', '[' and '?'
	type cmp struct {
		bo *ssa.BinOp
		ch int64
	}
	var esc, meta []cmp
	for _, b := range f.Blocks {
		for _, in := range b.Instrs {
			bo, ok := in.(*ssa.BinOp)
			if !ok || (bo.Op != token.EQL && bo.Op != token.NEQ) {
				continue
			}
			ch, ok := byteConst(bo.Y)
			x := bo.X
			if !ok {
				ch, ok = byteConst(bo.X)
				x = bo.Y
			}
			if !ok {
				continue
			}
			if bt, isB := x.Type().Underlying().(*types.Basic); !isB || (bt.Kind() != types.Uint8 && bt.Kind() != types.Int32) {
				continue
			}
			switch ch {
			case '\\':
				esc = append(esc, cmp{bo, ch})
			case '[', '?':
				meta = append(meta, cmp{bo, ch})
			}
		}
	}
	if len(esc) == 0 || len(meta) < 2 {
		c.undecided(R, fn, "term dispatch", f.Pos(), fmt.Sprintf("found %d comparisons with a backslash and %d with '[' / '?': the dispatch of matchChunk is not recognised", len(esc), len(meta)))
		return
	}
	for _, e := range esc {
		for _, cu := range condUsers(e.bo, false) {
			taken := branchTaken(cu, e.bo.Op == token.EQL)
			hdr := innermostLoopHeader(taken)
			bad := ""
			for _, m := range meta {
				mb := m.bo.Block()
				if mb == taken || (hdr != nil && reachesAvoiding(taken, mb, hdr)) || (hdr == nil && reaches(taken, mb)) {
					bad = fmt.Sprintf("the comparison with %q at %s", rune(m.ch), c.pos(m.bo.Pos()))
				}
			}
			c.check(bad == "", R, fn, "after a backslash the next character is a literal", e.bo.Pos(), "no comparison with '[' or '?' is reachable from the backslash branch within the iteration",
				bad+" is reachable from the branch that consumed a backslash: an escaped '[' or '?' is treated as the metacharacter")
		}
	}
	c.ok(R, fn, "term dispatch", f.Pos(), fmt.Sprintf("%d backslash tests, %d metacharacter tests", len(esc), len(meta)))
}

// R-C16-6 -------------------------------------------------------------------------------------------------------------

func ruleC16_6(c *Ctx) {
	const R = "R-C16-6"
	n := 0
	for _, pn := range []string{"in_toto", "internal/spiffe"} {
		for _, f := range c.srcFuncs(pn) {
			if f.Parent() == nil || len(f.FreeVars) == 0 {
				continue
			}
			n++
			// stores through captured variables
			var writes []ssa.Instruction
			for _, b := range f.Blocks {
				for _, in := range b.Instrs {
					var addr ssa.Value
					switch x := in.(type) {
					case *ssa.Store:
						addr = x.Addr
					case *ssa.MapUpdate:
						addr = x.Map
					}
					if addr == nil {
						continue
					}
					if _, isFV := addrRoot(addr).(*ssa.FreeVar); isFV {
						writes = append(writes, in)
					} else if derives(addr, func(v ssa.Value) bool { _, ok := v.(*ssa.FreeVar); return ok }, false) {
						writes = append(writes, in)
					}
				}
			}
			if len(writes) == 0 {
				continue
			}
			// does the closure value escape its creator?
			esc := ""
			par := f.Parent()
			for _, b := range par.Blocks {
				for _, in := range b.Instrs {
					mc, ok := in.(*ssa.MakeClosure)
					if !ok || mc.Fn != ssa.Value(f) {
						continue
					}
					var follow func(v ssa.Value, depth int)
					follow = func(v ssa.Value, depth int) {
						if depth > 4 || v.Referrers() == nil {
							return
						}
						for _, r := range *v.Referrers() {
							switch x := r.(type) {
							case *ssa.Return:
								esc = "is returned at " + c.pos(x.Pos())
							case *ssa.Store:
								if x.Val == v {
									if _, isAlloc := addrRoot(x.Addr).(*ssa.Alloc); !isAlloc {
										esc = "is stored into " + org(x.Addr)
									}
								}
							case *ssa.MapUpdate:
								if x.Value == v {
									esc = "is stored into a map"
								}
							case *ssa.Go:
								esc = "is started as a goroutine"
							case *ssa.MakeInterface:
								follow(x, depth+1)
							case *ssa.ChangeType:
								follow(x, depth+1)
							case *ssa.Phi:
								follow(x, depth+1)
							}
						}
					}
					follow(mc, 0)
				}
			}
			if esc == "" {
				c.ok(R, fname(f), "writes captured variables", f.Pos(), "the function literal does not outlive its creating call (it is only called, deferred or handed to a callee)")
				continue
			}
			c.bad(R, fname(f), "writes captured variables", writes[0].Pos(), "the function literal "+esc+" and stores into a variable it captured: every call of it, from any goroutine, writes the same memory")
		}
	}
	c.ok(R, "in_toto, internal/spiffe", "function literals with captured variables", 0, fmt.Sprintf("%d examined", n))
}

// R-C14-8 -------------------------------------------------------------------------------------------------------------

func ruleC14_8(c *Ctx) {
	const R = "R-C14-8"
	f := c.lookup("in_toto.RunCommand")
	if f == nil {
		c.undecided(R, "in_toto.RunCommand", "anchor", 0, "not found")
		return
	}
	var fs []*ssa.Function
	for g := range reachable(c.CG, f) {
		pk := g.Pkg
		if pk == nil && g.Parent() != nil {
			pk = g.Parent().Pkg
		}
		if g.Blocks != nil && pk != nil && strings.HasPrefix(pk.Pkg.Path(), modPath) {
			fs = append(fs, g)
		}
	}
	sort.Slice(fs, func(i, j int) bool { return fname(fs[i]) < fname(fs[j]) })
	n := 0
	for _, g := range fs {
		for _, call := range allCalls(g) {
			cn := genericBase(calleeName(call))
			n++
			reenc := strings.HasPrefix(cn, "encoding/") || strings.HasPrefix(cn, "(*encoding/") || strings.HasPrefix(cn, "(encoding/") ||
				cn == "strings.ToValidUTF8" || cn == "bytes.ToValidUTF8" || cn == "strconv.Quote" || cn == "strconv.QuoteToASCII" || cn == "strings.ToUpper" || cn == "strings.ToLower" ||
				cn == "strings.TrimSpace" || cn == "bytes.TrimSpace" || cn == "strings.ReplaceAll" || cn == "bytes.ReplaceAll"
			if reenc {
				c.bad(R, fname(g), "call of "+cn, call.Pos(), "the command runner passes data through "+cn+": stdout / stderr handed back are no longer the bytes the command wrote (invalid UTF-8 becomes U+FFFD in a JSON round trip, white space / case is changed by the string helpers)")
			}
		}
	}
	c.ok(R, fname(f), "no re-encoding below the command runner", f.Pos(), fmt.Sprintf("%d module functions, %d call sites examined", len(fs), n))
}
