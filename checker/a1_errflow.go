package main

import (
	"fmt"
	"go/token"
	"go/types"
	"strings"

	"golang.org/x/tools/go/ssa"
)

// A1 — error propagation: every error produced by a call in an in-scope function must be returned,
// checked with a failing continuation, accumulated, or delegated. See DESIGN §3 A1.

type a1Exception struct {
	fn, callee, reason string
}

// accepted deviations, each confirmed by reading the code (function, callee, reason)
var a1Exceptions = []a1Exception{
	{"in_toto.LoadLinksForLayout", "in_toto.LoadMetadata", "documented: unloadable link files are ignored (continue); C02 relies on it (R-C02-5 checks the continue)"},
	{"in_toto.VerifyLinkSignatureThesholds", "iface:in_toto.Metadata.VerifySignature", "failed verification under one authorised key falls through to the next key / certificate route; the link is not counted unless a later check succeeds (R-C02-1)"},
	{"in_toto.parseKey", "crypto/x509.ParsePKCS8PrivateKey", "try-alternatives chain; final failure returns the sentinel (R-C19-4)"},
	{"in_toto.parseKey", "crypto/x509.ParsePKCS1PrivateKey", "try-alternatives chain (R-C19-4)"},
	{"in_toto.parseKey", "crypto/x509.ParsePKIXPublicKey", "try-alternatives chain (R-C19-4)"},
	{"in_toto.parseKey", "crypto/x509.ParseCertificate", "try-alternatives chain (R-C19-4)"},
	{"in_toto.parseKey", "crypto/x509.ParseECPrivateKey", "try-alternatives chain (R-C19-4)"},
	{"(in_toto.Set).Filter", "in_toto.match", "documented: pattern error => non-match (R-C17-1 checks the element is then not added)"},
	{"in_toto.verifyMatchRule", "in_toto.match", "documented: pattern error => non-match (R-C03-6 checks the element is then not consumed)"},
	{"in_toto.RunInspections", "iface:in_toto.Metadata.Dump", "writing the inspection link to cwd is best effort; the verdict does not depend on it"},
	{"in_toto.InTotoVerifyWithDirectory", "(*os.File).Readdirnames", "run-directory emptiness probe; only io.EOF is meaningful; on no property's mechanism"},
	{"in_toto.validateHexString", "regexp.MatchString", "constant pattern; error impossible"},
	{"in_toto.hashToHex", "iface:hash.Hash.Write", "hash.Hash.Write never returns an error by contract"},
	{"in_toto.VerifyCertificateTrust", "(*crypto/x509.Certificate).Verify", "error and empty chain list are tested together (len(chains)==0 || err != nil) and replaced by a fresh error (R-C07-3 checks the shape)"},
}

func a1Excepted(fn, callee string) (string, bool) {
	for _, e := range a1Exceptions {
		if e.fn == fn && e.callee == callee {
			return e.reason, true
		}
	}
	return "", false
}

func a1Ignored(callee string, c ssa.CallInstruction, fn string) (string, bool) {
	if strings.HasPrefix(callee, "fmt.Print") || strings.HasPrefix(callee, "fmt.Fprint") {
		return "printing", true
	}
	if _, isDefer := c.(*ssa.Defer); isDefer && strings.HasSuffix(callee, ".Close") {
		return "deferred Close idiom", true
	}
	if strings.Contains(callee, "MarkFlagRequired") || strings.Contains(callee, "MarkPersistentFlagRequired") {
		return "cobra flag registration in init", true
	}
	return "", false
}

var a1Wrappers = map[string]bool{
	"fmt.Errorf": true, "errors.Join": true, "fmt.Sprintf": true, "iface:error.Error": true, "builtin:append": true,
	"errors.Unwrap": true,
}

type a1Result struct {
	call   ssa.CallInstruction
	callee string
	status string // ok | excepted | ignored | violated
	fate   string
	detail string
}

func (p *Prog) a1Func(f *ssa.Function) []a1Result {
	var out []a1Result
	fn := fname(f)
	for _, c := range allCalls(f) {
		if !hasErrResult(c) {
			continue
		}
		callee := calleeName(c)
		if r, ok := a1Ignored(callee, c, fn); ok {
			out = append(out, a1Result{c, callee, "ignored", r, ""})
			continue
		}
		fate, ok := p.a1Fate(c)
		if ok {
			out = append(out, a1Result{c, callee, "ok", fate, ""})
			continue
		}
		if r, ex := a1Excepted(fn, callee); ex {
			out = append(out, a1Result{c, callee, "excepted", fate, r})
			continue
		}
		// an unexported helper that serves only a function with a reviewed deviation for the same callee inherits it
		inherited := false
		for _, e := range a1Exceptions {
			if e.callee == callee && e.fn != fn && p.isOrServesOnly(f, e.fn) {
				out = append(out, a1Result{c, callee, "excepted", fate, e.reason + " (in a helper that serves only " + e.fn + ")"})
				inherited = true
				break
			}
		}
		if inherited {
			continue
		}
		out = append(out, a1Result{c, callee, "violated", fate, ""})
	}
	return out
}

// a1Fate decides the fate of the error produced by c.
func (p *Prog) a1Fate(c ssa.CallInstruction) (string, bool) {
	if _, isGo := c.(*ssa.Go); isGo {
		return "go statement", true
	}
	e := errResult(c)
	if e == nil {
		return "error result discarded (never bound to a value)", false
	}
	through := func(x ssa.CallInstruction) bool { return a1Wrappers[calleeName(x)] }
	var fates []string
	returned := flowsTo(e, func(u ssa.Instruction, via ssa.Value) bool {
		r, ok := u.(*ssa.Return)
		if !ok {
			return false
		}
		for _, x := range r.Results {
			if x == via {
				return true
			}
		}
		return false
	}, through)
	if returned {
		fates = append(fates, "returned")
	}
	delegated := flowsTo(e, func(u ssa.Instruction, via ssa.Value) bool {
		if pn, ok := u.(*ssa.Panic); ok && pn.X == via {
			return true
		}
		x, ok := u.(ssa.CallInstruction)
		if !ok {
			return false
		}
		n := calleeName(x)
		if a1Wrappers[n] || strings.HasPrefix(n, "fmt.") || strings.HasPrefix(n, "builtin:") || strings.HasPrefix(n, "errors.") {
			return false
		}
		sig := x.Common().Signature()
		for i, a := range x.Common().Args {
			if a != via {
				continue
			}
			pi := i
			if sig.Recv() != nil && !x.Common().IsInvoke() {
				pi = i - 1
			}
			if pi >= 0 && pi < sig.Params().Len() && isErrorType(sig.Params().At(pi).Type()) {
				return true
			}
		}
		return false
	}, through)
	if delegated {
		fates = append(fates, "delegated")
	}
	accumulated := flowsTo(e, func(u ssa.Instruction, via ssa.Value) bool {
		s, ok := u.(*ssa.Store)
		if !ok || s.Val != via {
			return false
		}
		_, isAlloc := addrRoot(s.Addr).(*ssa.Alloc)
		return !isAlloc
	}, through)
	if accumulated {
		fates = append(fates, "accumulated")
	}
	checked := false
	vals := []ssa.Value{e}
	vals = append(vals, forwardAliases(e)...)
	anyBranch := false
	for _, v := range vals {
		for _, br := range errBranches(v) {
			anyBranch = true
			if p.failing(br.NonNil) {
				checked = true
			}
		}
	}
	if checked {
		fates = append(fates, "checked-and-failing")
	}
	if len(fates) > 0 {
		return strings.Join(fates, "+"), true
	}
	if anyBranch {
		return "compared with nil but the non-nil side does not fail, and the error is neither returned, accumulated nor delegated", false
	}
	if refs := e.Referrers(); refs == nil || len(*refs) == 0 {
		return "error value unused", false
	}
	return "error value never tested against nil, returned, accumulated or delegated", false
}

// a1Rule builds a rule that applies A1 to the listed functions (short names). A name ending in ".*"
// selects every source function of that package.
func a1Rule(min int, names ...string) Rule {
	return Rule{ID: "A1", Doc: "no error produced in these functions is dropped: returned | checked with failing continuation | accumulated | delegated (DESIGN §3 A1)", Min: min,
		Run: func(c *Ctx) {
			for _, f := range c.resolveFuncs("A1", names...) {
				for _, l := range c.a1LoopCarried(f) {
					if l.lost {
						c.bad("A1", fname(f), l.what, l.pos, "an error kept in a variable across loop iterations is overwritten by a later iteration ("+l.detail+"): only the outcome of the last element visited survives")
					} else {
						c.ok("A1", fname(f), l.what, l.pos, "error carried around the loop is preserved: "+l.detail)
					}
				}
				for _, d := range c.a1DeferOverwrite(f) {
					c.bad("A1", fname(f), d.what, d.pos, d.detail)
				}
				for _, d := range c.a1UseBeforeCheck(f) {
					c.bad("A1", fname(f), d.what, d.pos, d.detail)
				}
				for _, r := range c.a1Func(f) {
					construct := "error of " + r.callee
					switch r.status {
					case "ok":
						c.ok("A1", fname(f), construct, r.call.Pos(), "fate: "+r.fate)
					case "ignored":
						c.trivial("A1", fname(f), construct, r.call.Pos(), "ignored: "+r.fate)
					case "excepted":
						c.trivial("A1", fname(f), construct, r.call.Pos(), "reviewed exception: "+r.detail)
					default:
						c.bad("A1", fname(f), construct, r.call.Pos(), fmt.Sprintf("error dropped: %s", r.fate))
					}
				}
			}
		}}
}

// resolveFuncs resolves short function names; unresolved anchors are reported as undecided obligations.
func (c *Ctx) resolveFuncs(rule string, names ...string) []*ssa.Function {
	var out []*ssa.Function
	seen := map[*ssa.Function]bool{}
	addf := func(f *ssa.Function) {
		if f != nil && !seen[f] {
			seen[f] = true
			out = append(out, f)
			for _, a := range f.AnonFuncs {
				if !seen[a] {
					seen[a] = true
					out = append(out, a)
				}
			}
		}
	}
	for _, n := range names {
		if strings.HasSuffix(n, ".*") {
			for _, f := range c.srcFuncs(strings.TrimSuffix(n, ".*")) {
				addf(f)
			}
			continue
		}
		if n == "@expiry" {
			// the expiry checkers, discovered by what they do (rules_entry.go: expiryChecker), and their wrappers
			for _, f := range c.srcFuncs("in_toto") {
				if c.expiryCheckerLike(f, 0) >= 0 {
					addf(f)
				}
			}
			continue
		}
		f := c.lookup(n)
		if f == nil {
			c.undecided(rule, n, "anchor", 0, "function "+n+" not found in the program (renamed or removed): the rule cannot be evaluated")
			continue
		}
		addf(f)
	}
	// unexported helpers of the analysed packages called (transitively) from the named functions are in scope too:
	// an error dropped in a helper that was split off a listed function is dropped all the same
	for i := 0; i < len(out); i++ {
		for _, call := range allCalls(out[i]) {
			g := call.Common().StaticCallee()
			if g == nil || g.Blocks == nil || g.Pkg == nil || seen[g] {
				continue
			}
			if g.Object() != nil && g.Object().Exported() {
				continue
			}
			switch shortName(g.Pkg.Pkg.Path()) {
			case "in_toto", "cmd", "internal/spiffe":
				addf(g)
			}
		}
	}
	return out
}

// lookup finds a function by its short name as printed by fname (e.g. "in_toto.InTotoVerify",
// "(*in_toto.Metablock).Sign", "(in_toto.Step).CheckCertConstraints").
func (p *Prog) lookup(short string) *ssa.Function {
	if p.byName == nil {
		p.byName = map[string]*ssa.Function{}
		for f := range p.AllFuncs {
			if f.Synthetic != "" && !strings.Contains(f.Synthetic, "package initializer") {
				continue
			}
			if f.Origin() != nil {
				continue
			}
			p.byName[fname(f)] = f
		}
	}
	return p.byName[short]
}

// ---------------------------------------------------------------------------
// errors carried around a loop in a variable

type a1Loop struct {
	what, detail string
	pos          token.Pos
	lost         bool
}

// a1LoopCarried inspects every error-typed phi at a loop header whose value reaches a return: on each back edge the
// incoming value must preserve an earlier non-nil error. Leaves of the incoming value (through inner phis) are
// classified on their edge as the header value itself (preserved), known non-nil (a newer error), known nil or
// unknown. The error is lost when a non-nil value can be carried around and some leaf that is not the header value
// may be nil.
func (p *Prog) a1LoopCarried(f *ssa.Function) []a1Loop {
	var out []a1Loop
	n := 0
	for _, b := range f.Blocks {
		for _, in := range b.Instrs {
			h, ok := in.(*ssa.Phi)
			if !ok {
				break
			}
			if !isErrorType(h.Type()) {
				continue
			}
			isHeader := false
			for _, pb := range b.Preds {
				if b.Dominates(pb) {
					isHeader = true
				}
			}
			if !isHeader {
				continue
			}
			reachesReturn := flowsTo(h, func(u ssa.Instruction, via ssa.Value) bool {
				r, ok := u.(*ssa.Return)
				if !ok {
					return false
				}
				for _, x := range r.Results {
					if x == via {
						return true
					}
				}
				return false
			}, func(x ssa.CallInstruction) bool { return a1Wrappers[calleeName(x)] })
			if !reachesReturn {
				continue
			}
			n++
			mayNonNil, mayNil := "", ""
			var walk func(v ssa.Value, pb, succ *ssa.BasicBlock, depth int)
			seen := map[ssa.Value]bool{}
			walk = func(v ssa.Value, pb, succ *ssa.BasicBlock, depth int) {
				if v == ssa.Value(h) {
					return
				}
				if ph, isPhi := v.(*ssa.Phi); isPhi && depth < 8 && !seen[ph] {
					seen[ph] = true
					for i, e := range ph.Edges {
						walk(e, ph.Block().Preds[i], ph.Block(), depth+1)
					}
					return
				}
				knownNil := isNilConst(v) || p.nilAt(v, pb)
				knownNonNil := p.nonNilAt(v, pb)
				for _, a := range forwardAliases(v) {
					knownNil = knownNil || p.nilAt(a, pb)
					knownNonNil = knownNonNil || p.nonNilAt(a, pb)
				}
				if !knownNil && !knownNonNil && succ != nil {
					if refs := v.Referrers(); refs != nil {
						for _, r := range *refs {
							if bo, isBo := r.(*ssa.BinOp); isBo && (bo.Op == token.EQL || bo.Op == token.NEQ) && (isNilConst(bo.X) || isNilConst(bo.Y)) {
								if edgeFact(pb, succ, bo, bo.Op == token.EQL) {
									knownNil = true
								}
								if edgeFact(pb, succ, bo, bo.Op == token.NEQ) {
									knownNonNil = true
								}
							}
						}
					}
				}
				if pc, _ := producer(v, nil); pc != nil {
					if cn := calleeName(pc); cn == "fmt.Errorf" || cn == "errors.New" {
						knownNonNil = true
					}
				}
				if !knownNil {
					mayNonNil = short(org(v))
				}
				if !knownNonNil {
					mayNil = short(org(v))
				}
			}
			for i, e := range h.Edges {
				pb := b.Preds[i]
				if !b.Dominates(pb) {
					continue
				}
				walk(e, pb, b, 0)
			}
			l := a1Loop{what: fmt.Sprintf("error variable carried around a loop #%d", n), pos: h.Pos()}
			if l.pos == token.NoPos {
				for _, in2 := range b.Instrs {
					if in2.Pos() != token.NoPos {
						l.pos = in2.Pos()
						break
					}
				}
			}
			if mayNonNil != "" && mayNil != "" {
				l.lost = true
				l.detail = "a later iteration stores " + mayNil + ", which may be nil, over an earlier " + mayNonNil
			} else if mayNonNil == "" {
				l.detail = "no non-nil error is ever carried into the next iteration (errors leave the loop at once)"
			} else {
				l.detail = "later iterations keep the earlier value or replace it by another non-nil error"
			}
			out = append(out, l)
		}
	}
	return out
}

// ---------------------------------------------------------------------------
// A1.d — a deferred function literal must not overwrite the error result
//
// `defer func() { err = f.Close() }()` replaces whatever error the body decided on by the (usually nil) result of the
// clean-up. Accepted: a store guarded by `err == nil` (the clean-up error is reported only if nothing failed before),
// or a stored value that is known non-nil there.

type a1Finding struct {
	what, detail string
	pos          token.Pos
}

func (p *Prog) a1DeferOverwrite(f *ssa.Function) []a1Finding {
	var out []a1Finding
	for _, b := range f.Blocks {
		for _, in := range b.Instrs {
			df, ok := in.(*ssa.Defer)
			if !ok {
				continue
			}
			mc, ok := df.Call.Value.(*ssa.MakeClosure)
			if !ok {
				continue
			}
			g, ok := mc.Fn.(*ssa.Function)
			if !ok || g.Blocks == nil {
				continue
			}
			for bi, bind := range mc.Bindings {
				al, ok := bind.(*ssa.Alloc)
				if !ok || bi >= len(g.FreeVars) {
					continue
				}
				pt, ok := al.Type().Underlying().(*types.Pointer)
				if !ok || !isErrorType(pt.Elem()) {
					continue
				}
				// the variable must be what f returns as its error
				returned := false
				for _, r := range returnsOf(f) {
					for _, res := range r.Results {
						if u, ok := res.(*ssa.UnOp); ok && u.X == ssa.Value(al) {
							returned = true
						}
					}
				}
				if !returned {
					continue
				}
				fv := g.FreeVars[bi]
				for _, gb := range g.Blocks {
					for _, gin := range gb.Instrs {
						st, ok := gin.(*ssa.Store)
						if !ok || st.Addr != ssa.Value(fv) {
							continue
						}
						if !p.mayBeNilErr(st.Val, gb, 0) {
							continue
						}
						guarded := false
						for _, b2 := range g.Blocks {
							for _, in2 := range b2.Instrs {
								bo, ok := in2.(*ssa.BinOp)
								if !ok || (bo.Op != token.EQL && bo.Op != token.NEQ) {
									continue
								}
								isLoad := func(v ssa.Value) bool { u, ok := v.(*ssa.UnOp); return ok && u.X == ssa.Value(fv) }
								if (isLoad(bo.X) && isNilConst(bo.Y)) || (isLoad(bo.Y) && isNilConst(bo.X)) {
									if p.condAt(bo, bo.Op == token.EQL, gb) {
										guarded = true
									}
								}
							}
						}
						if !guarded {
							out = append(out, a1Finding{"deferred store into the error result", "a deferred function assigns " + short(org(st.Val)) + " to the error result without testing that no error was decided before: the error of the function body is replaced by the (possibly nil) outcome of the clean-up", st.Pos()})
						}
					}
				}
			}
		}
	}
	return out
}

// ---------------------------------------------------------------------------
// A1.u — a result is used while the error of the same call has not been looked at
//
// For `v, err := g(...)`: every use of v lies where err is known nil or known non-nil (some test of err dominates it),
// or hands v on together with err (return v, err). A use on a path that never examined err works with a partial or
// zero result when g failed.

func (p *Prog) a1UseBeforeCheck(f *ssa.Function) []a1Finding {
	var out []a1Finding
	for _, c := range allCalls(f) {
		call, ok := c.(*ssa.Call)
		if !ok || !hasErrResult(c) {
			continue
		}
		tup, ok := call.Type().(*types.Tuple)
		if !ok || tup.Len() < 2 {
			continue
		}
		if _, ign := a1Ignored(calleeName(c), c, fname(f)); ign {
			continue
		}
		e := errResult(c)
		if e == nil {
			continue
		}
		examined := func(blk *ssa.BasicBlock) bool {
			if p.nilAt(e, blk) || p.nonNilAt(e, blk) {
				return true
			}
			for _, a := range forwardAliases(e) {
				if p.nilAt(a, blk) || p.nonNilAt(a, blk) {
					return true
				}
			}
			// the error spilled into a variable (named result, variable captured by a closure): tests of its loads
			if e.Referrers() != nil {
				for _, r := range *e.Referrers() {
					st, ok := r.(*ssa.Store)
					if !ok || st.Val != e {
						continue
					}
					al, ok := st.Addr.(*ssa.Alloc)
					if !ok {
						continue
					}
					for _, rr := range *al.Referrers() {
						if u, ok := rr.(*ssa.UnOp); ok && u.X == ssa.Value(al) && reachingStore(al, u) == st {
							if p.nilAt(u, blk) || p.nonNilAt(u, blk) {
								return true
							}
						}
					}
				}
			}
			return false
		}
		for _, r := range *call.Referrers() {
			ex, ok := r.(*ssa.Extract)
			if !ok || ex == e || isErrorType(ex.Type()) {
				continue
			}
			// only results that can be "partial": references and aggregates, not counters / flags
			if !hasRefs(ex.Type()) {
				continue
			}
			// uses, looking through conversions
			var uses []ssa.Instruction
			var collect func(v ssa.Value, depth int)
			collect = func(v ssa.Value, depth int) {
				if v.Referrers() == nil || depth > 4 {
					return
				}
				for _, u := range *v.Referrers() {
					switch x := u.(type) {
					case *ssa.MakeInterface:
						collect(x, depth+1)
					case *ssa.ChangeInterface:
						collect(x, depth+1)
					case *ssa.ChangeType:
						collect(x, depth+1)
					case *ssa.Convert:
						collect(x, depth+1)
					default:
						uses = append(uses, u)
					}
				}
			}
			collect(ex, 0)
			for _, u := range uses {
				switch x := u.(type) {
				case *ssa.Return:
					withErr := false
					for _, res := range x.Results {
						if res == e || derives(res, func(v ssa.Value) bool { return v == e }, false) {
							withErr = true
						}
					}
					if withErr {
						continue
					}
				case *ssa.Phi, *ssa.DebugRef, *ssa.Store:
					// merges and moves of the value: its later uses are not followed
					continue
				case *ssa.Call:
					if n := calleeName(x); n == "builtin:len" || n == "builtin:cap" {
						continue
					}
				}
				if examined(u.Block()) {
					continue
				}
				out = append(out, a1Finding{"result of " + calleeName(c) + " used before its error is examined", "result " + fmt.Sprint(ex.Index) + " of the call is used at " + p.pos(u.Pos()) + " on a path where the call's error has not been tested: after a failure the value is empty or partial, and it is processed as if it were complete", u.Pos()})
				break
			}
		}
	}
	return out
}
