package main

import (
	"fmt"
	"go/types"
	"sort"
	"strings"

	"golang.org/x/tools/go/ssa"
)

// Rules added for the round-7 seeded changes ("two places that each look fine alone"). The file sorts after
// rules_zz_a2.go so that every property is registered when its init functions run.

func init() {
	share := func(prop, id, doc string, min int, run func(*Ctx), expl string) {
		if p := registry[prop]; p != nil {
			p.Rules = append(p.Rules, Rule{ID: id, Doc: doc, Min: min, Run: run})
			if expl != "" {
				p.Explanation += " " + expl
			}
		}
	}
	// C04's dump / load / verify round trip of the legacy wrapper rests on the loader handing out what it decoded.
	share("C04", "R-C11-6", "the payload loader returns the decoded object unmodified (shared with C11)", 2, ruleC11_6, "(R-C11-6, shared with C11) loadPayload returns the Link / Layout exactly as the strict decoder filled it, so the legacy wrapper re-canonicalises what was signed.")
	// C06: the date the expiry check reads is the signed one.
	share("C06", "R-C11-6", "the payload loader returns the decoded layout unmodified (shared with C11)", 2, ruleC11_6, "(R-C11-6, shared with C11) the loader does not touch the decoded layout, so the date the expiry check reads is the signed one.")
	share("C06", "R-C06-5", "nothing on the load / verification paths writes Layout.Expires", 1, ruleC06_5, "(R-C06-5) no function reachable from the loaders or the verification entry points stores into Layout.Expires: an empty, malformed or past date stays what the signer wrote.")
	// C02 / C08: a key authorizes through its own material only.
	share("C02", "R-C04-6", "the verifier is built afresh from the supplied key's own material (shared with C04)", 3, ruleC04_6, "(R-C04-6, shared with C04) the verifier for a key is built from that key's own material and consults no package-level state, so a key id is never more than a label.")
	share("C08", "R-C04-6", "the verifier is built afresh from the supplied key's own material (shared with C04)", 3, ruleC04_6, "(R-C04-6, shared with C04) the verifier for a key is built from that key's own material and consults no package-level state: a key id used as a label in one sublayout cannot select another sublayout's key.")
	share("C02", "R-C02-6", "a key's certificate string is the PEM of the block its public key was parsed from", 1, ruleC02_6, "(R-C02-6) the only store into Key.KeyVal.Certificate on the threshold check's paths stores pem.EncodeToMemory of the parsed block: the certificate checked against constraints and roots is the one whose public key verified the signature.")
	// C15: the block whose key type was validated is the block securesystemslib will parse (the first one).
	share("C15", "R-C19-4", "the validated PEM block is the first block, the one the signer/verifier constructors parse (shared with C19)", 3, ruleC19_4, "(R-C19-4, shared with C19) decodeAndParse parses the first PEM block of its input, as the securesystemslib constructors do, so the key type that was validated is the type their unchecked assertions meet.")
	share("C19", "R-C19-8", "a key is modified only by its pointer-receiver methods", 5, ruleC19_8, "(R-C19-8) no function writes through a Key it was handed (by value, in a slice or a map); only the pointer-receiver loader methods of Key write its fields, so the preimage of a key id is not changed after the id was computed.")
	share("C05", "R-C05-6", "the link loader refuses a file only for decoding reasons", 2, ruleC05_6, "(R-C05-6) no function that can refuse (returns an error) is shared between the metadata loaders and the validators: a signed link is never dropped at load time for a semantic reason, so it reaches the agreement check.")
	share("C02", "R-C05-6", "the link loader refuses a file only for decoding reasons (shared with C05)", 2, ruleC05_6, "(R-C05-6, shared with C05) an honest link is never dropped at load time for a semantic reason.")
	share("C20", "R-C20-8", "loadKeyFromDisk succeeds only after a key or certificate was loaded", 2, ruleC20_8, "(R-C20-8) on every feasible path through loadKeyFromDisk to a success return (path-sensitive over emptiness of the two path options) a LoadKeyDefaults call succeeded: run / record never sign with the zero key.")
}

// R-C06-5 -------------------------------------------------------------------------------------------------------------

func ruleC06_5(c *Ctx) {
	const R = "R-C06-5"
	var roots []*ssa.Function
	for _, e := range c.entryPoints() {
		roots = append(roots, e.f)
	}
	for _, n := range []string{"in_toto.LoadMetadata", "(*in_toto.Metablock).Load", "in_toto.loadEnvelope", "in_toto.loadPayload"} {
		if f := c.lookup(n); f != nil {
			roots = append(roots, f)
		}
	}
	if len(roots) < 4 {
		c.undecided(R, "in_toto", "anchors", 0, "entry points / loaders not found")
		return
	}
	reach := reachable(c.CG, roots...)
	n, bad := 0, 0
	for f := range reach {
		if f.Blocks == nil || f.Pkg == nil || !strings.HasPrefix(f.Pkg.Pkg.Path(), modPath) {
			continue
		}
		n++
		for _, b := range f.Blocks {
			for _, in := range b.Instrs {
				st, ok := in.(*ssa.Store)
				if !ok {
					continue
				}
				fa, ok := st.Addr.(*ssa.FieldAddr)
				if !ok {
					continue
				}
				pt, ok := fa.X.Type().Underlying().(*types.Pointer)
				if !ok || typeStr(pt.Elem()) != "in_toto.Layout" || fieldName(fa.X.Type(), fa.Field) != "Expires" {
					continue
				}
				bad++
				c.bad(R, fname(f), "store into Layout.Expires", st.Pos(), "the expiry date of a layout is written on a load / verification path: the date that is checked is not the one that was signed")
			}
		}
	}
	c.ok(R, "load and verification paths", "Layout.Expires is only read", 0, fmt.Sprintf("%d reachable module functions scanned, %d stores", n, bad))
}

// R-C02-6 -------------------------------------------------------------------------------------------------------------

func ruleC02_6(c *Ctx) {
	const R = "R-C02-6"
	root := c.lookup("in_toto.VerifyLinkSignatureThesholds")
	if root == nil {
		c.undecided(R, "in_toto.VerifyLinkSignatureThesholds", "anchor", 0, "not found")
		return
	}
	reach := reachable(c.CG, root)
	var fs []*ssa.Function
	for f := range reach {
		if f.Blocks != nil && f.Pkg != nil && strings.HasPrefix(f.Pkg.Pkg.Path(), modPath) {
			fs = append(fs, f)
		}
	}
	sort.Slice(fs, func(i, j int) bool { return fname(fs[i]) < fname(fs[j]) })
	for _, f := range fs {
		for _, b := range f.Blocks {
			for _, in := range b.Instrs {
				st, ok := in.(*ssa.Store)
				if !ok {
					continue
				}
				fa, ok := st.Addr.(*ssa.FieldAddr)
				if !ok || fieldName(fa.X.Type(), fa.Field) != "Certificate" {
					continue
				}
				pt, ok := fa.X.Type().Underlying().(*types.Pointer)
				if !ok || typeStr(pt.Elem()) != "in_toto.KeyVal" {
					continue
				}
				// zero-value stores of a composite literal / reset
				if k, ok := st.Val.(*ssa.Const); ok && k.Value != nil && k.Value.ExactString() == `""` {
					continue
				}
				sv := st.Val
				if cv, ok := sv.(*ssa.Convert); ok {
					sv = cv.X
				}
				pc, _ := producer(sv, st)
				okv := pc != nil && calleeName(pc) == "encoding/pem.EncodeToMemory"
				c.check(okv, R, fname(f), "store into KeyVal.Certificate", st.Pos(), "pem.EncodeToMemory(parsed block)",
					"a key's certificate string is set to "+org(st.Val)+": the certificate that CheckCertConstraints re-parses is not the block the verifying public key came from")
			}
		}
	}
}

// R-C19-8 -------------------------------------------------------------------------------------------------------------

func isKeyish(t types.Type) bool {
	switch u := t.(type) {
	case *types.Pointer:
		return typeStr(u.Elem()) == "in_toto.Key"
	case *types.Slice:
		return isKeyish(u.Elem())
	case *types.Map:
		return isKeyish(u.Elem())
	}
	return typeStr(t) == "in_toto.Key"
}

func ruleC19_8(c *Ctx) {
	const R = "R-C19-8"
	for _, f := range c.srcFuncs("in_toto") {
		if f.Parent() != nil {
			continue
		}
		ctx := make([]pc, len(f.Params))
		any := false
		for i, prm := range f.Params {
			if i == 0 && f.Signature.Recv() != nil {
				// the pointer-receiver methods of Key are its mutators by contract
				continue
			}
			if isKeyish(prm.Type()) {
				ctx[i] = pc{isRefType(prm.Type()), true}
				any = true
			}
		}
		if !any {
			continue
		}
		a := newA4(c.Prog)
		s := a.analyse(f, ctx, nil)
		ws, _ := a4FilterReviewed(s.writes)
		if len(ws) == 0 {
			c.ok(R, fname(f), "the key it is handed stays as loaded", f.Pos(), fmt.Sprintf("%d function contexts analysed, no write through the key", len(a.memo)))
			continue
		}
		var l []string
		for _, w := range ws {
			l = append(l, fmt.Sprintf("%s at %s (%s)", w.path, c.pos(w.instr.Pos()), strings.Join(w.chain, " -> ")))
		}
		c.bad(R, fname(f), "the key it is handed stays as loaded", ws[0].instr.Pos(), "writes through a Key it was handed: "+strings.Join(l, "; ")+" — the fields a key id is computed from change after the id was computed")
	}
}

// R-C05-6 -------------------------------------------------------------------------------------------------------------

func ruleC05_6(c *Ctx) {
	const R = "R-C05-6"
	var loaders, validators []*ssa.Function
	for _, n := range []string{"in_toto.LoadMetadata", "(*in_toto.Metablock).Load", "in_toto.loadEnvelope", "in_toto.loadPayload"} {
		if f := c.lookup(n); f != nil {
			loaders = append(loaders, f)
		}
	}
	if f := c.lookup("in_toto.ValidateMetablock"); f != nil {
		validators = append(validators, f)
	}
	if len(loaders) < 3 || len(validators) == 0 {
		c.undecided(R, "in_toto", "anchors", 0, "loaders / ValidateMetablock not found")
		return
	}
	inMod := func(f *ssa.Function) bool {
		return f.Blocks != nil && f.Pkg != nil && strings.HasPrefix(f.Pkg.Pkg.Path(), modPath)
	}
	lr := reachable(c.CG, loaders...)
	vr := reachable(c.CG, validators...)
	nl, nv := 0, 0
	for f := range vr {
		if inMod(f) {
			nv++
		}
	}
	var shared []*ssa.Function
	for f := range lr {
		if !inMod(f) {
			continue
		}
		nl++
		if vr[f] && errIndex(f) >= 0 {
			shared = append(shared, f)
		}
	}
	sort.Slice(shared, func(i, j int) bool { return fname(shared[i]) < fname(shared[j]) })
	for _, f := range shared {
		c.bad(R, fname(f), "refusing function shared by loader and validator", f.Pos(), "the metadata loader can refuse a file through a validation function: LoadLinksForLayout ignores files that do not load, so a signed link from an authorized functionary silently drops out before the agreement check")
	}
	c.ok(R, "loaders vs validators", "no refusing function in common", 0, fmt.Sprintf("%d module functions below the loaders, %d below ValidateMetablock, %d shared and error-returning", nl, nv, len(shared)))
	// LoadLinksForLayout is the caller that ignores load failures; it must load through LoadMetadata
	if f := c.lookup("in_toto.LoadLinksForLayout"); f != nil {
		c.check(len(callsIn(f, "in_toto.LoadMetadata")) > 0 || reachable(c.CG, f)[loaders[0]], R, fname(f), "links are loaded by LoadMetadata", f.Pos(), "LoadMetadata is reachable", "LoadLinksForLayout does not load through LoadMetadata: the loader closure examined by this rule is not the one in use")
	}
}

// R-C20-8 -------------------------------------------------------------------------------------------------------------

func ruleC20_8(c *Ctx) {
	const R = "R-C20-8"
	f := c.lookup("cmd.loadKeyFromDisk")
	if f == nil {
		c.undecided(R, "cmd.loadKeyFromDisk", "anchor", 0, "not found")
		return
	}
	keyFlag, certFlag := c.fv("key", "runCmd", "recordCmd", "signCmd"), c.fv("cert", "runCmd", "recordCmd")
	var sites []c20LoadSite
	for _, s := range c.c20LoadSites(f) {
		if (s.recv == "global(cmd.key)" && s.path == keyFlag) || (s.recv == "global(cmd.cert)" && s.path == certFlag) {
			sites = append(sites, s)
		}
	}
	c.check(len(sites) >= 2, R, fname(f), "load sites of --key and --cert", f.Pos(), fmt.Sprintf("%d load sites", len(sites)), "the loads of --key and --cert were not both found")
	// the option variables are not assigned inside the function (emptiness facts are keyed by their access path)
	for _, b := range f.Blocks {
		for _, in := range b.Instrs {
			if st, ok := in.(*ssa.Store); ok {
				if o := org(st.Addr); o == keyFlag || o == certFlag {
					c.undecided(R, fname(f), "path option assigned", st.Pos(), "the option variable is assigned inside the function: emptiness facts cannot be keyed by its name")
					return
				}
			}
		}
	}
	var badTrace string
	var badPos = f.Pos()
	nSucc := 0
	res := explorePaths(f, 20000, func(ret *ssa.Return, env *pathEnv) {
		ei := errIndex(f)
		if ei < 0 || ei >= len(ret.Results) {
			return
		}
		rv := env.val(ret.Results[ei])
		var retCall ssa.CallInstruction
		if !isNilConst(rv) {
			pcall, _ := producer(rv, ret)
			if pcall == nil {
				return // a freshly built or unknown error value: not a success return
			}
			if okv, known := env.callOK[pcall]; known && !okv {
				return
			}
			if n := calleeName(pcall); n == "fmt.Errorf" || n == "errors.New" {
				return
			}
			retCall = pcall // return g(...): a success of this path is a success of g
		}
		nSucc++
		for _, s := range sites {
			if env.callOK[s.call] || (retCall != nil && retCall == s.call) {
				return
			}
		}
		if badTrace == "" {
			var bl []string
			for _, b := range env.trace {
				bl = append(bl, fmt.Sprint(b.Index))
			}
			var facts []string
			for k, v := range env.empty {
				facts = append(facts, fmt.Sprintf("empty(%s)=%v", k, v))
			}
			sort.Strings(facts)
			badTrace = "blocks " + strings.Join(bl, ">") + " with " + strings.Join(facts, ", ")
			badPos = ret.Pos()
		}
	})
	if res.limit || res.cut > 0 {
		c.undecided(R, fname(f), "every success path loads a key or certificate", f.Pos(), fmt.Sprintf("path enumeration incomplete (%d paths, %d cut at loops, limit=%v)", res.paths, res.cut, res.limit))
		return
	}
	c.check(badTrace == "" && nSucc > 0, R, fname(f), "every success path loads a key or certificate", badPos,
		fmt.Sprintf("%d feasible paths, %d to a success return, each through a successful LoadKeyDefaults of --key or --cert", res.paths, nSucc),
		"loadKeyFromDisk returns success without having loaded a key or a certificate ("+badTrace+"): run / record go on with the zero key and write unsigned metadata under a name the verifier never looks for")
}
