package main

import (
	"fmt"
	"go/types"
	"reflect"
	"sort"
	"strings"

	"golang.org/x/tools/go/ssa"
)

// ---------------------------------------------------------------------------
// C04

func init() {
	register(&Property{ID: "C04",
		Explanation: "Decides structural clauses of 'signatures bind exact content to keys in both wrappers': (R-C04-1) per Metadata implementation, Sign and VerifySignature take their bytes from the same expression over the receiver and build signer and verifier with the same constructor from the key parameter; (R-C04-2) every Sign stores a signature list that derives from the previous list (signatures accumulate); (R-C04-3) the legacy signature is written hex-encoded with the signing key's id and certificate, and read with the inverse codec selected by that key id; (R-C04-4) the key-type switch tables agree ({rsa, ecdsa, ed25519}) and each label selects its own algorithm's constructor, anything else is ErrUnsupportedKeyType; (R-C04-5) wrapper detection: a payloadType member selects the envelope loader, a foreign payload type fails, and SetPayload writes that same constant.",
		NotDecided:  []string{"cryptographic soundness", "interoperability with independent verifiers", "effect of single-bit mutations (values, not shapes)"},
		Rules: []Rule{
			{ID: "R-C04-1", Doc: "sign/verify sibling agreement", Min: 5, Run: ruleC04_1},
			{ID: "R-C04-2", Doc: "signatures accumulate", Min: 2, Run: ruleC04_2},
			{ID: "R-C04-3", Doc: "signature encoding pair and key id", Min: 3, Run: ruleC04_3},
			{ID: "R-C04-4", Doc: "key-type tables agree", Min: 7, Run: ruleC04_4},
			{ID: "R-C04-5", Doc: "wrapper detection and payload type", Min: 3, Run: ruleC04_5},
			{ID: "R-C04-6", Doc: "the signer/verifier is built afresh from the key parameter's own material", Min: 3, Run: ruleC04_6},
			{ID: "R-C01-4", Doc: "verification side of the binding (shared with C01)", Min: 10, Run: ruleC01_4},
			a1Rule(12, "(*in_toto.Metablock).Sign", "(*in_toto.Metablock).VerifySignature", "(*in_toto.Envelope).Sign", "(*in_toto.Envelope).VerifySignature",
				"(*in_toto.Metablock).Dump", "(*in_toto.Envelope).Dump", "in_toto.LoadMetadata", "in_toto.getSignerVerifierFromKey", "(*in_toto.Envelope).SetPayload"),
		}})
}

func ruleC04_1(c *Ctx) {
	const R = "R-C04-1"
	if sg := c.lookup("(*in_toto.Metablock).Sign"); sg != nil {
		fn := fname(sg)
		found := false
		for _, call := range allCalls(sg) {
			cc := call.Common()
			if !cc.IsInvoke() || cc.Method.Name() != "Sign" {
				continue
			}
			found = true
			kc, ok := isResultOf(cc.Value, call, 0, "in_toto.getSignerVerifierFromKey")
			okSG := ok && resolve(kc.Common().Args[0], kc) == ssa.Value(sg.Params[1])
			if !okSG && org(cc.Value) == "in_toto.getSignerVerifierFromKey(p1)#0" {
				okSG = true // handed back unchanged by a transparent helper that was given the key parameter
			}
			c.check(okSG, R, fn, "signer built from the key parameter with getSignerVerifierFromKey", call.Pos(), "same constructor as VerifySignature", "signer is "+short(org(cc.Value)))
			dc, ok := isResultOf(cc.Args[1], call, 0, "(*in_toto.Metablock).GetSignableRepresentation")
			c.check((ok && dc.Common().Args[0] == ssa.Value(sg.Params[0])) || org(cc.Args[1]) == "(*in_toto.Metablock).GetSignableRepresentation(p0)#0", R, fn, "signed bytes = receiver.GetSignableRepresentation()", call.Pos(), "same bytes as VerifySignature verifies", "signed bytes are "+short(org(cc.Args[1])))
		}
		if !found {
			c.bad(R, fn, "signer.Sign", sg.Pos(), "no dsse Signer.Sign invocation")
		}
	} else {
		c.undecided(R, "(*in_toto.Metablock).Sign", "anchor", 0, "not found")
	}
	if sg := c.lookup("(*in_toto.Envelope).Sign"); sg != nil {
		fn := fname(sg)
		sp := firstCall(sg, "(*ssl/dsse.EnvelopeSigner).SignPayload")
		if sp == nil {
			c.bad(R, fn, "SignPayload", sg.Pos(), "the envelope is not signed through dsse.EnvelopeSigner.SignPayload")
		} else {
			a := sp.Common().Args
			esc, ok := isResultOf(a[0], sp, 0, "ssl/dsse.NewEnvelopeSigner")
			okS := ok && derives(esc.Common().Args[0], func(v ssa.Value) bool {
				k, ok := v.(*ssa.Call)
				return ok && calleeName(k) == "in_toto.getSignerVerifierFromKey" && resolve(k.Call.Args[0], k) == ssa.Value(sg.Params[1])
			}, false)
			c.check(okS, R, fn, "envelope signer built from the key parameter with getSignerVerifierFromKey", sp.Pos(), "same constructor as VerifySignature", "envelope signer is not built from the key parameter")
			c.check(org(a[2]) == "p0.envelope.PayloadType", R, fn, "signed payload type = the envelope's own", sp.Pos(), "p0.envelope.PayloadType", "payload type is "+org(a[2]))
			c.check(org(a[3]) == "(*ssl/dsse.Envelope).DecodeB64Payload(p0.envelope)#0", R, fn, "signed body = the envelope's own decoded payload", sp.Pos(), "DecodeB64Payload(p0.envelope)", "signed body is "+short(org(a[3])))
		}
	} else {
		c.undecided(R, "(*in_toto.Envelope).Sign", "anchor", 0, "not found")
	}
}

func ruleC04_2(c *Ctx) {
	const R = "R-C04-2"
	if sg := c.lookup("(*in_toto.Metablock).Sign"); sg != nil {
		n := 0
		for _, b := range sg.Blocks {
			for _, in := range b.Instrs {
				if st, ok := in.(*ssa.Store); ok && org(st.Addr) == "p0.Signatures" {
					n++
					okApp := derives(st.Val, func(v ssa.Value) bool {
						u, ok := v.(*ssa.UnOp)
						return ok && org(u) == "p0.Signatures"
					}, true)
					c.check(okApp, R, fname(sg), "stored signature list derives from the previous list", st.Pos(), "append(mb.Signatures, new)", "Sign replaces the signature list: earlier signatures are lost")
					// ... and it is a plain append to the whole previous list: an append onto a prefix (list[:i]) or any
					// other construction can overwrite or drop earlier signatures
					plain, how := plainAppendTo(st.Val, st, func(v ssa.Value) bool {
						u, ok := v.(*ssa.UnOp)
						return ok && org(u) == "p0.Signatures"
					}, 0)
					if okApp {
						if plain {
							c.ok(R, fname(sg), "the new list is append(previous list, new signature)", st.Pos(), how)
						} else {
							c.undecided(R, fname(sg), "the new list is append(previous list, new signature)", st.Pos(), "the stored list is "+how+", not a plain append to the whole previous list: that every earlier signature survives (append onto a prefix list[:i] overwrites the elements behind it) is not decided")
						}
					}
				}
			}
		}
		if n == 0 {
			c.bad(R, fname(sg), "store to Signatures", sg.Pos(), "Sign does not store a signature")
		}
	}
	if sg := c.lookup("(*in_toto.Envelope).Sign"); sg != nil {
		// the envelope stored back must carry the old envelope's signatures
		n := 0
		for _, b := range sg.Blocks {
			for _, in := range b.Instrs {
				st, ok := in.(*ssa.Store)
				if !ok || org(st.Addr) != "p0.envelope" {
					continue
				}
				n++
				newEnv := resolve(st.Val, st)
				carried := false
				for _, b2 := range sg.Blocks {
					for _, in2 := range b2.Instrs {
						s2, ok := in2.(*ssa.Store)
						if !ok {
							continue
						}
						fa, ok := s2.Addr.(*ssa.FieldAddr)
						if !ok || fieldName(fa.X.Type(), fa.Field) != "Signatures" || resolve(fa.X, s2) != newEnv {
							continue
						}
						if instrDominates(s2, st) && derives(s2.Val, func(v ssa.Value) bool { return org(v) == "p0.envelope.Signatures" }, true) {
							carried = true
						}
					}
				}
				if org(st.Val) == "p0.envelope" {
					carried = true
				}
				c.check(carried, R, fname(sg), "stored envelope carries the previous signatures", st.Pos(), "new.Signatures derives from e.envelope.Signatures", "Sign stores an envelope that only carries the new signature: signing with a second key drops the first signature")
			}
		}
		if n == 0 {
			c.bad(R, fname(sg), "store to envelope", sg.Pos(), "Sign does not store the signed envelope")
		}
	}
}

func ruleC04_3(c *Ctx) {
	const R = "R-C04-3"
	sg := c.lookup("(*in_toto.Metablock).Sign")
	if sg == nil {
		return
	}
	want := map[string]string{"KeyID": "p1.KeyID", "Certificate": "p1.KeyVal.Certificate"}
	seen := map[string]bool{}
	for _, b := range sg.Blocks {
		for _, in := range b.Instrs {
			st, ok := in.(*ssa.Store)
			if !ok {
				continue
			}
			fa, ok := st.Addr.(*ssa.FieldAddr)
			if !ok || typeStr(fa.X.Type()) != "*in_toto.Signature" {
				continue
			}
			name := fieldName(fa.X.Type(), fa.Field)
			seen[name] = true
			if w, ok := want[name]; ok {
				c.check(org(st.Val) == w, R, fname(sg), "signature."+name, st.Pos(), w, "signature."+name+" is "+short(org(st.Val)))
			}
			if name == "Sig" {
				hc, ok := isResultOf(st.Val, st, 0, "encoding/hex.EncodeToString")
				okSig := false
				if ok {
					pc, idx := producer(hc.Common().Args[0], hc)
					okSig = pc != nil && idx == 0 && pc.Common().IsInvoke() && pc.Common().Method.Name() == "Sign"
				}
				c.check(okSig, R, fname(sg), "signature.Sig = hex(signer.Sign(...))", st.Pos(), "inverse of hex.DecodeString in VerifySignature", "signature.Sig is "+short(org(st.Val)))
			}
		}
	}
	for _, n := range []string{"KeyID", "Sig"} {
		if !seen[n] {
			c.bad(R, fname(sg), "signature."+n, sg.Pos(), "field not set")
		}
	}
}

func ruleC04_4(c *Ctx) {
	const R = "R-C04-4"
	want := "ecdsa,ed25519,rsa"
	type site struct {
		fn   string
		pred func(v ssa.Value) bool
	}
	sites := []site{
		{"in_toto.getSignerVerifierFromKey", func(v ssa.Value) bool { return strings.HasSuffix(org(v), ".KeyType") }},
		{"in_toto.matchKeyTypeScheme", func(v ssa.Value) bool { return org(v) == "p0.KeyType" }},
		{"in_toto.validateKeyVal", func(v ssa.Value) bool { return org(v) == "p0.KeyType" }},
		{"(*in_toto.Key).setKeyComponents", func(v ssa.Value) bool { return org(v) == "p3" }},
	}
	for _, s := range sites {
		f := c.lookup(s.fn)
		if f == nil {
			c.undecided(R, s.fn, "anchor", 0, "not found")
			continue
		}
		got := strings.Join(keysOf(stringCases(f, s.pred)), ",")
		c.check(got == want, R, s.fn, "key-type case labels", f.Pos(), got, "key types handled: {"+got+"}, expected {"+want+"}")
	}
	f := c.lookup("in_toto.getSignerVerifierFromKey")
	if f == nil {
		return
	}
	cases := stringCases(f, sites[0].pred)
	ctor := map[string]string{"rsa": "ssl/signerverifier.NewRSAPSSSignerVerifierFromSSLibKey", "ed25519": "ssl/signerverifier.NewED25519SignerVerifierFromSSLibKey", "ecdsa": "ssl/signerverifier.NewECDSASignerVerifierFromSSLibKey"}
	for _, kt := range []string{"ecdsa", "ed25519", "rsa"} {
		bo := cases[kt]
		if bo == nil {
			continue
		}
		ok := false
		got := ""
		for _, call := range allCalls(f) {
			n := calleeName(call)
			if !strings.HasPrefix(n, "ssl/signerverifier.New") {
				continue
			}
			if c.condAt(bo, true, call.Block()) {
				got = n
				ok = n == ctor[kt]
			}
		}
		c.check(ok, R, fname(f), "key type "+kt+" selects its own algorithm", bo.Pos(), ctor[kt], "key type "+kt+" constructs "+got)
	}
	// default: unsupported key type
	okDef := false
	for _, r := range returnsOf(f) {
		if org(r.Results[1]) == "global(in_toto.ErrUnsupportedKeyType)" && isNilConst(r.Results[0]) {
			okDef = true
			for _, bo := range cases {
				if c.condAt(bo, true, r.Block()) {
					okDef = false
				}
			}
		}
	}
	c.check(okDef, R, fname(f), "any other key type is ErrUnsupportedKeyType", f.Pos(), "default return (nil, ErrUnsupportedKeyType)", "a key type outside the table is not refused with ErrUnsupportedKeyType")
	// the sslib key is a field-by-field copy of the key
	if g := c.lookup("in_toto.getSSLibKeyFromKey"); g != nil {
		wantF := map[string]string{"KeyType": "p0.KeyType", "KeyID": "p0.KeyID", "Scheme": "p0.Scheme", "KeyIDHashAlgorithms": "p0.KeyIDHashAlgorithms", "Public": "p0.KeyVal.Public", "Private": "p0.KeyVal.Private", "Certificate": "p0.KeyVal.Certificate"}
		okAll := true
		nset := 0
		for _, b := range g.Blocks {
			for _, in := range b.Instrs {
				if st, ok := in.(*ssa.Store); ok {
					if fa, ok := st.Addr.(*ssa.FieldAddr); ok {
						name := fieldName(fa.X.Type(), fa.Field)
						if w, ok := wantF[name]; ok {
							nset++
							if org(st.Val) != w {
								okAll = false
							}
						}
					}
				}
			}
		}
		c.check(okAll && nset == len(wantF), R, fname(g), "securesystemslib key is a faithful copy of the key", g.Pos(), fmt.Sprintf("%d fields copied from their namesakes", nset), "key fields are not copied one-to-one into the securesystemslib key")
	}
}

func ruleC04_5(c *Ctx) {
	const R = "R-C04-5"
	f := c.lookup("in_toto.LoadMetadata")
	if f == nil {
		c.undecided(R, "in_toto.LoadMetadata", "anchor", 0, "not found")
		return
	}
	fn := fname(f)
	// the envelope loader call: in LoadMetadata or in an unexported helper it hands the envelope branch to
	var le ssa.CallInstruction // the call (or the helper call) in LoadMetadata's frame
	inner := f                 // the function that contains the loadEnvelope call itself
	var leInner ssa.CallInstruction
	if st := c.stage(f, "in_toto.loadEnvelope"); st != nil {
		le, leInner = st.site(), st.call
		if g := st.inner(); g != nil {
			inner = g
		}
	}
	var detect ssa.Value
	for _, b := range f.Blocks {
		for _, in := range b.Instrs {
			if lk, ok := in.(*ssa.Lookup); ok && lk.CommaOk {
				if k, ok := constString(lk.Index); ok && k == "payloadType" {
					detect = extractOf(lk, 1)
				}
			}
		}
	}
	c.check(le != nil && detect != nil && c.condAt(detect, true, le.Block()), R, fn, "a payloadType member selects the envelope loader", f.Pos(), "loadEnvelope under ok(rawData[payloadType])", "the DSSE wrapper is not recognised by the presence of payloadType")
	// legacy path only when payloadType absent
	if lp := firstCall(f, "in_toto.loadPayload"); lp != nil && detect != nil {
		c.check(c.condAt(detect, false, lp.Block()), R, fn, "legacy loader only without payloadType", lp.Pos(), "loadPayload under !ok", "the legacy loader can run for an envelope")
	}
	// payload type check
	okPT := false
	pt := ""
	for _, b := range inner.Blocks {
		for _, in := range b.Instrs {
			bo, ok := in.(*ssa.BinOp)
			if !ok {
				continue
			}
			if s, isS := constString(bo.Y); isS && strings.HasSuffix(org(bo.X), ".PayloadType") {
				pt = s
				for _, cu := range condUsers(bo, false) {
					neq := bo.Op.String() == "!="
					if c.failing(branchTaken(cu, neq)) && leInner != nil && c.condAt(bo, !neq, leInner.Block()) {
						okPT = true
					}
				}
			}
		}
	}
	// a failure inside the helper fails LoadMetadata
	if inner != f && le != nil {
		okUp := false
		if e := errResult(le); e != nil {
			for _, br := range errBranches(e) {
				okUp = okUp || c.failing(br.NonNil)
			}
			for _, r := range returnsOf(f) {
				if pc, _ := producer(r.Results[len(r.Results)-1], r); pc == le {
					okUp = true
				}
			}
		}
		okPT = okPT && okUp
	}
	c.check(okPT && pt == "application/vnd.in-toto+json", R, fn, "a foreign payload type fails before the envelope is loaded", f.Pos(), pt, "payload type "+pt+" is not enforced before loadEnvelope")
	if sp := c.lookup("(*in_toto.Envelope).SetPayload"); sp != nil {
		okW := false
		for _, b := range sp.Blocks {
			for _, in := range b.Instrs {
				if st, ok := in.(*ssa.Store); ok {
					if fa, ok := st.Addr.(*ssa.FieldAddr); ok && fieldName(fa.X.Type(), fa.Field) == "PayloadType" {
						s, _ := constString(st.Val)
						okW = s == pt && pt != ""
					}
				}
			}
		}
		c.check(okW, R, fname(sp), "SetPayload writes the payload type the loader demands", sp.Pos(), pt, "SetPayload writes a payload type different from the one LoadMetadata accepts")
	}
}

// ---------------------------------------------------------------------------
// C11

type jsonMember struct {
	Name      string
	OmitEmpty bool
	Type      string
}

// frozen in-toto wire schema (spec + ITE-7 certificate extensions + DSSE)
var c11Schema = map[string][]jsonMember{
	"Link": {{"_type", false, "string"}, {"name", false, "string"}, {"materials", false, "map[string]map[string]string"}, {"products", false, "map[string]map[string]string"},
		{"byproducts", false, "map[string]interface{}"}, {"command", false, "[]string"}, {"environment", false, "map[string]interface{}"}},
	"Layout": {{"_type", false, "string"}, {"steps", false, "[]in_toto.Step"}, {"inspect", false, "[]in_toto.Inspection"}, {"keys", false, "map[string]in_toto.Key"},
		{"rootcas", true, "map[string]in_toto.Key"}, {"intermediatecas", true, "map[string]in_toto.Key"}, {"expires", false, "string"}, {"readme", false, "string"}},
	"Step": {{"_type", false, "string"}, {"pubkeys", false, "[]string"}, {"cert_constraints", true, "[]in_toto.CertificateConstraint"}, {"expected_command", false, "[]string"},
		{"threshold", false, "int"}, {"name", false, "string"}, {"expected_materials", false, "[][]string"}, {"expected_products", false, "[][]string"}},
	"Inspection": {{"_type", false, "string"}, {"run", false, "[]string"}, {"name", false, "string"}, {"expected_materials", false, "[][]string"}, {"expected_products", false, "[][]string"}},
	"Key":        {{"keyid", false, "string"}, {"keyid_hash_algorithms", false, "[]string"}, {"keytype", false, "string"}, {"keyval", false, "in_toto.KeyVal"}, {"scheme", false, "string"}},
	"KeyVal":     {{"private", true, "string"}, {"public", false, "string"}, {"certificate", true, "string"}},
	"CertificateConstraint": {{"common_name", false, "string"}, {"dns_names", false, "[]string"}, {"emails", false, "[]string"}, {"organizations", false, "[]string"},
		{"roots", false, "[]string"}, {"uris", false, "[]string"}},
	"Signature": {{"keyid", false, "string"}, {"sig", false, "string"}, {"cert", true, "string"}},
	"Metablock": {{"signed", false, "interface{}"}, {"signatures", false, "[]in_toto.Signature"}},
}

// jsonView computes the members encoding/json sees for struct type t (embedded structs promoted).
func jsonView(t types.Type) (members []jsonMember, problems []string) {
	st, ok := t.Underlying().(*types.Struct)
	if !ok {
		return nil, []string{"not a struct"}
	}
	for i := 0; i < st.NumFields(); i++ {
		f := st.Field(i)
		tag := reflect.StructTag(st.Tag(i)).Get("json")
		if f.Embedded() && tag == "" {
			m, p := jsonView(f.Type())
			members = append(members, m...)
			problems = append(problems, p...)
			continue
		}
		if !f.Exported() {
			continue
		}
		name, opts, _ := strings.Cut(tag, ",")
		if name == "-" {
			problems = append(problems, "field "+f.Name()+" is excluded with json:\"-\"")
			continue
		}
		if name == "" {
			name = f.Name()
			problems = append(problems, "field "+f.Name()+" has no json name")
		}
		if strings.Contains(opts, "string") {
			problems = append(problems, "field "+f.Name()+" uses the ,string option")
		}
		ts := typeStr(f.Type())
		ts = strings.ReplaceAll(ts, "in_toto.HashObj", "map[string]string")
		ts = strings.ReplaceAll(ts, "any", "interface{}")
		members = append(members, jsonMember{name, strings.Contains(opts, "omitempty"), ts})
	}
	return
}

func init() {
	register(&Property{ID: "C11",
		Explanation: "Decides structural clauses of 'signed bytes are canonical JSON (legacy) or a valid JSON payload (DSSE)': (R-C11-1) the JSON view of Link, Layout, Step, Inspection, Key, KeyVal, CertificateConstraint, Signature, Metablock (names, omitempty, Go kinds, embedded promotion, no json:\"-\", no ,string, no custom (Un)Marshal methods) equals the frozen in-toto wire schema — any difference changes the signed bytes of existing metadata; (R-C11-2) the legacy signable representation is securesystemslib's cjson.EncodeCanonical applied to the Signed field; (R-C11-3) the bytes base64-encoded into a DSSE payload are produced by a JSON encoder that yields valid JSON: encoding/json, or cjson only under a dominating json.Valid check; (R-C11-4) the loader decodes the same bytes strictly (R-C01-5); (R-C11-5) canonicalisation errors propagate (A1) and cjson's internal panics are converted to errors by a deferred recover.",
		NotDecided:  []string{"injectivity / stability of canonical JSON", "byte-for-byte equality with the reference implementation", "escaping of non-ASCII"},
		Rules: []Rule{
			{ID: "R-C11-1", Doc: "wire-format schema table", Min: 9, Run: ruleC11_1},
			{ID: "R-C11-2", Doc: "what is signed in the legacy wrapper", Min: 2, Run: ruleC11_2},
			{ID: "R-C11-3", Doc: "DSSE payload encoder yields valid JSON", Min: 1, Run: ruleC11_3},
			{ID: "R-C01-5", Doc: "strict decoding of the same bytes (shared with C01)", Min: 3, Run: ruleC01_5},
			{ID: "R-C11-5", Doc: "cjson panics are converted to errors", Min: 1, Run: ruleC11_5},
			a1Rule(8, "(*in_toto.Metablock).GetSignableRepresentation", "(*in_toto.Metablock).Sign", "(*in_toto.Metablock).VerifySignature", "(*in_toto.Envelope).SetPayload", "(*in_toto.Key).generateKeyID", "in_toto.loadEnvelope", "in_toto.loadPayload"),
		}})
}

func ruleC11_1(c *Ctx) {
	const R = "R-C11-1"
	sp := c.pkg("in_toto")
	var names []string
	for n := range c11Schema {
		names = append(names, n)
	}
	sort.Strings(names)
	render := func(ms []jsonMember) string {
		var parts []string
		for _, m := range ms {
			s := m.Name
			if m.OmitEmpty {
				s += "?"
			}
			parts = append(parts, s+":"+m.Type)
		}
		sort.Strings(parts)
		return strings.Join(parts, " ")
	}
	for _, n := range names {
		tn := sp.Type(n)
		if tn == nil {
			c.bad(R, "in_toto."+n, "type", 0, "metadata type "+n+" not found")
			continue
		}
		got, problems := jsonView(tn.Type())
		want := c11Schema[n]
		ok := render(got) == render(want) && len(problems) == 0
		detail := ""
		if !ok {
			detail = "JSON members {" + render(got) + "} differ from the in-toto schema {" + render(want) + "}"
			if len(problems) > 0 {
				detail += "; " + strings.Join(problems, "; ")
			}
		}
		c.check(ok, R, "in_toto."+n, "JSON schema", tn.Pos(), render(got), detail)
		// no custom marshalers
		for _, T := range []types.Type{tn.Type(), types.NewPointer(tn.Type())} {
			ms := c.SSA.MethodSets.MethodSet(T)
			for i := 0; i < ms.Len(); i++ {
				switch ms.At(i).Obj().Name() {
				case "MarshalJSON", "UnmarshalJSON", "MarshalText", "UnmarshalText":
					c.bad(R, "in_toto."+n, "custom "+ms.At(i).Obj().Name(), ms.At(i).Obj().Pos(), "a custom (un)marshal method changes the wire format of signed metadata")
				}
			}
		}
	}
}

func ruleC11_2(c *Ctx) {
	const R = "R-C11-2"
	gs := c.lookup("(*in_toto.Metablock).GetSignableRepresentation")
	if gs == nil {
		c.undecided(R, "(*in_toto.Metablock).GetSignableRepresentation", "anchor", 0, "not found")
		return
	}
	call, arg := c.canonicalSite(gs)
	c.check(call != nil && org(arg) == "p0.Signed", R, fname(gs), "canonicaliser is securesystemslib cjson applied to Signed", gs.Pos(), "cjson.EncodeCanonical(mb.Signed)", "the signable representation is not cjson.EncodeCanonical(mb.Signed)")
	for _, r := range returnsOf(gs) {
		pc, idx := producer(r.Results[0], r)
		c.check(call != nil && pc == call && idx == 0, R, fname(gs), "returns exactly the canonical bytes", instrPos(r), "no post-processing", "the canonical bytes are post-processed: "+short(org(r.Results[0])))
	}
}

func ruleC11_3(c *Ctx) {
	const R = "R-C11-3"
	sp := c.lookup("(*in_toto.Envelope).SetPayload")
	if sp == nil {
		c.undecided(R, "(*in_toto.Envelope).SetPayload", "anchor", 0, "not found")
		return
	}
	fn := fname(sp)
	enc := firstCall(sp, "(*encoding/base64.Encoding).EncodeToString")
	if enc == nil {
		c.bad(R, fn, "base64 encoding", sp.Pos(), "payload is not base64-encoded")
		return
	}
	bytesArg := enc.Common().Args[1]
	// enumerate producers reaching the encoded bytes (through phis)
	var producers []ssa.CallInstruction
	seen := map[ssa.Value]bool{}
	var walk func(v ssa.Value, at ssa.Instruction)
	walk = func(v ssa.Value, at ssa.Instruction) {
		v = resolve(v, at)
		if seen[v] {
			return
		}
		seen[v] = true
		switch x := v.(type) {
		case *ssa.Phi:
			for _, e := range x.Edges {
				walk(e, x)
			}
		case *ssa.Extract:
			if k, ok := x.Tuple.(*ssa.Call); ok {
				producers = append(producers, k)
			}
		case *ssa.Call:
			producers = append(producers, x)
		default:
			producers = append(producers, nil)
		}
	}
	walk(bytesArg, enc)
	// json.Valid guard on the cjson bytes
	validGuard := func(k ssa.CallInstruction) bool {
		b0 := resultN(k, 0)
		for _, v := range callsIn(sp, "encoding/json.Valid") {
			if resolve(v.Common().Args[0], v) == b0 {
				// the cjson bytes reach the encoder only where Valid is known true: the phi edge carrying b0 comes from a block with fact true
				if ph, ok := resolve(bytesArg, enc).(*ssa.Phi); ok {
					for i, e := range ph.Edges {
						if resolve(e, ph) == b0 {
							pb := ph.Block().Preds[i]
							if c.condAt(v.Value(), true, pb) || edgeFact(pb, ph.Block(), v.Value(), true) {
								return true
							}
						}
					}
				}
				if c.condAt(v.Value(), true, enc.Block()) {
					return true
				}
			}
		}
		return false
	}
	for _, k := range producers {
		if k == nil {
			c.undecided(R, fn, "payload bytes producer", enc.Pos(), "the encoded bytes come from an unrecognised source: "+short(org(bytesArg)))
			continue
		}
		n := calleeName(k)
		payloadArg := len(k.Common().Args) > 0 && resolve(k.Common().Args[0], k) == ssa.Value(sp.Params[1])
		switch n {
		case "encoding/json.Marshal", "encoding/json.MarshalIndent":
			c.check(payloadArg, R, fn, "payload bytes from "+n, k.Pos(), "standard JSON encoding of the payload parameter", "encodes "+short(org(k.Common().Args[0])))
		case "ssl/cjson.EncodeCanonical":
			c.check(payloadArg && validGuard(k), R, fn, "payload bytes from cjson.EncodeCanonical", k.Pos(), "used only where json.Valid(bytes) is known true",
				"the DSSE payload is canonical JSON without a validity check: cjson escapes only \\ and \", so a control character in any string (e.g. a line break in a by-product) yields bytes no JSON parser accepts, including loadPayload")
		default:
			// an unexported helper that is handed the payload and returns the bytes: the same allow-list applies to
			// what it returns
			h := k.Common().StaticCallee()
			if payloadArg && h != nil && h.Blocks != nil && h.Pkg == sp.Pkg && (h.Object() == nil || !h.Object().Exported()) && len(h.Params) >= 1 {
				hn := fname(h)
				nret := 0
				for _, r := range returnsOf(h) {
					if ei := errIndex(h); ei >= 0 && !c.mayBeNilErr(r.Results[ei], r.Block(), 0) {
						continue
					}
					nret++
					rv := resolve(r.Results[0], r)
					pk, _ := producer(rv, r)
					if pk == nil {
						c.undecided(R, hn, "payload bytes producer", instrPos(r), "the returned bytes come from an unrecognised source: "+short(org(rv)))
						continue
					}
					pn := calleeName(pk)
					fromParam := len(pk.Common().Args) > 0 && resolve(pk.Common().Args[0], pk) == ssa.Value(h.Params[0])
					switch pn {
					case "encoding/json.Marshal", "encoding/json.MarshalIndent":
						c.check(fromParam, R, hn, "payload bytes from "+pn, pk.Pos(), "standard JSON encoding of the payload parameter", "encodes "+short(org(pk.Common().Args[0])))
					case "ssl/cjson.EncodeCanonical":
						guarded := false
						for _, v := range callsIn(h, "encoding/json.Valid") {
							if resolve(v.Common().Args[0], v) == resultN(pk, 0) && c.condAt(v.Value(), true, r.Block()) {
								guarded = true
							}
						}
						c.check(fromParam && guarded, R, hn, "payload bytes from cjson.EncodeCanonical", pk.Pos(), "returned only where json.Valid(bytes) is known true",
							"the DSSE payload is canonical JSON without a validity check: cjson escapes only \\ and \", so a control character in any string yields bytes no JSON parser accepts, including loadPayload")
					default:
						c.undecided(R, hn, "payload bytes from "+pn, pk.Pos(), "unknown encoder (allow-list: encoding/json.Marshal, MarshalIndent; cjson.EncodeCanonical only under json.Valid)")
					}
				}
				if nret == 0 {
					c.bad(R, hn, "payload bytes producer", h.Pos(), "the helper never returns bytes with a nil error")
				}
				continue
			}
			c.undecided(R, fn, "payload bytes from "+n, k.Pos(), "unknown encoder (allow-list: encoding/json.Marshal, MarshalIndent; cjson.EncodeCanonical only under json.Valid)")
		}
	}
	if len(producers) == 0 {
		c.bad(R, fn, "payload bytes producer", enc.Pos(), "no producer found")
	}
}

func ruleC11_5(c *Ctx) {
	const R = "R-C11-5"
	f := c.lookupAny("ssl/cjson.EncodeCanonical")
	if f == nil {
		c.undecided(R, "ssl/cjson.EncodeCanonical", "anchor", 0, "not found in the program")
		return
	}
	okRecover := false
	for _, b := range f.Blocks {
		for _, in := range b.Instrs {
			d, ok := in.(*ssa.Defer)
			if !ok {
				continue
			}
			var g *ssa.Function
			switch v := d.Call.Value.(type) {
			case *ssa.MakeClosure:
				g, _ = v.Fn.(*ssa.Function)
			case *ssa.Function:
				g = v
			}
			if g == nil {
				continue
			}
			for _, call := range allCalls(g) {
				if calleeName(call) == "builtin:recover" {
					// the recovered value sets the error result
					for _, b2 := range g.Blocks {
						for _, in2 := range b2.Instrs {
							if st, ok := in2.(*ssa.Store); ok && isErrorType(st.Val.Type()) {
								okRecover = true
							}
						}
					}
				}
			}
		}
	}
	c.check(okRecover, R, fname(f), "internal panics are recovered and turned into the error result", f.Pos(), "deferred closure calls recover() and stores an error", "cjson.EncodeCanonical does not convert its internal panics (e.g. non-integral numbers) into errors")
}

// ---------------------------------------------------------------------------
// C12

func init() {
	register(&Property{ID: "C12",
		Explanation: "Decides structural clauses of 'metadata files round-trip and malformed files are refused': (R-C12-1) the two loaders agree: both nil-test the raw parts before dereferencing, decode the signature list, obtain the payload from the same strict function and propagate its error; the envelope arm tests payload/signatures and reaches the same function; (R-C12-2) the strict decoder checks required fields with the same type it decodes, fails on unknown _type, checkRequiredJSONFields visits every field and exempts exactly omitempty ones; (R-C12-3) writer and reader agree on the top-level keys and type markers; (R-C12-4) the validator family is wired from ValidateMetablock: layout, link, step, INSPECTION, supply-chain item, rules, key maps, signatures, hex; (R-C12-5) format constants: hex pattern, expiry layout, type markers with failing mismatch; (R-C12-6) constructors of dumpable metadata initialise the signature list (a nil list is dumped as null, which the loaders refuse).",
		NotDecided:  []string{"round-trip equality beyond 'every member has a tag and nothing is skipped' (R-C11-1)", "exactness of the validator (that it rejects nothing valid)"},
		Rules: []Rule{
			{ID: "R-C12-1", Doc: "the loaders agree", Min: 8, Run: ruleC12_1},
			{ID: "R-C12-2", Doc: "strict payload decoder", Min: 6, Run: ruleC12_2},
			{ID: "R-C12-3", Doc: "writer/reader key agreement", Min: 5, Run: ruleC12_3},
			{ID: "R-C12-4", Doc: "validator family is wired", Min: 10, Run: ruleC12_4},
			{ID: "R-C12-5", Doc: "format constants", Min: 5, Run: ruleC12_5},
			{ID: "R-C12-6", Doc: "dumpable constructors initialise the signature list", Min: 4, Run: ruleC12_6},
			{ID: "R-C01-5", Doc: "strict decoding (shared with C01)", Min: 3, Run: ruleC01_5},
			{ID: "R-C11-1", Doc: "wire-format schema table (shared with C11)", Min: 9, Run: ruleC11_1},
			a1Rule(20, "in_toto.LoadMetadata", "(*in_toto.Metablock).Load", "in_toto.loadEnvelope", "in_toto.loadPayload", "in_toto.checkRequiredJSONFields", "(*in_toto.Metablock).Dump", "(*in_toto.Envelope).Dump",
				"in_toto.ValidateMetablock", "in_toto.validateLayout", "in_toto.validateLink", "in_toto.validateStep", "in_toto.validateInspection", "in_toto.validateSupplyChainItem", "in_toto.validateSliceOfArtifactRules",
				"in_toto.validateArtifactRule", "in_toto.validateLayoutKeys", "in_toto.validatePublicKey", "in_toto.validateKey", "in_toto.validateSliceOfSignatures", "in_toto.validateSignature", "in_toto.validateArtifacts", "in_toto.validateHexString", "in_toto.matchKeyTypeScheme"),
		}})
}

func ruleC12_1(c *Ctx) {
	const R = "R-C12-1"
	for _, n := range []string{"in_toto.LoadMetadata", "(*in_toto.Metablock).Load"} {
		f := c.lookup(n)
		if f == nil {
			c.undecided(R, n, "anchor", 0, "not found")
			continue
		}
		// the frame that takes the file apart: the loader itself, or an unexported helper it hands the bytes to and
		// whose error it returns
		if firstCall(f, "in_toto.loadPayload") == nil {
			for _, via := range allCalls(f) {
				g := via.Common().StaticCallee()
				if g == nil || g.Blocks == nil || g.Pkg != f.Pkg || g.Object() == nil || g.Object().Exported() || firstCall(g, "in_toto.loadPayload") == nil || !hasErrResult(via) {
					continue
				}
				handled := false
				if e := errResult(via); e != nil {
					for _, br := range errBranches(e) {
						handled = handled || c.failing(br.NonNil)
					}
					for _, r := range returnsOf(f) {
						if ei := errIndex(f); ei >= 0 && resolve(r.Results[ei], r) == e {
							handled = true
						}
					}
				}
				c.check(handled, R, n, "the error of the parsing helper "+fname(g)+" fails the load", via.Pos(), "returned / failing continuation", "the loader ignores the error of "+fname(g))
				n = n + " via " + fname(g)
				f = g
				break
			}
		}
		// the two parts are found by their exact member names: a map[string]*json.RawMessage, not a struct
		for _, b := range f.Blocks {
			for _, in := range b.Instrs {
				u, ok := in.(*ssa.UnOp)
				if !ok || u.Op.String() != "*" || typeStr(u.Type()) != "*encoding/json.RawMessage" {
					continue
				}
				if fa, ok := u.X.(*ssa.FieldAddr); ok {
					c.bad(R, n, "raw part read from struct field "+fieldName(fa.X.Type(), fa.Field), u.Pos(), "the wrapper is taken apart by decoding into a struct: encoding/json matches struct fields case-insensitively, so a file whose members are spelled Signed / SIGNATURES is accepted although it has no 'signed' / 'signatures' member")
				}
			}
		}
		// every deref of a raw map element is dominated by a nil test of the same lookup key
		nd := 0
		for _, b := range f.Blocks {
			for _, in := range b.Instrs {
				u, ok := in.(*ssa.UnOp)
				if !ok || u.Op.String() != "*" {
					continue
				}
				lk, ok := u.X.(*ssa.Lookup)
				if !ok || typeStr(lk.Type()) != "*encoding/json.RawMessage" {
					continue
				}
				nd++
				key, _ := constString(lk.Index)
				okNil := false
				// any lookup of the same map and key that is known non-nil at this block
				for _, b2 := range f.Blocks {
					for _, in2 := range b2.Instrs {
						if l2, ok := in2.(*ssa.Lookup); ok && org(l2.X) == org(lk.X) {
							if k2, _ := constString(l2.Index); k2 == key && c.nonNilAt(l2, u.Block()) {
								okNil = true
							}
						}
					}
				}
				c.check(okNil, R, n, "raw part \""+key+"\" is nil-tested before it is dereferenced", u.Pos(), "dominated by != nil on the same map element", "*rawData[\""+key+"\"] may dereference a nil pointer (absent or null part)")
			}
		}
		if nd < 2 {
			c.bad(R, n, "raw part dereferences", f.Pos(), fmt.Sprintf("expected dereferences of the signed and signatures parts, found %d", nd))
		}
		lp := firstCall(f, "in_toto.loadPayload")
		okLP := false
		if lp != nil {
			if e := errResult(lp); e != nil {
				for _, br := range errBranches(e) {
					okLP = okLP || c.failing(br.NonNil)
				}
			}
			c.check(strings.Contains(org(lp.Common().Args[0]), `{const("signed")}`), R, n, "payload = strict decoding of the signed part", lp.Pos(), short(org(lp.Common().Args[0])), "strict decoder is applied to "+short(org(lp.Common().Args[0])))
		}
		c.check(okLP, R, n, "payload comes from the shared strict decoder and its error fails", f.Pos(), "loadPayload(...) with failing continuation", "the loader does not use loadPayload or ignores its error")
		// signatures decoded into the result's Signatures
		okSig := false
		for _, um := range callsIn(f, "encoding/json.Unmarshal") {
			a := um.Common().Args
			if strings.Contains(org(a[0]), `{const("signatures")}`) && strings.HasSuffix(org(a[1]), ".Signatures") {
				if e := errResult(um); e != nil {
					for _, br := range errBranches(e) {
						okSig = okSig || c.failing(br.NonNil)
					}
				}
			}
		}
		c.check(okSig, R, n, "signature list decoded from the signatures part, error fails", f.Pos(), "json.Unmarshal(*raw[signatures], &mb.Signatures)", "the signature list is not decoded from the signatures part (or a decoding error is ignored)")
		// stored payload
		okStore := false
		for _, b := range f.Blocks {
			for _, in := range b.Instrs {
				if st, ok := in.(*ssa.Store); ok && strings.HasSuffix(org(st.Addr), ".Signed") {
					pc, idx := producer(st.Val, st)
					okStore = pc == lp && idx == 0
				}
			}
		}
		c.check(okStore, R, n, "Signed = the strictly decoded payload", f.Pos(), "mb.Signed = loadPayload#0", "Signed is not the strict decoder's result")
	}
	// envelope arm
	if f := c.lookup("in_toto.LoadMetadata"); f != nil {
		le := firstCall(f, "in_toto.loadEnvelope")
		if le != nil {
			for _, key := range []string{"payload", "signatures"} {
				okNil := false
				for _, b := range f.Blocks {
					for _, in := range b.Instrs {
						if lk, ok := in.(*ssa.Lookup); ok {
							if k, _ := constString(lk.Index); k == key && c.nonNilAt(lk, le.Block()) {
								okNil = true
							}
						}
					}
				}
				c.check(okNil, R, fname(f), "envelope part \""+key+"\" must be present and non-null", le.Pos(), "dominated by != nil", "an envelope without (or with a null) "+key+" is loaded")
			}
		}
	}
	if le := c.lookup("in_toto.loadEnvelope"); le != nil {
		lp := firstCall(le, "in_toto.loadPayload")
		c.check(lp != nil && org(lp.Common().Args[0]) == "(*ssl/dsse.Envelope).DecodeB64Payload(p0)#0", R, fname(le), "envelope payload goes through the same strict decoder", le.Pos(), "loadPayload(DecodeB64Payload())", "the envelope loader does not use the shared strict decoder on its own payload bytes")
	}
}

func ruleC12_2(c *Ctx) {
	const R = "R-C12-2"
	f := c.lookup("in_toto.loadPayload")
	if f == nil {
		c.undecided(R, "in_toto.loadPayload", "anchor", 0, "not found")
		return
	}
	fn := fname(f)
	cases := stringCasesIface(f, func(v ssa.Value) bool { return strings.HasSuffix(org(v), `{const("_type")}`) })
	for _, marker := range []string{"link", "layout"} {
		bo := cases[marker]
		if bo == nil {
			c.bad(R, fn, "_type == "+marker, f.Pos(), "no arm for type marker "+marker)
			continue
		}
		wantT := map[string]string{"link": "in_toto.Link", "layout": "in_toto.Layout"}[marker]
		var req, dec ssa.CallInstruction
		for _, call := range callsIn(f, "in_toto.checkRequiredJSONFields") {
			if c.condAt(bo, true, call.Block()) {
				req = call
			}
		}
		decT := ""
		for _, sd := range c.strictDecodes(f) {
			if c.condAt(bo, true, sd.site.Block()) {
				dec = sd.site
				decT = sd.targetT
			}
		}
		okReq := false
		if req != nil {
			// reflect.TypeOf(value of wantT)
			if tc, ok := resolve(req.Common().Args[1], req).(*ssa.Call); ok && calleeName(tc) == "reflect.TypeOf" {
				if mi, ok := tc.Call.Args[0].(*ssa.MakeInterface); ok {
					okReq = typeStr(mi.X.Type()) == wantT
				}
			}
			okReq = okReq && org(req.Common().Args[0]) != ""
			okErr := false
			if e := errResult(req); e != nil {
				for _, br := range errBranches(e) {
					okErr = okErr || c.failing(br.NonNil)
				}
			}
			okReq = okReq && okErr
		}
		reqInHelper := false
		if req == nil && dec != nil {
			// the check may sit in the helper that also decodes: checkRequiredJSONFields(fields,
			// reflect.TypeOf(target).Elem()) with target the parameter that receives &Link / &Layout here
			for _, sd := range c.strictDecodes(f) {
				if sd.site != dec || sd.frame == f {
					continue
				}
				prm, isP := resolve(sd.decode.Common().Args[1], sd.decode).(*ssa.Parameter)
				if !isP {
					continue
				}
				for _, rq := range callsIn(sd.frame, "in_toto.checkRequiredJSONFields") {
					el, ok := resolve(rq.Common().Args[1], rq).(*ssa.Call)
					if !ok || !el.Call.IsInvoke() || el.Call.Method.Name() != "Elem" {
						continue
					}
					tc, ok := el.Call.Value.(*ssa.Call)
					if !ok || calleeName(tc) != "reflect.TypeOf" || resolve(tc.Call.Args[0], tc) != ssa.Value(prm) {
						continue
					}
					okErr := false
					if e := errResult(rq); e != nil {
						for _, br := range errBranches(e) {
							okErr = okErr || c.failing(br.NonNil)
						}
					}
					if okErr && sd.targetT == "*"+wantT && sd.errFails && instrDominates(rq, sd.decode) {
						okReq, reqInHelper = true, true
					}
				}
			}
		}
		c.check(okReq, R, fn, "required fields of "+wantT+" are checked for _type "+marker, f.Pos(), "checkRequiredJSONFields(payload, reflect.TypeOf("+wantT+"{})) with failing error", "the required-field check for marker "+marker+" is missing, uses another type, or its error is ignored")
		okDec := false
		if dec != nil {
			okDec = decT == "*"+wantT && (req == nil || reqInHelper || instrDominates(req, dec))
		}
		c.check(okDec, R, fn, "_type "+marker+" decodes into "+wantT+" after the required-field check", f.Pos(), "Decode(&"+wantT+")", "marker "+marker+" does not decode into "+wantT)
	}
	// unknown marker fails: returns not under any marker fact are failing
	okUnknown := false
	for _, r := range returnsOf(f) {
		under := false
		for _, bo := range cases {
			if c.condAt(bo, true, r.Block()) {
				under = true
			}
		}
		if !under && !c.mayBeNilErr(r.Results[1], r.Block(), 0) && strings.Contains(org(r.Results[1]), "ErrUnknownMetadataType") {
			okUnknown = true
		}
	}
	c.check(okUnknown, R, fn, "an unknown type marker fails", f.Pos(), "fallthrough returns ErrUnknownMetadataType", "a payload whose _type is neither link nor layout does not fail with ErrUnknownMetadataType")
	// checkRequiredJSONFields
	g := c.lookup("in_toto.checkRequiredJSONFields")
	if g == nil {
		c.undecided(R, "in_toto.checkRequiredJSONFields", "anchor", 0, "not found")
		return
	}
	okAll := false
	// in the function itself or in an unexported helper it hands the type to (a helper that collects the tags)
	fieldFrames := helperClosure(g, 3)
	for _, fr := range fieldFrames {
		if nf := firstCall(fr, "iface:reflect.Type.NumField"); nf != nil {
			for _, b := range fr.Blocks {
				for _, in := range b.Instrs {
					if bo, ok := in.(*ssa.BinOp); ok && bo.Op.String() == "<" && resolve(bo.Y, bo) == nf.Value() {
						okAll = true
					}
				}
			}
		}
	}
	c.check(okAll, R, fname(g), "every struct field is visited", g.Pos(), "loop i < typ.NumField()", "not every field of the type is examined")
	okOmit := false
	// in the function itself or in an unexported helper it calls (a tag-parsing helper)
	frames := helperClosure(g, 3)
	for _, fr := range frames {
		for _, call := range callsIn(fr, "strings.Contains") {
			if s, _ := constString(call.Common().Args[1]); s == "omitempty" {
				okOmit = true
			}
		}
	}
	okMissing := false
	for _, b := range g.Blocks {
		for _, in := range b.Instrs {
			if lk, ok := in.(*ssa.Lookup); ok && lk.CommaOk && lk.X == ssa.Value(g.Params[0]) {
				if okv := extractOf(lk, 1); okv != nil {
					for _, cu := range condUsers(okv, false) {
						// missing key: either fails directly or goes on to test omitempty
						fb := branchTaken(cu, false)
						if c.failing(fb) {
							okMissing = true
						}
						for _, s := range fb.Succs {
							if c.failing(s) {
								okMissing = true
							}
						}
					}
				}
			}
		}
	}
	c.check(okOmit && okMissing, R, fname(g), "a missing member fails unless it is omitempty", g.Pos(), "lookup !ok && !omitempty => error", "a missing required member is not an error (or omitempty is not what exempts)")
	// ... and only absence fails: the writers emit null for nil slices / maps of non-omitempty members, so a present
	// member must never be refused because of its value
	for _, r := range returnsOf(g) {
		if c.mayBeNilErr(r.Results[0], r.Block(), 0) {
			continue
		}
		onlyAbsent := false
		for _, b := range g.Blocks {
			for _, in := range b.Instrs {
				if lk, ok := in.(*ssa.Lookup); ok && lk.CommaOk && lk.X == ssa.Value(g.Params[0]) {
					if okv := extractOf(lk, 1); okv != nil && c.condAt(okv, false, r.Block()) {
						onlyAbsent = true
					}
				}
			}
		}
		c.check(onlyAbsent, R, fname(g), "a member is refused only when its key is absent", instrPos(r), "failing return dominated by lookup ok == false", "a member that is present (e.g. with value null, which Dump / SetPayload write for nil slices and maps) can be refused as missing: library-written files no longer load back")
	}
}

// stringCasesIface: like stringCases but for comparisons of interface values with boxed string constants.
func stringCasesIface(f *ssa.Function, pred func(v ssa.Value) bool) map[string]*ssa.BinOp {
	out := map[string]*ssa.BinOp{}
	for _, b := range f.Blocks {
		for _, in := range b.Instrs {
			bo, ok := in.(*ssa.BinOp)
			if !ok || bo.Op.String() != "==" {
				continue
			}
			for _, side := range [][2]ssa.Value{{bo.X, bo.Y}, {bo.Y, bo.X}} {
				v := side[1]
				if mi, ok := v.(*ssa.MakeInterface); ok {
					v = mi.X
				}
				if s, ok := constString(v); ok && pred(side[0]) {
					out[s] = bo
				}
			}
		}
	}
	return out
}

func ruleC12_3(c *Ctx) {
	const R = "R-C12-3"
	// keys used by the loaders to index the raw map
	used := map[string]bool{}
	for _, n := range []string{"in_toto.LoadMetadata", "(*in_toto.Metablock).Load"} {
		f := c.lookup(n)
		if f == nil {
			continue
		}
		frames := []*ssa.Function{f}
		for g := range c.ownedBy(f) {
			if g != f {
				frames = append(frames, g)
			}
		}
		// an unexported parsing helper shared by the two loaders
		for _, via := range allCalls(f) {
			if g := via.Common().StaticCallee(); g != nil && g.Blocks != nil && g.Pkg == f.Pkg && g.Object() != nil && !g.Object().Exported() && firstCall(g, "in_toto.loadPayload") != nil {
				frames = append(frames, g)
			}
		}
		for _, fr := range frames {
			for _, b := range fr.Blocks {
				for _, in := range b.Instrs {
					if lk, ok := in.(*ssa.Lookup); ok {
						if k, ok := constString(lk.Index); ok {
							used[k] = true
						}
					}
				}
			}
		}
	}
	// writer names
	sp := c.pkg("in_toto")
	mb, _ := jsonView(sp.Type("Metablock").Type())
	var mbNames []string
	for _, m := range mb {
		mbNames = append(mbNames, m.Name)
	}
	for _, n := range mbNames {
		c.check(used[n], R, "in_toto.Metablock", "member \""+n+"\" written by Dump is what the loaders read", 0, "raw[\""+n+"\"]", "the loaders do not read the member \""+n+"\" that Metablock.Dump writes")
	}
	if dp := c.SSAPkgs[sslPath+"/dsse"]; dp != nil {
		if et := dp.Type("Envelope"); et != nil {
			env, _ := jsonView(et.Type())
			for _, m := range env {
				c.check(used[m.Name], R, "dsse.Envelope", "member \""+m.Name+"\" written by Dump is what LoadMetadata reads", 0, "raw[\""+m.Name+"\"]", "LoadMetadata does not look at the envelope member \""+m.Name+"\"")
			}
		}
	}
	// type markers: loader vs validators vs writers
	markers := map[string][]string{}
	if f := c.lookup("in_toto.loadPayload"); f != nil {
		markers["loader"] = keysOf(stringCasesIface(f, func(v ssa.Value) bool { return strings.HasSuffix(org(v), `{const("_type")}`) }))
	}
	for _, p := range [][2]string{{"in_toto.validateLink", "link"}, {"in_toto.validateLayout", "layout"}} {
		if f := c.lookup(p[0]); f != nil {
			got := ""
			for _, b := range f.Blocks {
				for _, in := range b.Instrs {
					if bo, ok := in.(*ssa.BinOp); ok && bo.Op.String() == "!=" && org(bo.X) == "p0.Type" {
						got, _ = constString(bo.Y)
					}
				}
			}
			c.check(got == p[1], R, p[0], "validator demands the marker the loader dispatches on", f.Pos(), got, "validator demands _type "+got+", loader dispatches on "+p[1])
		}
	}
	c.check(strings.Join(markers["loader"], ",") == "layout,link", R, "in_toto.loadPayload", "type markers", 0, strings.Join(markers["loader"], ","), "loader dispatches on {"+strings.Join(markers["loader"], ",")+"}")
	for _, n := range []string{"in_toto.InTotoRun", "in_toto.InTotoRecordStart"} {
		if f := c.lookup(n); f != nil {
			got := ""
			for _, b := range f.Blocks {
				for _, in := range b.Instrs {
					if st, ok := in.(*ssa.Store); ok {
						if fa, ok := st.Addr.(*ssa.FieldAddr); ok && typeStr(fa.X.Type()) == "*in_toto.Link" && fieldName(fa.X.Type(), fa.Field) == "Type" {
							got, _ = constString(st.Val)
						}
					}
				}
			}
			c.check(got == "link", R, n, "written link marker", f.Pos(), got, "links are written with _type "+got)
		}
	}
}

func ruleC12_4(c *Ctx) {
	const R = "R-C12-4"
	root := c.lookup("in_toto.ValidateMetablock")
	if root == nil {
		c.undecided(R, "in_toto.ValidateMetablock", "anchor", 0, "not found")
		return
	}
	// static (non-interface) reachability only
	reach := map[*ssa.Function]bool{root: true}
	stack := []*ssa.Function{root}
	for len(stack) > 0 {
		f := stack[len(stack)-1]
		stack = stack[:len(stack)-1]
		for _, call := range allCalls(f) {
			if g := call.Common().StaticCallee(); g != nil && g.Blocks != nil && !reach[g] {
				reach[g] = true
				stack = append(stack, g)
			}
		}
	}
	for _, n := range []string{"in_toto.validateLayout", "in_toto.validateLink", "in_toto.validateStep", "in_toto.validateInspection", "in_toto.validateSupplyChainItem",
		"in_toto.validateSliceOfArtifactRules", "in_toto.UnpackRule", "in_toto.validateLayoutKeys", "in_toto.validatePublicKey", "in_toto.validateKey", "in_toto.matchKeyTypeScheme",
		"in_toto.validateSliceOfSignatures", "in_toto.validateSignature", "in_toto.validateArtifacts", "in_toto.validateHexString"} {
		f := c.lookup(n)
		if f == nil {
			c.undecided(R, n, "anchor", 0, "validator not found")
			continue
		}
		c.check(reach[f], R, n, "reachable from ValidateMetablock by static calls", f.Pos(), "wired", "validator "+n+" is never called on the path from ValidateMetablock: what it checks is not enforced")
	}
	vl := c.lookup("in_toto.validateLayout")
	if vl == nil {
		return
	}
	// element loops
	for _, p := range [][3]string{{"in_toto.validateStep", "p0.Steps[*]", "steps"}, {"in_toto.validateInspection", "p0.Inspect[*]", "inspections"}} {
		ok := false
		for _, call := range callsIn(vl, p[0]) {
			a := call.Common().Args[0]
			if org(a) == p[1] {
				if u, isU := a.(*ssa.UnOp); isU && wholeSliceIndex(u.X) {
					ok = true
				} else if wholeSliceIndex(a) {
					ok = true
				} else {
					ok = strings.Contains(org(a), "[*]")
				}
			}
		}
		c.check(ok, R, fname(vl), "every element of layout."+strings.TrimSuffix(strings.TrimPrefix(p[1], "p0."), "[*]")+" is validated", vl.Pos(), p[0]+"("+p[1]+")", "the "+p[2]+" of a layout are not validated element by element")
	}
	for _, m := range []string{"p0.Keys", "p0.RootCas", "p0.IntermediateCas"} {
		ok := false
		for _, call := range callsIn(vl, "in_toto.validateLayoutKeys") {
			// given directly, or as an element of a slice literal that a range loop walks completely
			for _, v := range rangedLiteralElems(call.Common().Args[0], call) {
				if org(v) == m {
					ok = true
				}
			}
		}
		c.check(ok, R, fname(vl), "key map "+strings.TrimPrefix(m, "p0.")+" is validated", vl.Pos(), "validateLayoutKeys("+m+")", "layout."+strings.TrimPrefix(m, "p0.")+" is not validated")
	}
	// name uniqueness across steps and inspections
	uniq := 0
	for _, b := range vl.Blocks {
		for _, in := range b.Instrs {
			if lk, ok := in.(*ssa.Lookup); ok {
				if _, isMk := lk.X.(*ssa.MakeMap); isMk {
					o := org(lk.Index)
					if o == "p0.Steps[*].SupplyChainItem.Name" || o == "p0.Inspect[*].SupplyChainItem.Name" {
						for _, cu := range condUsers(lk, false) {
							if c.failing(branchTaken(cu, true)) {
								uniq++
							}
						}
					}
				}
			}
		}
	}
	// the same through a local "claim" function: claim(name) fails if the name was seen and records it otherwise
	for _, call := range allCalls(vl) {
		var g *ssa.Function
		if mc, ok := call.Common().Value.(*ssa.MakeClosure); ok {
			g, _ = mc.Fn.(*ssa.Function)
		} else if sc := call.Common().StaticCallee(); sc != nil && sc.Pkg == vl.Pkg && (sc.Object() == nil || !sc.Object().Exported()) {
			g = sc
		}
		if g == nil || g.Blocks == nil || len(call.Common().Args) == 0 {
			continue
		}
		nameArg := -1
		for i, a := range call.Common().Args {
			if o := org(a); o == "p0.Steps[*].SupplyChainItem.Name" || o == "p0.Inspect[*].SupplyChainItem.Name" {
				nameArg = i
			}
		}
		if nameArg < 0 || nameArg >= len(g.Params) {
			continue
		}
		prm := ssa.Value(g.Params[nameArg])
		seenFails, recorded := false, false
		for _, k := range allCalls(g) {
			switch calleeName(k) {
			case "(in_toto.Set).Has":
				if resolve(k.Common().Args[1], k) == prm && k.Value() != nil {
					for _, cu := range condUsers(k.Value(), false) {
						if c.failing(branchTaken(cu, true)) {
							seenFails = true
						}
					}
				}
			case "(in_toto.Set).Add":
				if resolve(k.Common().Args[1], k) == prm {
					recorded = true
				}
			}
		}
		for _, b := range g.Blocks {
			for _, in := range b.Instrs {
				switch x := in.(type) {
				case *ssa.Lookup:
					if resolve(x.Index, x) == prm {
						v := ssa.Value(x)
						if x.CommaOk {
							v = extractOf(x, 1)
						}
						if v != nil {
							for _, cu := range condUsers(v, false) {
								if c.failing(branchTaken(cu, true)) {
									seenFails = true
								}
							}
						}
					}
				case *ssa.MapUpdate:
					if resolve(x.Key, x) == prm {
						recorded = true
					}
				}
			}
		}
		okErr := false
		if e := errResult(call); e != nil {
			for _, br := range errBranches(e) {
				okErr = okErr || c.failing(br.NonNil)
			}
		}
		if seenFails && recorded && okErr {
			uniq++
		}
	}
	c.check(uniq >= 2, R, fname(vl), "step and inspection names are unique across both lists", vl.Pos(), "seen[name] => error for steps and inspections", "duplicate step/inspection names are not rejected")
}

func ruleC12_5(c *Ctx) {
	const R = "R-C12-5"
	if f := c.lookup("in_toto.validateHexString"); f != nil {
		pat := ""
		if call := firstCall(f, "regexp.MatchString"); call != nil {
			pat, _ = constString(call.Common().Args[0])
			c.check(org(call.Common().Args[1]) == "p0", R, fname(f), "the parameter is what is matched", call.Pos(), "p0", "matches "+org(call.Common().Args[1]))
			okFail := false
			if mv := resultN(call, 0); mv != nil {
				for _, cu := range condUsers(mv, false) {
					okFail = okFail || c.failing(branchTaken(cu, false))
				}
			}
			c.check(okFail, R, fname(f), "a non-hex string fails", call.Pos(), "false side is a failing continuation", "a mismatch is not an error")
		}
		norm := strings.ToLower(pat)
		c.check(norm == "^[a-fa-f0-9]+$" || norm == "^[0-9a-fa-f]+$" || norm == "^[0-9a-f]+$", R, fname(f), "hex pattern", f.Pos(), pat, fmt.Sprintf("hex validator pattern is %q, expected one or more of [0-9a-fA-F] anchored at both ends", pat))
	}
	for _, p := range [][2]string{{"in_toto.validateStep", "step"}, {"in_toto.validateInspection", "inspection"}, {"in_toto.validateLink", "link"}, {"in_toto.validateLayout", "layout"}} {
		f := c.lookup(p[0])
		if f == nil {
			c.undecided(R, p[0], "anchor", 0, "not found")
			continue
		}
		ok := false
		got := ""
		for _, b := range f.Blocks {
			for _, in := range b.Instrs {
				if bo, ok2 := in.(*ssa.BinOp); ok2 && (bo.Op.String() == "!=" || bo.Op.String() == "==") && org(bo.X) == "p0.Type" {
					got, _ = constString(bo.Y)
					for _, cu := range condUsers(bo, false) {
						if c.failing(branchTaken(cu, bo.Op.String() == "!=")) {
							ok = got == p[1]
						}
					}
				}
			}
		}
		c.check(ok, R, p[0], "type marker must be \""+p[1]+"\"", f.Pos(), got, "marker compared with \""+got+"\" or a mismatch does not fail")
	}
	if f := c.lookup("in_toto.validateSupplyChainItem"); f != nil {
		ok := false
		for _, b := range f.Blocks {
			for _, in := range b.Instrs {
				if bo, ok2 := in.(*ssa.BinOp); ok2 && bo.Op.String() == "==" && org(bo.X) == "p0.Name" {
					if s, isS := constString(bo.Y); isS && s == "" {
						for _, cu := range condUsers(bo, false) {
							ok = ok || c.failing(branchTaken(cu, true))
						}
					}
				}
			}
		}
		c.check(ok, R, fname(f), "empty item name fails", f.Pos(), "Name == \"\" => error", "an empty step/inspection name is accepted")
	}
	if f := c.lookup("in_toto.validatePublicKey"); f != nil {
		ok := false
		for _, b := range f.Blocks {
			for _, in := range b.Instrs {
				if bo, ok2 := in.(*ssa.BinOp); ok2 && bo.Op.String() == "!=" && org(bo.X) == "p0.KeyVal.Private" {
					for _, cu := range condUsers(bo, false) {
						ok = ok || c.failing(branchTaken(cu, true))
					}
				}
			}
		}
		c.check(ok, R, fname(f), "layout keys must be public-only", f.Pos(), "Private != \"\" => error", "a layout key carrying a private half is accepted")
	}
	if f := c.lookup("in_toto.validateLayoutKeys"); f != nil {
		ok := false
		for _, b := range f.Blocks {
			for _, in := range b.Instrs {
				if bo, ok2 := in.(*ssa.BinOp); ok2 && bo.Op.String() == "!=" {
					x, y := org(bo.X), org(bo.Y)
					if (x == "p0{*}.KeyID" && y == "key(p0)") || (y == "p0{*}.KeyID" && x == "key(p0)") {
						for _, cu := range condUsers(bo, false) {
							ok = ok || c.failing(branchTaken(cu, true))
						}
					}
				}
			}
		}
		c.check(ok, R, fname(f), "map key must equal the key's own id", f.Pos(), "key.KeyID != mapKey => error", "a key stored under a foreign id is accepted")
	}
}

func ruleC12_6(c *Ctx) {
	const R = "R-C12-6"
	// every composite literal of Metablock / dsse.Envelope that is returned or dumped sets Signatures non-nil
	n := 0
	for _, f := range c.srcFuncs("in_toto") {
		for _, b := range f.Blocks {
			for _, in := range b.Instrs {
				al, ok := in.(*ssa.Alloc)
				if !ok || al.Comment != "complit" {
					continue
				}
				t := typeStr(al.Type())
				if t != "*in_toto.Metablock" && t != "*ssl/dsse.Envelope" {
					continue
				}
				// exempt: zero literals that are filled by a loader (Load / json.Unmarshal) in the same function
				filled := false
				for _, r := range *al.Referrers() {
					if call, ok := r.(ssa.CallInstruction); ok {
						cn := calleeName(call)
						if cn == "encoding/json.Unmarshal" || cn == "(*in_toto.Metablock).Load" {
							filled = true
						}
					}
					if mi, ok := r.(*ssa.MakeInterface); ok {
						for _, rr := range *mi.Referrers() {
							if call, ok := rr.(ssa.CallInstruction); ok && calleeName(call) == "encoding/json.Unmarshal" {
								filled = true
							}
						}
					}
				}
				// a field of the literal handed to json.Unmarshal (json.Unmarshal(raw, &mb.Signatures)) fills it as well
				for _, r := range *al.Referrers() {
					if fa, ok := r.(*ssa.FieldAddr); ok {
						for _, rr := range *fa.Referrers() {
							if mi, ok := rr.(*ssa.MakeInterface); ok {
								for _, r3 := range *mi.Referrers() {
									if call, ok := r3.(ssa.CallInstruction); ok && calleeName(call) == "encoding/json.Unmarshal" {
										filled = true
									}
								}
							}
						}
					}
				}
				if filled || c.isOrServesOnly(f, "in_toto.LoadMetadata", "(*in_toto.Metablock).Load") {
					continue
				}
				n++
				okSig := false
				for _, r := range *al.Referrers() {
					if fa, ok := r.(*ssa.FieldAddr); ok && fieldName(fa.X.Type(), fa.Field) == "Signatures" {
						for _, rr := range *fa.Referrers() {
							if st, ok := rr.(*ssa.Store); ok && !isNilConst(st.Val) {
								okSig = true
							}
						}
					}
				}
				// the summary link is returned to the caller, never dumped by the library, and Sign appends: accept with reason
				if !okSig && c.isOrServesOnly(f, "in_toto.GetSummaryLink") {
					c.trivial(R, fname(f), "literal "+t, al.Pos(), "reviewed: the summary link is an in-memory result that the library never dumps")
					continue
				}
				c.check(okSig, R, fname(f), "literal "+t+" initialises Signatures", al.Pos(), "non-nil signature list", "a "+t+" is built with a nil signature list: Dump writes \"signatures\": null, which LoadMetadata refuses (an unsigned file written by the library does not load back)")
			}
		}
	}
	if n == 0 {
		c.bad(R, "in_toto", "metadata constructors", 0, "no Metablock / dsse.Envelope literal found")
	}
}

// R-C04-6: getSignerVerifierFromKey returns nothing but the result of one of the three constructors applied to the
// securesystemslib copy of its key parameter — no cached / shared / substituted verifier.
func ruleC04_6(c *Ctx) {
	const R = "R-C04-6"
	f := c.lookup("in_toto.getSignerVerifierFromKey")
	if f == nil {
		c.undecided(R, "in_toto.getSignerVerifierFromKey", "anchor", 0, "not found")
		return
	}
	fn := fname(f)
	n := 0
	for _, r := range c.nilErrReturns(f) {
		n++
		detail := short(org(r.Results[0]))
		// leaves of the returned value through phis
		var leaves []ssa.Value
		seen := map[ssa.Value]bool{}
		var walk func(v ssa.Value, at ssa.Instruction)
		walk = func(v ssa.Value, at ssa.Instruction) {
			v = resolve(v, at)
			if seen[v] {
				return
			}
			seen[v] = true
			if ph, isPhi := v.(*ssa.Phi); isPhi {
				for _, e := range ph.Edges {
					walk(e, ph)
				}
				return
			}
			leaves = append(leaves, v)
		}
		walk(r.Results[0], r)
		ok := len(leaves) > 0
		for _, lf := range leaves {
			if isNilConst(lf) {
				continue
			}
			var pc ssa.CallInstruction
			idx := -1
			switch x := lf.(type) {
			case *ssa.Call:
				pc, idx = x, 0
			case *ssa.Extract:
				if k, isCall := x.Tuple.(*ssa.Call); isCall {
					pc, idx = k, x.Index
				}
			}
			good := false
			if pc != nil && idx == 0 && strings.HasPrefix(calleeName(pc), "ssl/signerverifier.New") && strings.HasSuffix(calleeName(pc), "FromSSLibKey") {
				good = derives(pc.Common().Args[0], func(v ssa.Value) bool {
					k, isCall := v.(*ssa.Call)
					return isCall && calleeName(k) == "in_toto.getSSLibKeyFromKey" && resolve(k.Call.Args[0], k) == ssa.Value(f.Params[0])
				}, true)
			}
			if !good {
				ok = false
				detail = short(org(lf))
			}
		}
		c.check(ok, R, fn, "returned signer/verifier", instrPos(r), "result of a constructor applied to the key parameter's own material", "a signer/verifier that is not freshly built from the supplied key's material is returned ("+detail+"): signatures would be checked against other key material than the caller supplied")
	}
	if n == 0 {
		c.bad(R, fn, "success returns", f.Pos(), "none")
	}
	// no package-level state is consulted
	for _, b := range f.Blocks {
		for _, in := range b.Instrs {
			for _, op := range in.Operands(nil) {
				if g, ok := (*op).(*ssa.Global); ok && g.Pkg == c.pkg("in_toto") && !strings.HasPrefix(g.Name(), "Err") {
					c.bad(R, fn, "use of package-level "+g.Name(), in.Pos(), "the signer/verifier construction consults package-level state")
				}
			}
		}
	}
	c.ok(R, fn, "no package-level state consulted", f.Pos(), "only error sentinels")
}

// plainAppendTo: v is builtin append(base, ...) with base the previous list itself (isOld), possibly through one
// unexported helper that returns append(its parameter, ...) on every path.
func plainAppendTo(v ssa.Value, at ssa.Instruction, isOld func(ssa.Value) bool, depth int) (bool, string) {
	r := resolve(v, at)
	call, ok := r.(*ssa.Call)
	if !ok {
		if ex, isEx := r.(*ssa.Extract); isEx {
			call, ok = ex.Tuple.(*ssa.Call)
		}
		if !ok {
			return false, short(org(v))
		}
	}
	if calleeName(call) == "builtin:append" {
		base := resolve(call.Call.Args[0], call)
		if isOld(base) {
			return true, "append(previous list, …)"
		}
		return false, "append(" + short(org(call.Call.Args[0])) + ", …)"
	}
	g := call.Call.StaticCallee()
	if g == nil || g.Blocks == nil || depth > 0 {
		return false, short(org(v))
	}
	// which parameter receives the old list?
	pi := -1
	for i, a := range call.Call.Args {
		if isOld(resolve(a, call)) {
			pi = i
		}
	}
	if pi < 0 {
		return false, calleeName(call) + "(…) without the previous list"
	}
	prm := g.Params[pi]
	for _, ret := range returnsOf(g) {
		if len(ret.Results) == 0 {
			return false, calleeName(call) + "(…)"
		}
		ok, how := plainAppendTo(ret.Results[0], ret, func(x ssa.Value) bool { return x == ssa.Value(prm) }, depth+1)
		if !ok {
			return false, calleeName(call) + " returning " + how
		}
	}
	return true, calleeName(call) + " = append(previous list, …)"
}

// helperClosure: g and the unexported functions of its package it calls statically, up to the given depth.
func helperClosure(g *ssa.Function, depth int) []*ssa.Function {
	out := []*ssa.Function{g}
	seen := map[*ssa.Function]bool{g: true}
	frontier := []*ssa.Function{g}
	for d := 0; d < depth; d++ {
		var next []*ssa.Function
		for _, f := range frontier {
			for _, call := range allCalls(f) {
				h := call.Common().StaticCallee()
				if h == nil || h.Blocks == nil || h.Pkg != g.Pkg || seen[h] || (h.Object() != nil && h.Object().Exported()) {
					continue
				}
				seen[h] = true
				out = append(out, h)
				next = append(next, h)
			}
		}
		frontier = next
	}
	return out
}
