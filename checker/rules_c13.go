package main

import (
	"fmt"
	"go/token"
	"go/types"
	"sort"
	"strings"

	"golang.org/x/tools/go/ssa"
)

func init() {
	register(&Property{ID: "C13",
		Explanation: "The completeness and correctness of a directory walk over all trees is NOT decided. Decided structural clauses: (R-C13-1) the algorithm table maps exactly sha256/sha384/sha512 to their constructors; (R-C13-2) RecordArtifact hashes the bytes read from the path parameter, rewrites them only under lineNormalization, fails on an unknown algorithm, and stores under each requested name the digest computed with the constructor looked up under that same name; hashToHex writes the data and returns Sum(nil); (R-C13-3) walk discipline: incoming walk errors are returned, exclusion returns before hashing, directory symlinks are followed only under followSymlinkDirs, the cycle error is returned, a key collision after stripping fails, every error is propagated (A1), result keys pass through filepath.ToSlash; (R-C13-4) snapshot discipline of InTotoRun (R-C09-4), InTotoRecordStart (materials only, empty products), InTotoRecordStop (signature check first, materials kept, fresh products); (R-C13-5) InTotoMatchProducts returns products\\artifacts, artifacts\\products and the names in both whose hash objects differ; (R-C16-1) no package-level walk state.",
		NotDecided:  []string{"completeness of the walk", "symlink semantics on real trees", "prefix stripping on arbitrary paths", "digest values"},
		Rules: []Rule{
			{ID: "R-C13-1", Doc: "hash algorithm table", Min: 3, Run: ruleC13_1},
			{ID: "R-C13-2", Doc: "RecordArtifact: bytes, normalisation, algorithms, digests", Min: 7, Run: ruleC13_2},
			{ID: "R-C13-3", Doc: "walk discipline", Min: 8, Run: ruleC13_3},
			{ID: "R-C09-4", Doc: "snapshot discipline in InTotoRun (shared with C09)", Min: 6, Run: ruleC09_4},
			{ID: "R-C13-4", Doc: "snapshot discipline in record start / stop", Min: 6, Run: ruleC13_4},
			{ID: "R-C13-5", Doc: "InTotoMatchProducts three-way difference", Min: 3, Run: ruleC13_5},
			ruleC16_1(),
			a1Rule(14, "in_toto.RecordArtifact", "in_toto.RecordArtifacts", "in_toto.recordArtifacts", "in_toto.InTotoRun", "in_toto.InTotoRecordStart", "in_toto.InTotoRecordStop", "in_toto.InTotoMatchProducts", "in_toto.hashToHex"),
		}})
}

func ruleC13_1(c *Ctx) {
	const R = "R-C13-1"
	f := c.lookup("in_toto.getHashMapping")
	if f == nil {
		c.undecided(R, "in_toto.getHashMapping", "anchor", 0, "not found")
		return
	}
	want := map[string]string{"sha256": "crypto/sha256.New", "sha384": "crypto/sha512.New384", "sha512": "crypto/sha512.New"}
	got := map[string]string{}
	for _, b := range f.Blocks {
		for _, in := range b.Instrs {
			if mu, ok := in.(*ssa.MapUpdate); ok {
				k, _ := constString(mu.Key)
				v := "?"
				if fn, ok := mu.Value.(*ssa.Function); ok {
					v = fname(fn)
				}
				got[k] = v
			}
		}
	}
	var names []string
	for k := range want {
		names = append(names, k)
	}
	for k := range got {
		if _, ok := want[k]; !ok {
			names = append(names, k)
		}
	}
	sort.Strings(names)
	for _, k := range names {
		c.check(got[k] == want[k], R, fname(f), "algorithm "+k, f.Pos(), k+" -> "+got[k], fmt.Sprintf("algorithm %q maps to %q, expected %q", k, got[k], want[k]))
	}
}

func ruleC13_2(c *Ctx) {
	const R = "R-C13-2"
	f := c.lookup("in_toto.RecordArtifact")
	if f == nil {
		c.undecided(R, "in_toto.RecordArtifact", "anchor", 0, "not found")
		return
	}
	fn := fname(f)
	// the content: os.ReadFile(path), or io.ReadAll of the file opened with os.Open(path)
	rf := firstCall(f, "os.ReadFile")
	var contents ssa.Value
	if rf != nil {
		c.check(org(rf.Common().Args[0]) == "p0", R, fn, "content = os.ReadFile(path parameter)", rf.Pos(), "os.ReadFile(p0)", "the file named by the path parameter is not what is read: "+short(org(rf.Common().Args[0])))
		contents = resultN(rf, 0)
	} else if ra := firstCall(f, "io.ReadAll"); ra != nil {
		op, _ := producer(ra.Common().Args[0], ra)
		okOpen := op != nil && calleeName(op) == "os.Open" && org(op.Common().Args[0]) == "p0"
		c.check(okOpen, R, fn, "content = io.ReadAll(os.Open(path parameter))", ra.Pos(), "io.ReadAll of the file opened from p0", "the bytes read do not come from the file named by the path parameter: "+short(org(ra.Common().Args[0])))
		rf = ra
		contents = resultN(ra, 0)
	} else {
		c.undecided(R, fn, "how the file content is obtained", f.Pos(), "the content is read neither with os.ReadFile(path) nor with io.ReadAll(os.Open(path)): this way of feeding the hashes (streaming?) is not recognised, so that every byte of the named file, and nothing else, is hashed — and that a read error fails the recording — is not decided")
		return
	}
	// every rewrite of the bytes is under lineNormalization == true
	nrw := 0
	for _, call := range allCalls(f) {
		n := calleeName(call)
		if !strings.HasPrefix(n, "bytes.") || n == "bytes.Equal" {
			continue
		}
		nrw++
		c.check(c.condAt(f.Params[2], true, call.Block()), R, fn, "content rewrite "+n+" only under lineNormalization", call.Pos(), "control-dependent on the parameter being true", "file content is rewritten ("+n+") although line normalisation was not requested")
	}
	// the normaliser is exactly ReplaceAll(CRLF -> LF) followed by ReplaceAll(CR -> LF); anything else that transforms
	// the bytes under lineNormalization is an unknown normaliser
	// (looked for in RecordArtifact itself or in the one in_toto helper that receives the content under lineNormalization)
	nf, input := f, contents
	other := ""
	if len(callsIn(f, "bytes.ReplaceAll")) == 0 {
		for _, call := range allCalls(f) {
			if c.condAt(f.Params[2], true, call.Block()) && len(call.Common().Args) > 0 && derives(call.Common().Args[0], func(v ssa.Value) bool { return v == contents }, false) {
				other = calleeName(call)
				if g := call.Common().StaticCallee(); g != nil && g.Blocks != nil && g.Pkg == f.Pkg && len(g.Params) == 1 {
					nf, input = g, ssa.Value(g.Params[0])
				}
			}
		}
	}
	var repl []string
	cs := callsIn(nf, "bytes.ReplaceAll")
	for _, call := range cs {
		a := call.Common().Args
		repl = append(repl, fmt.Sprintf("%q->%q", derivesConstBytes(a[1]), derivesConstBytes(a[2])))
	}
	okNorm := len(repl) == 2 && repl[0] == `"\r\n"->"\n"` && repl[1] == `"\r"->"\n"`
	if okNorm {
		// the first replacement is applied to the input, the second to the result of the first
		pc, _ := producer(cs[1].Common().Args[0], cs[1])
		okNorm = pc == cs[0] && resolve(cs[0].Common().Args[0], cs[0]) == input
		if nf != f {
			// the helper returns the result of the second replacement on every path, and does nothing else to the bytes
			for _, r := range returnsOf(nf) {
				if rp, _ := producer(r.Results[0], r); rp != cs[1] {
					okNorm = false
				}
			}
			for _, call := range allCalls(nf) {
				if n := calleeName(call); n != "bytes.ReplaceAll" {
					okNorm = false
				}
			}
			for _, b := range nf.Blocks {
				for _, in := range b.Instrs {
					if _, isStore := in.(*ssa.Store); isStore {
						okNorm = false
					}
				}
			}
		}
	}
	if len(cs) == 0 {
		if other != "" {
			c.undecided(R, fn, "line normaliser "+other, f.Pos(), "under lineNormalization the content is transformed by "+other+", not by the recognised bytes.ReplaceAll(CRLF->LF), bytes.ReplaceAll(CR->LF) pair: its result on all inputs (CR at the very end, lone CR, CRLF) is not decided")
		} else {
			c.bad(R, fn, "line normalisation", f.Pos(), "nothing normalises line endings when lineNormalization is requested")
		}
	} else {
		c.check(okNorm, R, fname(nf), "line normalisation = CRLF->LF, then CR->LF", nf.Pos(), strings.Join(repl, ", "), "normalisation replacements are "+strings.Join(repl, ", ")+" (expected \"\\r\\n\"->\"\\n\" then \"\\r\"->\"\\n\", the first applied to the file content, the second to the result of the first, nothing else)")
	}
	// hashing
	hh := firstCall(f, "in_toto.hashToHex")
	if hh == nil {
		c.bad(R, fn, "hashToHex", f.Pos(), "digest is not computed through hashToHex")
		return
	}
	data := hh.Common().Args[1]
	onlyFromFile := derives(data, func(v ssa.Value) bool { return v == contents }, true)
	c.check(onlyFromFile, R, fn, "hashed bytes derive from the file content", hh.Pos(), short(org(data)), "hashed bytes are "+short(org(data)))
	// constructor looked up under the same element as the store key
	var store *ssa.MapUpdate
	for _, b := range f.Blocks {
		for _, in := range b.Instrs {
			if mu, ok := in.(*ssa.MapUpdate); ok {
				if _, isMk := mu.Map.(*ssa.MakeMap); isMk {
					store = mu
				}
			}
		}
	}
	if store == nil {
		c.bad(R, fn, "digest store", f.Pos(), "no digest is stored")
		return
	}
	elem := resolve(store.Key, store)
	c.check(org(elem) == "p1[*]", R, fn, "digest stored under the requested algorithm name", store.Pos(), "result[hashAlgorithms[i]]", "digest stored under "+org(elem))
	okCtor := false
	if dc, ok := resolve(hh.Common().Args[0], hh).(*ssa.Call); ok && calleeName(dc) == "dynamic" {
		cv := resolve(dc.Call.Value, dc)
		// the value of a comma-ok lookup is the same constructor
		if ex, ok := cv.(*ssa.Extract); ok && ex.Index == 0 {
			cv = ex.Tuple
		}
		if lk, ok := cv.(*ssa.Lookup); ok {
			okCtor = resolve(lk.Index, lk) == elem && org(lk.X) == "in_toto.getHashMapping()"
		}
	}
	c.check(okCtor, R, fn, "digest computed with the constructor looked up under that same name", hh.Pos(), "getHashMapping()[name]()", "the hash constructor is not the one registered under the name the digest is stored under")
	okVal := derives(store.Value, func(v ssa.Value) bool { return v == hh.Value() }, true)
	sf, _ := isResultOf(store.Value, store, 0, "fmt.Sprintf")
	fmtOK := false
	if sf != nil {
		s, _ := constString(sf.Common().Args[0])
		fmtOK = s == "%x"
	}
	c.check(okVal && fmtOK, R, fn, "stored digest = lower-case hex of the hash sum", store.Pos(), "fmt.Sprintf(\"%x\", hashToHex(...))", "stored value is "+short(org(store.Value)))
	// unknown algorithm fails
	okUnknown := false
	for _, b := range f.Blocks {
		for _, in := range b.Instrs {
			if lk, ok := in.(*ssa.Lookup); ok && lk.CommaOk && org(lk.X) == "in_toto.getHashMapping()" && resolve(lk.Index, lk) == elem {
				if okv := extractOf(lk, 1); okv != nil {
					for _, cu := range condUsers(okv, false) {
						if c.failing(branchTaken(cu, false)) && c.condAt(okv, true, store.Block()) {
							okUnknown = true
						}
					}
				}
			}
		}
	}
	c.check(okUnknown, R, fn, "unknown algorithm is an error", f.Pos(), "!ok side of the table lookup fails; the store is on the ok side", "an unknown hash algorithm name does not fail")
	c.check(wholeSliceIndex(elem.(*ssa.UnOp).X), R, fn, "every requested algorithm is processed", store.Pos(), "range over hashAlgorithms", "not a plain range over the algorithm list")
	for _, r := range c.nilErrReturns(f) {
		c.check(resolve(r.Results[0], r) == store.Map, R, fn, "returns the digest map", instrPos(r), "the map the digests were stored in", "returns "+short(org(r.Results[0])))
	}
	if g := c.lookup("in_toto.hashToHex"); g != nil {
		w := firstCall(g, "iface:hash.Hash.Write")
		s := firstCall(g, "iface:hash.Hash.Sum")
		okH := w != nil && s != nil && org(w.Common().Value) == "p0" && org(w.Common().Args[0]) == "p1" && org(s.Common().Value) == "p0" && isNilConst(s.Common().Args[0]) && instrDominates(w, s)
		for _, r := range returnsOf(g) {
			if s == nil || resolve(r.Results[0], r) != s.Value() {
				okH = false
			}
		}
		c.check(okH, R, fname(g), "h.Write(data) then return h.Sum(nil)", g.Pos(), "the sum of exactly the data", "hashToHex does not return h.Sum(nil) after writing exactly the data")
	}
	_ = nrw
}

func ruleC13_3(c *Ctx) {
	const R = "R-C13-3"
	outer := c.lookup("in_toto.recordArtifacts")
	if outer == nil || len(outer.AnonFuncs) == 0 {
		c.undecided(R, "in_toto.recordArtifacts", "anchor", 0, "walk callback not found")
		return
	}
	cb := outer.AnonFuncs[0]
	fn := fname(cb)
	// (i) incoming error returned first
	okIn := false
	for _, br := range errBranches(cb.Params[2]) {
		if br.If.Block() == cb.Blocks[0] {
			if r, ok := br.NonNil.Instrs[len(br.NonNil.Instrs)-1].(*ssa.Return); ok && resolve(r.Results[0], r) == ssa.Value(cb.Params[2]) {
				okIn = true
			}
		}
	}
	c.check(okIn, R, fn, "(i) an error reported by the walk is returned", cb.Pos(), "first test: if err != nil { return err }", "the walk callback does not return the error it is given (unreadable paths would be skipped silently)")
	ra := firstCall(cb, "in_toto.RecordArtifact")
	if ra == nil {
		c.bad(R, fn, "RecordArtifact", cb.Pos(), "files are not hashed through RecordArtifact")
		return
	}
	c.check(org(ra.Common().Args[0]) == "p0" && org(ra.Common().Args[1]) == "fv:hashAlgorithms" && org(ra.Common().Args[2]) == "fv:lineNormalization", R, fn, "RecordArtifact(path, hashAlgorithms, lineNormalization)", ra.Pos(), "walked path with the caller's options", "RecordArtifact is called with "+org(ra.Common().Args[0])+", "+org(ra.Common().Args[1])+", "+org(ra.Common().Args[2]))
	// (ii) exclusion before hashing
	gi := firstCall(cb, "github.com/shibumi/go-pathspec.GitIgnore")
	okEx := false
	if gi != nil {
		if ig := resultN(gi, 0); ig != nil {
			okEx = c.condAt(ig, false, ra.Block()) && org(gi.Common().Args[0]) == "fv:gitignorePatterns" && org(gi.Common().Args[1]) == "p0"
		}
	}
	// the same two tests in an unexported skip predicate: hashing happens only where it answered false, and it answers
	// false (with a nil error) only where GitIgnore(patterns, path) and info.IsDir() are both false
	viaDir := false
	for _, via := range allCalls(cb) {
		h := via.Common().StaticCallee()
		if h == nil || h.Blocks == nil || h.Pkg != outer.Pkg || h.Parent() != nil || h.Object() == nil || h.Object().Exported() {
			continue
		}
		res := h.Signature.Results()
		if res.Len() < 1 || !isBool(res.At(0).Type().Underlying()) {
			continue
		}
		ans := resultN(via, 0)
		if res.Len() == 1 {
			ans = via.Value()
		}
		if ans == nil || !c.condAt(ans, false, ra.Block()) {
			continue
		}
		argOrg := func(v ssa.Value) string {
			if p, ok := resolve(v, nil).(*ssa.Parameter); ok && p.Parent() == h && paramIndex(p) < len(via.Common().Args) {
				return org(via.Common().Args[paramIndex(p)])
			}
			return ""
		}
		falseImplies := func(target ssa.Value) bool {
			rets := returnsOf(h)
			if ei := errIndex(h); ei >= 0 {
				rets = c.nilErrReturns(h)
			}
			if len(rets) == 0 {
				return false
			}
			for _, r := range rets {
				v := resolve(r.Results[0], r)
				if v == target {
					continue
				}
				if k, isK := v.(*ssa.Const); isK {
					if k.Value != nil && k.Value.String() == "true" {
						continue
					}
					if !c.condAt(target, false, r.Block()) {
						return false
					}
					continue
				}
				if ph, isPhi := v.(*ssa.Phi); isPhi {
					for i, e := range ph.Edges {
						pb := ph.Block().Preds[i]
						if k, isK := e.(*ssa.Const); isK && k.Value != nil && k.Value.String() == "true" {
							continue
						}
						if e == target || c.condAt(target, false, pb) || edgeFact(pb, ph.Block(), target, false) {
							continue
						}
						return false
					}
					continue
				}
				if !c.condAt(target, false, r.Block()) {
					return false
				}
			}
			return true
		}
		if hg := firstCall(h, "github.com/shibumi/go-pathspec.GitIgnore"); hg != nil && !okEx {
			if ig := resultN(hg, 0); ig != nil && argOrg(hg.Common().Args[0]) == "fv:gitignorePatterns" && argOrg(hg.Common().Args[1]) == "p0" && falseImplies(ig) {
				okEx = true
			}
		}
		for _, call := range callsIn(h, "iface:os.FileInfo.IsDir") {
			if argOrg(call.Common().Value) == "p1" && falseImplies(call.Value()) {
				viaDir = true
			}
		}
	}
	c.check(okEx, R, fn, "(ii) excluded paths are skipped before hashing", ra.Pos(), "RecordArtifact only where GitIgnore(patterns, path) is false", "hashing is not guarded by the exclusion patterns")
	// directories are not hashed
	okDir := false
	for _, call := range callsIn(cb, "iface:os.FileInfo.IsDir") {
		if org(call.Common().Value) == "p1" && c.condAt(call.Value(), false, ra.Block()) {
			okDir = true
		}
	}
	okDir = okDir || viaDir
	c.check(okDir, R, fn, "directories are not hashed", ra.Pos(), "RecordArtifact only where info.IsDir() is false", "directories can reach RecordArtifact")
	// (iii) directory symlinks only under followSymlinkDirs
	sf := c.symlinkFrameOf(cb)
	sfr, so := sf.fr, sf.so
	rec := firstCall(sfr, "in_toto.recordArtifacts")
	okFollow := false
	if rec != nil {
		// there is a return-nil block under (target.IsDir() true, followSymlinkDirs false); recursion not under that
		for _, b := range sfr.Blocks {
			for _, in := range b.Instrs {
				if u, ok := in.(*ssa.If); ok {
					_ = u
				}
			}
		}
		for _, call := range callsIn(sfr, "iface:os.FileInfo.IsDir") {
			if sf.via == nil && org(call.Common().Value) == "p1" {
				continue
			}
			// target info
			for _, b := range sfr.Blocks {
				if c.condAt(call.Value(), true, b) && c.flagFalseAt(sf, b) {
					if r, ok := b.Instrs[len(b.Instrs)-1].(*ssa.Return); ok && isNilConst(r.Results[0]) {
						okFollow = !reachesBlock(b, rec.Block())
					}
				}
			}
		}
		// the same with the "target is a directory" flag handed back by a transparent helper (Stat of the evaluated link)
		if !okFollow {
			for _, b := range sfr.Blocks {
				r, isRet := b.Instrs[len(b.Instrs)-1].(*ssa.Return)
				if !isRet || !isNilConst(r.Results[0]) || !c.flagFalseAt(sf, b) {
					continue
				}
				for _, ft := range c.factsAt(b) {
					o := org(ft.v)
					if ft.val && strings.HasPrefix(o, "os.FileInfo.IsDir(os.Stat(") && !strings.Contains(o, "IsDir(p1)") {
						okFollow = !reachesBlock(b, rec.Block())
					}
				}
			}
		}
	}
	c.check(okFollow, R, fn, "(iii) a symlinked directory is followed only on request", cb.Pos(), "target.IsDir() && !followSymlinkDirs => return nil before the recursion", "directory symlinks are followed (or skipped) regardless of followSymlinkDirs")
	// (iv) cycle error
	okCyc := false
	for _, has := range callsIn(sfr, "(in_toto.Set).Has") {
		if so(has.Common().Args[0]) == "fv:visitedSymlinks" && so(has.Common().Args[1]) == "p0" {
			for _, cu := range condUsers(has.Value(), false) {
				tb := branchTaken(cu, true)
				if r, ok := tb.Instrs[len(tb.Instrs)-1].(*ssa.Return); ok && len(r.Results) == 1 && (strings.Contains(org(r.Results[0]), "ErrSymCycle") || isCycleError(r.Results[0])) {
					okCyc = rec != nil && c.condAt(has.Value(), false, rec.Block())
				}
			}
		}
	}
	c.check(okCyc, R, fn, "(iv) a symlink visited twice is a cycle error", cb.Pos(), "visited.Has(path) => return ErrSymCycle; recursion only on the other side", "symlink cycles are not reported as ErrSymCycle before recursing")
	okAdd := false
	for _, add := range callsIn(sfr, "(in_toto.Set).Add") {
		if so(add.Common().Args[0]) == "fv:visitedSymlinks" && so(add.Common().Args[1]) == "p0" && rec != nil && instrDominates(add, rec) {
			okAdd = true
		}
	}
	c.check(okAdd, R, fn, "followed symlinks are remembered before recursing", cb.Pos(), "visited.Add(path) dominates the recursive call", "the visited set is not updated before following a symlink")
	if rec != nil {
		a := rec.Common().Args
		c.check(strings.Contains(so(a[0]), "local(slicelit)") && so(a[6]) == "fv:visitedSymlinks" && so(a[5]) == "fv:followSymlinkDirs" && so(a[2]) == "fv:gitignorePatterns" && so(a[1]) == "fv:hashAlgorithms" && so(a[4]) == "fv:lineNormalization",
			R, fn, "recursion passes the same options and the same visited set", rec.Pos(), "recordArtifacts([target], same options, visited)", "the recursive call changes options or uses another visited set")
	}
	// (v) uniqueness
	okUniq := false
	var finalStore *ssa.MapUpdate
	for _, b := range cb.Blocks {
		for _, in := range b.Instrs {
			if mu, ok := in.(*ssa.MapUpdate); ok && org(mu.Map) == "fv:artifacts" {
				if pc, idx := producer(mu.Value, mu); pc == ra && idx == 0 {
					finalStore = mu
				}
			}
		}
	}
	if finalStore != nil {
		for _, b := range cb.Blocks {
			for _, in := range b.Instrs {
				if lk, ok := in.(*ssa.Lookup); ok && lk.CommaOk && org(lk.X) == "fv:artifacts" && resolve(lk.Index, lk) == resolve(finalStore.Key, finalStore) {
					if okv := extractOf(lk, 1); okv != nil {
						for _, cu := range condUsers(okv, false) {
							if c.failing(branchTaken(cu, true)) && c.condAt(okv, false, finalStore.Block()) {
								okUniq = true
							}
						}
					}
				}
			}
		}
	}
	c.check(okUniq, R, fn, "(v) a name collision after stripping is an error", cb.Pos(), "artifacts[path] exists => error; store on the other side", "two files mapping to one name silently overwrite each other")
	// strip prefix only when the path has it; at most one prefix
	if finalStore != nil {
		ko := org(finalStore.Key)
		isPrefixes := func(v ssa.Value) bool { return org(v) == "fv:lStripPaths" }
		okName := c.stripShape(resolve(finalStore.Key, finalStore), ssa.Value(cb.Params[0]), isPrefixes, 0)
		c.check(okName, R, fn, "stored name = path with (at most) one configured prefix stripped", finalStore.Pos(), ko, "stored name is "+short(ko))
	}
	// (vii) ToSlash
	if pub := c.lookup("in_toto.RecordArtifacts"); pub != nil {
		okSlash := false
		for _, b := range pub.Blocks {
			for _, in := range b.Instrs {
				if mu, ok := in.(*ssa.MapUpdate); ok {
					ko := org(mu.Key)
					if strings.HasPrefix(ko, "path/filepath.ToSlash(key(in_toto.recordArtifacts(") && strings.HasSuffix(org(mu.Value), "#0{*}") {
						okSlash = true
					}
				}
			}
		}
		// ... or the same loop in an unexported helper that is handed the recorded map and whose result is returned
		for _, via := range allCalls(pub) {
			h := via.Common().StaticCallee()
			if okSlash || h == nil || h.Blocks == nil || h.Pkg != pub.Pkg || h.Parent() != nil || h.Object() == nil || h.Object().Exported() {
				continue
			}
			returned := false
			for _, r := range returnsOf(pub) {
				if len(r.Results) > 0 {
					if pc, idx := producer(r.Results[0], r); pc == via && idx <= 0 {
						returned = true
					}
				}
			}
			if !returned {
				continue
			}
			for i, a := range via.Common().Args {
				ao := org(a)
				if !strings.HasPrefix(ao, "in_toto.recordArtifacts(") || !strings.HasSuffix(ao, "#0") || i >= len(h.Params) {
					continue
				}
				for _, b := range h.Blocks {
					for _, in := range b.Instrs {
						mu, ok := in.(*ssa.MapUpdate)
						if !ok || org(mu.Key) != fmt.Sprintf("path/filepath.ToSlash(key(p%d))", i) || org(mu.Value) != fmt.Sprintf("p%d{*}", i) {
							continue
						}
						// the updated map is what the helper returns
						for _, hr := range returnsOf(h) {
							if len(hr.Results) == 1 && resolve(hr.Results[0], hr) == resolve(mu.Map, mu) {
								okSlash = true
							}
						}
					}
				}
			}
		}
		c.check(okSlash, R, fname(pub), "(vii) result names are slash-separated", pub.Pos(), "result[filepath.ToSlash(k)] = v for every recorded entry", "recorded names are not passed through filepath.ToSlash")
		rc := firstCall(pub, "in_toto.recordArtifacts")
		okSet := false
		if rc != nil {
			_, okSet = isResultOf(rc.Common().Args[6], rc, 0, "in_toto.NewSet")
		}
		c.check(okSet, R, fname(pub), "a fresh visited set per call", pub.Pos(), "NewSet() passed down", "the visited-symlink set is not fresh per RecordArtifacts call")
	}
	// Walk error propagated and every path walked
	if w := firstCall(outer, "path/filepath.Walk"); w != nil {
		c.check(org(w.Common().Args[0]) == "p0[*]" && wholeSliceIndex(w.Common().Args[0].(*ssa.UnOp).X), R, fname(outer), "every requested path is walked", w.Pos(), "filepath.Walk(paths[i]) for the whole range", "not every path is walked")
	}
}

// condAtFree: a free variable (captured bool) is known to be val at block b.
func (c *Ctx) condAtFree(f *ssa.Function, name string, val bool, b *ssa.BasicBlock) bool {
	for _, fv := range f.FreeVars {
		if fv.Name() != name {
			continue
		}
		// free vars are pointers to the captured variable: loads of it used as conditions
		for _, r := range *fv.Referrers() {
			if u, ok := r.(*ssa.UnOp); ok {
				if c.condAt(u, val, b) {
					return true
				}
			}
		}
		if c.condAt(fv, val, b) {
			return true
		}
	}
	return false
}

func reachesBlock(from, to *ssa.BasicBlock) bool { return from == to || reaches(from, to) }

func ruleC13_4(c *Ctx) {
	const R = "R-C13-4"
	if f := c.lookup("in_toto.InTotoRecordStart"); f != nil {
		fn := fname(f)
		ra := firstCall(f, "in_toto.RecordArtifacts")
		c.check(ra != nil && org(ra.Common().Args[0]) == "p1" && len(callsIn(f, "in_toto.RecordArtifacts")) == 1, R, fn, "exactly one snapshot: the materials", f.Pos(), "RecordArtifacts(materialPaths)", "record start does not take exactly one snapshot of the material paths")
		for _, b := range f.Blocks {
			for _, in := range b.Instrs {
				if st, ok := in.(*ssa.Store); ok {
					if fa, ok := st.Addr.(*ssa.FieldAddr); ok && typeStr(fa.X.Type()) == "*in_toto.Link" {
						switch fieldName(fa.X.Type(), fa.Field) {
						case "Materials":
							pc, idx := producer(st.Val, st)
							c.check(pc == ra && idx == 0, R, fn, "link.Materials = the snapshot", st.Pos(), "RecordArtifacts#0", "materials are "+short(org(st.Val)))
						case "Products":
							_, isMk := resolve(st.Val, st).(*ssa.MakeMap)
							c.check(isMk, R, fn, "link.Products = empty map", st.Pos(), "map literal", "products of a preliminary link are "+short(org(st.Val)))
						}
					}
				}
			}
		}
	} else {
		c.undecided(R, "in_toto.InTotoRecordStart", "anchor", 0, "not found")
	}
	if f := c.lookup("in_toto.InTotoRecordStop"); f != nil {
		fn := fname(f)
		var vs ssa.CallInstruction
		for _, call := range allCalls(f) {
			cc := call.Common()
			if cc.IsInvoke() && cc.Method.Name() == "VerifySignature" && org(cc.Value) == "p0" && org(cc.Args[0]) == "p2" {
				vs = call
			}
		}
		if vs == nil {
			c.bad(R, fn, "signature check of the preliminary link", f.Pos(), "the preliminary link is not verified with the signing key")
			return
		}
		okFirst := true
		for _, call := range allCalls(f) {
			if call == vs {
				continue
			}
			if !c.okCallAt(vs, call.Block()) {
				okFirst = false
			}
		}
		c.check(okFirst, R, fn, "everything happens after a successful signature check of the preliminary link", vs.Pos(), "all other calls are dominated by the nil-error edge", "the preliminary link is used before (or without) its signature being verified")
		ra := firstCall(f, "in_toto.RecordArtifacts")
		c.check(ra != nil && org(ra.Common().Args[0]) == "p1", R, fn, "products snapshot over the product paths", f.Pos(), "RecordArtifacts(productPaths)", "record stop does not snapshot the product paths")
		matStore, prodOK := false, false
		for _, b := range f.Blocks {
			for _, in := range b.Instrs {
				if st, ok := in.(*ssa.Store); ok {
					if fa, ok := st.Addr.(*ssa.FieldAddr); ok && typeStr(fa.X.Type()) == "*in_toto.Link" {
						switch fieldName(fa.X.Type(), fa.Field) {
						case "Materials":
							matStore = true
						case "Products":
							pc, idx := producer(st.Val, st)
							prodOK = pc == ra && idx == 0
						}
					}
				}
			}
		}
		c.check(!matStore, R, fn, "materials of the preliminary link are kept", f.Pos(), "no store to link.Materials", "record stop overwrites the materials recorded at start")
		c.check(prodOK, R, fn, "link.Products = the fresh snapshot", f.Pos(), "RecordArtifacts#0", "products are not the fresh snapshot")
		// the link that is signed is the loaded one
		okLink := false
		for _, b := range f.Blocks {
			for _, in := range b.Instrs {
				if ta, ok := in.(*ssa.TypeAssert); ok && ta.CommaOk && typeStr(ta.AssertedType) == "in_toto.Link" && org(ta.X) == "in_toto.Metadata.GetPayload(p0)" {
					okLink = true
				}
			}
		}
		c.check(okLink, R, fn, "the finished link is the verified preliminary link's payload", f.Pos(), "prelim.GetPayload().(Link) comma-ok", "the finished link is not derived from the verified preliminary link")
	} else {
		c.undecided(R, "in_toto.InTotoRecordStop", "anchor", 0, "not found")
	}
}

// appendedSources lists the values appended (as single elements) to the slice value v is built from, and the values
// stored by index into a made slice it starts from.
func appendedSources(v ssa.Value) []ssa.Value {
	var out []ssa.Value
	seen := map[ssa.Value]bool{}
	var rec func(x ssa.Value)
	rec = func(x ssa.Value) {
		if x == nil || seen[x] {
			return
		}
		seen[x] = true
		switch y := x.(type) {
		case *ssa.Phi:
			for _, e := range y.Edges {
				rec(e)
			}
		case *ssa.MakeSlice:
			// elements written by index into the made slice
			for _, r := range *y.Referrers() {
				if ia, ok := r.(*ssa.IndexAddr); ok {
					for _, rr := range *ia.Referrers() {
						if st, ok := rr.(*ssa.Store); ok && st.Addr == ssa.Value(ia) {
							out = append(out, st.Val)
						}
					}
				}
			}
		case *ssa.Extract:
			// result of an unexported module helper: the list its success returns hand back
			if hc, ok := y.Tuple.(*ssa.Call); ok {
				if g := hc.Call.StaticCallee(); g != nil && g.Blocks != nil && g.Pkg != nil && strings.HasPrefix(g.Pkg.Pkg.Path(), modPath) && (g.Object() == nil || !g.Object().Exported()) {
					for _, r := range returnsOf(g) {
						if y.Index < len(r.Results) {
							rec(r.Results[y.Index])
						}
					}
				}
			}
		case *ssa.Call:
			if g := y.Call.StaticCallee(); g != nil && g.Blocks != nil && g.Pkg != nil && strings.HasPrefix(g.Pkg.Pkg.Path(), modPath) && (g.Object() == nil || !g.Object().Exported()) && g.Signature.Results().Len() == 1 {
				for _, r := range returnsOf(g) {
					rec(r.Results[0])
				}
				return
			}
			if calleeName(y) == "builtin:append" {
				rec(y.Call.Args[0])
				if len(y.Call.Args) > 1 {
					if sl, ok := y.Call.Args[1].(*ssa.Slice); ok {
						if al, ok := sl.X.(*ssa.Alloc); ok {
							for _, r := range *al.Referrers() {
								if ia, ok := r.(*ssa.IndexAddr); ok {
									for _, rr := range *ia.Referrers() {
										if st, ok := rr.(*ssa.Store); ok {
											out = append(out, st.Val)
										}
									}
								}
							}
						}
					}
				}
			}
		}
	}
	rec(v)
	return out
}

func ruleC13_5(c *Ctx) {
	const R = "R-C13-5"
	f := c.lookup("in_toto.InTotoMatchProducts")
	if f == nil {
		c.undecided(R, "in_toto.InTotoMatchProducts", "anchor", 0, "not found")
		return
	}
	fn := fname(f)
	ra := firstCall(f, "in_toto.RecordArtifacts")
	if ra == nil {
		c.bad(R, fn, "RecordArtifacts", f.Pos(), "local artifacts are not recorded")
		return
	}
	arts := resultN(ra, 0)
	// classify NewSet calls: the argument is the key list of the recorded artifacts / of link.Products (built in place or
	// by a key-list helper)
	var artSet, prodSet ssa.Value
	var notKeys []string
	for _, ns := range callsIn(f, "in_toto.NewSet") {
		m := c.keysOfMap(ns.Common().Args[0], ns)
		if m == nil && ns.Value() != nil && emptySliceValue(resolve(ns.Common().Args[0], ns)) {
			// an empty set that receives, by Add, the key of every element of one map: unconditionally, in an
			// exhaustive range over that map, and nothing else
			var from ssa.Value
			okAdds, nAdds := true, 0
			for _, ad := range callsIn(f, "(in_toto.Set).Add") {
				if resolve(ad.Common().Args[0], ad) != ns.Value() {
					continue
				}
				nAdds++
				km, kb := rangeKeyOf(resolve(ad.Common().Args[1], ad))
				if km == nil || kb != ad.Block() {
					okAdds = false
					continue
				}
				km = resolve(km, nil)
				if from != nil && from != km {
					okAdds = false
				}
				from = km
				for _, ml := range mapLoops(f) {
					if resolve(ml.rng.X, ml.rng) != km || !ml.body[ad.Block()] {
						continue
					}
					for b := range ml.body {
						if b == ml.header || !reaches(b, ml.header) {
							continue
						}
						for _, sc := range b.Succs {
							if !ml.body[sc] && !c.failing(sc) {
								okAdds = false
							}
						}
					}
				}
			}
			if okAdds && nAdds == 1 && from != nil {
				m = from
			}
		}
		switch {
		case m == nil:
			notKeys = append(notKeys, org(ns.Common().Args[0]))
		case m == arts:
			artSet = ns.Value()
		case org(m) == "p0.Products":
			prodSet = ns.Value()
		}
	}
	if artSet == nil || prodSet == nil {
		d := "cannot identify the set of local artifact names and the set of product names"
		if len(notKeys) > 0 {
			d = "a name set is built from " + strings.Join(notKeys, ", ") + ", which is not the key list of the recorded artifacts / of link.Products: the names are used to index those maps afterwards"
		}
		c.bad(R, fn, "name sets", f.Pos(), d)
		return
	}
	var onlyProd, notProd, both ssa.Value
	for _, call := range allCalls(f) {
		a := call.Common().Args
		switch calleeName(call) {
		case "(in_toto.Set).Difference":
			if a[0] == prodSet && a[1] == artSet {
				onlyProd = call.Value()
			}
			if a[0] == artSet && a[1] == prodSet {
				notProd = call.Value()
			}
		case "(in_toto.Set).Intersection":
			if (a[0] == artSet && a[1] == prodSet) || (a[0] == prodSet && a[1] == artSet) {
				both = call.Value()
			}
		}
	}
	resultFrom := func(idx int, set ssa.Value) bool {
		if set == nil {
			return false
		}
		for _, r := range c.nilErrReturns(f) {
			srcs := appendedSources(r.Results[idx])
			if len(srcs) == 0 {
				return false
			}
			for _, s := range srcs {
				ex, ok := s.(*ssa.Extract)
				if !ok {
					return false
				}
				nx, ok := ex.Tuple.(*ssa.Next)
				if !ok {
					return false
				}
				rg, ok := nx.Iter.(*ssa.Range)
				if !ok || rg.X != set || ex.Index != 1 {
					return false
				}
			}
		}
		return true
	}
	c.check(resultFrom(0, onlyProd), R, fn, "result 0 = products \\ local artifacts", f.Pos(), "names of productsSet.Difference(artifactsSet)", "the first result is not the set of products missing locally")
	c.check(resultFrom(1, notProd), R, fn, "result 1 = local artifacts \\ products", f.Pos(), "names of artifactsSet.Difference(productsSet)", "the second result is not the set of local files that are not products")
	okDiff := resultFrom(2, both)
	// appended only where the hash objects differ
	if okDiff {
		okDiff = false
		for _, de := range c.equalityCalls(f) {
			for _, r := range c.nilErrReturns(f) {
				derives(r.Results[2], func(v ssa.Value) bool {
					if k, ok := v.(*ssa.Call); ok && calleeName(k) == "builtin:append" && c.condAt(de.Value(), false, k.Block()) {
						okDiff = true
					}
					return false
				}, false)
			}
			// compared maps are built from link.Products[name] and artifacts[name]
			a := de.Common().Args
			src := func(v ssa.Value) string {
				s := ""
				if mk, ok := resolve(v, de).(*ssa.MakeMap); ok {
					for _, rr := range *mk.Referrers() {
						if mu, ok := rr.(*ssa.MapUpdate); ok {
							s = org(mu.Value)
						}
					}
				} else {
					// the hash object itself, compared without a copy (by an equality predicate on two maps)
					s = org(v)
				}
				return s
			}
			// the compared maps are fresh for every name: allocated inside the loop over the common names, so that no
			// entry of a previously compared product survives into the next comparison
			for _, av := range a {
				if mk, ok := resolve(av, de).(*ssa.MakeMap); ok {
					inLoop := false
					for _, l := range rangeLoops(f) {
						if l.body[de.Block()] && l.body[mk.Block()] && mk.Block() != l.header {
							inLoop = true
						}
					}
					c.check(inLoop, R, fn, "compared hash map is allocated per name", mk.Pos(), "make inside the loop that compares", "a hash map that is compared per product is allocated once outside the loop and never cleared: algorithm entries of an earlier product leak into the comparison of the next one")
				}
			}
			s0, s1 := src(a[0]), src(a[1])
			okSrc := (strings.HasPrefix(s0, "p0.Products{") && strings.HasPrefix(s1, "in_toto.RecordArtifacts(")) || (strings.HasPrefix(s1, "p0.Products{") && strings.HasPrefix(s0, "in_toto.RecordArtifacts("))
			if !okSrc {
				okDiff = false
			}
		}
	}
	c.check(okDiff, R, fn, "result 2 = names in both whose hash objects differ", f.Pos(), "append under !DeepEqual(link.Products[n], artifacts[n]) for n in the intersection", "the third result is not the set of common names with differing hashes")
}

// derivesConstBytes returns the string constant a []byte(...) conversion argument was made from ("" if unknown).
func derivesConstBytes(v ssa.Value) string {
	out := ""
	derives(v, func(x ssa.Value) bool {
		if s, ok := constString(x); ok {
			out = s
			return true
		}
		return false
	}, false)
	return out
}

// stripShape: v is the walked path itself, or strings.TrimPrefix(path, e) for an element e of the strip-prefix list at
// a place where strings.HasPrefix(path, e) is known — never a strip of an already stripped name — or a phi of such
// values, or the result of an unexported helper h(path, prefixes) all of whose returns have that shape.
func (c *Ctx) stripShape(v ssa.Value, path ssa.Value, isPrefixes func(ssa.Value) bool, depth int) bool {
	if depth > 6 {
		return false
	}
	if v == path {
		return true
	}
	switch x := v.(type) {
	case *ssa.Phi:
		for _, e := range x.Edges {
			if !c.stripShape(e, path, isPrefixes, depth+1) {
				return false
			}
		}
		return len(x.Edges) > 0
	case *ssa.Call:
		switch calleeName(x) {
		case "strings.TrimPrefix":
			if resolve(x.Call.Args[0], x) != path {
				return false
			}
			el := x.Call.Args[1]
			fromList := derives(el, func(y ssa.Value) bool { return isPrefixes(y) }, false)
			if !fromList {
				return false
			}
			// guarded by HasPrefix(path, same element)
			for _, hp := range callsIn(x.Parent(), "strings.HasPrefix") {
				a := hp.Common().Args
				if resolve(a[0], hp) == path && resolve(a[1], hp) == resolve(el, x) && c.condAt(hp.Value(), true, x.Block()) {
					return true
				}
			}
			return false
		default:
			g := x.Call.StaticCallee()
			if !c.isStageHelper(g) || len(g.Params) < 2 {
				return false
			}
			// which parameters receive the path and the prefix list?
			pi, li := -1, -1
			for i, a := range x.Call.Args {
				if resolve(a, x) == path {
					pi = i
				}
				if isPrefixes(resolve(a, x)) || isPrefixes(a) {
					li = i
				}
			}
			if pi < 0 || li < 0 {
				return false
			}
			for _, r := range returnsOf(g) {
				if !c.stripShape(resolve(r.Results[0], r), ssa.Value(g.Params[pi]), func(y ssa.Value) bool { return y == ssa.Value(g.Params[li]) }, depth+1) {
					return false
				}
			}
			return true
		}
	}
	return false
}

// rangeKeyOf: v is the key variable of a range over a map (or the element variable of a range over a key list, see
// keysOfMap); returns the ranged map and the Extract / load instruction's block.
func rangeKeyOf(v ssa.Value) (ssa.Value, *ssa.BasicBlock) {
	if ex, ok := v.(*ssa.Extract); ok && ex.Index == 1 {
		if nx, ok := ex.Tuple.(*ssa.Next); ok {
			if rg, ok := nx.Iter.(*ssa.Range); ok {
				if _, isMap := rg.X.Type().Underlying().(*types.Map); isMap {
					return rg.X, ex.Block()
				}
			}
		}
	}
	return nil, nil
}

// keysOfMap: the slice value v holds exactly the keys of one map, each appended / stored unconditionally in the body of
// a range over that map: built in place (append of the range key, or res[i] = key into a made slice), or returned by
// an in-module function that builds its result that way from one of its parameters. Returns the map value in the
// frame of v.
func (c *Ctx) keysOfMap(v ssa.Value, at ssa.Instruction) ssa.Value {
	if m, tr := c.keysOfMapD(v, at, 0); tr == "" {
		return m
	}
	return nil
}

// keyListOf is keysOfMap for lists that hold f(key) for every key, f one single-argument function (path.Clean):
// returns the map and the name of f ("" for the keys themselves).
func (c *Ctx) keyListOf(v ssa.Value, at ssa.Instruction) (ssa.Value, string) {
	return c.keysOfMapD(v, at, 0)
}

// keysInVariable: the list lives in a variable (a local captured by a closure, e.g. the less function of sort.Slice):
// every store into the variable is an empty list or append(<the variable>, <range key of one map>) in the block that
// extracts the key, and the variable is allocated in the same loop body as the range (not carried over from an
// earlier iteration of an outer loop).
func (c *Ctx) keysInVariable(al *ssa.Alloc) ssa.Value {
	var m ssa.Value
	var rngBlk *ssa.BasicBlock
	n := 0
	for _, st := range storesTo(al) {
		if emptySliceValue(st.Val) {
			continue
		}
		call, ok := st.Val.(*ssa.Call)
		if !ok || calleeName(call) != "builtin:append" || len(call.Call.Args) != 2 {
			return nil
		}
		if u, ok := call.Call.Args[0].(*ssa.UnOp); !ok || u.X != ssa.Value(al) {
			return nil
		}
		sl, ok := call.Call.Args[1].(*ssa.Slice)
		if !ok {
			return nil
		}
		va, ok := sl.X.(*ssa.Alloc)
		if !ok {
			return nil
		}
		for _, r := range *va.Referrers() {
			ia, ok := r.(*ssa.IndexAddr)
			if !ok {
				continue
			}
			for _, rr := range *ia.Referrers() {
				vst, ok := rr.(*ssa.Store)
				if !ok {
					continue
				}
				mm, kb := rangeKeyOf(vst.Val)
				if mm == nil || kb != call.Block() {
					return nil
				}
				if ex, ok := vst.Val.(*ssa.Extract); ok {
					if nx, ok := ex.Tuple.(*ssa.Next); ok {
						if rg, ok := nx.Iter.(*ssa.Range); ok {
							rngBlk = rg.Block()
						}
					}
				}
				mm = resolve(mm, nil)
				if m != nil && m != mm {
					return nil
				}
				m = mm
				n++
			}
		}
	}
	if n == 0 || m == nil || rngBlk == nil {
		return nil
	}
	if innermostLoopHeader(al.Block()) != innermostLoopHeader(rngBlk) {
		return nil
	}
	return m
}

func (c *Ctx) keysOfMapD(v ssa.Value, at ssa.Instruction, depth int) (ssa.Value, string) {
	if v == nil || depth > 2 {
		return nil, ""
	}
	if u, ok := v.(*ssa.UnOp); ok && u.Op == token.MUL {
		if al, ok := u.X.(*ssa.Alloc); ok && len(storesTo(al)) > 1 {
			if m := c.keysInVariable(al); m != nil {
				return m, ""
			}
		}
	}
	if sl, ok := v.(*ssa.Slice); ok && sl.Low == nil && sl.High == nil {
		v = sl.X
	}
	r := resolve(v, at)
	// helper call
	if call, idx := producer(r, at); call != nil {
		if cv, ok := call.(*ssa.Call); ok && calleeName(cv) != "builtin:append" {
			g := cv.Common().StaticCallee()
			if g == nil || g.Blocks == nil || g.Pkg == nil || !strings.HasPrefix(g.Pkg.Pkg.Path(), modPath) {
				return nil, ""
			}
			pi, htr := -1, ""
			rets := returnsOf(g)
			if len(rets) == 0 {
				return nil, ""
			}
			for ri, ret := range rets {
				if idx >= len(ret.Results) {
					return nil, ""
				}
				m, tr := c.keysOfMapD(ret.Results[idx], ret, depth+1)
				prm, ok := m.(*ssa.Parameter)
				if !ok || prm.Parent() != g || (ri > 0 && tr != htr) {
					return nil, ""
				}
				htr = tr
				if k := paramIndex(prm); pi >= 0 && pi != k {
					return nil, ""
				} else {
					pi = k
				}
			}
			args := callArgs(cv)
			if pi < 0 || pi >= len(args) {
				return nil, ""
			}
			return resolve(args[pi], cv), htr
		}
	}
	var m ssa.Value
	n := 0
	tr := ""
	add := func(val ssa.Value, blk *ssa.BasicBlock) bool {
		t := ""
		if k, ok := val.(*ssa.Call); ok && len(k.Call.Args) == 1 && k.Block() == blk {
			if g := k.Common().StaticCallee(); g != nil && calleeName(k) == "path.Clean" {
				t = calleeName(k)
				val = k.Call.Args[0]
			}
		}
		mm, kb := rangeKeyOf(val)
		if mm == nil || kb != blk {
			return false
		}
		mm = resolve(mm, nil)
		if (m != nil && m != mm) || (n > 0 && t != tr) {
			return false
		}
		m, tr = mm, t
		n++
		return true
	}
	// made slice filled by index
	if mk, ok := r.(*ssa.MakeSlice); ok {
		for _, ref := range *mk.Referrers() {
			ia, ok := ref.(*ssa.IndexAddr)
			if !ok {
				continue
			}
			for _, rr := range *ia.Referrers() {
				if st, ok := rr.(*ssa.Store); ok && st.Addr == ia {
					if !add(st.Val, st.Block()) {
						return nil, ""
					}
				}
			}
		}
		if n > 0 {
			return m, tr
		}
	}
	// appended in a loop
	seen := map[ssa.Value]bool{}
	okAll := true
	var phis []*ssa.Phi
	var rec func(x ssa.Value)
	rec = func(x ssa.Value) {
		if x == nil || seen[x] || !okAll {
			return
		}
		seen[x] = true
		switch y := x.(type) {
		case *ssa.Phi:
			phis = append(phis, y)
			for _, e := range y.Edges {
				rec(e)
			}
		case *ssa.Call:
			if calleeName(y) != "builtin:append" || len(y.Call.Args) != 2 {
				okAll = false
				return
			}
			rec(y.Call.Args[0])
			sl, ok := y.Call.Args[1].(*ssa.Slice)
			if !ok {
				okAll = false
				return
			}
			al, ok := sl.X.(*ssa.Alloc)
			if !ok {
				okAll = false
				return
			}
			for _, r := range *al.Referrers() {
				if ia, ok := r.(*ssa.IndexAddr); ok {
					for _, rr := range *ia.Referrers() {
						if st, ok := rr.(*ssa.Store); ok && !add(st.Val, y.Block()) {
							okAll = false
						}
					}
				}
			}
		case *ssa.Const, *ssa.MakeSlice, *ssa.Slice:
			// the empty start value ([]string{}, nil, make(.., 0, n))
			if s, ok := y.(*ssa.Slice); ok {
				if _, isAlloc := s.X.(*ssa.Alloc); !isAlloc {
					okAll = false
				}
			}
		default:
			okAll = false
		}
	}
	rec(r)
	// a list carried around an OUTER loop (a scratch slice declared before the loop over several maps) still holds the
	// keys appended for the previous map unless every back edge of that outer loop brings an empty list: SSA has one
	// Range instruction for all iterations, so the keys of "the same map" may be those of an earlier one
	if okAll && n > 0 {
		for _, ph := range phis {
			hb := ph.Block()
			for i, e := range ph.Edges {
				pb := hb.Preds[i]
				if !hb.Dominates(pb) {
					continue // entry edge
				}
				// back edge: is this the header of the range loop that appends (its Next sits in this block)?
				inner := false
				for _, in := range hb.Instrs {
					if nx, ok := in.(*ssa.Next); ok {
						if rg, ok := nx.Iter.(*ssa.Range); ok && resolve(rg.X, nil) == m {
							inner = true
						}
					}
				}
				if inner {
					continue
				}
				if !emptySliceValue(e) {
					okAll = false
				}
			}
		}
	}
	if okAll && n > 0 {
		return m, tr
	}
	return nil, ""
}

// emptySliceValue: nil, make([]T, 0, ...), or x[:0].
func emptySliceValue(v ssa.Value) bool {
	switch x := v.(type) {
	case *ssa.Const:
		return x.IsNil()
	case *ssa.MakeSlice:
		k, ok := constInt(x.Len)
		return ok && k == 0
	case *ssa.Slice:
		if x.High != nil {
			k, ok := constInt(x.High)
			return ok && k == 0
		}
	}
	return false
}

// elemOfKeys: v is a name taken from the key set of a map: the key variable of a range over the map, or the element
// variable of a range over the map's key list. Returns the map.
func (c *Ctx) elemOfKeys(v ssa.Value, at ssa.Instruction) ssa.Value {
	if m, tr := c.elemOfKeyList(v, at); tr == "" {
		return m
	}
	return nil
}

// elemOfKeyList is elemOfKeys for lists of f(key), see keyListOf.
func (c *Ctx) elemOfKeyList(v ssa.Value, at ssa.Instruction) (ssa.Value, string) {
	r := resolve(v, at)
	if m, _ := rangeKeyOf(r); m != nil {
		return resolve(m, nil), ""
	}
	if u, ok := r.(*ssa.UnOp); ok && u.Op == token.MUL {
		if ia, ok := u.X.(*ssa.IndexAddr); ok {
			return c.keyListOf(ia.X, u)
		}
	}
	if ix, ok := r.(*ssa.Index); ok {
		return c.keyListOf(ix.X, ix)
	}
	return nil, ""
}

// isCycleError: a freshly built error value whose type reports itself as ErrSymCycle through an Is method (a wrapper that
// adds the offending path to the sentinel).
func isCycleError(v ssa.Value) bool {
	mi, ok := v.(*ssa.MakeInterface)
	if !ok {
		return false
	}
	ms := curProg.SSA.MethodSets.MethodSet(mi.X.Type())
	sel := ms.Lookup(nil, "Is")
	if sel == nil {
		for i := 0; i < ms.Len(); i++ {
			if ms.At(i).Obj().Name() == "Is" {
				sel = ms.At(i)
			}
		}
	}
	if sel == nil {
		return false
	}
	is := curProg.SSA.MethodValue(sel)
	if is == nil || is.Blocks == nil {
		return false
	}
	// every return is  target == ErrSymCycle  (possibly or-ed with other tests)
	found := false
	for _, r := range returnsOf(is) {
		ok := derives(r.Results[0], func(x ssa.Value) bool {
			b, isB := x.(*ssa.BinOp)
			if !isB || b.Op != token.EQL {
				return false
			}
			return strings.Contains(org(b.X), "ErrSymCycle") || strings.Contains(org(b.Y), "ErrSymCycle")
		}, false)
		if ok {
			found = true
		}
	}
	return found
}

// symlinkFrame: the function that holds the symlink branch of the walk callback: the callback itself, or an unexported
// helper it calls with the walked path, whose error the callback returns. so renders a value of the frame as the
// callback would (helper parameters replaced by the access paths of the arguments).
type symlinkFrame struct {
	fr  *ssa.Function
	via ssa.CallInstruction
	so  func(v ssa.Value) string
}

func (c *Ctx) symlinkFrameOf(cb *ssa.Function) symlinkFrame {
	direct := symlinkFrame{fr: cb, so: org}
	if firstCall(cb, "in_toto.recordArtifacts") != nil {
		return direct
	}
	for _, via := range allCalls(cb) {
		h := via.Common().StaticCallee()
		if !c.isStageHelper(h) || firstCall(h, "in_toto.recordArtifacts") == nil {
			continue
		}
		// the helper's error is what the callback returns
		okErr := false
		if e := errResult(via); e != nil {
			if flowsTo(e, func(u ssa.Instruction, _ ssa.Value) bool { _, ok := u.(*ssa.Return); return ok }, nil) {
				okErr = true
			}
			for _, br := range errBranches(e) {
				okErr = okErr || c.failing(br.NonNil)
			}
		}
		if !okErr {
			continue
		}
		subst := map[*ssa.Parameter]string{}
		for i, prm := range h.Params {
			if i < len(via.Common().Args) {
				subst[prm] = org(via.Common().Args[i])
			}
		}
		return symlinkFrame{fr: h, via: via, so: func(v ssa.Value) string { return orgSubst(v, subst) }}
	}
	return direct
}

// flagFalseAt: the followSymlinkDirs option (a captured variable of the callback, or the helper parameter it is handed
// to) is known false at b.
func (c *Ctx) flagFalseAt(sf symlinkFrame, b *ssa.BasicBlock) bool {
	if sf.via == nil {
		return c.condAtFree(sf.fr, "followSymlinkDirs", false, b)
	}
	for i, prm := range sf.fr.Params {
		if i < len(sf.via.Common().Args) && org(sf.via.Common().Args[i]) == "fv:followSymlinkDirs" && c.condAt(prm, false, b) {
			return true
		}
	}
	return false
}
