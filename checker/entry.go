package main

import (
	"fmt"
	"go/types"
	"sort"
	"strings"

	"golang.org/x/tools/go/ssa"
)

// entry describes one verification entry point, discovered by signature:
// a function of package in_toto with a Metadata parameter, a map[string]Key parameter and results (Metadata, error).
type entry struct {
	f       *ssa.Function
	env     *ssa.Parameter
	keys    *ssa.Parameter
	guard   ssa.CallInstruction // call of the layout-signature guard on (env, keys)
	guardFn *ssa.Function
	// head helper: the guard sits in an unexported helper that the entry point calls with (env, keys) and whose every
	// success return lies under the guard's nil-error edge; guard is then the call of the helper
	head      *ssa.Function
	headGuard ssa.CallInstruction
}

// isGuardShaped: g is a function (Metadata, map[string]Key) error of package in_toto.
func (p *Prog) isGuardShaped(g *ssa.Function) bool {
	if g == nil || g.Pkg != p.pkg("in_toto") {
		return false
	}
	ps := g.Signature.Params()
	if ps.Len() != 2 || typeStr(ps.At(0).Type()) != "in_toto.Metadata" || typeStr(ps.At(1).Type()) != "map[string]in_toto.Key" {
		return false
	}
	rs := resultTypes(g)
	return len(rs) == 1 && rs[0] == "error"
}

// frameEntry describes the unexported helper h, called at site with the entry point's env / keys among its arguments,
// as an entry-like frame of its own (env, keys = the parameters that receive them).
func (p *Prog) frameEntry(e entry, site ssa.CallInstruction) (entry, bool) {
	h := site.Common().StaticCallee()
	if h == nil || h.Blocks == nil || h.Pkg != p.pkg("in_toto") || h.Object() == nil || h.Object().Exported() || h.Parent() != nil {
		return entry{}, false
	}
	fe := entry{f: h}
	for i, a := range callArgs(site) {
		if i >= len(h.Params) {
			break
		}
		if a == ssa.Value(e.env) {
			fe.env = h.Params[i]
		}
		if e.keys != nil && a == ssa.Value(e.keys) {
			fe.keys = h.Params[i]
		}
	}
	if fe.env == nil {
		return entry{}, false
	}
	return fe, true
}

func (p *Prog) entryPoints() []entry {
	var out []entry
	sp := p.pkg("in_toto")
	if sp == nil {
		return out
	}
	for _, f := range p.srcFuncs("in_toto") {
		if f.Parent() != nil || f.Signature.Recv() != nil {
			continue
		}
		rt := resultTypes(f)
		if len(rt) != 2 || rt[0] != "in_toto.Metadata" || rt[1] != "error" {
			continue
		}
		var env, keys *ssa.Parameter
		for _, prm := range f.Params {
			switch typeStr(prm.Type()) {
			case "in_toto.Metadata":
				env = prm
			case "map[string]in_toto.Key":
				keys = prm
			}
		}
		if env == nil || keys == nil {
			continue
		}
		e := entry{f: f, env: env, keys: keys}
		for _, c := range allCalls(f) {
			g := c.Common().StaticCallee()
			if g == nil || g.Pkg != sp {
				continue
			}
			ps := g.Signature.Params()
			if ps.Len() != 2 || typeStr(ps.At(0).Type()) != "in_toto.Metadata" || typeStr(ps.At(1).Type()) != "map[string]in_toto.Key" {
				continue
			}
			if rs := resultTypes(g); len(rs) != 1 || rs[0] != "error" {
				continue
			}
			if c.Common().Args[0] == ssa.Value(env) && c.Common().Args[1] == ssa.Value(keys) {
				e.guard, e.guardFn = c, g
				break
			}
		}
		if e.guard == nil {
			// the shared head of the entry points extracted into a helper
			for _, c := range allCalls(f) {
				fe, ok := p.frameEntry(e, c)
				if !ok || fe.keys == nil || !hasErrResult(c) {
					continue
				}
				for _, ic := range allCalls(fe.f) {
					if p.isGuardShaped(ic.Common().StaticCallee()) && ic.Common().Args[0] == ssa.Value(fe.env) && ic.Common().Args[1] == ssa.Value(fe.keys) && p.helperGuarantees(fe.f, ic) {
						e.guard, e.guardFn, e.head, e.headGuard = c, ic.Common().StaticCallee(), fe.f, ic
					}
				}
				if e.guard != nil {
					break
				}
			}
		}
		out = append(out, e)
	}
	return out
}

// layoutValue classifies how a Layout-typed argument was obtained inside an entry point.
// kind: "payload" (comma-ok assertion of GetPayload() on env), "derived" (result 0 of a Layout->Layout
// function applied to a payload layout), "" otherwise.
func (p *Prog) layoutValue(e entry, v ssa.Value, at ssa.Instruction, depth int) (kind string, detail string) {
	r := resolve(v, at)
	if ex, ok := r.(*ssa.Extract); ok {
		if ta, ok := ex.Tuple.(*ssa.TypeAssert); ok && ex.Index == 0 && ta.CommaOk {
			if typeStr(ta.AssertedType) != "in_toto.Layout" {
				return "", "asserted type is " + typeStr(ta.AssertedType)
			}
			c, ok := resolve(ta.X, ta).(*ssa.Call)
			if !ok || !c.Call.IsInvoke() || c.Call.Method.Name() != "GetPayload" || c.Call.Value != ssa.Value(e.env) {
				return "", "asserted value is not GetPayload() of the verified Metadata parameter: " + org(ta.X)
			}
			return "payload", "GetPayload() of parameter " + e.env.Name() + " asserted to Layout (comma-ok)"
		}
		if c, ok := ex.Tuple.(*ssa.Call); ok && depth < 3 {
			// result of an unexported helper that received the verified Metadata: every success return of the helper
			// hands back, at this position, a layout obtained from that Metadata's payload
			if fe, isFrame := p.frameEntry(e, c); isFrame && typeStr(ex.Type()) == "in_toto.Layout" {
				rets := p.nilErrReturns(fe.f)
				okAll := len(rets) > 0
				why := ""
				for _, r := range rets {
					if ex.Index >= len(r.Results) {
						okAll = false
						break
					}
					if k, d := p.layoutValue(fe, r.Results[ex.Index], r, depth+1); k == "" {
						okAll, why = false, d
					}
				}
				if okAll {
					return "derived", fmt.Sprintf("result %d of helper %s, which hands back a layout from the payload of its Metadata parameter on every success return", ex.Index, fname(fe.f))
				}
				return "", "result of helper " + fname(fe.f) + ": " + why
			}
		}
		if c, ok := ex.Tuple.(*ssa.Call); ok && ex.Index == 0 && depth < 3 {
			g := c.Common().StaticCallee()
			if g != nil && g.Pkg == p.pkg("in_toto") {
				rs := resultTypes(g)
				if len(rs) == 2 && rs[0] == "in_toto.Layout" && rs[1] == "error" {
					for _, a := range c.Common().Args {
						if typeStr(a.Type()) == "in_toto.Layout" {
							k, d := p.layoutValue(e, a, c, depth+1)
							if k != "" {
								return "derived", fname(g) + "(" + d + ")"
							}
							return "", "argument of " + fname(g) + ": " + d
						}
					}
				}
			}
		}
	}
	if ta, ok := r.(*ssa.TypeAssert); ok && !ta.CommaOk {
		return "", "unchecked type assertion"
	}
	// a merge of layouts each of which comes from the verified payload (substituted or not)
	if ph, ok := r.(*ssa.Phi); ok && depth < 3 {
		for _, ed := range ph.Edges {
			if k, d := p.layoutValue(e, ed, ph, depth+1); k == "" {
				return "", d
			}
		}
		return "derived", "merge of layouts from the verified payload"
	}
	// a Layout parameter of an unexported helper: every call site must pass a verified payload layout
	if prm, ok := r.(*ssa.Parameter); ok && p.isStageHelper(prm.Parent()) && depth < 3 {
		g := prm.Parent()
		node := p.CG.Nodes[g]
		if node == nil || len(node.In) == 0 {
			return "", "parameter of " + fname(g) + ", which has no known caller"
		}
		entries := map[*ssa.Function]entry{}
		for _, e2 := range p.entryPoints() {
			entries[e2.f] = e2
		}
		n := 0
		for _, in := range node.In {
			site := in.Site
			if site == nil {
				return "", "parameter of " + fname(g) + ", called dynamically"
			}
			caller := site.Parent()
			e2, isEntry := entries[caller]
			if !isEntry {
				if !p.isStageHelper(caller) {
					return "", "parameter of " + fname(g) + ", which is also called from " + fname(caller) + " where no verified payload is at hand"
				}
				e2 = e
			}
			k, d := p.layoutValue(e2, site.Common().Args[paramIndex(prm)], site, depth+1)
			if k == "" {
				return "", "parameter of " + fname(g) + "; at its call site in " + fname(caller) + ": " + d
			}
			n++
		}
		return "derived", fmt.Sprintf("parameter %s of helper %s; all %d call sites pass a layout from the verified payload", prm.Name(), fname(g), n)
	}
	return "", "layout value obtained from " + org(v)
}

// helperSinks lists, for a trusting call of an entry point whose callee is an unexported in_toto helper, the calls made
// inside that helper (and helpers below it): they run only where the call site runs. unguardedCaller names a caller
// of one of these helpers that is not on a path from the entry points (the helper would then run without the entry
// point's checks), "" if there is none.
func (p *Prog) helperSinks(site ssa.CallInstruction) (inner []ssa.CallInstruction, helpers []*ssa.Function) {
	seen := map[*ssa.Function]bool{}
	var walk func(g *ssa.Function, depth int)
	walk = func(g *ssa.Function, depth int) {
		if !p.isStageHelper(g) || seen[g] || depth > stageDepth {
			return
		}
		seen[g] = true
		helpers = append(helpers, g)
		for _, c := range allCalls(g) {
			if _, isDefer := c.(*ssa.Defer); isDefer {
				continue
			}
			inner = append(inner, c)
			walk(c.Common().StaticCallee(), depth+1)
		}
	}
	walk(site.Common().StaticCallee(), 1)
	return
}

// foreignCallers: callers of helper g that are neither verification entry points nor stage helpers.
func (p *Prog) foreignCallers(g *ssa.Function) []string {
	entries := map[*ssa.Function]bool{}
	for _, e := range p.entryPoints() {
		entries[e.f] = true
	}
	var out []string
	if node := p.CG.Nodes[g]; node != nil {
		for _, in := range node.In {
			if in.Site == nil {
				continue
			}
			caller := in.Site.Parent()
			if !entries[caller] && !p.isStageHelper(caller) {
				out = append(out, fname(caller))
			}
		}
	}
	sort.Strings(out)
	return out
}

// trustingCalls lists the calls of an entry point that consume the layout, the keys, or reach link loading /
// command execution, i.e. the sinks that must be guarded.
func (p *Prog) trustingCalls(e entry) []ssa.CallInstruction {
	dangerous := map[*ssa.Function]bool{}
	for _, n := range []string{"(*os/exec.Cmd).Start", "(*os/exec.Cmd).Run", "in_toto.LoadMetadata"} {
		if f := p.lookupAny(n); f != nil {
			dangerous[f] = true
		}
	}
	var out []ssa.CallInstruction
	fromParams := func(v ssa.Value) bool {
		// values that reach the call only through the guard's own (error) result do not count
		if e.guard != nil {
			if gv := e.guard.Value(); gv != nil && isErrorType(gv.Type()) && derives(v, func(x ssa.Value) bool { return x == gv }, true) {
				viaOther := derivesAvoiding(v, func(x ssa.Value) bool { return x == ssa.Value(e.env) || x == ssa.Value(e.keys) }, gv)
				return viaOther
			}
		}
		return derives(v, func(x ssa.Value) bool { return x == ssa.Value(e.env) || x == ssa.Value(e.keys) }, true)
	}
	for _, c := range allCalls(e.f) {
		if c == e.guard {
			continue
		}
		if _, ok := c.(*ssa.Defer); ok {
			continue
		}
		if _, ok := c.Common().Value.(*ssa.Builtin); ok {
			// len / append / copy / ... on the layout's lists compute values, they are not stages that act on the layout
			continue
		}
		sink := false
		for _, a := range callArgs(c) {
			if fromParams(a) {
				sink = true
			}
		}
		if !sink {
			if g := c.Common().StaticCallee(); g != nil {
				for r := range reachable(p.CG, g) {
					if dangerous[r] {
						sink = true
						break
					}
				}
			}
		}
		if sink {
			out = append(out, c)
		}
	}
	return out
}

// lookupAny finds a function by short name in any package (including the standard library).
func (p *Prog) lookupAny(short string) *ssa.Function {
	if f := p.lookup(short); f != nil {
		return f
	}
	for f := range p.AllFuncs {
		if fname(f) == short {
			return f
		}
	}
	return nil
}

func isLayoutType(t types.Type) bool {
	s := typeStr(t)
	return s == "in_toto.Layout" || s == "*in_toto.Layout"
}

func trimPkg(s string) string { return strings.TrimPrefix(s, "in_toto.") }

// ---------------------------------------------------------------------------
// stage lookup through helper frames (DESIGN §3 A2 summaries, inlining bound 3):
// a stage call may sit directly in the entry point or in an unexported in_toto helper that the entry point calls,
// itself possibly through another helper (the shared tail of the two entry points extracted into one function, the
// inspection stage extracted into another, ...). Every relation between stages is decided in the frame where the
// two call paths diverge; values are mapped towards the entry point through the parameters of the helpers.

const stageDepth = 3

type viaFrame struct {
	via ssa.CallInstruction // the call (in the parent frame) of helper g
	g   *ssa.Function
}

type stageCall struct {
	f    *ssa.Function       // the entry point (outermost frame)
	call ssa.CallInstruction // the stage call itself (in the innermost frame)
	path []viaFrame          // helper frames from the entry point inwards; empty if the call sits directly in f
}

// pipelineStages: the exported functions of the verification and recording pipelines. They are stages, looked for by
// name; a stage is never read as a helper frame of another stage. Any other in_toto function with a body that an entry
// point calls - unexported, or an exported wrapper that bundles some stages - is a helper frame.
var pipelineStages = map[string]bool{
	"RunInspections": true, "VerifyArtifacts": true, "ReduceStepsMetadata": true, "VerifyStepCommandAlignment": true,
	"LoadLayoutCertificates": true, "VerifyLinkSignatureThesholds": true, "LoadLinksForLayout": true,
	"VerifyLayoutExpiration": true, "VerifyLayoutSignatures": true, "GetSummaryLink": true, "VerifySublayouts": true,
	"SubstituteParameters": true, "InTotoVerify": true, "InTotoVerifyWithDirectory": true, "RecordArtifact": true,
	"RecordArtifacts": true, "RunCommand": true, "InTotoRun": true, "InTotoRecordStart": true, "InTotoRecordStop": true,
	"InTotoMatchProducts": true, "LoadMetadata": true, "ValidateMetablock": true, "UnpackRule": true,
}

// isStageHelper: an in_toto function with a body that is not itself a pipeline stage and not a method.
func (p *Prog) isStageHelper(g *ssa.Function) bool {
	if g == nil || g.Blocks == nil || g.Pkg != p.pkg("in_toto") {
		return false
	}
	if g.Object() != nil && g.Object().Exported() {
		if g.Signature.Recv() != nil || pipelineStages[g.Name()] {
			return false
		}
	}
	return true
}

// stages lists the calls of callee `name` made by f directly or through unexported in_toto helpers.
func (p *Prog) stages(f *ssa.Function, name string) []*stageCall {
	var out []*stageCall
	var walk func(fr *ssa.Function, path []viaFrame, onPath map[*ssa.Function]bool)
	walk = func(fr *ssa.Function, path []viaFrame, onPath map[*ssa.Function]bool) {
		for _, c := range callsIn(fr, name) {
			out = append(out, &stageCall{f: f, call: c, path: append([]viaFrame(nil), path...)})
		}
		if len(path) >= stageDepth {
			return
		}
		for _, via := range allCalls(fr) {
			g := via.Common().StaticCallee()
			if !p.isStageHelper(g) || onPath[g] || fname(g) == name {
				continue
			}
			onPath[g] = true
			walk(g, append(path, viaFrame{via, g}), onPath)
			delete(onPath, g)
		}
	}
	walk(f, nil, map[*ssa.Function]bool{f: true})
	return out
}

func (p *Prog) stage(f *ssa.Function, name string) *stageCall {
	if s := p.stages(f, name); len(s) > 0 {
		return s[0]
	}
	return nil
}

// site is the call in the entry point's frame.
func (s *stageCall) site() ssa.CallInstruction {
	if len(s.path) > 0 {
		return s.path[0].via
	}
	return s.call
}

// inner is the innermost helper frame (nil if the call sits in the entry point).
func (s *stageCall) inner() *ssa.Function {
	if len(s.path) > 0 {
		return s.path[len(s.path)-1].g
	}
	return nil
}

// frameFn returns the function of frame level k (0 = entry point, k = path[k-1].g).
func (s *stageCall) frameFn(k int) *ssa.Function {
	if k == 0 {
		return s.f
	}
	return s.path[k-1].g
}

// elem returns the instruction that represents the stage in frame level k: the via call of the next frame, or the
// stage call itself in the innermost frame.
func (s *stageCall) elem(k int) ssa.CallInstruction {
	if k < len(s.path) {
		return s.path[k].via
	}
	return s.call
}

// mapUp maps a value of frame level k towards the entry point as long as it is a parameter of the helper.
func (s *stageCall) mapUp(v ssa.Value, at ssa.Instruction, k int) (ssa.Value, ssa.Instruction) {
	for k > 0 {
		prm, ok := resolve(v, at).(*ssa.Parameter)
		if !ok || prm.Parent() != s.path[k-1].g {
			break
		}
		v, at = s.path[k-1].via.Common().Args[paramIndex(prm)], s.path[k-1].via
		k--
	}
	return v, at
}

// arg returns argument i of the stage call mapped towards the entry point's frame through helper parameters.
func (s *stageCall) arg(i int) (ssa.Value, ssa.Instruction) {
	return s.mapUp(s.call.Common().Args[i], s.call, len(s.path))
}

// helperGuarantees: every success return of helper g is dominated by the nil-error edge of call, or returns the
// call's own results.
func (p *Prog) helperGuarantees(g *ssa.Function, call ssa.CallInstruction) bool {
	rets := p.nilErrReturns(g)
	if len(rets) == 0 {
		return false
	}
	for _, r := range rets {
		if !p.okAtReturn(call, r) {
			return false
		}
	}
	return true
}

// okAtReturn: call is known to have succeeded when return r yields a nil error: r lies where the error of call is
// known nil, or r returns call's own error result.
func (p *Prog) okAtReturn(call ssa.CallInstruction, r *ssa.Return) bool {
	if p.okCallAt(call, r.Block()) {
		return true
	}
	ei := errIndex(r.Parent())
	if ei >= 0 && ei < len(r.Results) {
		if pc, _ := producer(r.Results[ei], r); pc == call {
			return true
		}
	}
	return false
}

// guaranteesFrom: success of the frame-k element of s implies success of the stage call itself.
func (p *Prog) guaranteesFrom(s *stageCall, k int) bool {
	for j := k; j < len(s.path); j++ {
		if !p.helperGuarantees(s.path[j].g, s.elem(j+1)) {
			return false
		}
	}
	return true
}

// stageOKAt: the stage is known to have succeeded at block blk of the entry point.
func (p *Prog) stageOKAt(s *stageCall, blk *ssa.BasicBlock) bool {
	if s == nil {
		return false
	}
	ok := p.okCallAt(s.elem(0), blk)
	if !ok && len(blk.Instrs) > 0 {
		if r, isRet := blk.Instrs[len(blk.Instrs)-1].(*ssa.Return); isRet {
			ok = p.okAtReturn(s.elem(0), r)
		}
	}
	return ok && p.guaranteesFrom(s, 0)
}

// stageAfter: stage s runs only where stage guard has succeeded. Decided in the frame where the two paths diverge.
func (p *Prog) stageAfter(s, guard *stageCall) bool {
	if s == nil || guard == nil {
		return false
	}
	k := 0
	for k < len(s.path) && k < len(guard.path) && s.path[k].via == guard.path[k].via {
		k++
	}
	return p.okCallAt(guard.elem(k), s.elem(k).Block()) && p.guaranteesFrom(guard, k)
}

// deepProducer resolves v to (callee name, result index), looking through unexported in_toto helpers whose every
// success return yields result j from the same inner call.
func (p *Prog) deepProducer(v ssa.Value, at ssa.Instruction) (string, int) {
	return p.deepProducerN(v, at, 0)
}

func (p *Prog) deepProducerN(v ssa.Value, at ssa.Instruction, depth int) (string, int) {
	pc, idx := producer(v, at)
	if pc == nil {
		return "", -1
	}
	g := pc.Common().StaticCallee()
	if p.isStageHelper(g) && depth < stageDepth {
		name, j := "", -1
		for _, r := range p.nilErrReturns(g) {
			if idx >= len(r.Results) {
				return calleeName(pc), idx
			}
			n, iidx := p.deepProducerN(r.Results[idx], r, depth+1)
			if n == "" {
				return calleeName(pc), idx
			}
			if name != "" && (n != name || iidx != j) {
				return calleeName(pc), idx
			}
			name, j = n, iidx
		}
		if name != "" {
			return name, j
		}
	}
	return calleeName(pc), idx
}

// stageArgFrom: argument argIdx of stage s is result resIdx of producer (both looked up through helpers).
func (p *Prog) stageArgFrom(s *stageCall, argIdx int, producerName string, resIdx int) (bool, string) {
	if s == nil {
		return false, "call missing"
	}
	if argIdx >= len(s.call.Common().Args) {
		return false, "argument missing"
	}
	v, at := s.arg(argIdx)
	n, i := p.deepProducer(v, at)
	if n == producerName && i == resIdx {
		return true, ""
	}
	return false, "argument is " + short(org(v))
}

// reachesDangerous: g can reach link loading or command execution.
func (p *Prog) reachesDangerous(g *ssa.Function) bool {
	dangerous := map[*ssa.Function]bool{}
	for _, n := range []string{"(*os/exec.Cmd).Start", "(*os/exec.Cmd).Run", "in_toto.LoadMetadata"} {
		if f := p.lookupAny(n); f != nil {
			dangerous[f] = true
		}
	}
	for r := range reachable(p.CG, g) {
		if dangerous[r] {
			return true
		}
	}
	return false
}
