package main

import (
	"go/types"
	"strings"

	"golang.org/x/tools/go/ssa"
)

// entry describes one verification entry point, discovered by signature:
// a function of package in_toto with a Metadata parameter, a map[string]Key parameter and results (Metadata, error).
type entry struct {
	f       *ssa.Function
	env     *ssa.Parameter
	keys    *ssa.Parameter
	guard   ssa.CallInstruction // call of the layout-signature guard on (env, keys)
	guardFn *ssa.Function
}

func (p *Prog) entryPoints() []entry {
	var out []entry
	sp := p.pkg("in_toto")
	if sp == nil {
		return out
	}
	for _, f := range p.srcFuncs("in_toto") {
		if f.Parent() != nil || f.Signature.Recv() != nil {
			continue
		}
		rt := resultTypes(f)
		if len(rt) != 2 || rt[0] != "in_toto.Metadata" || rt[1] != "error" {
			continue
		}
		var env, keys *ssa.Parameter
		for _, prm := range f.Params {
			switch typeStr(prm.Type()) {
			case "in_toto.Metadata":
				env = prm
			case "map[string]in_toto.Key":
				keys = prm
			}
		}
		if env == nil || keys == nil {
			continue
		}
		e := entry{f: f, env: env, keys: keys}
		for _, c := range allCalls(f) {
			g := c.Common().StaticCallee()
			if g == nil || g.Pkg != sp {
				continue
			}
			ps := g.Signature.Params()
			if ps.Len() != 2 || typeStr(ps.At(0).Type()) != "in_toto.Metadata" || typeStr(ps.At(1).Type()) != "map[string]in_toto.Key" {
				continue
			}
			if rs := resultTypes(g); len(rs) != 1 || rs[0] != "error" {
				continue
			}
			if c.Common().Args[0] == ssa.Value(env) && c.Common().Args[1] == ssa.Value(keys) {
				e.guard, e.guardFn = c, g
				break
			}
		}
		out = append(out, e)
	}
	return out
}

// layoutValue classifies how a Layout-typed argument was obtained inside an entry point.
// kind: "payload" (comma-ok assertion of GetPayload() on env), "derived" (result 0 of a Layout->Layout
// function applied to a payload layout), "" otherwise.
func (p *Prog) layoutValue(e entry, v ssa.Value, at ssa.Instruction, depth int) (kind string, detail string) {
	r := resolve(v, at)
	if ex, ok := r.(*ssa.Extract); ok {
		if ta, ok := ex.Tuple.(*ssa.TypeAssert); ok && ex.Index == 0 && ta.CommaOk {
			if typeStr(ta.AssertedType) != "in_toto.Layout" {
				return "", "asserted type is " + typeStr(ta.AssertedType)
			}
			c, ok := resolve(ta.X, ta).(*ssa.Call)
			if !ok || !c.Call.IsInvoke() || c.Call.Method.Name() != "GetPayload" || c.Call.Value != ssa.Value(e.env) {
				return "", "asserted value is not GetPayload() of the verified Metadata parameter: " + org(ta.X)
			}
			return "payload", "GetPayload() of parameter " + e.env.Name() + " asserted to Layout (comma-ok)"
		}
		if c, ok := ex.Tuple.(*ssa.Call); ok && ex.Index == 0 && depth < 3 {
			g := c.Common().StaticCallee()
			if g != nil && g.Pkg == p.pkg("in_toto") {
				rs := resultTypes(g)
				if len(rs) == 2 && rs[0] == "in_toto.Layout" && rs[1] == "error" {
					for _, a := range c.Common().Args {
						if typeStr(a.Type()) == "in_toto.Layout" {
							k, d := p.layoutValue(e, a, c, depth+1)
							if k != "" {
								return "derived", fname(g) + "(" + d + ")"
							}
							return "", "argument of " + fname(g) + ": " + d
						}
					}
				}
			}
		}
	}
	if ta, ok := r.(*ssa.TypeAssert); ok && !ta.CommaOk {
		return "", "unchecked type assertion"
	}
	return "", "layout value obtained from " + org(v)
}

// trustingCalls lists the calls of an entry point that consume the layout, the keys, or reach link loading /
// command execution, i.e. the sinks that must be guarded.
func (p *Prog) trustingCalls(e entry) []ssa.CallInstruction {
	dangerous := map[*ssa.Function]bool{}
	for _, n := range []string{"(*os/exec.Cmd).Start", "(*os/exec.Cmd).Run", "in_toto.LoadMetadata"} {
		if f := p.lookupAny(n); f != nil {
			dangerous[f] = true
		}
	}
	var out []ssa.CallInstruction
	fromParams := func(v ssa.Value) bool {
		// values that reach the call only through the guard's own (error) result do not count
		if e.guard != nil {
			if gv := e.guard.Value(); gv != nil && derives(v, func(x ssa.Value) bool { return x == gv }, true) {
				viaOther := derivesAvoiding(v, func(x ssa.Value) bool { return x == ssa.Value(e.env) || x == ssa.Value(e.keys) }, gv)
				return viaOther
			}
		}
		return derives(v, func(x ssa.Value) bool { return x == ssa.Value(e.env) || x == ssa.Value(e.keys) }, true)
	}
	for _, c := range allCalls(e.f) {
		if c == e.guard {
			continue
		}
		if _, ok := c.(*ssa.Defer); ok {
			continue
		}
		sink := false
		for _, a := range callArgs(c) {
			if fromParams(a) {
				sink = true
			}
		}
		if !sink {
			if g := c.Common().StaticCallee(); g != nil {
				for r := range reachable(p.CG, g) {
					if dangerous[r] {
						sink = true
						break
					}
				}
			}
		}
		if sink {
			out = append(out, c)
		}
	}
	return out
}

// lookupAny finds a function by short name in any package (including the standard library).
func (p *Prog) lookupAny(short string) *ssa.Function {
	if f := p.lookup(short); f != nil {
		return f
	}
	for f := range p.AllFuncs {
		if fname(f) == short {
			return f
		}
	}
	return nil
}

func isLayoutType(t types.Type) bool {
	s := typeStr(t)
	return s == "in_toto.Layout" || s == "*in_toto.Layout"
}

func trimPkg(s string) string { return strings.TrimPrefix(s, "in_toto.") }

// ---------------------------------------------------------------------------
// stage lookup with one level of helper inlining (DESIGN §3 A2 summaries, bound 1):
// a stage call may sit directly in the entry point or in an in_toto helper that the entry point calls.

type stageCall struct {
	f    *ssa.Function       // the entry point (frame of reference)
	call ssa.CallInstruction // the stage call itself (in f or in g)
	via  ssa.CallInstruction // call in f of the helper g containing `call` (nil if direct)
	g    *ssa.Function       // helper (nil if direct)
}

// stages lists the calls of callee `name` made by f directly or through one in_toto helper.
func (p *Prog) stages(f *ssa.Function, name string) []*stageCall {
	var out []*stageCall
	for _, c := range callsIn(f, name) {
		out = append(out, &stageCall{f: f, call: c})
	}
	for _, via := range allCalls(f) {
		g := via.Common().StaticCallee()
		if g == nil || g == f || g.Blocks == nil || g.Pkg != p.pkg("in_toto") || fname(g) == name {
			continue
		}
		// only helpers that are not themselves stages of the pipeline (unexported functions)
		if g.Object() != nil && g.Object().Exported() {
			continue
		}
		for _, c := range callsIn(g, name) {
			out = append(out, &stageCall{f: f, call: c, via: via, g: g})
		}
	}
	return out
}

func (p *Prog) stage(f *ssa.Function, name string) *stageCall {
	if s := p.stages(f, name); len(s) > 0 {
		return s[0]
	}
	return nil
}

// site is the call in the entry point's frame.
func (s *stageCall) site() ssa.CallInstruction {
	if s.via != nil {
		return s.via
	}
	return s.call
}

// arg returns argument i of the stage call mapped into the entry point's frame when it is a helper parameter.
func (s *stageCall) arg(i int) (ssa.Value, ssa.Instruction) {
	a := s.call.Common().Args[i]
	if s.via != nil {
		if prm, ok := resolve(a, s.call).(*ssa.Parameter); ok && prm.Parent() == s.g {
			return s.via.Common().Args[paramIndex(prm)], s.via
		}
	}
	return a, s.call
}

// helperGuarantees: every success return of helper g is dominated by the nil-error edge of call.
func (p *Prog) helperGuarantees(g *ssa.Function, call ssa.CallInstruction) bool {
	rets := p.nilErrReturns(g)
	if len(rets) == 0 {
		return false
	}
	for _, r := range rets {
		if p.okCallAt(call, r.Block()) {
			continue
		}
		// `return stage(...)` directly
		ei := errIndex(g)
		if pc, _ := producer(r.Results[ei], r); pc == call {
			continue
		}
		return false
	}
	return true
}

// stageOKAt: the stage is known to have succeeded at block blk of the entry point.
func (p *Prog) stageOKAt(s *stageCall, blk *ssa.BasicBlock) bool {
	if s == nil {
		return false
	}
	if s.via == nil {
		return p.okCallAt(s.call, blk)
	}
	return p.okCallAt(s.via, blk) && p.helperGuarantees(s.g, s.call)
}

// stageAfter: stage s runs only where stage g has succeeded (both possibly in helpers).
func (p *Prog) stageAfter(s, guard *stageCall) bool {
	if s == nil || guard == nil {
		return false
	}
	if s.g != nil && s.g == guard.g {
		// same helper: local dominance
		return p.okCallAt(guard.call, s.call.Block())
	}
	return p.stageOKAt(guard, s.site().Block())
}

// deepProducer resolves v to (callee name, result index), looking through one in_toto helper whose every
// success return yields result j from the same inner call.
func (p *Prog) deepProducer(v ssa.Value, at ssa.Instruction) (string, int) {
	pc, idx := producer(v, at)
	if pc == nil {
		return "", -1
	}
	g := pc.Common().StaticCallee()
	if g != nil && g.Blocks != nil && g.Pkg == p.pkg("in_toto") && (g.Object() == nil || !g.Object().Exported()) {
		name, j := "", -1
		for _, r := range p.nilErrReturns(g) {
			if idx >= len(r.Results) {
				return calleeName(pc), idx
			}
			ipc, iidx := producer(r.Results[idx], r)
			if ipc == nil {
				return calleeName(pc), idx
			}
			n := calleeName(ipc)
			if name != "" && (n != name || iidx != j) {
				return calleeName(pc), idx
			}
			name, j = n, iidx
		}
		if name != "" {
			return name, j
		}
	}
	return calleeName(pc), idx
}

// stageArgFrom: argument argIdx of stage s is result resIdx of producer (both looked up through helpers).
func (p *Prog) stageArgFrom(s *stageCall, argIdx int, producerName string, resIdx int) (bool, string) {
	if s == nil {
		return false, "call missing"
	}
	if argIdx >= len(s.call.Common().Args) {
		return false, "argument missing"
	}
	v, at := s.arg(argIdx)
	n, i := p.deepProducer(v, at)
	if n == producerName && i == resIdx {
		return true, ""
	}
	return false, "argument is " + short(org(v))
}
