package main

import (
	"go/types"
	"strings"

	"golang.org/x/tools/go/ssa"
)

// entry describes one verification entry point, discovered by signature:
// a function of package in_toto with a Metadata parameter, a map[string]Key parameter and results (Metadata, error).
type entry struct {
	f       *ssa.Function
	env     *ssa.Parameter
	keys    *ssa.Parameter
	guard   ssa.CallInstruction // call of the layout-signature guard on (env, keys)
	guardFn *ssa.Function
}

func (p *Prog) entryPoints() []entry {
	var out []entry
	sp := p.pkg("in_toto")
	if sp == nil {
		return out
	}
	for _, f := range p.srcFuncs("in_toto") {
		if f.Parent() != nil || f.Signature.Recv() != nil {
			continue
		}
		rt := resultTypes(f)
		if len(rt) != 2 || rt[0] != "in_toto.Metadata" || rt[1] != "error" {
			continue
		}
		var env, keys *ssa.Parameter
		for _, prm := range f.Params {
			switch typeStr(prm.Type()) {
			case "in_toto.Metadata":
				env = prm
			case "map[string]in_toto.Key":
				keys = prm
			}
		}
		if env == nil || keys == nil {
			continue
		}
		e := entry{f: f, env: env, keys: keys}
		for _, c := range allCalls(f) {
			g := c.Common().StaticCallee()
			if g == nil || g.Pkg != sp {
				continue
			}
			ps := g.Signature.Params()
			if ps.Len() != 2 || typeStr(ps.At(0).Type()) != "in_toto.Metadata" || typeStr(ps.At(1).Type()) != "map[string]in_toto.Key" {
				continue
			}
			if rs := resultTypes(g); len(rs) != 1 || rs[0] != "error" {
				continue
			}
			if c.Common().Args[0] == ssa.Value(env) && c.Common().Args[1] == ssa.Value(keys) {
				e.guard, e.guardFn = c, g
				break
			}
		}
		out = append(out, e)
	}
	return out
}

// layoutValue classifies how a Layout-typed argument was obtained inside an entry point.
// kind: "payload" (comma-ok assertion of GetPayload() on env), "derived" (result 0 of a Layout->Layout
// function applied to a payload layout), "" otherwise.
func (p *Prog) layoutValue(e entry, v ssa.Value, at ssa.Instruction, depth int) (kind string, detail string) {
	r := resolve(v, at)
	if ex, ok := r.(*ssa.Extract); ok {
		if ta, ok := ex.Tuple.(*ssa.TypeAssert); ok && ex.Index == 0 && ta.CommaOk {
			if typeStr(ta.AssertedType) != "in_toto.Layout" {
				return "", "asserted type is " + typeStr(ta.AssertedType)
			}
			c, ok := resolve(ta.X, ta).(*ssa.Call)
			if !ok || !c.Call.IsInvoke() || c.Call.Method.Name() != "GetPayload" || c.Call.Value != ssa.Value(e.env) {
				return "", "asserted value is not GetPayload() of the verified Metadata parameter: " + org(ta.X)
			}
			return "payload", "GetPayload() of parameter " + e.env.Name() + " asserted to Layout (comma-ok)"
		}
		if c, ok := ex.Tuple.(*ssa.Call); ok && ex.Index == 0 && depth < 3 {
			g := c.Common().StaticCallee()
			if g != nil && g.Pkg == p.pkg("in_toto") {
				rs := resultTypes(g)
				if len(rs) == 2 && rs[0] == "in_toto.Layout" && rs[1] == "error" {
					for _, a := range c.Common().Args {
						if typeStr(a.Type()) == "in_toto.Layout" {
							k, d := p.layoutValue(e, a, c, depth+1)
							if k != "" {
								return "derived", fname(g) + "(" + d + ")"
							}
							return "", "argument of " + fname(g) + ": " + d
						}
					}
				}
			}
		}
	}
	if ta, ok := r.(*ssa.TypeAssert); ok && !ta.CommaOk {
		return "", "unchecked type assertion"
	}
	return "", "layout value obtained from " + org(v)
}

// trustingCalls lists the calls of an entry point that consume the layout, the keys, or reach link loading /
// command execution, i.e. the sinks that must be guarded.
func (p *Prog) trustingCalls(e entry) []ssa.CallInstruction {
	dangerous := map[*ssa.Function]bool{}
	for _, n := range []string{"(*os/exec.Cmd).Start", "(*os/exec.Cmd).Run", "in_toto.LoadMetadata"} {
		if f := p.lookupAny(n); f != nil {
			dangerous[f] = true
		}
	}
	var out []ssa.CallInstruction
	fromParams := func(v ssa.Value) bool {
		return derives(v, func(x ssa.Value) bool { return x == ssa.Value(e.env) || x == ssa.Value(e.keys) }, true)
	}
	for _, c := range allCalls(e.f) {
		if c == e.guard {
			continue
		}
		if _, ok := c.(*ssa.Defer); ok {
			continue
		}
		sink := false
		for _, a := range callArgs(c) {
			if fromParams(a) {
				sink = true
			}
		}
		if !sink {
			if g := c.Common().StaticCallee(); g != nil {
				for r := range reachable(p.CG, g) {
					if dangerous[r] {
						sink = true
						break
					}
				}
			}
		}
		if sink {
			out = append(out, c)
		}
	}
	return out
}

// lookupAny finds a function by short name in any package (including the standard library).
func (p *Prog) lookupAny(short string) *ssa.Function {
	if f := p.lookup(short); f != nil {
		return f
	}
	for f := range p.AllFuncs {
		if fname(f) == short {
			return f
		}
	}
	return nil
}

func isLayoutType(t types.Type) bool {
	s := typeStr(t)
	return s == "in_toto.Layout" || s == "*in_toto.Layout"
}

func trimPkg(s string) string { return strings.TrimPrefix(s, "in_toto.") }
