package main

import (
	"fmt"
	"go/token"
	"sort"

	"golang.org/x/tools/go/ssa"
)

// A2-all: exhaustive loops. A `for ... range x` loop that must process every element of x may be left only by
// exhaustion (the header's own exit) or into a failing continuation. Anything else (break, return nil, continue of
// an outer loop) is an early exit: the remaining elements are not processed.

type rangeLoop struct {
	f      *ssa.Function
	header *ssa.BasicBlock
	body   map[*ssa.BasicBlock]bool
	over   string // org of the ranged value
	pos    token.Pos
	isMap  bool
}

func rangeLoops(f *ssa.Function) []*rangeLoop {
	var out []*rangeLoop
	for _, ml := range mapLoops(f) {
		out = append(out, &rangeLoop{f: f, header: ml.header, body: ml.body, over: org(ml.rng.X), pos: ml.rng.Pos(), isMap: true})
	}
	for _, b := range f.Blocks {
		for _, in := range b.Instrs {
			ph, ok := in.(*ssa.Phi)
			if !ok || ph.Comment != "rangeindex" {
				continue
			}
			l := &rangeLoop{f: f, header: b, body: map[*ssa.BasicBlock]bool{b: true}, pos: ph.Pos()}
			// the ranged value: bound of the comparison `i+1 < len(x)`
			for _, r := range *ph.Referrers() {
				if inc, ok := r.(*ssa.BinOp); ok && inc.Op == token.ADD {
					for _, rr := range *inc.Referrers() {
						if cmp, ok := rr.(*ssa.BinOp); ok && cmp.Op == token.LSS {
							if l.pos == token.NoPos {
								l.pos = cmp.Pos()
							}
							if k, ok := cmp.Y.(*ssa.Call); ok && calleeName(k) == "builtin:len" {
								l.over = org(k.Call.Args[0])
								if l.pos == token.NoPos {
									l.pos = k.Pos()
								}
							} else {
								l.over = org(cmp.Y)
							}
						}
					}
				}
			}
			// loop entry = the true successor of the header; body = blocks dominated by it (covers always-break bodies)
			if len(b.Succs) == 2 && len(b.Succs[0].Preds) == 1 {
				entry := b.Succs[0]
				for _, x := range f.Blocks {
					if x == entry || entry.Dominates(x) {
						l.body[x] = true
					}
				}
			}
			for _, pb := range b.Preds {
				if !b.Dominates(pb) {
					continue
				}
				stack := []*ssa.BasicBlock{pb}
				for len(stack) > 0 {
					x := stack[len(stack)-1]
					stack = stack[:len(stack)-1]
					if l.body[x] {
						continue
					}
					l.body[x] = true
					stack = append(stack, x.Preds...)
				}
			}
			// blocks dominated by the entry but from which the header can no longer be reached are not part of the
			// loop: they are the exits (return / break targets). Keep only blocks that reach the header.
			for x := range l.body {
				if x != b && !reaches(x, b) {
					delete(l.body, x)
				}
			}
			if l.pos == token.NoPos && len(b.Succs) > 0 {
				for _, in2 := range b.Succs[0].Instrs {
					if in2.Pos() != token.NoPos {
						l.pos = in2.Pos()
						break
					}
				}
			}
			out = append(out, l)
		}
	}
	sort.Slice(out, func(i, j int) bool { return out[i].pos < out[j].pos })
	return out
}

type loopExit struct {
	from, to *ssa.BasicBlock
}

// earlyExits lists the edges that leave the loop from somewhere other than the header's exhaustion test and do not
// lead into a failing continuation.
func (c *Ctx) earlyExits(l *rangeLoop) []loopExit {
	var out []loopExit
	for b := range l.body {
		for _, s := range b.Succs {
			if l.body[s] {
				continue
			}
			if b == l.header {
				continue // exhaustion
			}
			if c.failing(s) {
				continue
			}
			out = append(out, loopExit{b, s})
		}
	}
	sort.Slice(out, func(i, j int) bool { return out[i].from.Index < out[j].from.Index })
	return out
}

// exhaustiveLoopsRule: every range loop of the named functions is exhaustive, except the loops listed in allow
// (function -> ranged value org -> reason).
func exhaustiveLoopsRule(id string, min int, allow map[string]map[string]string, funcs ...string) Rule {
	return Rule{ID: id, Doc: "loops that must process every element are left only by exhaustion or failure", Min: min, Run: func(c *Ctx) {
		for _, n := range funcs {
			f := c.lookup(n)
			if f == nil {
				c.undecided(id, n, "anchor", 0, "function not found")
				continue
			}
			for _, l := range rangeLoops(f) {
				what := "range over " + short(l.over)
				if reason, ok := allow[n][l.over]; ok {
					c.ok(id, n, what, l.pos, "reviewed early exit: "+reason)
					continue
				}
				ex := c.earlyExits(l)
				if len(ex) == 0 {
					c.ok(id, n, what, l.pos, "left only by exhaustion or into a failing continuation")
					continue
				}
				pos := l.pos
				if last := ex[0].from.Instrs[len(ex[0].from.Instrs)-1]; last.Pos() != token.NoPos {
					pos = last.Pos()
				}
				c.bad(id, n, what, pos, fmt.Sprintf("the loop can be left early without failing (%d exit(s), first from block %d to block %d): the remaining elements of %s are not processed", len(ex), ex[0].from.Index, ex[0].to.Index, short(l.over)))
			}
		}
	}}
}
