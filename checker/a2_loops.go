package main

import (
	"fmt"
	"go/constant"
	"go/token"
	"go/types"
	"sort"
	"strings"

	"golang.org/x/tools/go/ssa"
)

// A2-all: exhaustive loops. A `for ... range x` loop that must process every element of x may be left only by
// exhaustion (the header's own exit) or into a failing continuation. Anything else (break, return nil, continue of
// an outer loop) is an early exit: the remaining elements are not processed.

type rangeLoop struct {
	f        *ssa.Function
	header   *ssa.BasicBlock
	body     map[*ssa.BasicBlock]bool
	region   map[*ssa.BasicBlock]bool // degenerate loop (every iteration leaves): the blocks dominated by the body entry
	over     string                   // org of the ranged value
	overType string
	pos      token.Pos
	isMap    bool
}

func rangeLoops(f *ssa.Function) []*rangeLoop {
	var out []*rangeLoop
	for _, ml := range mapLoops(f) {
		body := map[*ssa.BasicBlock]bool{}
		for x := range ml.body {
			if x == ml.header || reaches(x, ml.header) {
				body[x] = true
			}
		}
		rl := &rangeLoop{f: f, header: ml.header, body: body, over: org(ml.rng.X), overType: typeStr(ml.rng.X.Type()), pos: ml.rng.Pos(), isMap: true}
		if len(body) == 1 {
			rl.region = degenerateRegion(ml.header)
		}
		out = append(out, rl)
	}
	for _, b := range f.Blocks {
		for _, in := range b.Instrs {
			ph, ok := in.(*ssa.Phi)
			if !ok || ph.Comment != "rangeindex" {
				continue
			}
			l := &rangeLoop{f: f, header: b, body: map[*ssa.BasicBlock]bool{b: true}, pos: ph.Pos()}
			// the ranged value: bound of the comparison `i+1 < len(x)`
			for _, r := range *ph.Referrers() {
				if inc, ok := r.(*ssa.BinOp); ok && inc.Op == token.ADD {
					for _, rr := range *inc.Referrers() {
						if cmp, ok := rr.(*ssa.BinOp); ok && cmp.Op == token.LSS {
							if l.pos == token.NoPos {
								l.pos = cmp.Pos()
							}
							if k, ok := cmp.Y.(*ssa.Call); ok && calleeName(k) == "builtin:len" {
								l.over = org(k.Call.Args[0])
								l.overType = typeStr(k.Call.Args[0].Type())
								if l.pos == token.NoPos {
									l.pos = k.Pos()
								}
							} else {
								l.over = org(cmp.Y)
							}
						}
					}
				}
			}
			// loop entry = the true successor of the header; body = blocks dominated by it (covers always-break bodies)
			if len(b.Succs) == 2 && len(b.Succs[0].Preds) == 1 {
				entry := b.Succs[0]
				for _, x := range f.Blocks {
					if x == entry || entry.Dominates(x) {
						l.body[x] = true
					}
				}
			}
			for _, pb := range b.Preds {
				if !b.Dominates(pb) {
					continue
				}
				stack := []*ssa.BasicBlock{pb}
				for len(stack) > 0 {
					x := stack[len(stack)-1]
					stack = stack[:len(stack)-1]
					if l.body[x] {
						continue
					}
					l.body[x] = true
					stack = append(stack, x.Preds...)
				}
			}
			// blocks dominated by the entry but from which the header can no longer be reached are not part of the
			// loop: they are the exits (return / break targets). Keep only blocks that reach the header.
			for x := range l.body {
				if x != b && !reaches(x, b) {
					delete(l.body, x)
				}
			}
			if len(l.body) == 1 {
				l.region = degenerateRegion(b)
			}
			if l.pos == token.NoPos && len(b.Succs) > 0 {
				for _, in2 := range b.Succs[0].Instrs {
					if in2.Pos() != token.NoPos {
						l.pos = in2.Pos()
						break
					}
				}
			}
			out = append(out, l)
		}
	}
	sort.Slice(out, func(i, j int) bool { return out[i].pos < out[j].pos })
	return out
}

type loopExit struct {
	from, to *ssa.BasicBlock
}

// earlyExits lists the edges that leave the loop from somewhere other than the header's exhaustion test and do not
// lead into a failing continuation.
func (c *Ctx) earlyExits(l *rangeLoop) []loopExit {
	var out []loopExit
	// a loop whose body never comes back to the header (it always breaks or returns) has no natural-loop body: its
	// exits are the edges that leave the region dominated by the body entry
	for b := range l.region {
		for _, s := range b.Succs {
			if l.region[s] || c.failing(s) {
				continue
			}
			out = append(out, loopExit{b, s})
		}
	}
	for b := range l.body {
		for _, s := range b.Succs {
			if l.body[s] {
				continue
			}
			if b == l.header {
				continue // exhaustion
			}
			if c.failing(s) {
				continue
			}
			out = append(out, loopExit{b, s})
		}
	}
	sort.Slice(out, func(i, j int) bool { return out[i].from.Index < out[j].from.Index })
	return out
}

// reviewed search loops (function -> type of the ranged value -> reason): the early exit is the point of the loop.
var a2SearchLoops = map[string]map[string]string{
	"(*in_toto.Envelope).GetSignatureForKeyID":  {"[]in_toto.Signature": "search: returns the first signature with the requested key id", "[]ssl/dsse.Signature": "search: returns the first signature with the requested key id"},
	"(*in_toto.Metablock).GetSignatureForKeyID": {"[]in_toto.Signature": "search: returns the first signature with the requested key id"},
	"(in_toto.Step).CheckCertConstraints":       {"[]in_toto.CertificateConstraint": "existential test: succeeds at the first constraint that matches (R-C07-5 decides the exits)"},
	"in_toto.LoadLinksForLayout":                {"[]in_toto.Signature": "search: the first signature whose key id has the file name's short id as prefix names the link"},
	"in_toto.VerifyLinkSignatureThesholds":      {"[]string": "search: is the signer key id among the step's pubkeys (R-C02-1 decides what is stored)"},
	"in_toto.VerifyStepCommandAlignment":        {"[]in_toto.Step": "warn-only stage, returns nothing", "map[string]in_toto.Metadata": "warn-only stage, returns nothing"},
	"in_toto.matchKeyTypeScheme":                {"[]string": "search: is the scheme among the supported schemes of the key type"},
	"in_toto.recordArtifacts$1":                 {"[]string": "first matching left-strip prefix only (R-C13-3 decides the shape)"},
}

// exhaustiveLoopsRule (A2): every range loop of the functions reachable from the roots (within the analysed packages)
// is left only by exhaustion or into a failing continuation, except the reviewed search loops.
func exhaustiveLoopsRule(min int, roots ...string) Rule {
	const id = "A2"
	return Rule{ID: id, Doc: "loops that must process every element are left only by exhaustion or failure (roots: " + strings.Join(roots, ", ") + ")", Min: min, Run: func(c *Ctx) {
		var rf []*ssa.Function
		for _, n := range roots {
			f := c.lookup(n)
			if f == nil {
				c.undecided(id, n, "anchor", 0, "function not found")
				continue
			}
			rf = append(rf, f)
		}
		var fns []*ssa.Function
		for f := range reachable(c.CG, rf...) {
			if f.Blocks == nil || f.Pkg == nil {
				continue
			}
			switch shortName(f.Pkg.Pkg.Path()) {
			case "in_toto", "internal/spiffe", "cmd":
				fns = append(fns, f)
			}
		}
		sort.Slice(fns, func(i, j int) bool { return fname(fns[i]) < fname(fns[j]) })
		for _, f := range fns {
			n := fname(f)
			seen := map[string]int{}
			for _, l := range rangeLoops(f) {
				seen[l.overType]++
				what := fmt.Sprintf("range over %s #%d", l.overType, seen[l.overType])
				ex := c.earlyExits(l)
				if len(ex) == 0 {
					c.ok(id, n, what, l.pos, "left only by exhaustion or into a failing continuation ("+short(l.over)+")")
					continue
				}
				if reason, ok := a2SearchLoops[n][l.overType]; ok {
					c.ok(id, n, what, l.pos, "reviewed early exit: "+reason)
					continue
				}
				// the same search in an unexported helper that serves only reviewed search functions over that type
				{
					var served []string
					for name, byType := range a2SearchLoops {
						if _, ok := byType[l.overType]; ok {
							served = append(served, name)
						}
					}
					sort.Strings(served)
					if len(served) > 0 && f.Object() != nil && !f.Object().Exported() && f.Parent() == nil && c.isOrServesOnly(f, served...) {
						c.ok(id, n, what, l.pos, "reviewed early exit, in a helper that serves only "+strings.Join(served, ", "))
						continue
					}
				}
				// predicates and searches: a function that returns values but no error cannot "fail"; leaving the loop
				// with the answer is what it is for (contains, first match, all-of / any-of tests)
				if rs := resultTypes(f); len(rs) > 0 && errIndex(f) < 0 {
					if e := sameAnswerExit(l, ex); e != nil {
						pos := l.pos
						if last := e.from.Instrs[len(e.from.Instrs)-1]; last.Pos() != token.NoPos {
							pos = last.Pos()
						}
						c.bad(id, n, what, pos, fmt.Sprintf("the loop over %s is left early and the function then returns exactly what it returns after the last element: the early exit carries no answer of its own, the remaining elements are simply not examined", short(l.over)))
						continue
					}
					c.trivial(id, n, what, l.pos, "predicate / search function (results "+strings.Join(rs, ", ")+"): the early exit carries its answer")
					continue
				}
				pos := l.pos
				if last := ex[0].from.Instrs[len(ex[0].from.Instrs)-1]; last.Pos() != token.NoPos {
					pos = last.Pos()
				}
				c.bad(id, n, what, pos, fmt.Sprintf("the loop over %s can be left early without failing (%d exit edge(s)): the remaining elements are not processed (no rule, artifact, link, key or step may be skipped silently)", short(l.over), len(ex)))
			}
		}
	}}
}

// sameAnswerExit: in a function without error result an early exit is the point of a search or of an all-of / any-of
// test only if it carries an answer: the values returned along it differ from those returned after exhaustion. An
// early exit that runs, by plain jumps, into the same return statement as the header's exhaustion exit with the same
// result values (no phi on the way tells the two apart) stops the loop without saying anything.
func sameAnswerExit(l *rangeLoop, ex []loopExit) *loopExit {
	var t0 *ssa.BasicBlock
	for _, s := range l.header.Succs {
		if !l.body[s] {
			t0 = s
		}
	}
	if t0 == nil {
		return nil
	}
	follow := followJumps
	along := phiAlong
	same := func(a, b ssa.Value) bool {
		if a == b {
			return true
		}
		ka, ok1 := a.(*ssa.Const)
		kb, ok2 := b.(*ssa.Const)
		if ok1 && ok2 && types.Identical(ka.Type(), kb.Type()) {
			if ka.Value == nil || kb.Value == nil {
				return ka.Value == nil && kb.Value == nil
			}
			return constant.Compare(ka.Value, token.EQL, kb.Value)
		}
		return false
	}
	r0, p0 := follow(l.header, t0)
	if r0 == nil {
		return nil
	}
	for i := range ex {
		r, p := follow(ex[i].from, ex[i].to)
		if r == nil || r != r0 {
			continue
		}
		all := len(r.Results) > 0
		for _, v := range r.Results {
			if !same(along(v, p), along(v, p0)) {
				all = false
			}
		}
		if all {
			return &ex[i]
		}
	}
	return nil
}

// degenerateRegion: the blocks dominated by the body entry (the true successor of the header's test) of a loop.
func degenerateRegion(header *ssa.BasicBlock) map[*ssa.BasicBlock]bool {
	if len(header.Succs) != 2 || len(header.Succs[0].Preds) != 1 {
		return nil
	}
	entry := header.Succs[0]
	out := map[*ssa.BasicBlock]bool{}
	for _, x := range header.Parent().Blocks {
		if x == entry || entry.Dominates(x) {
			out[x] = true
		}
	}
	return out
}

// followJumps walks from the edge from->to along plain jumps to a return; it yields the return and the edges walked.
func followJumps(from, to *ssa.BasicBlock) (*ssa.Return, [][2]*ssa.BasicBlock) {
	var path [][2]*ssa.BasicBlock
	for i := 0; i < 32; i++ {
		path = append(path, [2]*ssa.BasicBlock{from, to})
		last := to.Instrs[len(to.Instrs)-1]
		switch t := last.(type) {
		case *ssa.Return:
			return t, path
		case *ssa.Jump:
			from, to = to, to.Succs[0]
		default:
			return nil, nil
		}
	}
	return nil, nil
}

// phiAlong: the value v has on the given path (phis of blocks on the path are replaced by their incoming value).
func phiAlong(v ssa.Value, path [][2]*ssa.BasicBlock) ssa.Value {
	for i := 0; i < 8; i++ {
		ph, ok := v.(*ssa.Phi)
		if !ok {
			return v
		}
		found := false
		for _, e := range path {
			if e[1] != ph.Block() {
				continue
			}
			for j, p := range ph.Block().Preds {
				if p == e[0] {
					v = ph.Edges[j]
					found = true
				}
			}
		}
		if !found {
			return v
		}
	}
	return v
}
