#!/bin/sh
# savemut.sh <property> <rule__name>: save /repo's uncommitted diff as a checker mutant and restore /repo.
set -e
mkdir -p /verif/mutants/$1
export GOFLAGS=-mod=mod GOPROXY=off GOSUMDB=off GOTOOLCHAIN=local
(cd /repo && go build ./... 2>&1 | grep -v WARNING) || true
git -C /repo diff > /verif/mutants/$1/$2.patch
git -C /repo checkout -- .
test -s /verif/mutants/$1/$2.patch && echo "saved $1/$2 ($(grep -c '^[-+][^-+]' /verif/mutants/$1/$2.patch) changed lines)"
