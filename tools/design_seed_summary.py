#!/usr/bin/env python3
"""design_seed_summary.py: regenerate the summary table of DESIGN.md section 10 (seed, round, own-property rules, needs)
from /verif/seeded/*/meta.json. Rounds of the early seeds (no -rN- in the name) are taken from the existing table."""
import json, glob, os, re
D = "/verif/DESIGN.md"
s = open(D).read()
head = "| seeded change | round | own-property rules that report it | needs |\n|---|---|---|---|\n"
a = s.index(head) + len(head)
b = s.index("\n\n", a)
rounds = {}
for line in s[a:b].splitlines():
    m = re.match(r"\| `([^`]+)` \| (\d+) \|", line)
    if m:
        rounds[m.group(1)] = int(m.group(2))
rows = []
for d in sorted(glob.glob("/verif/seeded/*")):
    if not os.path.isdir(d):
        continue
    name = os.path.basename(d)
    m = json.load(open(d + "/meta.json"))
    own = m["property"]
    rm = re.search(r"-r(\d+)-", name)
    rnd = int(rm.group(1)) if rm else rounds.get(name[4:] if False else name, rounds.get(name))
    rules = [r for r in m.get("evaluation", {}).get("checks_that_report_it", {}).get(own, []) if re.match(r"^(R-C\d+-\d+|A\d)$", r)]
    needs = " ".join(str(m.get("needs", "")).split()).replace("|", "/")
    if len(needs) > 150:
        needs = needs[:149] + "…"
    rows.append("| `%s` | %s | %s | %s |" % (name, rnd, ", ".join(rules) or "**none**", needs))
s = s[:a] + "\n".join(rows) + s[b:]
open(D, "w").write(s)
print(len(rows), "rows;", sum(1 for r in rows if "**none**" in r), "without own-property rule")
