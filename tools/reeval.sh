# reeval.sh <seed-dir-name>: re-run eval_seed.py on /verif/seeded/<name> and refresh the evaluation in its meta.json
d=$1
python3 /verif/tools/eval_seed.py /verif/seeded/$d > /dev/null 2>&1
python3 - /verif/seeded/$d <<'PY'
import json,sys,os
d=sys.argv[1]
r=json.load(open(d+'/result.json')); m=json.load(open(d+'/meta.json'))
m.setdefault('evaluation',{})
m['evaluation'].update({'builds':r.get('builds'),'suite_passes':r.get('suite_passes'),'demo_with_patch':r.get('demo_with_patch'),'demo_without_patch':r.get('demo_without_patch'),'checks_that_report_it':{k:v['rules'] for k,v in r.get('checks_fired',{}).items()}})
json.dump(m,open(d+'/meta.json','w'),indent=1)
print(os.path.basename(d), r.get('confirmed'), {k:v['rules'] for k,v in r.get('checks_fired',{}).items()})
PY
