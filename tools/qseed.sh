#!/bin/sh
# qseed.sh <patch-file-or-seed-dir-glob> <props comma separated> [binary]: apply a patch to a scratch copy of /repo and
# run the checks (no evidence); prints the non-discharged obligations. Scratch copy under /tmp is removed.
p=$1; props=$2; bin=${3:-/tmp/ic-dev}
[ -d "$p" ] && p=$p/patch.diff
p=$(readlink -f "$p")
export GOFLAGS=-mod=mod GOPROXY=off GOSUMDB=off GOTOOLCHAIN=local; unset GOWORK
d=$(mktemp -d /tmp/qseed.XXXXXX)
rsync -a --exclude .git --exclude _seed /repo/ $d/
( cd $d && patch -p1 -s -i "$p" < /dev/null ) || { echo "patch failed"; rm -rf $d; exit 2; }
for pr in $(echo $props | tr , ' '); do
  echo "--- $pr"
  $bin -property $pr -tier quick -repo $d -no-evidence -v 2>&1 | grep -E "VIOLATED|UNDECIDED|VACUITY|violated|undecided|tier=" | cut -c1-420 | head -${QN:-12}
done
rm -rf $d
