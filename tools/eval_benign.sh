#!/bin/sh
# eval_benign.sh <worktree-with-_seed> [bin]: a behaviour-preserving refactoring delivered by a sub-agent under <wt>/_seed/patch.diff.
# Applies it to a scratch copy of /repo, checks gofmt / build / the pinned suite, then runs ALL twenty quick checks against it and
# prints every report (a report is a candidate false alarm: triage by hand). Writes <wt>/_seed/result.txt.
wt=$(readlink -f "$1"); bin=${2:-/verif/bin/intotocheck}
export GOFLAGS=-mod=mod GOPROXY=off GOSUMDB=off GOTOOLCHAIN=local; unset GOWORK
s=$(mktemp -d /tmp/evb.XXXXXX)
rsync -a --exclude .git /repo/ $s/ >/dev/null
out=$wt/_seed/result.txt
: > $out
if ! (cd $s && patch -p1 -s -i $wt/_seed/patch.diff > /dev/null 2>&1 < /dev/null); then echo "PATCH DOES NOT APPLY" >> $out; rm -rf $s; cat $out; exit 0; fi
(cd $s && go build ./... 2>&1 | grep -v WARNING | head -3) >> $out
echo "suite: $(python3 /verif/tools/baseline.py $s | head -1)" >> $out
for i in 01 02 03 04 05 06 07 08 09 10 11 12 13 14 15 16 17 18 19 20; do
  $bin -property C$i -tier quick -no-evidence -repo $s 2>&1 | grep -v WARNING | grep -E "^\s+R-|^\s+A[0-9]|VACUITY|tier=" | grep -v " 0 violations, 0 known findings, 0 vacuity" | cut -c1-330 | sed "s/^/C$i: /" >> $out
done
rm -rf $s
echo "== $(basename $wt)"; cat $out
