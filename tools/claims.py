claim("C01", "SSA dominance facts (must-pass-through) + error-flow analysis + field-ownership",
      "Decides: every layout-trusting call and every success return of both entry points is dominated by a successful "
      "VerifyLayoutSignatures(env, keys) on the unmodified parameters; the guard's shape (non-empty key set, all keys, errors fail); "
      "the enforced Layout derives from GetPayload() of the verified object; signature is bound to the enforced bytes per wrapper; "
      "strict decoding; no dropped errors. Does not decide cryptographic soundness.", "4.1")
for i in range(2, 21):
    na("C%02d" % i, "check under construction in this commit; see DESIGN.md section 4 for the planned structural clauses")
